#!/usr/bin/env python3
"""usage: roundmeta.py stood|final <suffix> [note]
stood: run every seed <P><suffix> through seedcheck with the binary named by YFCHECK (the rules as they stood) and store
       the result in /tmp/round-<suffix>-stood.json.
final: run them through the current binary and write seeded/<name>/meta.json (detected_by, also_detected_under, first_shot)."""
import json, os, re, subprocess, sys
from concurrent.futures import ThreadPoolExecutor
V='/verif'
mode, suf = sys.argv[1], sys.argv[2]
note = sys.argv[3] if len(sys.argv) > 3 else f'round {suf}'
props=[json.loads(l)['id'] for l in open(f'{V}/properties.jsonl')]
def run(name):
    out=subprocess.run(['python3',f'{V}/tools/seedcheck.py',name],capture_output=True,text=True).stdout
    res={}; cur=None
    for l in out.splitlines():
        m=re.match(r'== (C\d\d): ',l)
        if m: cur=m.group(1); res[cur]=[]; continue
        m=re.match(r'\s+FINDING (C\d\d\.R[0-9a-z]+)\|',l)
        if m and cur and m.group(1) not in res[cur]: res[cur].append(m.group(1))
    return name,res
names=[p+suf for p in props if os.path.exists(f'{V}/seeded/{p}{suf}/patch.diff')]
with ThreadPoolExecutor(3) as ex: results=dict(ex.map(run,names))
stood_path=f'/tmp/round-{suf}-stood.json'
if mode=='stood':
    json.dump(results,open(stood_path,'w'),indent=1)
    own=sum(1 for n,r in results.items() if n[:3] in r); anyp=sum(1 for r in results.values() if r)
    print(f'as they stood: own-property {own}/{len(names)}, any {anyp}/{len(names)}')
    for n,r in results.items(): print(n, r)
    sys.exit(0)
stood=json.load(open(stood_path))
for n,r in results.items():
    p=n[:3]; d=f'{V}/seeded/{n}'
    v=json.load(open(f'{d}/verify.json'))
    notes=open(f'{d}/notes.md').read()
    m=re.search(r'(?is)(?:needed to manifest|what it needs to manifest|needs to manifest|to manifest)[^\n:]*:?\s*(.+?)(?:\n\s*\n|\Z)',notes)
    needs=re.sub(r'\s+',' ',m.group(1)).strip()[:600] if m else 'see notes.md'
    fs = True if p in stood.get(n,{}) else ('other-property' if stood.get(n) else False)
    meta={"name":n,"property":p,"breaks":f"{p} (see notes.md for the clause)","needs_to_manifest":needs,
      "what_i_ran":v.get("ran",[]),"confirmed":v.get("confirmed"),"repo_head_at_confirmation":v.get("repo_head"),
      "demo_file":v.get("demo_file"),"demo_tests":v.get("demo_tests"),
      "detected_by":r.get(p,[]),"also_detected_under":[{"property":q,"detected_by":rs} for q,rs in r.items() if q!=p],
      "first_shot":fs,"first_shot_rules":stood.get(n,{}),"round_note":note}
    json.dump(meta,open(f'{d}/meta.json','w'),indent=1)
    print(n,'first_shot=',fs,'detected_by=',meta['detected_by'],'also=',[a['property'] for a in meta['also_detected_under']])
