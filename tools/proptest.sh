#!/bin/bash
# usage: proptest.sh <prop>  -- with YFCHECK (default bin/yfcheck): every mutant and seed of <prop> must give a new finding,
# every benign variant of <prop> must give none. Overlay-based; never touches /repo.
prop=$1; export YFCHECK=${YFCHECK:-/verif/bin/yfcheck}
for m in /verif/mutants/$prop/*.diff; do
  n=$(python3 /verif/tools/seedcheck.py $m $prop | grep -c FINDING); [ "$n" = 0 ] && echo "MUTANT SURVIVES: $m"
done
for s in /verif/seeded/$prop*/; do
  n=$(python3 /verif/tools/seedcheck.py $s/patch.diff $prop | grep -c FINDING)
  det=$(python3 -c "import json;print(len(json.load(open('$s/meta.json')).get('detected_by',[])))" 2>/dev/null)
  [ "$n" = 0 ] && [ "$det" != 0 ] && echo "SEED LOST: $s"
done
for b in /verif/benign/$prop/*.diff; do
  out=$(python3 /verif/tools/seedcheck.py $b $prop | grep FINDING); [ -n "$out" ] && echo "BENIGN ALARMS: $b" && echo "$out" | head -5
done
echo "proptest $prop done"
