#!/usr/bin/env python3
"""usage: seedcheck.py <patch file or seeded name> [props...]  -- applies a patch through the overlay (never touches /repo)
and prints the new findings of every property (default: all 19)."""
import json, os, re, subprocess, sys, tempfile, shutil
from concurrent.futures import ThreadPoolExecutor
V, R = '/verif', '/repo'
allprops = [json.loads(l)['id'] for l in open(f'{V}/properties.jsonl')]
env = dict(os.environ, GOFLAGS='-mod=mod', GOPROXY='off', GOSUMDB='off', GOTOOLCHAIN='local', GOWORK='off')
BIN = os.environ.get('YFCHECK', f'{V}/bin/yfcheck')
def findings(prop, overlay=None):
    cmd = [BIN, '-prop', prop, '-findings'] + (['-overlay', overlay] if overlay else [])
    out = subprocess.run(cmd, capture_output=True, text=True, env=env).stdout
    return set(l for l in out.splitlines() if l.startswith('FINDING '))
patch = sys.argv[1]
if not os.path.exists(patch):
    patch = f'{V}/seeded/{patch}/patch.diff'
props = sys.argv[2:] or allprops
tmp = tempfile.mkdtemp(prefix='yfs')
try:
    t = os.path.join(tmp, 't'); os.makedirs(t)
    files = [m.group(1).strip() for l in open(patch) for m in [re.match(r'\+\+\+ b/(.*)', l)] if m]
    for f in files:
        src = os.path.join(R, f)
        if os.path.exists(src):
            os.makedirs(os.path.dirname(os.path.join(t, f)), exist_ok=True); shutil.copy(src, os.path.join(t, f))
    r = subprocess.run(['git', 'apply', '--whitespace=nowarn', os.path.abspath(patch)], cwd=t, capture_output=True, text=True,
                       env=dict(env, GIT_DIR='/nonexistent', GIT_CEILING_DIRECTORIES='/'))
    if r.returncode:
        print('patch does not apply:', r.stderr); sys.exit(3)
    ov = {f: os.path.join(t, f) for f in files if f.endswith('.go') and os.path.exists(os.path.join(t, f))}
    ovp = os.path.join(tmp, 'overlay.json'); json.dump(ov, open(ovp, 'w'))
    def one(p):
        return p, sorted(findings(p, ovp) - findings(p))
    with ThreadPoolExecutor(6) as ex:
        for p, new in ex.map(one, props):
            if new:
                print(f'== {p}: {len(new)} new')
                for l in new[:12]:
                    print('   ', l[:300])
    print('done')
finally:
    shutil.rmtree(tmp, ignore_errors=True)
