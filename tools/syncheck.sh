#!/bin/bash
# usage: syncheck.sh <mode> [props...]  -- applies one family of behaviour-preserving syntactic rewrites (bin/synrewrite) to the
# whole repository through the overlay and lists, per property, the findings that differ from the unchanged tree.
export GOFLAGS=-mod=mod GOPROXY=off GOSUMDB=off GOTOOLCHAIN=local GOWORK=off
mode=$1; shift
props=${@:-C01 C02 C03 C04 C05 C06 C07 C08 C09 C10 C11 C12 C13 C14 C15 C16 C17 C18 C19}
Y=${YFCHECK:-/verif/bin/yfcheck}
d=$(mktemp -d /tmp/syn.XXXXXX)
/verif/bin/synrewrite -mode $mode -out $d || exit 2
rc=0
for p in $props; do
  $Y -prop $p -findings -noselftest > $d/base.$p 2>&1
  $Y -prop $p -findings -noselftest -overlay $d/overlay.json > $d/mut.$p 2>&1
  if grep -q "LOAD FAILURE" $d/mut.$p; then echo "== $p: rewritten program does not load:"; grep -A3 "LOAD FAILURE" $d/mut.$p | head -5; rc=2; continue; fi
  new=$(grep '^FINDING' $d/mut.$p | grep -F -x -v -f <(grep '^FINDING' $d/base.$p; echo XXXX) )
  lost=$(grep '^FINDING' $d/base.$p | grep -F -x -v -f <(grep '^FINDING' $d/mut.$p; echo XXXX) )
  if [ -n "$new$lost" ]; then rc=1; echo "== $p: verdict depends on spelling ($mode)"; echo "$new" | sed 's/^/  new:  /' | grep FINDING; echo "$lost" | sed 's/^/  lost: /' | grep FINDING; else echo "== $p: invariant"; fi
done
rm -rf $d
exit $rc
