#!/bin/bash
# usage: mkbenign.sh <prop>[,<prop>...] <name> <description...>
# Saves the uncommitted working-tree change of /repo as a behaviour-preserving variant (the property still holds), runs the
# repo's tests for the touched packages, shows what the checks say about it, and reverts /repo.
set -u
export GOFLAGS=-mod=mod GOPROXY=off GOSUMDB=off GOTOOLCHAIN=local GOWORK=off
props=$1; name=$2; shift 2; desc="$*"
if git -C /repo diff --quiet; then echo "no change in /repo"; exit 2; fi
(cd /repo && go build ./... ) || { echo "VARIANT DOES NOT COMPILE"; git -C /repo checkout -- .; exit 3; }
pkgs=$(git -C /repo diff --name-only | xargs -n1 dirname | sort -u | sed 's#^#./#')
(cd /repo && go test -vet=off -count=1 $pkgs >/tmp/benign.$$.log 2>&1) || { echo "TESTS FAIL WITH VARIANT"; tail -20 /tmp/benign.$$.log; git -C /repo checkout -- .; exit 4; }
for prop in ${props//,/ }; do
  mkdir -p /verif/benign/$prop
  ( echo "# desc: $desc"; git -C /repo diff ) > /verif/benign/$prop/$name.diff
  /verif/bin/yfcheck -prop $prop -findings > /tmp/ben.$$.$prop.mut
done
git -C /repo checkout -- .
for prop in ${props//,/ }; do
  /verif/bin/yfcheck -prop $prop -findings > /tmp/ben.$$.$prop.base
  echo "== $prop: new findings with the behaviour-preserving variant (should be none):"; grep -F -x -v -f /tmp/ben.$$.$prop.base /tmp/ben.$$.$prop.mut | head -20
  rm -f /tmp/ben.$$.$prop.*
done
rm -f /tmp/benign.$$.log
