#!/bin/bash
# usage: tryseed.sh <seeded-dir-name> <prop> [more props]  -- applies the seeded patch to /repo, lists new findings per property, reverts
name=$1; shift
git -C /repo diff --quiet || { echo "/repo has uncommitted changes"; exit 2; }
git -C /repo apply /verif/seeded/$name/patch.diff || { echo "patch does not apply"; exit 3; }
for prop in "$@"; do /verif/bin/yfcheck -prop $prop -findings > /tmp/ts.$$.$prop.mut; done
git -C /repo checkout -- . ; git -C /repo clean -fdq -- . 2>/dev/null
for prop in "$@"; do /verif/bin/yfcheck -prop $prop -findings > /tmp/ts.$$.$prop.base; echo "== $name under $prop: new findings:"; grep -F -x -v -f /tmp/ts.$$.$prop.base /tmp/ts.$$.$prop.mut | head; rm -f /tmp/ts.$$.$prop.*; done
