#!/bin/bash
# usage: alphacheck.sh [suffix|opaque] [props...]  -- alpha-renames every local/parameter/result/receiver of /repo (bin/alpharename),
# runs the checks on the renamed program through the overlay and lists findings that differ from the unchanged tree.
# Alpha-renaming preserves behaviour by construction: any difference is a rule that depends on how a name is spelled.
export GOFLAGS=-mod=mod GOPROXY=off GOSUMDB=off GOTOOLCHAIN=local GOWORK=off
mode=${1:-suffix}; shift
props=${@:-C01 C02 C03 C04 C05 C06 C07 C08 C09 C10 C11 C12 C13 C14 C15 C16 C17 C18 C19}
Y=${YFCHECK:-/verif/bin/yfcheck}
d=$(mktemp -d /tmp/alpha.XXXXXX)
/verif/bin/alpharename -mode $mode -out $d || exit 2
rc=0
for p in $props; do
  $Y -prop $p -findings -noselftest > $d/base.$p 2>&1
  $Y -prop $p -findings -noselftest -overlay $d/overlay.json > $d/mut.$p 2>&1
  new=$(grep '^FINDING' $d/mut.$p | grep -F -x -v -f <(grep '^FINDING' $d/base.$p; echo XXXX) )
  lost=$(grep '^FINDING' $d/base.$p | grep -F -x -v -f <(grep '^FINDING' $d/mut.$p; echo XXXX) )
  if [ -n "$new$lost" ]; then rc=1; echo "== $p: verdict depends on names"; echo "$new" | sed 's/^/  new:  /' | grep FINDING; echo "$lost" | sed 's/^/  lost: /' | grep FINDING; else echo "== $p: invariant"; fi
  grep -q "^FINDING" $d/mut.$p || grep -i "error\|panic" $d/mut.$p | head -3
done
rm -rf $d
exit $rc
