#!/usr/bin/env python3
"""Regenerates /verif/MANIFEST.json from tools/claims.json (one entry per claimed property)."""
import json, os
V = '/verif'
props = [json.loads(l)['id'] for l in open(f'{V}/properties.jsonl')]
claims = json.load(open(f'{V}/tools/claims.json'))
env = "GOFLAGS=-mod=mod GOPROXY=off GOSUMDB=off GOTOOLCHAIN=local GOWORK=off"
m = {
 "version": 1,
 "setup_cmd": f"cd /verif/checker && {env} go build -o /verif/bin/yfcheck ./cmd/yfcheck && {env} go build -o /verif/bin/alpharename ./cmd/alpharename && {env} go build -o /verif/bin/synrewrite ./cmd/synrewrite",
 "hooks": {"guard": "verif", "enable": "none needed: static analysis reads /repo's source as it is; there are no hook commits", 
           "baseline_off_cmd": "cd /repo && GOFLAGS=-mod=mod GOPROXY=off go test -vet=off -count=1 -timeout 25m ./...", "source_commits": [], "add_only": True},
 "engines": [{"name": "yfcheck", "path": "/verif/checker", "serves_properties": sorted(claims.keys()),
              "kind_free_text": "repository-specific static analyzer: go/packages + go/types + node-level CFG on go/cfg with dominators and condition facts + repo call graph (CHA filtered by interface conversions); thorough tier adds a mutant kill matrix run through in-memory overlays"}],
 "checks": [], "not_applicable": [],
 "notes": "Every check is `bin/yfcheck -prop <id>`; it loads /repo's current working tree on every run (no cached results), decides the structural clauses named in level_claimed.text, writes evidence/<id>.json and out/<id>/*.json replay files. Findings recorded in KNOWN_FINDINGS.jsonl are reported as KNOWN-FINDING lines. See DESIGN.md."
}
for p in props:
    if p in claims:
        c = claims[p]
        m["checks"].append({
            "property_id": p,
            "quick_cmd": f"/verif/bin/yfcheck -prop {p} -tier quick",
            "thorough_cmd": f"/verif/bin/yfcheck -prop {p} -tier thorough",
            "evidence_file": f"/verif/evidence/{p}.json",
            "replay_cmd_template": "/verif/bin/yfcheck -replay {path}",
            "engine": "yfcheck",
            "level_claimed": {"category": "other", "text": c["text"], "design_ref": c.get("design_ref", f"DESIGN.md §2 {p}")},
            "level_note": c["note"],
            "technique": c["technique"],
        })
    else:
        na = json.load(open(f'{V}/tools/not_applicable.json')) if os.path.exists(f'{V}/tools/not_applicable.json') else {}
        m["not_applicable"].append({"property_id": p, "reason": na.get(p, "static rules for this property are not built yet (work in progress; planned rules in DESIGN.md §2)")})
json.dump(m, open(f'{V}/MANIFEST.json', 'w'), indent=1)
print("claimed:", sorted(claims.keys()))
