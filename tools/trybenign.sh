#!/bin/bash
# usage: trybenign.sh <benign diff path relative to /verif> <props...>  -- applies the variant to /repo, lists new findings per property, reverts
f=/verif/$1; shift
git -C /repo diff --quiet || { echo "/repo has uncommitted changes"; exit 2; }
git -C /repo apply $f || { echo "patch does not apply"; exit 3; }
for prop in "$@"; do /verif/bin/yfcheck -prop $prop -findings > /tmp/tb.$$.$prop.mut; done
git -C /repo checkout -- . ; git -C /repo clean -fdq -- . 2>/dev/null
for prop in "$@"; do /verif/bin/yfcheck -prop $prop -findings > /tmp/tb.$$.$prop.base; echo "== $prop:"; grep -F -x -v -f /tmp/tb.$$.$prop.base /tmp/tb.$$.$prop.mut | head; rm -f /tmp/tb.$$.$prop.*; done
