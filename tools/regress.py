# usage: YFCHECK=<binary copy> python3 tools/regress.py -- every stored mutant and seed against its own property (overlay-based);
# prints NOT-DETECTED / FLOOR-ONLY lines. Seeds recorded as detected only by another property are expected in NOT-DETECTED.
import json,glob,os,subprocess,re
from concurrent.futures import ThreadPoolExecutor
jobs=[]
for m in glob.glob('/verif/mutants/*/*.diff'):
    jobs.append((m, m.split('/')[-2]))
for s in glob.glob('/verif/seeded/*/patch.diff'):
    n=s.split('/')[-2]
    if re.match(r'C\d\d[a-z]$',n): jobs.append((s,n[:3]))
def run(j):
    patch,prop=j
    out=subprocess.run(['python3','/verif/tools/seedcheck.py',patch,prop],capture_output=True,text=True,env=dict(os.environ,YFCHECK=os.environ.get('YFCHECK','/verif/bin/yfcheck'))).stdout
    f=[l.strip() for l in out.splitlines() if 'FINDING' in l]
    real=[x for x in f if 'vacuity' not in x]
    return patch,len(f),len(real),[x for x in f if 'vacuity' in x]
with ThreadPoolExecutor(int(os.environ.get('WORKERS','4'))) as ex:
    for patch,nf,nr,vac in ex.map(run,jobs):
        if nf and not nr: print('FLOOR-ONLY',patch,vac,flush=True)
        if not nf: print('NOT-DETECTED',patch,flush=True)
print('done',len(jobs))
