#!/bin/bash
# usage: ovmut.sh <base overlay dir name under /tmp/ov (made with tools/mkoverlay.py <patch> /tmp/ov/<name>)> <mutant name> <file rel> <old text> <new text> <prop>
# "mutant of a refactored shape": a stored refactoring applied as an overlay, then one instance broken; prints the non-discharged obligations.
export GOFLAGS=-mod=mod GOPROXY=off GOSUMDB=off GOTOOLCHAIN=local GOWORK=off
b=$1; m=$2; f=$3; old=$4; new=$5; prop=$6
rm -rf /tmp/ov/$m; cp -r /tmp/ov/$b /tmp/ov/$m
sed -i "s#/tmp/ov/$b/#/tmp/ov/$m/#g" /tmp/ov/$m/overlay.json
python3 - "$m" "$f" "$old" "$new" <<'P'
import sys
m,f,old,new=sys.argv[1:5]
p=f'/tmp/ov/{m}/t/{f}'
s=open(p).read()
assert s.count(old)>=1, ('pattern not found', old)
s=s.replace(old,new,1)
open(p,'w').write(s)
P
( cd /tmp/ov/$m/t && gofmt -l $f >/dev/null ) || echo "gofmt problem"
${YFCHECK:-/verif/bin/yfcheck} -prop $prop -tier quick -overlay /tmp/ov/$m/overlay.json -dump -noselftest 2>&1 | grep -E "^  (violated|undecided)|type-check|error:" | grep -v discharged | head -8
echo "-- $m done"
