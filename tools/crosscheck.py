#!/usr/bin/env python3
"""Cross-property triage: applies every seeded change (and every benign variant) through the overlay mechanism and runs
ALL properties on it. Prints, per change, the new findings of properties that the change's meta.json does not list as
detecting it - candidates for false alarms (a seed that breaks property X should not disturb an unrelated property Y
unless it really breaks Y too). Usage: crosscheck.py [name-prefix]   (results also in /verif/out/crosscheck.json)"""
import json, os, re, subprocess, sys, tempfile, glob, shutil
from concurrent.futures import ThreadPoolExecutor
V, R = '/verif', '/repo'
props = [json.loads(l)['id'] for l in open(f'{V}/properties.jsonl')]
env = dict(os.environ, GOFLAGS='-mod=mod', GOPROXY='off', GOSUMDB='off', GOTOOLCHAIN='local', GOWORK='off')

def findings(prop, overlay=None):
    cmd = [os.environ.get('YFCHECK', f'{V}/bin/yfcheck'), '-prop', prop, '-findings']
    if overlay:
        cmd += ['-overlay', overlay]
    out = subprocess.run(cmd, capture_output=True, text=True, env=env).stdout
    return set(l for l in out.splitlines() if l.startswith('FINDING '))

def patch_files(p):
    fs = []
    for l in open(p):
        m = re.match(r'\+\+\+ b/(.*)', l)
        if m:
            fs.append(m.group(1).strip())
    return fs

def run_change(name, patch, expected):
    tmp = tempfile.mkdtemp(prefix='yfx')
    try:
        t = os.path.join(tmp, 't')
        os.makedirs(t)
        files = patch_files(patch)
        for f in files:
            src = os.path.join(R, f)
            if os.path.exists(src):
                os.makedirs(os.path.dirname(os.path.join(t, f)), exist_ok=True)
                shutil.copy(src, os.path.join(t, f))
        r = subprocess.run(['git', 'apply', '--whitespace=nowarn', patch], cwd=t, capture_output=True, text=True,
                           env=dict(env, GIT_DIR='/nonexistent', GIT_CEILING_DIRECTORIES='/'))
        if r.returncode != 0:
            return name, None, 'patch does not apply: ' + r.stderr.strip()[:120]
        ov = {f: os.path.join(t, f) for f in files if f.endswith('.go') and os.path.exists(os.path.join(t, f))}
        ovp = os.path.join(tmp, 'overlay.json')
        json.dump(ov, open(ovp, 'w'))
        res = {}
        for p in props:
            new = findings(p, ovp) - base[p]
            if new:
                res[p] = sorted(new)
        return name, res, ''
    finally:
        shutil.rmtree(tmp, ignore_errors=True)

prefix = sys.argv[1] if len(sys.argv) > 1 else ''
base = {}
with ThreadPoolExecutor(8) as ex:
    for p, f in zip(props, ex.map(findings, props)):
        base[p] = f
jobs = []
for d in sorted(glob.glob(f'{V}/seeded/*/meta.json')):
    m = json.load(open(d))
    name = m['name']
    if not name.startswith(prefix):
        continue
    exp = {m['property']: set(m.get('detected_by') or [])}
    for a in m.get('also_detected_under', []):
        exp.setdefault(a['property'], set()).update(a['detected_by'])
    jobs.append(('seeded/' + name, os.path.join(os.path.dirname(d), 'patch.diff'), exp))
for d in sorted(glob.glob(f'{V}/benign/*/*.diff')):
    name = 'benign/' + '/'.join(d.split('/')[-2:])
    if prefix and not name.startswith(prefix) and not name.split('/')[-1].startswith(prefix):
        continue
    jobs.append((name, d, {}))
out = {}
with ThreadPoolExecutor(8) as ex:
    for (name, res, note), job in zip(ex.map(lambda j: run_change(*j), jobs), jobs):
        exp = job[2]
        if res is None:
            print(f'{name}: {note}')
            continue
        extra = {}
        for p, fs in res.items():
            rules = set(f.split(' ', 1)[1].split('|')[0] for f in fs)
            if p in exp and rules <= exp[p] | {r for r in rules if r in exp[p]}:
                if rules <= exp[p]:
                    continue
            unexpected = [f for f in fs if f.split(' ', 1)[1].split('|')[0] not in exp.get(p, set())]
            if unexpected:
                extra[p] = unexpected
        out[name] = extra
        if extra:
            print(f'{name}:')
            for p, fs in extra.items():
                for f in fs[:6]:
                    print(f'    {p}: {f}')
os.makedirs(f'{V}/out', exist_ok=True)
json.dump(out, open(f'{V}/out/crosscheck.json', 'w'), indent=1)
print('done:', len(jobs), 'changes,', sum(1 for v in out.values() if v), 'with findings outside their declared detection')
