#!/usr/bin/env python3
"""usage: mkmeta.py <seeded-name> <property> <detected-by rules comma-separated or -> <needs text> [also prop:rule,rule ...]"""
import json,sys,os
name,prop,det,needs=sys.argv[1:5]
d=f'/verif/seeded/{name}'
v=json.load(open(f'{d}/verify.json')) if os.path.exists(f'{d}/verify.json') else {}
m={"name":name,"property":prop,"breaks":f"{prop} (see notes.md for the clause)","needs_to_manifest":needs,
   "what_i_ran":v.get("ran",[]),"confirmed":v.get("confirmed"),"repo_head_at_confirmation":v.get("repo_head"),
   "demo_file":v.get("demo_file"),"demo_tests":v.get("demo_tests"),
   "detected_by":[] if det=='-' else det.split(','),"also_detected_under":[]}
if v.get("note"): m["note"]=v["note"]
for a in sys.argv[5:]:
    p,rs=a.split(':'); m["also_detected_under"].append({"property":p,"detected_by":rs.split(',')})
json.dump(m,open(f'{d}/meta.json','w'),indent=1)
print("wrote",d+"/meta.json")
