#!/usr/bin/env python3
"""usage: mkoverlay.py <patch or seeded name> <outdir>  -- materialises the patched files under <outdir>/t and writes
<outdir>/overlay.json for `yfcheck -overlay` (never touches /repo)."""
import json, os, re, subprocess, sys, shutil
V, R = '/verif', '/repo'
patch, out = sys.argv[1], sys.argv[2]
if not os.path.exists(patch): patch = f'{V}/seeded/{patch}/patch.diff'
shutil.rmtree(out, ignore_errors=True)
t = os.path.join(out, 't'); os.makedirs(t)
files = [m.group(1).strip() for l in open(patch) for m in [re.match(r'\+\+\+ b/(.*)', l)] if m]
for f in files:
    src = os.path.join(R, f)
    if os.path.exists(src):
        os.makedirs(os.path.dirname(os.path.join(t, f)), exist_ok=True); shutil.copy(src, os.path.join(t, f))
r = subprocess.run(['git', 'apply', '--whitespace=nowarn', os.path.abspath(patch)], cwd=t, capture_output=True, text=True,
                   env=dict(os.environ, GIT_DIR='/nonexistent', GIT_CEILING_DIRECTORIES='/'))
if r.returncode: print('patch does not apply:', r.stderr); sys.exit(3)
ov = {f: os.path.join(t, f) for f in files if f.endswith('.go') and os.path.exists(os.path.join(t, f))}
json.dump(ov, open(os.path.join(out, 'overlay.json'), 'w'))
print(os.path.join(out, 'overlay.json'))
