#!/usr/bin/env python3
# maintenance: after the spelling of obligation keys changed in the checker, carry the `ckey` of every table entry and
# known finding over to the new spelling by pairing the obligations of the old and the new binary by (rule, position, ordinal).
# usage: remapkeys.py <old yfcheck> <new yfcheck>
import json, re, subprocess, sys, collections
old, new = sys.argv[1], sys.argv[2]
props = ["C03", "C04", "C12", "C13", "C16", "C19", "C09", "C08"]
line = re.compile(r'^\s+\[(\w+)\] (\S+) (.*) @([^\s@]+:\d+): ')
import os
def dump(binary, prop, short=False):
    env = dict(os.environ)
    if short:
        env["YF_KEY_NOEXPAND"] = "1"
    out = subprocess.run([binary, "-prop", prop, "-noselftest", "-dump"], capture_output=True, env=env).stdout.decode("utf-8", "replace")
    res = collections.defaultdict(list)
    for l in out.split("\n"):
        m = line.match(l)
        if m:
            res[(m.group(2), m.group(4))].append(m.group(3))
    return res
mapping = {}
shortof = {}
for p in props:
    a, b = dump(old, p), dump(new, p)
    c = dump(new, p, short=True)
    for k, keys in b.items():
        sk = c.get(k, [])
        if len(sk) == len(keys):
            for x, y in zip(keys, sk):
                shortof[x] = y
    for k, keys in a.items():
        nk = b.get(k, [])
        if len(nk) != len(keys):
            continue
        for x, y in zip(keys, nk):
            mapping[(k[0], x)] = y
changed = 0
for name in ["c04_exempt.json", "c12_exempt.json", "c13_exempt.json"]:
    path = "tables/" + name
    t = json.load(open(path))
    rule_default = {"c04_exempt.json": "C04.R1", "c13_exempt.json": "C13.R3"}.get(name)
    for e in t:
        ck = e.get("ckey") or e["key"]
        cands = [v for (r, k), v in mapping.items() if k == ck and (e.get("rule") in (None, r) or True)]
        cands = sorted(set(cands))
        if len(cands) == 1:
            if cands[0] != ck:
                changed += 1
            e["ckey"] = cands[0]
            sh = shortof.get(cands[0])
            if sh and sh != cands[0]:
                e["ckey2"] = sh
            else:
                e.pop("ckey2", None)
        elif len(cands) == 0:
            print("no obligation found for", name, ck)
        else:
            print("ambiguous", name, ck, cands)
    json.dump(t, open(path, "w"), indent=1, ensure_ascii=False)
lines = open("KNOWN_FINDINGS.jsonl").read().rstrip("\n").split("\n")
out = []
for l in lines:
    if l.startswith("{"):
        k = json.loads(l)
        ck = k.get("ckey") or k["key"]
        nk = mapping.get((k["rule"], ck))
        if nk:
            if nk != ck:
                changed += 1
            k["ckey"] = nk
        elif k["status"] == "open":
            print("open finding not found among obligations:", k["rule"], ck)
        l = json.dumps(k, ensure_ascii=False, separators=(",", ":"))
    out.append(l)
open("KNOWN_FINDINGS.jsonl", "w").write("\n".join(out) + "\n")
print("entries re-keyed:", changed)
