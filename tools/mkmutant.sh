#!/bin/bash
# usage: mkmutant.sh <prop> <name> <expect-rules,comma> <description...>
# Saves the uncommitted working-tree change of /repo as a self-test mutant, shows what the check says about it, and reverts /repo.
set -u
export GOFLAGS=-mod=mod GOPROXY=off GOSUMDB=off GOTOOLCHAIN=local GOWORK=off
prop=$1; name=$2; expect=$3; shift 3; desc="$*"
mkdir -p /verif/mutants/$prop
f=/verif/mutants/$prop/$name.diff
if git -C /repo diff --quiet; then echo "no change in /repo"; exit 2; fi
(cd /repo && go build ./... ) || { echo "MUTANT DOES NOT COMPILE"; git -C /repo checkout -- .; exit 3; }
( echo "# expect: ${expect//,/ }"; echo "# desc: $desc"; git -C /repo diff ) > $f
/verif/bin/yfcheck -prop $prop -findings > /tmp/mut.$$.out; 
git -C /repo checkout -- .
/verif/bin/yfcheck -prop $prop -findings > /tmp/base.$$.out
echo "new findings with mutant:"; grep -F -x -v -f /tmp/base.$$.out /tmp/mut.$$.out | head -20
rm -f /tmp/mut.$$.out /tmp/base.$$.out
