// alpharename writes, for every non-test Go file of the repository that declares local variables, a copy in which every
// local variable, parameter, named result and receiver is renamed (suffix appended), plus an overlay description that
// yfcheck -overlay understands. Alpha-renaming preserves behaviour by construction, so every check must report exactly
// the findings it reports on the original tree: a rule that changes its verdict depends on the spelling of a name.
package main

import (
	"bytes"
	"encoding/json"
	"flag"
	"fmt"
	"go/ast"
	"go/printer"
	"go/token"
	"go/types"
	"os"
	"path/filepath"
	"strings"

	"golang.org/x/tools/go/packages"
)

func main() {
	repo := flag.String("repo", "/repo", "repository root")
	out := flag.String("out", "", "output directory for renamed files and overlay.json")
	suffix := flag.String("suffix", "Rn", "suffix appended to every local name")
	mode := flag.String("mode", "suffix", "suffix: name+suffix; opaque: v<N> (drops every hint the spelling gives)")
	flag.Parse()
	if *out == "" {
		fmt.Println("need -out")
		os.Exit(2)
	}
	os.MkdirAll(*out, 0o755)
	fset := token.NewFileSet()
	cfg := &packages.Config{Mode: packages.NeedName | packages.NeedFiles | packages.NeedCompiledGoFiles | packages.NeedSyntax | packages.NeedTypes | packages.NeedTypesInfo | packages.NeedImports | packages.NeedDeps,
		Dir: *repo, Fset: fset, Env: append(os.Environ(), "GOFLAGS=-mod=mod", "GOWORK=off")}
	pkgs, err := packages.Load(cfg, "./...")
	if err != nil || len(pkgs) == 0 {
		fmt.Println("load:", err)
		os.Exit(2)
	}
	overlay := map[string]string{}
	nFiles, nIdents := 0, 0
	for _, pkg := range pkgs {
		if len(pkg.Errors) > 0 {
			fmt.Println("package errors:", pkg.PkgPath, pkg.Errors[0])
			os.Exit(2)
		}
		info := pkg.TypesInfo
		isLocal := func(o types.Object) bool {
			v, ok := o.(*types.Var)
			if !ok || v.IsField() || v.Pkg() == nil || v.Name() == "_" || v.Name() == "" {
				return false
			}
			if v.Parent() == nil { // receivers/params of interface methods, struct fields
				return false
			}
			return v.Parent() != v.Pkg().Scope() && v.Parent() != types.Universe
		}
		names := map[types.Object]string{}
		counter := 0
		newName := func(o types.Object) string {
			if n, ok := names[o]; ok {
				return n
			}
			var n string
			if *mode == "opaque" {
				counter++
				n = fmt.Sprintf("v%d%s", counter, *suffix)
			} else {
				n = o.Name() + *suffix
			}
			names[o] = n
			return n
		}
		for i, file := range pkg.Syntax {
			fn := pkg.CompiledGoFiles[i]
			if strings.HasSuffix(fn, "_test.go") || !strings.HasPrefix(fn, *repo) {
				continue
			}
			changed := 0
			// type switch symbolic variables: `switch x := v.(type)` - the defining ident has no object; its uses resolve to
			// one implicit object per clause. Rename all of them to one name.
			tsName := map[*ast.Ident]string{}
			ast.Inspect(file, func(n ast.Node) bool {
				ts, ok := n.(*ast.TypeSwitchStmt)
				if !ok {
					return true
				}
				as, ok := ts.Assign.(*ast.AssignStmt)
				if !ok || len(as.Lhs) != 1 {
					return true
				}
				id := as.Lhs[0].(*ast.Ident)
				nn := id.Name + *suffix
				if *mode == "opaque" {
					counter++
					nn = fmt.Sprintf("v%d%s", counter, *suffix)
				}
				tsName[id] = nn
				for _, cc := range ts.Body.List {
					if o := info.Implicits[cc]; o != nil {
						names[o] = nn
					}
				}
				return true
			})
			ast.Inspect(file, func(n ast.Node) bool {
				id, ok := n.(*ast.Ident)
				if !ok {
					return true
				}
				if nn, ok := tsName[id]; ok {
					id.Name = nn
					changed++
					return true
				}
				var o types.Object
				if d := info.Defs[id]; d != nil {
					o = d
				} else if u := info.Uses[id]; u != nil {
					o = u
				}
				if o == nil {
					return true
				}
				if _, pre := names[o]; pre || isLocal(o) {
					id.Name = newName(o)
					changed++
				}
				return true
			})
			if changed == 0 {
				continue
			}
			var buf bytes.Buffer
			if err := (&printer.Config{Mode: printer.UseSpaces | printer.TabIndent, Tabwidth: 8}).Fprint(&buf, fset, file); err != nil {
				fmt.Println("print:", fn, err)
				os.Exit(2)
			}
			rel, _ := filepath.Rel(*repo, fn)
			dst := filepath.Join(*out, strings.ReplaceAll(rel, "/", "__"))
			if err := os.WriteFile(dst, buf.Bytes(), 0o644); err != nil {
				fmt.Println(err)
				os.Exit(2)
			}
			overlay[rel] = dst
			nFiles++
			nIdents += changed
		}
	}
	b, _ := json.MarshalIndent(overlay, "", " ")
	os.WriteFile(filepath.Join(*out, "overlay.json"), b, 0o644)
	fmt.Printf("alpharename: %d files, %d identifiers renamed; overlay at %s\n", nFiles, nIdents, filepath.Join(*out, "overlay.json"))
}
