package main

import (
	"fmt"
	"golang.org/x/tools/go/packages"
	"golang.org/x/tools/go/cfg"
	"golang.org/x/tools/go/ssa"
	"golang.org/x/tools/go/ssa/ssautil"
	"golang.org/x/tools/go/types/typeutil"
)

var _ = cfg.New
var _ ssa.Value
var _ = ssautil.AllFunctions
var _ typeutil.Map

func main() {
	c := &packages.Config{Mode: packages.LoadSyntax, Dir: "/repo"}
	pkgs, err := packages.Load(c, "./...")
	fmt.Println(len(pkgs), err)
}
