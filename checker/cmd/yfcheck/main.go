// yfcheck decides structural clauses of the properties C01..C19 of
// rpcpool/yellowstone-faithful from /repo's current source (static analysis only).
package main

import (
	"encoding/json"
	"flag"
	"fmt"
	"os"
	"path/filepath"
	"runtime/debug"
	"sort"
	"strconv"
	"strings"

	"yfverif/checker/internal/core"
	"yfverif/checker/internal/rules"
)

func main() {
	prop := flag.String("prop", "", "property id (C01..C19)")
	tier := flag.String("tier", "quick", "quick|thorough")
	repo := flag.String("repo", "/repo", "repository directory")
	verif := flag.String("verif", "/verif", "verification directory (evidence, tables, known findings)")
	replay := flag.String("replay", "", "replay file: re-decide the recorded obligation")
	overlay := flag.String("overlay", "", "JSON file {relative file: replacement text file} used as in-memory overlay (self-test mutants)")
	list := flag.Bool("list", false, "list rules")
	noSelf := flag.Bool("noselftest", false, "thorough tier without the mutant self-test")
	dump := flag.Bool("dump", false, "print every obligation")
	canonTables := flag.Bool("canontables", false, "maintenance, never part of a check: rewrite tables/*.json and KNOWN_FINDINGS.jsonl with the canonical forms (ckey / cneeds / cmentions) computed on the current tree")
	findings := flag.Bool("findings", false, "print FINDING rule|key for every non-discharged obligation and write nothing (used by the self-test)")
	flag.Parse()
	if t := os.Getenv("VERIF_TIER"); t != "" && !isFlagSet("tier") {
		*tier = t
	}
	seed := 0
	if s := os.Getenv("VERIF_SEED"); s != "" {
		seed, _ = strconv.Atoi(s)
	}
	if *list {
		var ids []string
		for id := range rules.Registry {
			ids = append(ids, id)
		}
		sort.Strings(ids)
		fmt.Println(strings.Join(ids, " "))
		return
	}
	var replayObl *core.Obligation
	if *replay != "" {
		b, err := os.ReadFile(*replay)
		if err != nil {
			fmt.Println("cannot read replay file:", err)
			os.Exit(2)
		}
		replayObl = &core.Obligation{}
		if err := json.Unmarshal(b, replayObl); err != nil {
			fmt.Println("bad replay file:", err)
			os.Exit(2)
		}
		*prop = replayObl.Property
	}
	if *canonTables {
		prog, err := core.Load(core.LoadOpts{Dir: *repo})
		if err != nil {
			fmt.Println("load:", err)
			os.Exit(2)
		}
		if err := rules.CanonicaliseTables(prog, *verif); err != nil {
			fmt.Println("canontables:", err)
			os.Exit(2)
		}
		os.Exit(0)
	}
	if os.Getenv("YF_KEY_NOEXPAND") != "" {
		core.NoKeyExpansion = true // maintenance (tools/remapkeys.py): print the short form of every key
	}
	run, ok := rules.Registry[*prop]
	if !ok {
		fmt.Printf("unknown property %q\n", *prop)
		os.Exit(2)
	}
	opts := core.LoadOpts{Dir: *repo}
	if *overlay != "" {
		ov, err := readOverlay(*repo, *overlay)
		if err != nil {
			fmt.Println("overlay:", err)
			os.Exit(2)
		}
		opts.Overlay = ov
	}
	cmdline := strings.Join(os.Args, " ")
	code := func() (code int) {
		prog, err := core.Load(opts)
		if err != nil {
			// a tree that cannot be loaded cannot be claimed to satisfy anything
			fmt.Printf("LOAD FAILURE: %v\n", err)
			if *findings {
				fmt.Println("FINDING infra|load")
				fmt.Println("FINDINGS-END")
				return 1
			}
			os.MkdirAll(filepath.Join(*verif, "out", *prop), 0o755)
			rp := filepath.Join(*verif, "out", *prop, "load-failure.json")
			os.WriteFile(rp, []byte(fmt.Sprintf("{\"property\":%q,\"rule\":\"infra\",\"key\":\"load\",\"status\":\"undecided\",\"msg\":%q}", *prop, err.Error())), 0o644)
			fmt.Printf("VIOLATION property=%s replay=%s\n", *prop, rp)
			return 1
		}
		rep := core.NewReport(*prop, *tier, prog)
		if *overlay != "" {
			rep.ScratchOut = filepath.Join(os.TempDir(), "yfcheck-overlay-out")
		}
		defer func() {
			if x := recover(); x != nil {
				fmt.Printf("ANALYZER PANIC: %v\n%s\n", x, debug.Stack())
				if *findings {
					// self-test / triage mode never writes evidence: report the panic as a finding of its own
					fmt.Println("FINDING infra|panic")
					fmt.Println("FINDINGS-END")
					code = 1
					return
				}
				rep.Undecided("infra", "panic", "", fmt.Sprint(x))
				code = rep.Finish(*verif, seed, cmdline)
				if code == 0 {
					code = 1
				}
			}
		}()
		rules.VerifDir = *verif
		run(rep)
		if *tier == "thorough" && *overlay == "" && replayObl == nil && !*noSelf {
			rules.SelfTest(rep, *repo, *verif)
		}
		if *findings {
			rep.ApplyFloors()
			for _, o := range rep.Obls {
				if o.Status != core.Discharged {
					// keys are canonical (core/canon.go): what is compared between runs does not depend on local names
					fmt.Printf("FINDING %s|%s\n", o.Rule, o.Key)
				}
			}
			fmt.Println("FINDINGS-END")
			return 0
		}
		if *dump {
			for _, o := range rep.Obls {
				fmt.Printf("  [%s] %s %s @%s: %s\n", o.Status, o.Rule, o.Key, o.Pos, o.Msg)
			}
		}
		if replayObl != nil {
			for _, o := range rep.Obls {
				if o.Rule == replayObl.Rule && o.Key == replayObl.Key {
					fmt.Printf("replay: %s %s -> %s: %s (%s)\n", o.Rule, o.Key, o.Status, o.Msg, o.Pos)
					if o.Status != core.Discharged {
						fmt.Printf("VIOLATION property=%s replay=%s\n", *prop, *replay)
						return 1
					}
					return 0
				}
			}
			fmt.Printf("replay: obligation %s %s no longer exists on this tree\n", replayObl.Rule, replayObl.Key)
			return 0
		}
		return rep.Finish(*verif, seed, cmdline)
	}()
	os.Exit(code)
}

func isFlagSet(name string) bool {
	set := false
	flag.Visit(func(f *flag.Flag) {
		if f.Name == name {
			set = true
		}
	})
	return set
}

func readOverlay(repo, path string) (map[string][]byte, error) {
	b, err := os.ReadFile(path)
	if err != nil {
		return nil, err
	}
	var m map[string]string
	if err := json.Unmarshal(b, &m); err != nil {
		return nil, err
	}
	out := map[string][]byte{}
	for rel, src := range m {
		c, err := os.ReadFile(src)
		if err != nil {
			return nil, err
		}
		out[filepath.Join(repo, rel)] = c
	}
	return out, nil
}
