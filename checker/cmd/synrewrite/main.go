// synrewrite writes, for every non-test Go file of the repository, a copy in which one family of purely syntactic,
// behaviour-preserving rewrites has been applied everywhere it is applicable, plus an overlay description for
// yfcheck -overlay. Every check must report on the rewritten program exactly what it reports on the original: a rule
// whose verdict changes depends on how an operation is spelled, not on what the program does.
//
// modes:
//   compound  x op= e  ->  x = x op (e)   and   x++ / x--  ->  x = x + 1 / x - 1      (x an identifier or field selection)
//   splitand  if a && b { S }             ->  if a { if b { S } }                     (no init, no else)
//   swapcmp   a < b -> b > a, a == b -> b == a, ...                                    (operands without calls)
//   ifnot     if c { A } else { B }       ->  if !(c) { B } else { A }                 (else is a block, no init)
//   explain   if <cond> { ... }           ->  cN := <cond>; if cN { ... }              (cond without calls, statement directly in a block)
package main

import (
	"bytes"
	"encoding/json"
	"flag"
	"fmt"
	"go/ast"
	"go/printer"
	"go/token"
	"os"
	"path/filepath"
	"strings"

	"golang.org/x/tools/go/packages"
)

func hasCall(e ast.Expr) bool {
	found := false
	ast.Inspect(e, func(n ast.Node) bool {
		switch n.(type) {
		case *ast.CallExpr, *ast.UnaryExpr:
			if u, ok := n.(*ast.UnaryExpr); ok && u.Op != token.ARROW {
				return true
			}
			found = true
		case *ast.FuncLit:
			found = true
		}
		return true
	})
	return found
}

func simplePlace(e ast.Expr) bool {
	switch x := e.(type) {
	case *ast.Ident:
		return x.Name != "_"
	case *ast.SelectorExpr:
		return simplePlace(x.X)
	case *ast.ParenExpr:
		return simplePlace(x.X)
	}
	return false
}

var compoundOps = map[token.Token]token.Token{
	token.ADD_ASSIGN: token.ADD, token.SUB_ASSIGN: token.SUB, token.MUL_ASSIGN: token.MUL, token.QUO_ASSIGN: token.QUO,
	token.REM_ASSIGN: token.REM, token.AND_ASSIGN: token.AND, token.OR_ASSIGN: token.OR, token.XOR_ASSIGN: token.XOR,
	token.SHL_ASSIGN: token.SHL, token.SHR_ASSIGN: token.SHR,
}

var swapped = map[token.Token]token.Token{token.LSS: token.GTR, token.GTR: token.LSS, token.LEQ: token.GEQ, token.GEQ: token.LEQ, token.EQL: token.EQL, token.NEQ: token.NEQ}

func main() {
	repo := flag.String("repo", "/repo", "repository root")
	out := flag.String("out", "", "output directory")
	mode := flag.String("mode", "compound", "compound | splitand | swapcmp | ifnot | explain")
	flag.Parse()
	if *out == "" {
		fmt.Println("need -out")
		os.Exit(2)
	}
	os.MkdirAll(*out, 0o755)
	fset := token.NewFileSet()
	cfg := &packages.Config{Mode: packages.NeedName | packages.NeedFiles | packages.NeedCompiledGoFiles | packages.NeedSyntax | packages.NeedTypes | packages.NeedTypesInfo | packages.NeedImports | packages.NeedDeps,
		Dir: *repo, Fset: fset, Env: append(os.Environ(), "GOFLAGS=-mod=mod", "GOWORK=off")}
	pkgs, err := packages.Load(cfg, "./...")
	if err != nil || len(pkgs) == 0 {
		fmt.Println("load:", err)
		os.Exit(2)
	}
	overlay := map[string]string{}
	nFiles, nSites := 0, 0
	counter := 0
	for _, pkg := range pkgs {
		if len(pkg.Errors) > 0 {
			fmt.Println("package errors:", pkg.PkgPath, pkg.Errors[0])
			os.Exit(2)
		}
		info := pkg.TypesInfo
		for i, file := range pkg.Syntax {
			fn := pkg.CompiledGoFiles[i]
			if strings.HasSuffix(fn, "_test.go") || !strings.HasPrefix(fn, *repo) {
				continue
			}
			changed := 0
			var rewriteList func(list []ast.Stmt) []ast.Stmt
			rewriteStmt := func(st ast.Stmt) ast.Stmt {
				switch s := st.(type) {
				case *ast.AssignStmt:
					if *mode == "compound" {
						if op, ok := compoundOps[s.Tok]; ok && len(s.Lhs) == 1 && len(s.Rhs) == 1 && simplePlace(s.Lhs[0]) {
							changed++
							return &ast.AssignStmt{Lhs: s.Lhs, TokPos: s.TokPos, Tok: token.ASSIGN, Rhs: []ast.Expr{&ast.BinaryExpr{X: s.Lhs[0], Op: op, Y: &ast.ParenExpr{X: s.Rhs[0]}}}}
						}
					}
				case *ast.IncDecStmt:
					if *mode == "compound" && simplePlace(s.X) {
						op := token.ADD
						if s.Tok == token.DEC {
							op = token.SUB
						}
						changed++
						return &ast.AssignStmt{Lhs: []ast.Expr{s.X}, TokPos: s.TokPos, Tok: token.ASSIGN, Rhs: []ast.Expr{&ast.BinaryExpr{X: s.X, Op: op, Y: &ast.BasicLit{Kind: token.INT, Value: "1"}}}}
					}
				case *ast.IfStmt:
					switch *mode {
					case "splitand":
						if be, ok := s.Cond.(*ast.BinaryExpr); ok && be.Op == token.LAND && s.Init == nil && s.Else == nil {
							changed++
							inner := &ast.IfStmt{If: s.If, Cond: be.Y, Body: s.Body}
							return &ast.IfStmt{If: s.If, Cond: be.X, Body: &ast.BlockStmt{Lbrace: s.Body.Lbrace, List: []ast.Stmt{inner}, Rbrace: s.Body.Rbrace}}
						}
					case "ifnot":
						if eb, ok := s.Else.(*ast.BlockStmt); ok && s.Init == nil {
							changed++
							return &ast.IfStmt{If: s.If, Cond: &ast.UnaryExpr{Op: token.NOT, X: &ast.ParenExpr{X: s.Cond}}, Body: eb, Else: s.Body}
						}
					}
				}
				return st
			}
			rewriteList = func(list []ast.Stmt) []ast.Stmt {
				var outl []ast.Stmt
				for _, st := range list {
					if *mode == "explain" {
						if is, ok := st.(*ast.IfStmt); ok && is.Init == nil && !hasCall(is.Cond) {
							if t := info.TypeOf(is.Cond); t != nil && t.String() == "bool" {
								counter++
								name := fmt.Sprintf("cond%dX", counter)
								changed++
								outl = append(outl, &ast.AssignStmt{Lhs: []ast.Expr{ast.NewIdent(name)}, Tok: token.DEFINE, Rhs: []ast.Expr{is.Cond}})
								outl = append(outl, &ast.IfStmt{If: is.If, Cond: ast.NewIdent(name), Body: is.Body, Else: is.Else})
								continue
							}
						}
					}
					outl = append(outl, rewriteStmt(st))
				}
				return outl
			}
			// post-order: rewrite statement lists of every block / case / comm clause
			ast.Inspect(file, func(n ast.Node) bool {
				switch x := n.(type) {
				case *ast.BlockStmt:
					x.List = rewriteList(x.List)
				case *ast.CaseClause:
					x.Body = rewriteList(x.Body)
				case *ast.CommClause:
					x.Body = rewriteList(x.Body)
				case *ast.BinaryExpr:
					if *mode == "swapcmp" {
						if op, ok := swapped[x.Op]; ok && !hasCall(x.X) && !hasCall(x.Y) {
							// keep untyped-constant / nil comparisons typed the same way: swapping is always legal in Go
							x.X, x.Y, x.Op = x.Y, x.X, op
							changed++
						}
					}
				case *ast.ForStmt:
					if *mode == "compound" && x.Post != nil {
						x.Post = rewriteStmt(x.Post)
					}
				}
				return true
			})
			if changed == 0 {
				continue
			}
			var buf bytes.Buffer
			if err := (&printer.Config{Mode: printer.UseSpaces | printer.TabIndent, Tabwidth: 8}).Fprint(&buf, fset, file); err != nil {
				fmt.Println("print:", fn, err)
				os.Exit(2)
			}
			rel, _ := filepath.Rel(*repo, fn)
			dst := filepath.Join(*out, strings.ReplaceAll(rel, "/", "__"))
			if err := os.WriteFile(dst, buf.Bytes(), 0o644); err != nil {
				fmt.Println(err)
				os.Exit(2)
			}
			overlay[rel] = dst
			nFiles++
			nSites += changed
		}
	}
	b, _ := json.MarshalIndent(overlay, "", " ")
	os.WriteFile(filepath.Join(*out, "overlay.json"), b, 0o644)
	fmt.Printf("synrewrite[%s]: %d files, %d sites rewritten; overlay at %s\n", *mode, nFiles, nSites, filepath.Join(*out, "overlay.json"))
}
