package rules

import (
	"fmt"
	"go/ast"
	"go/token"
	"go/types"
	"sort"
	"strings"

	"yfverif/checker/internal/core"
)

func init() { register("C07", C07) }

// C07 — getSignaturesForAddress paging slices the newest-first history correctly.
func C07(r *core.Report) {
	r.Explanation = "Decides structural necessary conditions of C07: R1 no order-sensitive effect (append to an outer slice that is not sorted afterwards, store at an index derived from a loop-carried counter, send/write) happens inside a range over a Go map in the address-history code path - the response order must not depend on map iteration order; " +
		"R2 the epoch readers are put in newest-first order by a strict descending sort that dominates the construction of the reader list, and the multi-epoch reader iterates that slice; " +
		"R3 in the slot-window iterator each bound (before, until) is compared with the fetched transaction's slot on every path to the append; R4 an address absent from an epoch (IsNotFound) continues with the next epoch instead of returning; " +
		"R5 in the signature-window iterator the limit test and the reached-before test dominate the append, the append is not reachable in the iteration where the before-signature matched, and the until test comes after the append. " +
		"R6 in every history reader with a limit the quantity compared with the limit on the way to an append is the size of the whole result (len of the appended slice or a Count() that sums len over the whole map), not of one per-epoch part. " +
		"R7 the request parser stores the address of a distinct variable in each optional pointer field (before and until never alias one variable). " +
		"R11 end of chain - OffsetAndSize.IsZero holds exactly for {Offset: 0, Size: 0} and every gsfa reader loop that follows the chain of linked-log records stops, as far as the pointer is concerned, exactly when it is nil or zero (decided by the truth table of the test over nil / Offset == 0 / Size == 0, helpers inlined): the record stored first in a log sits at offset 0 and must still be read. " +
		"R12 the bounds before and until are compared with signatures of the history only, never with each other. " +
		"R13 after a linked-log record was read, the walk goes on to the next record only through the loop over that record's locations (or when it is empty / the read failed). R14 the loops that collect the per-epoch address-index readers have no early exit: an epoch without an index is skipped, not the end of the list. R13 also: the slice of locations read from a record is not re-sliced or replaced before the loop over it - the before / until / limit tests see every location of the record. R15 the flag that records that the `before` marker was passed is initialised outside every loop: re-initialised inside the loop over the epochs it forgets the marker at each epoch boundary. Not decided: the arithmetic of limit across epochs and the result for concrete histories. R11 also: where the next chain pointer comes from a helper, the helper answers nil only under IsZero(), Offset == 0 and Size == 0 of the same value, or a nil test of a pointer parameter."
	r.Assumptions = []string{"Go map iteration order is unspecified (language spec)"}
	c07MapOrder(r)
	c07ReaderOrder(r)
	c07SlotBounds(r)
	c07AbsentSkipped(r)
	c07WindowShape(r)
	c07LimitCountsWholeResult(r)
	c07MarkerStateOutlivesTheEpochs(r)
	c07OptionPointersDistinct(r)
	rangeSelectionInclusive(r, "C07.R8")
	c07EveryFoundEntryAnswered(r)
	slotWalkStopsOnlyBelowRange(r, "C07.R10")
	r.Floor("C07.R10", 1)
	chainEndExact(r, "C07.R11")
	chainPointerHelpers(r, "C07.R11")
	c07BoundsNotComparedWithEachOther(r)
	c07EveryLocationExamined(r)
	c07EveryEpochConsidered(r)
	r.Floor("C07.R14", 1)
	r.Floor("C07.R13", 2)
	r.Floor("C07.R12", 1)
	r.Floor("C07.R11", 2)
	r.Floor("C07.R9", 1)
	r.Floor("C07.R8", 1)
	r.Floor("C07.R1", 3)
	r.Floor("C07.R2", 2)
	r.Floor("C07.R3", 1)
	r.Floor("C07.R4", 1)
	r.Floor("C07.R5", 2)
	r.Floor("C07.R6", 2)
	r.Floor("C07.R7", 1)
}

// mapRangeOrderSensitive inspects every range-over-map in f and returns, per range statement, the
// first order-sensitive effect found in its body ("" when none).
func mapRangeEffects(p *core.Prog, f *core.Func) map[*ast.RangeStmt]string {
	info := f.Pkg.TypesInfo
	out := map[*ast.RangeStmt]string{}
	ast.Inspect(f.Body, func(n ast.Node) bool {
		if _, isLit := n.(*ast.FuncLit); isLit {
			return false // analysed as its own function
		}
		rs, ok := n.(*ast.RangeStmt)
		if !ok {
			return true
		}
		t := info.TypeOf(rs.X)
		if t == nil {
			return true
		}
		if _, isMap := t.Underlying().(*types.Map); !isMap {
			return true
		}
		out[rs] = orderSensitiveEffect(p, f, rs)
		return true
	})
	return out
}

func declaredOutside(o types.Object, n ast.Node) bool {
	return o != nil && (o.Pos() < n.Pos() || o.Pos() >= n.End())
}

func orderSensitiveEffect(p *core.Prog, f *core.Func, rs *ast.RangeStmt) string {
	info := f.Pkg.TypesInfo
	body := rs.Body
	// loop-carried variables: declared outside, assigned inside (other than by plain map/index stores)
	carried := map[types.Object]bool{}
	ast.Inspect(body, func(n ast.Node) bool {
		switch s := n.(type) {
		case *ast.AssignStmt:
			for _, l := range s.Lhs {
				if id, ok := core.Unparen(l).(*ast.Ident); ok {
					if o := info.Uses[id]; o != nil && declaredOutside(o, rs) {
						if v, ok := o.(*types.Var); ok && !core.IsErrorType(v.Type()) {
							carried[o] = true
						}
					}
				}
			}
		case *ast.IncDecStmt:
			if id, ok := core.Unparen(s.X).(*ast.Ident); ok {
				if o := info.Uses[id]; o != nil && declaredOutside(o, rs) {
					carried[o] = true
				}
			}
		}
		return true
	})
	// variables derived (inside the body) from carried ones
	derived := map[types.Object]bool{}
	for o := range carried {
		derived[o] = true
	}
	for changed := true; changed; {
		changed = false
		ast.Inspect(body, func(n ast.Node) bool {
			if s, ok := n.(*ast.AssignStmt); ok && len(s.Lhs) == len(s.Rhs) {
				for i, l := range s.Lhs {
					if id, ok := core.Unparen(l).(*ast.Ident); ok {
						o := info.Defs[id]
						if o == nil {
							o = info.Uses[id]
						}
						if o != nil && !derived[o] && mentionsAny(info, s.Rhs[i], derived, true) {
							derived[o] = true
							changed = true
						}
					}
				}
			}
			return true
		})
	}
	effect := ""
	ast.Inspect(body, func(n ast.Node) bool {
		if effect != "" {
			return false
		}
		switch s := n.(type) {
		case *ast.AssignStmt:
			for i, l := range s.Lhs {
				l = core.Unparen(l)
				// append to an outer slice
				if i < len(s.Rhs) {
					if call, ok := core.Unparen(s.Rhs[i]).(*ast.CallExpr); ok && core.BuiltinName(info, call) == "append" {
						if id, ok := l.(*ast.Ident); ok {
							if o := info.Uses[id]; o != nil && declaredOutside(o, rs) {
								if !sortedAfter(p, f, rs, o) {
									effect = fmt.Sprintf("append to %s (declared outside the loop, not sorted afterwards) at %s", id.Name, p.Rel(s.Pos()))
								}
							}
						}
					}
				}
				// store at an index derived from a loop-carried counter
				if ix, ok := l.(*ast.IndexExpr); ok {
					base := rootIdent(ix.X)
					if base != nil {
						if o := info.Uses[base]; o != nil && declaredOutside(o, rs) {
							if _, isMap := info.TypeOf(ix.X).Underlying().(*types.Map); !isMap && mentionsAny(info, ix.Index, derived, true) {
								effect = fmt.Sprintf("store %s at an index derived from a loop-carried counter at %s", core.ExprStr(l), p.Rel(s.Pos()))
							}
						}
					}
				}
			}
		case *ast.SendStmt:
			if !core.IsErrorType(info.TypeOf(s.Value)) { // reporting an error is order-insensitive
				effect = "channel send at " + p.Rel(s.Pos())
			}
		case *ast.CallExpr:
			if sel, ok := core.Unparen(s.Fun).(*ast.SelectorExpr); ok {
				nm := sel.Sel.Name
				if nm == "Send" || strings.HasPrefix(nm, "Write") || nm == "Encode" || nm == "Reply" || nm == "ReplyRaw" {
					effect = "call to " + nm + " at " + p.Rel(s.Pos())
				}
			}
		}
		return true
	})
	return effect
}

// sortedAfter: slice object o, filled inside the map range rs, is sorted by a strict comparator in a
// node that follows the loop and dominates every later statement mentioning o.
func sortedAfter(p *core.Prog, f *core.Func, rs *ast.RangeStmt, o types.Object) bool {
	info := f.Pkg.TypesInfo
	g := p.Graph(f)
	var sortNode *core.GNode
	for _, n := range stmtNodes(g) {
		if n.Ast.Pos() < rs.End() {
			continue
		}
		for _, si := range sortCalls(info, n.Ast) {
			if si.SliceObj == o && si.Decided && si.Strict {
				sortNode = n
			}
		}
		for _, c := range nodeCalls(n) {
			nm := core.CalleeName(info, c)
			if (nm == "sort.Strings" || nm == "sort.Ints" || nm == "slices.Sort") && len(c.Args) == 1 && core.ObjOf(info, c.Args[0]) == o {
				sortNode = n
			}
			// handed to a helper of the package that sorts it in place before it does anything else with it
			if fo := core.Callee(info, c); fo != nil {
				if h := p.ByObj[fo.Origin()]; h != nil && h.Body != nil && h.Pkg == f.Pkg {
					for ai, a := range c.Args {
						if core.ObjOf(info, a) == o && helperSortsParamFirst(p, h, ai) {
							sortNode = n
						}
					}
				}
			}
		}
	}
	if sortNode == nil {
		return false
	}
	for _, n := range stmtNodes(g) {
		if n == sortNode || n.Ast.Pos() < rs.End() {
			continue
		}
		if core.MentionsOutsideLits(info, n.Ast, o) && !g.Dominates(sortNode, n) {
			return false
		}
	}
	return true
}

func c07MapOrder(r *core.Report) {
	const rule = "C07.R1"
	p := r.Prog
	// scope: the address-history path
	scope := []string{"main.(*MultiEpoch).handleGetSignaturesForAddress", "main.countTransactions",
		"gsfa.(*GsfaReaderMultiepoch).iterBeforeUntil", "gsfa.(*GsfaReaderMultiepoch).iterBeforeUntilSlot", "gsfa.(EpochToTransactionObjects).Count",
		"main.(*MultiEpoch).processSlotTransactions", "main.(*txBuffer).flush"}
	// the entry points must exist; the helpers are examined when they exist, and so is every function of the same package
	// an entry point reaches within two calls (whatever a helper was renamed to or replaced by)
	required := map[string]bool{"main.(*MultiEpoch).handleGetSignaturesForAddress": true, "gsfa.(*GsfaReaderMultiepoch).iterBeforeUntil": true,
		"gsfa.(*GsfaReaderMultiepoch).iterBeforeUntilSlot": true, "main.(*MultiEpoch).processSlotTransactions": true}
	var fns []*core.Func
	seenFn := map[*core.Func]bool{}
	for _, k := range scope {
		var f *core.Func
		if required[k] {
			f = r.Anchor(rule, k)
		} else {
			f = p.Fn(k)
		}
		if f == nil {
			continue
		}
		if !seenFn[f] {
			seenFn[f] = true
			fns = append(fns, f)
		}
		if k == "main.(*MultiEpoch).handleGetSignaturesForAddress" {
			for _, h := range pkgScope(p, f, 2) {
				if h.Lit == nil && !seenFn[h] {
					seenFn[h] = true
					fns = append(fns, h)
				}
			}
		}
	}
	for _, f := range fns {
		for _, fn := range f.AllWithLits() {
			i := 0
			for rs, eff := range mapRangeEffectsOrdered(p, fn) {
				_ = rs
				_ = eff
				i++
			}
			_ = i
		}
		// deterministic iteration over range statements in source order
		for _, fn := range f.AllWithLits() {
			effs := mapRangeEffects(p, fn)
			var list []*ast.RangeStmt
			for rs := range effs {
				list = append(list, rs)
			}
			for i := 0; i < len(list); i++ {
				for j := i + 1; j < len(list); j++ {
					if list[j].Pos() < list[i].Pos() {
						list[i], list[j] = list[j], list[i]
					}
				}
			}
			for i, rs := range list {
				key := fmt.Sprintf("%s#map-range@%d(%s)", fn.Key, i, core.KeyStr(fn, rs.X))
				r.Check(effs[rs] == "", rule, key, pos(r, rs), "body of the range over a map has no order-sensitive effect",
					"the result depends on Go's unspecified map iteration order: "+effs[rs])
			}
		}
	}
}

func mapRangeEffectsOrdered(p *core.Prog, f *core.Func) map[*ast.RangeStmt]string { return nil }

func c07ReaderOrder(r *core.Report) {
	readerOrderRule(r, "C07.R2", "main.(*MultiEpoch).getGsfaReadersInEpochDescendingOrder", "main.(*MultiEpoch).getGsfaReadersInEpochDescendingOrderForSlotRange")
}

// readerOrderRule: the gsfa readers handed to the multi-epoch reader are ordered newest epoch first.
func readerOrderRule(r *core.Report, rule string, keys ...string) {
	p := r.Prog
	for _, k := range keys {
		f := r.Anchor(rule, k)
		if f == nil {
			continue
		}
		anchor := f
		// find: for _, e := range S { readers = append(readers, e.gsfaReader) } and sort.Slice(S, > on .epoch) dominating it;
		// in the function itself or in a helper of the package it calls
		var found bool
		for _, f := range pkgScope(p, anchor, 1) {
			if f.Lit != nil || f.Body == nil {
				continue
			}
			info := f.Pkg.TypesInfo
			g := p.Graph(f)
			ast.Inspect(f.Body, func(n ast.Node) bool {
				rs, ok := n.(*ast.RangeStmt)
				if !ok {
					return true
				}
				appendsReader := false
				ast.Inspect(rs.Body, func(m ast.Node) bool {
					if c, ok := m.(*ast.CallExpr); ok && core.BuiltinName(info, c) == "append" && len(c.Args) >= 2 {
						if strings.Contains(core.NamedTypeName(info.TypeOf(c.Args[1])), "gsfa.GsfaReader") {
							appendsReader = true
						}
					}
					return true
				})
				if !appendsReader {
					return true
				}
				found = true
				so := core.ObjOf(info, rs.X)
				_, isMap := info.TypeOf(rs.X).Underlying().(*types.Map)
				key := anchor.Key + "#reader-list"
				if isMap || so == nil {
					r.Violation(rule, key, pos(r, rs), "the reader list is built by ranging over "+core.ExprStr(rs.X)+" which is not a sorted slice")
					return true
				}
				rn := g.NodeOf(rs.X.Pos())
				ok2, why := orderedSlice(p, f, so, rn, token.GTR, 0)
				if !ok2 && f != anchor {
					// the helper builds the list in the order of a slice it is handed: the order is established by the caller
					for pi := 0; f.ParamObj(pi) != nil; pi++ {
						if types.Object(f.ParamObj(pi)) != so {
							continue
						}
						ai := anchor.Pkg.TypesInfo
						ag := p.Graph(anchor)
						nCalls, allOrdered := 0, true
						for _, cn := range stmtNodes(ag) {
							for _, c := range nodeCalls(cn) {
								if fo := core.Callee(ai, c); fo == nil || p.ByObj[fo.Origin()] != f || pi >= len(c.Args) {
									continue
								}
								nCalls++
								arg := core.Unparen(c.Args[pi])
								okArg := false
								if ac, isCall := arg.(*ast.CallExpr); isCall {
									if afo := core.Callee(ai, ac); afo != nil {
										if ah := p.ByObj[afo.Origin()]; ah != nil && ah.Body != nil {
											okArg, _ = returnsOrdered(p, ah, token.GTR, 0)
										}
									}
								} else if ao := core.ObjOf(ai, arg); ao != nil {
									okArg, _ = orderedSlice(p, anchor, ao, cn, token.GTR, 0)
								}
								allOrdered = allOrdered && okArg
							}
						}
						if nCalls > 0 && allOrdered {
							ok2, why = true, ""
						}
					}
				}
				if !ok2 {
					why = "the reader list is not built from a slice known to be ordered newest first: " + why
				}
				r.Check(ok2, rule, key, pos(r, rs), "a strict descending sort by epoch dominates the construction of the reader list", why)
				return true
			})
		}
		if !found {
			r.Undecided(rule, anchor.Key+"#reader-list", posP(r, anchor.Pos()), "loop that builds the reader list not found")
		}
	}
	// the multi-epoch iterators range over the slice of readers (not a map)
	for _, k := range []string{"gsfa.(*GsfaReaderMultiepoch).iterBeforeUntil", "gsfa.(*GsfaReaderMultiepoch).iterBeforeUntilSlot"} {
		f := r.Anchor(rule, k)
		if f == nil {
			continue
		}
		info := f.Pkg.TypesInfo
		var outer *ast.RangeStmt
		ast.Inspect(f.Body, func(n ast.Node) bool {
			if rs, ok := n.(*ast.RangeStmt); ok && outer == nil {
				outer = rs
			}
			return outer == nil
		})
		if outer == nil {
			r.Undecided(rule, f.Key+"#epoch-loop", posP(r, f.Pos()), "epoch loop not found")
			continue
		}
		_, isSlice := info.TypeOf(outer.X).Underlying().(*types.Slice)
		r.Check(isSlice, rule, f.Key+"#epoch-loop", pos(r, outer), "epochs are visited in the order of the reader slice", "the epoch loop does not range over the ordered reader slice")
	}
}

// gsfaAppendNodes returns the nodes of f that append a fetched transaction to the result map.
func resultAppends(p *core.Prog, f *core.Func) (g *core.Graph, nodes []*core.GNode, tx types.Object) {
	info := f.Pkg.TypesInfo
	g = p.Graph(f)
	returned := map[types.Object]bool{}
	for _, rn := range g.Returns() {
		if res := returnResults(rn); len(res) >= 1 {
			if o := core.ObjOf(info, res[0]); o != nil {
				returned[o] = true
			}
		}
	}
	for _, n := range stmtNodes(g) {
		as, ok := n.Ast.(*ast.AssignStmt)
		if !ok || len(as.Rhs) != 1 {
			continue
		}
		call, ok := core.Unparen(as.Rhs[0]).(*ast.CallExpr)
		if !ok || core.BuiltinName(info, call) != "append" || len(call.Args) != 2 {
			continue
		}
		// the append target is (an element of) the collection the function returns as its result
		if rid := rootIdent(as.Lhs[0]); rid == nil || !returned[info.Uses[rid]] {
			continue
		}
		nodes = append(nodes, n)
		tx = core.ObjOf(info, call.Args[1])
	}
	return
}

func c07SlotBounds(r *core.Report) {
	const rule = "C07.R3"
	p := r.Prog
	f := r.Anchor(rule, "gsfa.(*GsfaReaderMultiepoch).iterBeforeUntilSlot")
	if f == nil {
		return
	}
	info := f.Pkg.TypesInfo
	g, apps, tx := resultAppends(p, f)
	if len(apps) == 0 || tx == nil {
		r.Undecided(rule, f.Key+"#append", posP(r, f.Pos()), "append of the fetched transaction to the result not found")
		return
	}
	for _, bound := range []string{"before", "until"} {
		bo := f.ParamByName(bound)
		if bo == nil {
			r.Undecided(rule, f.Key+"#"+bound, posP(r, f.Pos()), "parameter "+bound+" not found")
			continue
		}
		for i, an := range apps {
			ok := false
			for _, fact := range g.FactsAt(an) {
				if fact.Tag != nil {
					continue
				}
				be, isBin := core.Unparen(fact.Expr).(*ast.BinaryExpr)
				if !isBin {
					continue
				}
				switch be.Op {
				case token.LSS, token.GTR, token.LEQ, token.GEQ:
				default:
					continue
				}
				mTx, slotText := core.Mentions(info, fact.Expr, tx), strings.Contains(core.ExprStr(fact.Expr), "Slot")
				// the slot may have been copied into a local first: `switch txSlot := tx.Slot; { case txSlot < int(until):`
				ast.Inspect(fact.Expr, func(m ast.Node) bool {
					id, isId := m.(*ast.Ident)
					if !isId {
						return true
					}
					v, isVar := info.Uses[id].(*types.Var)
					if !isVar || v.IsField() || isParamOf(f, v) || types.Object(v) == tx {
						return true
					}
					if d := singleDef(f, v); d != nil && core.Mentions(info, d, tx) {
						if dn := g.NodeOf(d.Pos()); dn != nil && g.Dominates(dn, an) && !reassignedBetween(g, info, dn, an, tx) {
							mTx = true
							slotText = slotText || strings.Contains(core.ExprStr(d), "Slot")
						}
					}
					return true
				})
				if core.Mentions(info, fact.Expr, bo) && mTx && slotText && g.FactFresh(fact, an) {
					ok = true
				}
			}
			r.Check(ok, rule, fmt.Sprintf("%s#append@%d/%s", f.Key, i, bound), pos(r, an.Ast),
				"the append is guarded by a comparison of the transaction's slot with `"+bound+"`",
				"the slot bound `"+bound+"` is never compared with the fetched transaction's slot on the path to the append: transactions outside the requested slot window are returned (and consume the limit)")
		}
	}
}

func c07AbsentSkipped(r *core.Report) {
	const rule = "C07.R4"
	p := r.Prog
	for _, k := range []string{"gsfa.(*GsfaReaderMultiepoch).iterBeforeUntil", "gsfa.(*GsfaReaderMultiepoch).iterBeforeUntilSlot"} {
		f := r.Anchor(rule, k)
		if f == nil {
			continue
		}
		info := f.Pkg.TypesInfo
		g := p.Graph(f)
		found := false
		for _, e := range g.Nodes {
			if e.Kind != core.KEdge || !e.Truth || e.Ast == nil {
				continue
			}
			call, ok := core.Unparen(e.Ast.(ast.Expr)).(*ast.CallExpr)
			if !ok || !strings.HasSuffix(core.CalleeName(info, call), ".IsNotFound") {
				continue
			}
			found = true
			// the not-found branch must flow back to the epoch loop head without reaching a return
			reach := g.ReachFromIncl(e, nil)
			returnsFirst := false
			// the immediate region: nodes dominated by e
			for n := range reach {
				if n.Kind == core.KStmt && g.Dominates(e, n) {
					if _, isRet := n.Ast.(*ast.ReturnStmt); isRet {
						returnsFirst = true
					}
				}
			}
			r.Check(!returnsFirst, rule, f.Key+"#not-found-branch", pos(r, call), "an address absent from one epoch continues with the next epoch",
				"the IsNotFound branch returns instead of continuing with the next epoch: an address missing from one epoch fails or truncates the whole request")
		}
		if !found {
			found = c07AbsentViaHelper(r, rule, f)
		}
		if !found {
			r.Undecided(rule, f.Key+"#not-found-branch", posP(r, f.Pos()), "IsNotFound test after the address lookup not found")
		}
	}
}

// c07AbsentViaHelper: the address lookup sits in a helper of the package that turns "not found" into a false `found`
// result (with a nil error); the caller's branch for found == false must then continue with the next epoch.
// collectsAllKeys: fn ranges over the map m and appends the key of every entry, unconditionally, to list.
func collectsAllKeys(fn *core.Func, list, m types.Object) bool {
	info := fn.Pkg.TypesInfo
	ok := false
	ast.Inspect(fn.Body, func(n ast.Node) bool {
		rs, isR := n.(*ast.RangeStmt)
		if !isR || core.ObjOf(info, rs.X) != m || rs.Key == nil {
			return true
		}
		ko := core.ObjOf(info, rs.Key)
		for _, st := range rs.Body.List {
			as, isA := st.(*ast.AssignStmt)
			if !isA || len(as.Rhs) != 1 || len(as.Lhs) != 1 || core.ObjOf(info, as.Lhs[0]) != list {
				continue
			}
			if c, isC := core.Unparen(as.Rhs[0]).(*ast.CallExpr); isC && core.BuiltinName(info, c) == "append" && len(c.Args) == 2 && core.ObjOf(info, c.Args[0]) == list && ko != nil && core.ObjOf(info, c.Args[1]) == ko {
				ok = true
			}
		}
		return true
	})
	return ok
}

func c07AbsentViaHelper(r *core.Report, rule string, f *core.Func) bool {
	p := r.Prog
	info := f.Pkg.TypesInfo
	g := p.Graph(f)
	for _, n := range stmtNodes(g) {
		as, ok := n.Ast.(*ast.AssignStmt)
		if !ok || len(as.Rhs) != 1 {
			continue
		}
		call, ok := core.Unparen(as.Rhs[0]).(*ast.CallExpr)
		if !ok {
			continue
		}
		fo := core.Callee(info, call)
		if fo == nil {
			continue
		}
		h := p.ByObj[fo.Origin()]
		if h == nil || h.Body == nil || h.Pkg != f.Pkg {
			continue
		}
		hi := h.Pkg.TypesInfo
		hg := p.Graph(h)
		var nfEdge *core.GNode
		for _, e := range hg.Nodes {
			if e.Kind != core.KEdge || !e.Truth || e.Ast == nil {
				continue
			}
			if c, ok := core.Unparen(e.Ast.(ast.Expr)).(*ast.CallExpr); ok && strings.HasSuffix(core.CalleeName(hi, c), ".IsNotFound") {
				nfEdge = e
			}
		}
		if nfEdge == nil {
			continue
		}
		// the returns of the helper under the not-found edge: nil error, and a bool result that is false there
		boolIdx := -1
		okShape := true
		nRet := 0
		for _, rn := range hg.Returns() {
			if !hg.Dominates(nfEdge, rn) {
				continue
			}
			nRet++
			if nilErr, dec := isNilErrReturn(h, rn); !dec || !nilErr {
				okShape = false
			}
			for i, e := range returnResults(rn) {
				if tv, ok := hi.Types[e]; ok && tv.Value != nil && tv.Type != nil {
					if b, isB := tv.Type.Underlying().(*types.Basic); isB && b.Info()&types.IsBoolean != 0 && tv.Value.String() == "false" {
						boolIdx = i
					}
				}
			}
		}
		if nRet == 0 {
			continue
		}
		if !okShape || boolIdx < 0 || boolIdx >= len(as.Lhs) {
			r.Undecided(rule, f.Key+"#not-found-branch", pos(r, call), "the helper "+h.Key+" reports an absent address in a way that was not recognised (expected: nil error and a false `found` result)")
			return true
		}
		foundObj := core.ObjOf(info, as.Lhs[boolIdx])
		if foundObj == nil {
			r.Violation(rule, f.Key+"#not-found-branch", pos(r, call), "the `found` result of "+h.Key+" is discarded: an address absent from one epoch is treated as present")
			return true
		}
		decided := false
		for _, e := range g.Nodes {
			if e.Kind != core.KEdge || !g.Dominates(n, e) {
				continue
			}
			isNF := false
			for _, fc := range e.Facts() {
				if fc.Tag == nil && !fc.Truth && core.ObjOf(info, fc.Expr) == foundObj {
					isNF = true
				}
			}
			if !isNF {
				continue
			}
			decided = true
			returnsFirst := false
			for m := range g.ReachFromIncl(e, nil) {
				if m.Kind == core.KStmt && g.Dominates(e, m) {
					if _, isRet := m.Ast.(*ast.ReturnStmt); isRet {
						returnsFirst = true
					}
				}
			}
			r.Check(!returnsFirst, rule, f.Key+"#not-found-branch", pos(r, call), "an address absent from one epoch ("+h.Key+" reports found == false) continues with the next epoch",
				"the branch for an address absent from this epoch returns instead of continuing with the next epoch: an address missing from one epoch fails or truncates the whole request")
		}
		if !decided {
			r.Violation(rule, f.Key+"#not-found-branch", pos(r, call), "the `found` result of "+h.Key+" is never tested: an address absent from one epoch is treated as present")
		}
		return true
	}
	return false
}

func c07WindowShape(r *core.Report) {
	const rule = "C07.R5"
	p := r.Prog
	f := r.Anchor(rule, "gsfa.(*GsfaReaderMultiepoch).iterBeforeUntil")
	if f == nil {
		return
	}
	info := f.Pkg.TypesInfo
	g, apps, _ := resultAppends(p, f)
	if len(apps) != 1 {
		r.Undecided(rule, f.Key+"#append", posP(r, f.Pos()), fmt.Sprintf("expected one append of the fetched transaction, found %d", len(apps)))
		return
	}
	an := apps[0]
	before, until, limit := f.ParamByName("before"), f.ParamByName("until"), f.ParamByName("limit")
	var reached types.Object
	ast.Inspect(f.Body, func(n ast.Node) bool {
		// the "window is open" flag: a bool local that is set to true at some point (found by role, not by name)
		if as, ok := n.(*ast.AssignStmt); ok && as.Tok == token.ASSIGN && len(as.Lhs) == 1 && len(as.Rhs) == 1 {
			if v, isV := core.ObjOf(info, as.Lhs[0]).(*types.Var); isV && !v.IsField() && types.Identical(v.Type(), types.Typ[types.Bool]) {
				if b, isB := boolConst(info, as.Rhs[0]); isB && b {
					reached = v
				}
			}
		}
		return true
	})
	facts := g.FactsAt(an)
	// (a) every way to the append passes an edge on which a test involving the limit failed (`count >= limit` not yet,
	// or `limit > 0` false: no limit) - whether the test is one condition, nested ifs or a predicate closure
	_ = facts
	limitEdges := map[*core.GNode]bool{}
	for _, d := range g.Nodes {
		if d.Kind != core.KEdge || d.Ast == nil || d.Tag != nil {
			continue
		}
		if cond, isE := d.Ast.(ast.Expr); isE {
			for _, t := range failedTests(cond, d.Truth) {
				if core.Mentions(info, t, limit) {
					limitEdges[d] = true
				}
			}
		}
	}
	okLimit := len(limitEdges) > 0 && g.PathAvoiding(g.Entry, func(x *core.GNode) bool { return x == an }, func(x *core.GNode) bool { return limitEdges[x] }) == nil
	r.Check(okLimit, rule, f.Key+"#limit-before-append", pos(r, an.Ast), "the limit test dominates the append", "no limit test dominates the append: more than `limit` entries can be returned")
	// (b) reachedBefore must be known true at the append
	okReached := false
	if reached != nil {
		for _, fc := range facts {
			if fc.Tag != nil {
				continue
			}
			if id, ok := core.Unparen(fc.Expr).(*ast.Ident); ok && info.Uses[id] == reached && fc.Truth {
				okReached = true
			}
		}
	}
	r.Check(okReached, rule, f.Key+"#reached-before-append", pos(r, an.Ast), "the append happens only after the `before` signature was passed", "entries can be appended before the `before` signature has been reached")
	// (c) exclusivity: in the iteration where sig == *before matched, the append is not reachable before the next iteration
	okExcl := false
	nMatch := 0
	derefsParam := func(n ast.Node, po types.Object) bool {
		found := false
		ast.Inspect(n, func(m ast.Node) bool {
			if st, ok := m.(*ast.StarExpr); ok && core.ObjOf(info, st.X) == po {
				found = true
			}
			return !found
		})
		return found
	}
	for _, e := range g.Nodes {
		if e.Kind != core.KEdge || !e.Truth || e.Ast == nil || before == nil {
			continue
		}
		if !derefsParam(e.Ast, before) || !strings.Contains(core.ExprStr(e.Ast), "==") {
			continue
		}
		nMatch++
		// from the match edge, the append must not be reachable without passing a loop head (continue)
		head := func(x *core.GNode) bool {
			return x.Kind == core.KBlock && (x.Block.Kind.String() == "RangeLoop" || x.Block.Kind.String() == "ForLoop")
		}
		reach := g.Reach(e, head)
		if reach[an] {
			nMatch = -1000
		}
	}
	okExcl = nMatch > 0
	r.Check(okExcl, rule, f.Key+"#before-exclusive", pos(r, an.Ast), "the entry matching `before` is itself not appended (exclusive bound)", "the entry whose signature equals `before` can be appended: the lower paging bound is not exclusive")
	// (d) until inclusive: the until test is reachable from the append within the iteration (append dominates it)
	okUntil := false
	for _, n := range g.Nodes {
		if n.Kind != core.KEdge || n.Ast == nil || until == nil || !n.Truth {
			continue
		}
		if derefsParam(n.Ast, until) && strings.Contains(core.ExprStr(n.Ast), "==") && g.Dominates(an, n) {
			okUntil = true
		}
	}
	r.Check(okUntil, rule, f.Key+"#until-inclusive", pos(r, an.Ast), "the `until` test comes after the append (inclusive bound) and ends the walk", "the `until` signature is tested before the entry is appended or not at all: the upper paging bound is not inclusive")
}

// c07LimitCountsWholeResult (C07.R6): in every history reader that takes a limit, the quantity compared with the limit
// on the way to an append is the size of the whole result (len of the appended slice, or a Count() that sums over the
// whole map), never the size of one per-epoch part of it.
func c07LimitCountsWholeResult(r *core.Report) {
	limitCountsWholeResult(r, "C07.R6", "gsfa.(*GsfaReaderMultiepoch).iterBeforeUntil", "gsfa.(*GsfaReaderMultiepoch).iterBeforeUntilSlot",
		"gsfa.(*GsfaReader).Get", "gsfa.(*GsfaReader).GetBeforeUntil")
}

func limitCountsWholeResult(r *core.Report, rule string, keys ...string) {
	p := r.Prog
	for _, key := range keys {
		f := r.Anchor(rule, key)
		if f == nil {
			continue
		}
		info := f.Pkg.TypesInfo
		limit := f.ParamByName("limit")
		if limit == nil {
			r.Undecided(rule, f.Key+"#limit", posP(r, f.Pos()), "parameter limit not found")
			continue
		}
		g, apps, _ := resultAppends(p, f)
		if len(apps) == 0 {
			// the capped append is done by a helper: res = appendUpToLimit(res, part, limit)
			nDel := 0
			for _, nd := range stmtNodes(g) {
				as, ok := nd.Ast.(*ast.AssignStmt)
				if !ok || len(as.Rhs) != 1 || len(as.Lhs) != 1 {
					continue
				}
				c, ok := core.Unparen(as.Rhs[0]).(*ast.CallExpr)
				if !ok {
					continue
				}
				fo := core.Callee(info, c)
				if fo == nil {
					continue
				}
				h := p.ByObj[fo.Origin()]
				res := core.ObjOf(info, as.Lhs[0])
				if h == nil || h.Body == nil || h.Pkg != f.Pkg || res == nil {
					continue
				}
				di, li := -1, -1
				for ai, a := range c.Args {
					if core.ObjOf(info, a) == res {
						di = ai
					}
					if core.ObjOf(info, a) == types.Object(limit) {
						li = ai
					}
				}
				if di < 0 || li < 0 {
					continue
				}
				nDel++
				okH, why := cappedAppendHelper(p, h, di, li)
				r.Check(okH, rule, fmt.Sprintf("%s#append%d-limit-counts-whole-result", f.Key, nDel-1), pos(r, as), "the helper that appends caps the number of elements by limit minus the size of the whole result",
					"the helper "+h.Key+" that appends to the result "+why+": more than `limit` entries can be returned")
			}
			if nDel == 0 {
				r.Undecided(rule, f.Key+"#append", posP(r, f.Pos()), "append to the result not found")
			}
			continue
		}
		for i, an := range apps {
			as := an.Ast.(*ast.AssignStmt)
			lhs := core.Unparen(as.Lhs[0])
			whole := true
			if ix, ok := lhs.(*ast.IndexExpr); ok {
				lhs, whole = core.Unparen(ix.X), false
			}
			base := core.ObjOf(info, lhs)
			if base == nil {
				r.Undecided(rule, fmt.Sprintf("%s#append%d", f.Key, i), pos(r, an.Ast), "result container of the append not identified")
				continue
			}
			// sizeOfWhole: does q denote the size of the whole result?
			sizeOfWhole := func(q ast.Expr) (bool, string) {
				c, ok := core.Unparen(q).(*ast.CallExpr)
				if !ok {
					return false, core.ExprStr(q)
				}
				if core.BuiltinName(info, c) == "len" && len(c.Args) == 1 {
					if core.ObjOf(info, c.Args[0]) == base && whole {
						return true, ""
					}
					return false, core.ExprStr(q)
				}
				if sel, ok := core.Unparen(c.Fun).(*ast.SelectorExpr); ok && core.ObjOf(info, sel.X) == base {
					if fn := core.Callee(info, c); fn != nil {
						if cf := p.ByObj[fn.Origin()]; cf != nil && sumsLenOverReceiver(cf) {
							return true, ""
						}
					}
				}
				return false, core.ExprStr(q)
			}
			// a running counter of the appends: starts at 0 outside every loop, is stepped by one right after every append
			// to the result (no way from an append to the next loop head or to the exit without the step) and nowhere else
			runningCount := func(q ast.Expr) bool {
				qo, isVar := core.ObjOf(info, core.Unparen(q)).(*types.Var)
				if !isVar || qo.IsField() || isParamOf(f, qo) {
					return false
				}
				inLoop := func(pos token.Pos) bool {
					in := false
					ast.Inspect(f.Body, func(m ast.Node) bool {
						switch l := m.(type) {
						case *ast.ForStmt:
							if l.Body.Pos() <= pos && pos < l.Body.End() {
								in = true
							}
						case *ast.RangeStmt:
							if l.Body.Pos() <= pos && pos < l.Body.End() {
								in = true
							}
						}
						return true
					})
					return in
				}
				steps := map[*core.GNode]bool{}
				okAll := true
				for _, nd := range stmtNodes(g) {
					switch x := nd.Ast.(type) {
					case *ast.IncDecStmt:
						if core.ObjOf(info, x.X) == types.Object(qo) {
							if x.Tok == token.INC {
								steps[nd] = true
							} else {
								okAll = false
							}
						}
					case *ast.AssignStmt:
						for i, l := range x.Lhs {
							if core.ObjOf(info, l) != types.Object(qo) {
								continue
							}
							if _, one := addsOne(info, x); one {
								steps[nd] = true
								continue
							}
							var rhs ast.Expr
							if len(x.Rhs) == len(x.Lhs) {
								rhs = x.Rhs[i]
							}
							if v, isC := core.ConstInt(info, rhs); !(rhs != nil && isC && v == 0 && !inLoop(x.Pos())) {
								okAll = false
							}
						}
					}
				}
				if !okAll || len(steps) == 0 || len(steps) != len(apps) {
					return false
				}
				stop := func(x *core.GNode) bool {
					return x == g.Exit || (x.Kind == core.KBlock && (x.Block.Kind.String() == "RangeLoop" || x.Block.Kind.String() == "ForLoop"))
				}
				for _, a2 := range apps {
					if g.PathAvoiding(a2, stop, func(x *core.GNode) bool { return steps[x] }) != nil {
						return false
					}
				}
				for st := range steps {
					dominated := false
					for _, a2 := range apps {
						if g.Dominates(a2, st) {
							dominated = true
						}
					}
					if !dominated {
						return false
					}
				}
				return true
			}
			// classify every edge that is the false outcome of a condition with a `q >= limit` conjunct
			wholeEdge := map[*core.GNode]bool{}
			classify := func(d *core.GNode) (isLimit, isWhole bool, what string) {
				if d.Kind != core.KEdge || d.Ast == nil {
					return
				}
				// the tests known to have failed on this edge: `if limit > 0 && size >= limit { break }` (false edge),
				// `for ... && !(limit > 0 && size >= limit)` (true edge), also through a local predicate closure
				var failed []ast.Expr
				if cond, isE := d.Ast.(ast.Expr); isE && d.Tag == nil {
					for _, t := range failedTests(cond, d.Truth) {
						failed = append(failed, conjuncts(t)...)
					}
				}
				for _, cj := range failed {
					be, ok := core.Unparen(cj).(*ast.BinaryExpr)
					if !ok || (be.Op != token.GEQ && be.Op != token.LEQ) {
						continue
					}
					q, l := be.X, be.Y
					if be.Op == token.LEQ {
						q, l = be.Y, be.X
					}
					if core.ObjOf(info, l) != limit {
						continue
					}
					if tv, ok := info.Types[q]; ok && tv.Value != nil {
						continue // `limit <= 0` and the like
					}
					isLimit = true
					// a snapshot of the size taken for this very test: `if n := res.Count(); limit > 0 && n >= limit {` -
					// a local with a single definition that is re-evaluated between any append and the test
					if qo, isVar := core.ObjOf(info, core.Unparen(q)).(*types.Var); isVar && !qo.IsField() && !isParamOf(f, qo) {
						if def := singleDef(f, qo); def != nil {
							if gd := g.NodeOf(def.Pos()); gd != nil && g.Dominates(gd, d) {
								fresh := true
								isApp := func(x *core.GNode) bool {
									for _, a2 := range apps {
										if a2 == x {
											return true
										}
									}
									return false
								}
								if g.PathAvoiding(gd, isApp, func(x *core.GNode) bool { return x == d }) != nil {
									fresh = false
								}
								for _, a2 := range apps {
									if g.PathAvoiding(a2, func(x *core.GNode) bool { return x == d }, func(x *core.GNode) bool { return x == gd }) != nil {
										fresh = false
									}
								}
								if fresh {
									q = def
								}
							}
						}
					}
					if ok, w := sizeOfWhole(q); ok || runningCount(q) {
						isWhole = true
					} else {
						what = w
					}
				}
				return
			}
			found, bad := false, ""
			// the edge on which `limit > 0` alone failed: there is no limit to enforce
			noLimit := func(d *core.GNode) bool {
				if d.Kind != core.KEdge || d.Ast == nil || d.Tag != nil {
					return false
				}
				cond, isE := d.Ast.(ast.Expr)
				if !isE {
					return false
				}
				for _, t := range failedTests(cond, d.Truth) {
					be, ok := core.Unparen(t).(*ast.BinaryExpr)
					if !ok {
						continue
					}
					x, y, op := be.X, be.Y, be.Op
					if core.ObjOf(info, y) == limit {
						x, y = y, x
						op = map[token.Token]token.Token{token.LSS: token.GTR, token.GTR: token.LSS, token.LEQ: token.GEQ, token.GEQ: token.LEQ}[op]
					}
					if core.ObjOf(info, x) != limit {
						continue
					}
					if v, isC := core.ConstInt(info, y); isC && ((op == token.GTR && v == 0) || (op == token.GEQ && v == 1) || (op == token.NEQ && v == 0)) {
						return true
					}
				}
				return false
			}
			passed := map[*core.GNode]bool{}
			for _, d := range g.Nodes {
				if isL, isW, _ := classify(d); isL && isW {
					wholeEdge[d] = true
					passed[d] = true
				}
				if noLimit(d) {
					passed[d] = true
				}
			}
			for _, d := range g.Dominators(an) {
				isL, isW, what := classify(d)
				if isL && !isW {
					bad = what
				}
			}
			// every way to the append passes a whole-result limit test that failed (or the test that there is no limit)
			found = len(wholeEdge) > 0 && g.PathAvoiding(g.Entry, func(x *core.GNode) bool { return x == an }, func(x *core.GNode) bool { return passed[x] }) == nil
			// ... and so does every way from one append to the next
			if found && bad == "" {
				reach := g.Reach(an, func(n *core.GNode) bool { return passed[n] })
				if reach[an] {
					found, bad = false, "nothing on some way from one append to the next"
				}
			}
			k := fmt.Sprintf("%s#append%d-limit-counts-whole-result", f.Key, i)
			switch {
			case found && bad == "":
				r.OK(rule, k, pos(r, an.Ast), "the limit is compared with the size of the whole result before the append")
			case bad != "":
				r.Violation(rule, k, pos(r, an.Ast), "the limit is compared with "+bad+", which is not the size of the whole result: more than `limit` entries can be returned across epochs")
			default:
				r.Violation(rule, k, pos(r, an.Ast), "no `size >= limit` test on the whole result dominates the append")
			}
		}
	}
}

// failedTests returns the sub-conditions that are known to be false, each as a whole, when cond has the given outcome.
func failedTests(cond ast.Expr, truth bool) []ast.Expr {
	cond = core.Unparen(cond)
	switch c := cond.(type) {
	case *ast.UnaryExpr:
		if c.Op == token.NOT {
			return failedTests(c.X, !truth)
		}
	case *ast.BinaryExpr:
		if (c.Op == token.LAND && truth) || (c.Op == token.LOR && !truth) {
			return append(failedTests(c.X, truth), failedTests(c.Y, truth)...)
		}
	}
	if !truth {
		return []ast.Expr{cond}
	}
	return nil
}

func conjuncts(e ast.Expr) []ast.Expr {
	e = core.Unparen(e)
	if be, ok := e.(*ast.BinaryExpr); ok && be.Op == token.LAND {
		return append(conjuncts(be.X), conjuncts(be.Y)...)
	}
	return []ast.Expr{e}
}

// sumsLenOverReceiver: the method ranges over its receiver and adds len(value) of every element to the returned counter.
func sumsLenOverReceiver(f *core.Func) bool {
	if f.Decl == nil || f.Decl.Recv == nil || len(f.Decl.Recv.List) == 0 || len(f.Decl.Recv.List[0].Names) == 0 || f.Body == nil {
		return false
	}
	info := f.Pkg.TypesInfo
	recv := info.Defs[f.Decl.Recv.List[0].Names[0]]
	ok := false
	ast.Inspect(f.Body, func(n ast.Node) bool {
		rs, isR := n.(*ast.RangeStmt)
		if !isR || core.ObjOf(info, rs.X) != recv || rs.Value == nil {
			return true
		}
		val := core.ObjOf(info, rs.Value)
		for _, st := range rs.Body.List {
			_, addend, isAdd := addStep(info, st)
			if !isAdd || addend == nil {
				continue
			}
			if c, isC := core.Unparen(addend).(*ast.CallExpr); isC && core.BuiltinName(info, c) == "len" && len(c.Args) == 1 && core.ObjOf(info, c.Args[0]) == val {
				ok = true
			}
		}
		return true
	})
	// no early exit from the loop
	ast.Inspect(f.Body, func(n ast.Node) bool {
		if b, isB := n.(*ast.BranchStmt); isB && (b.Tok == token.BREAK || b.Tok == token.GOTO) {
			ok = false
		}
		return true
	})
	return ok
}

// c07OptionPointersDistinct (C07.R7): the request parser must give `before` and `until` (and every other optional
// pointer field of the parsed parameters) storage of their own: the address of one local variable is never stored in
// two different fields of the result, otherwise the two bounds of the window collapse into the value parsed last.
func c07OptionPointersDistinct(r *core.Report) {
	const rule = "C07.R7"
	f := r.Anchor(rule, "main.parseGetSignaturesForAddressParams")
	if f == nil {
		return
	}
	info := f.Pkg.TypesInfo
	type store struct {
		field string
		at    ast.Node
	}
	byVar := map[types.Object][]store{}
	nPtr := 0
	ast.Inspect(f.Body, func(n ast.Node) bool {
		as, ok := n.(*ast.AssignStmt)
		if !ok {
			return true
		}
		for i, l := range as.Lhs {
			sel, ok := core.Unparen(l).(*ast.SelectorExpr)
			if !ok {
				continue
			}
			if _, isPtr := info.TypeOf(l).(*types.Pointer); !isPtr {
				continue
			}
			nPtr++
			if len(as.Lhs) != len(as.Rhs) {
				continue // result of a helper call: not the address of a local of this function
			}
			if u, ok := core.Unparen(as.Rhs[i]).(*ast.UnaryExpr); ok && u.Op == token.AND {
				if o := core.ObjOf(info, u.X); o != nil {
					byVar[o] = append(byVar[o], store{core.ExprStr(sel), as})
				}
			}
		}
		return true
	})
	if nPtr == 0 {
		r.Undecided(rule, f.Key+"#pointer-fields", posP(r, f.Pos()), "no assignment to an optional pointer field found")
		return
	}
	n := 0
	for o, ss := range byVar {
		fields := map[string]bool{}
		for _, s := range ss {
			fields[s.field] = true
		}
		n++
		k := fmt.Sprintf("%s#address-of:%s@%s", f.Key, tokenOrName(f, o), ss[0].field)
		if len(fields) > 1 {
			var names []string
			for fn := range fields {
				names = append(names, fn)
			}
			sort.Strings(names)
			r.Violation(rule, k, pos(r, ss[len(ss)-1].at), "the address of one variable ("+o.Name()+") is stored in "+strings.Join(names, " and ")+": both options end up with the value parsed last, so the window [before, until] is wrong whenever both are given")
		} else {
			r.OK(rule, k, pos(r, ss[0].at), "the option field points to a variable of its own")
		}
	}
	if n == 0 {
		r.OK(rule, f.Key+"#no-address-of-locals", posP(r, f.Pos()), "no optional field points at a local variable")
	}
}

// rangeSelectionInclusive: the epochs kept for a slot range [startSlot, endSlot] (both ends belong to the range - the
// streaming path asks the index for slots before endSlot+1) are selected by comparisons that admit equality with
// quantities derived from either bound. A strict comparison drops the epoch whose first (or last) slot is exactly the
// bound, and with it every transaction of that slot.
func rangeSelectionInclusive(r *core.Report, rule string) {
	p := r.Prog
	f := r.Anchor(rule, "main.(*MultiEpoch).getGsfaReadersInEpochDescendingOrderForSlotRange")
	if f == nil {
		return
	}
	start, end := f.ParamByName("startSlot"), f.ParamByName("endSlot")
	if start == nil || end == nil {
		r.Undecided(rule, f.Key+"#range-params", posP(r, f.Pos()), "parameters startSlot / endSlot not found")
		return
	}
	var analyze func(fn *core.Func, bounds map[types.Object]bool, depth int) int
	analyze = func(fn *core.Func, bounds map[types.Object]bool, depth int) int {
		info := fn.Pkg.TypesInfo
		g := p.Graph(fn)
		var seeds []types.Object
		for o := range bounds {
			seeds = append(seeds, o)
		}
		tb := taintFrom(fn, seeds...)
		for o := range bounds {
			tb[o] = true
		}
		n := 0
		for _, node := range stmtNodes(g) {
			as, ok := node.Ast.(*ast.AssignStmt)
			if !ok || len(as.Rhs) != 1 {
				continue
			}
			c, ok := core.Unparen(as.Rhs[0]).(*ast.CallExpr)
			if !ok || core.BuiltinName(info, c) != "append" || len(c.Args) != 2 {
				continue
			}
			if !strings.Contains(core.NamedTypeName(info.TypeOf(c.Args[1])), "Epoch") {
				continue
			}
			nb := 0
			bad := ""
			for _, fc := range g.FactsAt(node) {
				be, ok := core.Unparen(fc.Expr).(*ast.BinaryExpr)
				if !ok || fc.Tag != nil {
					continue
				}
				if !mentionsAny(info, be.X, tb, false) && !mentionsAny(info, be.Y, tb, false) {
					continue
				}
				op := be.Op
				if !fc.Truth {
					op = map[token.Token]token.Token{token.LSS: token.GEQ, token.GEQ: token.LSS, token.GTR: token.LEQ, token.LEQ: token.GTR, token.EQL: token.NEQ, token.NEQ: token.EQL}[be.Op]
				}
				switch op {
				case token.LEQ, token.GEQ:
					nb++
				case token.LSS, token.GTR:
					bad = core.ExprStr(fc.Expr)
				}
			}
			if nb == 0 && bad == "" {
				continue // an append that is not selected by the bounds
			}
			n++
			k := fmt.Sprintf("%s#selection-includes-both-bounds@%d", fn.Key, n)
			switch {
			case bad != "":
				r.Violation(rule, k, pos(r, node.Ast), "an epoch is kept only under the strict comparison ["+bad+"] with a bound of the range: the epoch whose boundary slot equals that bound is dropped and the transactions of that slot are missing from the answer")
			case nb >= 2:
				r.OK(rule, k, pos(r, node.Ast), "both bounds of the range are compared inclusively")
			default:
				r.Undecided(rule, k, pos(r, node.Ast), "only one bound of the range is compared where an epoch is selected")
			}
		}
		if n > 0 || depth >= 2 {
			return n
		}
		// the selection written as a predicate that is handed to a filtering helper:
		//   inRange := func(e *Epoch) bool { return e.Epoch() >= startEpoch && e.Epoch() <= endEpoch };  list := filtered(inRange)
		for _, lit := range fn.Lits {
			if lit.Type.Results == nil || len(lit.Type.Results.List) != 1 || len(lit.Body.List) != 1 {
				continue
			}
			rs, isRet := lit.Body.List[0].(*ast.ReturnStmt)
			if !isRet || len(rs.Results) != 1 {
				continue
			}
			if t := info.TypeOf(rs.Results[0]); t == nil || !types.Identical(t.Underlying(), types.Typ[types.Bool]) {
				continue
			}
			nb, bad := 0, ""
			for _, cj := range conjuncts(rs.Results[0]) {
				be, ok := core.Unparen(cj).(*ast.BinaryExpr)
				if !ok || (!mentionsAny(info, be.X, tb, false) && !mentionsAny(info, be.Y, tb, false)) {
					continue
				}
				switch be.Op {
				case token.LEQ, token.GEQ:
					nb++
				case token.LSS, token.GTR:
					bad = core.ExprStr(cj)
				}
			}
			if nb == 0 && bad == "" {
				continue
			}
			// the predicate is used: handed to a call whose callee keeps an element only when the predicate accepts it
			used := false
			bound := types.Object(nil)
			ast.Inspect(fn.Body, func(m ast.Node) bool {
				if as, ok := m.(*ast.AssignStmt); ok {
					for i, rhs := range as.Rhs {
						if core.Unparen(rhs) == ast.Expr(lit.Lit) && i < len(as.Lhs) {
							bound = core.ObjOf(info, as.Lhs[i])
						}
					}
				}
				return true
			})
			for _, c := range core.CallsIn(fn.Body, false) {
				for ai, a := range c.Args {
					if core.Unparen(a) != ast.Expr(lit.Lit) && (bound == nil || core.ObjOf(info, a) != bound) {
						continue
					}
					fo := core.Callee(info, c)
					if fo == nil {
						continue
					}
					h := p.ByObj[fo.Origin()]
					if h == nil || h.Body == nil || h.ParamObj(ai) == nil {
						continue
					}
					hi := h.Pkg.TypesInfo
					hg := p.Graph(h)
					for _, hn := range stmtNodes(hg) {
						has, isA := hn.Ast.(*ast.AssignStmt)
						if !isA || len(has.Rhs) != 1 {
							continue
						}
						if ac, isC := core.Unparen(has.Rhs[0]).(*ast.CallExpr); isC && core.BuiltinName(hi, ac) == "append" {
							for _, fc := range hg.FactsAt(hn) {
								if core.Mentions(hi, fc.Expr, h.ParamObj(ai)) {
									used = true
								}
							}
							for _, d := range hg.Dominators(hn) {
								if d.Kind == core.KEdge && d.Ast != nil && core.Mentions(hi, d.Ast, h.ParamObj(ai)) {
									used = true
								}
							}
						}
					}
				}
			}
			if !used {
				continue
			}
			n++
			k := fmt.Sprintf("%s#selection-includes-both-bounds@%d", fn.Key, n)
			switch {
			case bad != "":
				r.Violation(rule, k, pos(r, rs), "an epoch is kept only under the strict comparison ["+bad+"] with a bound of the range: the epoch whose boundary slot equals that bound is dropped and the transactions of that slot are missing from the answer")
			case nb >= 2:
				r.OK(rule, k, pos(r, rs), "both bounds of the range are compared inclusively (selection predicate handed to the filtering helper)")
			default:
				r.Undecided(rule, k, pos(r, rs), "only one bound of the range is compared where an epoch is selected")
			}
		}
		if n > 0 {
			return n
		}
		// the selection may live in a helper that receives values derived from the bounds
		for _, cs := range p.Calls(fn) {
			var callee *core.Func
			if len(cs.Targets) == 1 {
				callee = cs.Targets[0]
			}
			if callee == nil || callee.Body == nil || cs.In != fn {
				continue
			}
			sub := map[types.Object]bool{}
			for ai, a := range cs.Call.Args {
				if mentionsAny(info, a, tb, false) {
					if po := callee.ParamObj(ai); po != nil {
						sub[po] = true
					}
				}
			}
			if len(sub) >= 2 {
				n += analyze(callee, sub, depth+1)
			}
		}
		return n
	}
	if analyze(f, map[types.Object]bool{start: true, end: true}, 0) == 0 {
		r.Undecided(rule, f.Key+"#selection", posP(r, f.Pos()), "no append of a selected epoch found")
	}
}

// c07EveryFoundEntryAnswered (C07.R9): the response array is sized for every entry the readers returned; the loops that
// fill it must reach every one of them. The loop over the epochs that writes response[i] has no way out before its last
// element - no break, no success return - and it walks a list that covers the found epochs (built from the keys of the
// found map, or the reader list with absent epochs skipped by `continue`).
func c07EveryFoundEntryAnswered(r *core.Report) {
	const rule = "C07.R9"
	f := r.Anchor(rule, "main.(*MultiEpoch).handleGetSignaturesForAddress")
	if f == nil {
		return
	}
	info := f.Pkg.TypesInfo
	// the response slice: make([]map[string]any, countTransactions(found))
	var resp, found types.Object
	ast.Inspect(f.Body, func(n ast.Node) bool {
		as, ok := n.(*ast.AssignStmt)
		if !ok || len(as.Lhs) != 1 || len(as.Rhs) != 1 {
			return true
		}
		c, ok := core.Unparen(as.Rhs[0]).(*ast.CallExpr)
		if !ok || core.BuiltinName(info, c) != "make" || (len(c.Args) != 2 && len(c.Args) != 3) {
			return true
		}
		// make([]T, count(found))  or  make([]T, 0, count(found)) filled by append
		if cc, ok := core.Unparen(c.Args[len(c.Args)-1]).(*ast.CallExpr); ok && len(cc.Args) == 1 {
			if _, isMap := info.TypeOf(cc.Args[0]).Underlying().(*types.Map); isMap {
				resp, found = core.ObjOf(info, as.Lhs[0]), core.ObjOf(info, cc.Args[0])
			}
		}
		return true
	})
	if resp == nil || found == nil {
		r.Undecided(rule, f.Key+"#response-array", posP(r, f.Pos()), "the response array sized from the found transactions was not identified")
		return
	}
	// the outermost range loop (directly in f, not in a literal) that contains a store into resp
	var loop *ast.RangeStmt
	ast.Inspect(f.Body, func(n ast.Node) bool {
		rs, ok := n.(*ast.RangeStmt)
		if !ok || loop != nil {
			return true
		}
		stores := false
		ast.Inspect(rs.Body, func(m ast.Node) bool {
			if as, ok := m.(*ast.AssignStmt); ok {
				for i, l := range as.Lhs {
					if ix, ok := core.Unparen(l).(*ast.IndexExpr); ok && core.ObjOf(info, ix.X) == resp {
						stores = true
					}
					if core.ObjOf(info, l) == resp && i < len(as.Rhs) {
						if ac, ok := core.Unparen(as.Rhs[i]).(*ast.CallExpr); ok && core.BuiltinName(info, ac) == "append" && len(ac.Args) >= 1 && core.ObjOf(info, ac.Args[0]) == resp {
							stores = true
						}
					}
				}
			}
			return true
		})
		if stores {
			loop = rs
			return false
		}
		return true
	})
	if loop == nil {
		r.Undecided(rule, f.Key+"#fill-loop", posP(r, f.Pos()), "the loop that fills the response array was not found")
		return
	}
	bad := ""
	var walk func(n ast.Node, depth int)
	walk = func(n ast.Node, depth int) {
		ast.Inspect(n, func(m ast.Node) bool {
			switch s := m.(type) {
			case *ast.FuncLit:
				return false
			case *ast.ForStmt:
				if m != n {
					walk(s.Body, depth+1)
					return false
				}
			case *ast.RangeStmt:
				if m != n {
					walk(s.Body, depth+1)
					return false
				}
			case *ast.SwitchStmt, *ast.SelectStmt, *ast.TypeSwitchStmt:
				if m != n {
					walk(s.(ast.Node), depth+1) // an unlabelled break inside only leaves the switch
					return false
				}
			case *ast.BranchStmt:
				if s.Tok == token.BREAK && (depth == 0 || s.Label != nil) {
					bad = "leaves the loop over the epochs early (break at " + r.Prog.Rel(s.Pos()) + ")"
				}
				if s.Tok == token.GOTO {
					bad = "jumps out of the loop over the epochs (goto at " + r.Prog.Rel(s.Pos()) + ")"
				}
			}
			return true
		})
	}
	walk(loop.Body, 0)
	// coverage of the walked list
	covers := false
	lo := core.ObjOf(info, loop.X)
	if lo == found {
		covers = true
	}
	if lo != nil && collectsAllKeys(f, lo, found) {
		covers = true // list of the map's keys
	}
	// ... or the result of a helper of the package that collects the keys of the map it is handed
	listExpr := core.Unparen(loop.X)
	if lo != nil && !covers {
		if d := singleDef(f, lo); d != nil {
			listExpr = core.Unparen(d)
		}
	}
	if c, ok := listExpr.(*ast.CallExpr); ok && !covers {
		if fo := core.Callee(info, c); fo != nil {
			if h := r.Prog.ByObj[fo.Origin()]; h != nil && h.Body != nil && h.Pkg == f.Pkg {
				for ai, a := range c.Args {
					if core.ObjOf(info, a) != found || h.ParamObj(ai) == nil {
						continue
					}
					hg := r.Prog.Graph(h)
					all := true
					nRet := 0
					for _, rn := range hg.Returns() {
						res := returnResults(rn)
						if len(res) == 0 {
							all = false
							continue
						}
						nRet++
						ro := core.ObjOf(h.Pkg.TypesInfo, res[0])
						if ro == nil || !collectsAllKeys(h, ro, h.ParamObj(ai)) {
							all = false
						}
					}
					if all && nRet > 0 {
						covers = true
					}
				}
			}
		}
	}
	if !covers && lo != nil {
		// the list of epochs of the readers (second result of getGsfaReadersInEpochDescendingOrder) covers every found epoch
		if d := singleDefTuple(f, lo); d != nil && strings.HasSuffix(core.CalleeName(info, d), "getGsfaReadersInEpochDescendingOrder") {
			covers = true
		}
	}
	switch {
	case bad != "":
		r.Violation(rule, f.Key+"#fill-loop-reaches-every-epoch", pos(r, loop), "the loop that writes the response "+bad+": entries of the epochs not reached stay null in the answer")
	case !covers:
		r.Violation(rule, f.Key+"#fill-loop-reaches-every-epoch", pos(r, loop), "the loop that writes the response walks "+core.ExprStr(loop.X)+", which is not known to cover every epoch of the found transactions")
	default:
		r.OK(rule, f.Key+"#fill-loop-reaches-every-epoch", pos(r, loop), "the loop that writes the response walks every found epoch and has no early exit")
	}
}

// singleDefTuple: the call whose multi-value result defines o (a, o := call()).
func singleDefTuple(f *core.Func, o types.Object) *ast.CallExpr {
	info := f.Pkg.TypesInfo
	var out *ast.CallExpr
	ast.Inspect(f.Body, func(n ast.Node) bool {
		as, ok := n.(*ast.AssignStmt)
		if !ok || len(as.Rhs) != 1 || len(as.Lhs) < 2 {
			return true
		}
		for _, l := range as.Lhs {
			if core.ObjOf(info, l) == o {
				if c, ok := core.Unparen(as.Rhs[0]).(*ast.CallExpr); ok {
					out = c
				}
			}
		}
		return true
	})
	return out
}

// slotWalkStopsOnlyBelowRange (C07.R10 / C19.R10): the slot-window walk goes from newer to older entries and `until` is
// the lowest slot that still belongs to the window. The walk may be abandoned (break / continue of the outer loops,
// return) because of `until` only where an entry strictly below it was seen; a stop under `<= until` gives up while
// entries of the slot `until` itself may still follow in the next batch.
func slotWalkStopsOnlyBelowRange(r *core.Report, rule string) {
	p := r.Prog
	f := r.Anchor(rule, "gsfa.(*GsfaReaderMultiepoch).iterBeforeUntilSlot")
	if f == nil {
		return
	}
	info := f.Pkg.TypesInfo
	g := p.Graph(f)
	until := f.ParamByName("until")
	if until == nil {
		r.Undecided(rule, f.Key+"#until", posP(r, f.Pos()), "parameter until not found")
		return
	}
	tu := taintFrom(f, until)
	tu[until] = true
	n := 0
	_ = g
	// labelled branch statements and the conditions of the if statements around them (go/cfg turns branches into edges,
	// so the guards are read off the syntax tree)
	type guard struct {
		Expr  ast.Expr
		Truth bool
	}
	var branches []*ast.BranchStmt
	guards := map[*ast.BranchStmt][]guard{}
	var walk func(n ast.Node, gs []guard)
	walk = func(n ast.Node, gs []guard) {
		switch x := n.(type) {
		case nil:
			return
		case *ast.FuncLit:
			return
		case *ast.IfStmt:
			var conds []guard
			// predicate helpers (window.isPast(slot)) are read as the comparison they make
			xc := core.InlineCond(f, x.Cond)
			for _, fct := range core.DecomposeCond(xc, true) {
				conds = append(conds, guard{fct.Expr, fct.Truth})
			}
			walk(x.Body, append(append([]guard(nil), gs...), conds...))
			if x.Else != nil {
				var neg []guard
				for _, fct := range core.DecomposeCond(xc, false) {
					neg = append(neg, guard{fct.Expr, fct.Truth})
				}
				walk(x.Else, append(append([]guard(nil), gs...), neg...))
			}
			return
		case *ast.BranchStmt:
			if (x.Tok == token.BREAK || x.Tok == token.CONTINUE) && x.Label != nil {
				branches = append(branches, x)
				guards[x] = gs
			}
			return
		case *ast.SwitchStmt:
			// switch over a classifier helper: inside `case K:` the helper's own comparisons hold
			var earlier []guard // tag-less switch: the tests of the preceding clauses failed
			for _, cl := range x.Body.List {
				cc, isCC := cl.(*ast.CaseClause)
				if !isCC {
					continue
				}
				inner := append([]guard(nil), gs...)
				if x.Tag == nil {
					inner = append(inner, earlier...)
					if len(cc.List) == 1 {
						for _, fct := range core.DecomposeCond(core.InlineCond(f, cc.List[0]), true) {
							inner = append(inner, guard{fct.Expr, fct.Truth})
						}
					}
					for _, ce := range cc.List {
						for _, fct := range core.DecomposeCond(core.InlineCond(f, ce), false) {
							earlier = append(earlier, guard{fct.Expr, fct.Truth})
						}
					}
					for _, st := range cc.Body {
						walk(st, inner)
					}
					continue
				}
				if len(cc.List) == 1 {
					if ce := core.ClassifierCond(f, x, cc.List[0]); ce != nil {
						for _, fct := range core.DecomposeCond(ce, true) {
							inner = append(inner, guard{fct.Expr, fct.Truth})
						}
					}
				}
				for _, st := range cc.Body {
					walk(st, inner)
				}
			}
			return
		}
		ast.Inspect(n, func(m ast.Node) bool {
			if m == n || m == nil {
				return true
			}
			switch m.(type) {
			case *ast.IfStmt, *ast.BranchStmt, *ast.FuncLit, *ast.SwitchStmt:
				walk(m, gs)
				return false
			}
			return true
		})
	}
	walk(f.Body, nil)
	for _, bs := range branches {
		// guarded (directly or through a flag) by a comparison with until?
		var cmp *ast.BinaryExpr
		truth := true
		for _, fc := range guards[bs] {
			e := core.Unparen(fc.Expr)
			t := fc.Truth
			// a boolean flag assigned once from a comparison
			if id, isId := e.(*ast.Ident); isId {
				if d := singleDef(f, info.Uses[id]); d != nil {
					e = core.Unparen(d)
				}
			}
			be, isB := e.(*ast.BinaryExpr)
			if !isB || !(mentionsAny(info, be.X, tu, false) || mentionsAny(info, be.Y, tu, false)) {
				continue
			}
			switch be.Op {
			case token.LSS, token.LEQ, token.GTR, token.GEQ:
				cmp, truth = be, t
			}
		}
		if cmp == nil {
			continue
		}
		n++
		// normalise to `slot OP until` holding on this path
		op := cmp.Op
		if mentionsAny(info, cmp.X, tu, false) { // until OP slot  ->  slot OP' until
			op = map[token.Token]token.Token{token.LSS: token.GTR, token.GTR: token.LSS, token.LEQ: token.GEQ, token.GEQ: token.LEQ}[op]
		}
		if !truth {
			op = map[token.Token]token.Token{token.LSS: token.GEQ, token.GEQ: token.LSS, token.GTR: token.LEQ, token.LEQ: token.GTR}[op]
		}
		k := fmt.Sprintf("%s#stop@%d-only-strictly-below-until", f.Key, n)
		r.Check(op == token.LSS, rule, k, pos(r, bs), "the walk is abandoned only after an entry strictly below the lower bound was seen",
			"the walk is abandoned under ["+core.ExprStr(cmp)+"], which also holds for an entry of the slot `until` itself: entries of that slot in the next batch are never read and are missing from the answer")
	}
	if n == 0 {
		r.Undecided(rule, f.Key+"#stops", posP(r, f.Pos()), "no loop exit guarded by the lower bound found")
	}
}

// cappedAppendHelper: h(dst, .., limit, ..) returns dst or append(dst, ...), and every test in h that depends on the limit
// (directly or through a local computed from it) also depends on len(dst) - the size of the whole result - unless it is
// the test that there is a limit at all (limit > 0).
func cappedAppendHelper(p *core.Prog, h *core.Func, dstIdx, limitIdx int) (bool, string) {
	dst, lim := h.ParamObj(dstIdx), h.ParamObj(limitIdx)
	if dst == nil || lim == nil {
		return false, "could not be analysed"
	}
	info := h.Pkg.TypesInfo
	g := p.Graph(h)
	for _, rn := range g.Returns() {
		res := returnResults(rn)
		if len(res) != 1 {
			return false, "has a return that is neither the result nor an append to it"
		}
		e := core.Unparen(res[0])
		if core.ObjOf(info, e) == types.Object(dst) {
			continue
		}
		if c, ok := e.(*ast.CallExpr); ok && core.BuiltinName(info, c) == "append" && len(c.Args) >= 1 && core.ObjOf(info, c.Args[0]) == types.Object(dst) {
			continue
		}
		return false, "has a return that is neither the result nor an append to it"
	}
	// locals derived from the limit, and whether their derivation involves len(dst)
	derived := map[types.Object]bool{types.Object(lim): true}
	viaLenDst := map[types.Object]bool{}
	mentionsLenDst := func(e ast.Expr) bool {
		found := false
		ast.Inspect(e, func(n ast.Node) bool {
			if c, ok := n.(*ast.CallExpr); ok && core.BuiltinName(info, c) == "len" && len(c.Args) == 1 && core.ObjOf(info, c.Args[0]) == types.Object(dst) {
				found = true
			}
			if id, ok := n.(*ast.Ident); ok && viaLenDst[info.Uses[id]] {
				found = true
			}
			return !found
		})
		return found
	}
	mentionsDerived := func(e ast.Expr) bool {
		found := false
		ast.Inspect(e, func(n ast.Node) bool {
			if id, ok := n.(*ast.Ident); ok && derived[info.Uses[id]] {
				found = true
			}
			return !found
		})
		return found
	}
	for changed := true; changed; {
		changed = false
		ast.Inspect(h.Body, func(n ast.Node) bool {
			if as, ok := n.(*ast.AssignStmt); ok && len(as.Lhs) == len(as.Rhs) {
				for i, l := range as.Lhs {
					o := core.ObjOf(info, l)
					if o == nil || o == types.Object(dst) {
						continue
					}
					if mentionsDerived(as.Rhs[i]) && !derived[o] {
						derived[o] = true
						changed = true
					}
					if derived[o] && mentionsLenDst(as.Rhs[i]) && !viaLenDst[o] {
						viaLenDst[o] = true
						changed = true
					}
				}
			}
			return true
		})
	}
	nTests := 0
	for _, e := range g.Nodes {
		if e.Kind != core.KEdge || e.Ast == nil || !e.Truth {
			continue
		}
		cond, ok := e.Ast.(ast.Expr)
		if !ok {
			continue
		}
		for _, cj := range conjuncts(cond) {
			if !mentionsDerived(cj) {
				continue
			}
			// limit > 0 / limit <= 0 : is there a limit at all
			if be, ok := core.Unparen(cj).(*ast.BinaryExpr); ok {
				if x, c, isC := orientConst(info, be); isC && c == 0 && core.ObjOf(info, x) == types.Object(lim) {
					continue
				}
			}
			nTests++
			if !mentionsLenDst(cj) {
				return false, "compares the limit with [" + core.ExprStr(cj) + "], which does not involve the size of the whole result"
			}
		}
	}
	if nTests == 0 {
		return false, "never compares anything with the limit"
	}
	return true, ""
}

// helperSortsParamFirst: h sorts its i-th parameter (a slice) by a strict, recognised comparator, and that sort dominates
// every other statement of h that mentions the parameter.
func helperSortsParamFirst(p *core.Prog, h *core.Func, i int) bool {
	po := h.ParamObj(i)
	if po == nil {
		return false
	}
	info := h.Pkg.TypesInfo
	g := p.Graph(h)
	var sortNode *core.GNode
	for _, n := range stmtNodes(g) {
		for _, si := range sortCalls(info, n.Ast) {
			if si.SliceObj == types.Object(po) && si.Decided && si.Strict && sortNode == nil {
				sortNode = n
			}
		}
	}
	if sortNode == nil {
		return false
	}
	for _, n := range stmtNodes(g) {
		if n != sortNode && core.MentionsOutsideLits(info, n.Ast, po) && !g.Dominates(sortNode, n) {
			return false
		}
	}
	return true
}
