// Package rules holds the repository-specific rules, one file per property.
package rules

import (
	"go/ast"
	"go/token"
	"go/types"
	"strings"

	"yfverif/checker/internal/core"
)

// Registry maps property ids to their rule sets.
var Registry = map[string]func(*core.Report){}

// VerifDir is /verif (tables, mutants).
var VerifDir = "/verif"

func register(id string, f func(*core.Report)) { Registry[id] = f }

// helpers shared by the rules ------------------------------------------------

func pos(r *core.Report, n ast.Node) string {
	if n == nil {
		return ""
	}
	return r.Prog.Rel(n.Pos())
}

func posP(r *core.Report, p token.Pos) string { return r.Prog.Rel(p) }

// callsNamed returns the call expressions in n (not descending into literals unless deep)
// whose resolved callee has one of the given short names.
func callsNamed(info *types.Info, n ast.Node, deep bool, names ...string) []*ast.CallExpr {
	var out []*ast.CallExpr
	for _, c := range core.CallsIn(n, deep) {
		nm := core.CalleeName(info, c)
		for _, want := range names {
			if nm == want {
				out = append(out, c)
			}
		}
	}
	return out
}

// stmtNodes returns the graph's live statement nodes.
func stmtNodes(g *core.Graph) []*core.GNode {
	var out []*core.GNode
	for _, n := range g.Nodes {
		if n.Kind == core.KStmt && n.Live() {
			out = append(out, n)
		}
	}
	return out
}

// nodeCalls returns the calls inside a statement node (not into literals).
func nodeCalls(n *core.GNode) []*ast.CallExpr {
	if n.Kind != core.KStmt {
		return nil
	}
	// a RangeStmt's X / a statement: go/cfg nodes never contain nested statements except FuncLit bodies
	return core.CallsIn(n.Ast, false)
}

// isTerminating reports whether every path from n avoids reaching `target` nodes: i.e. n's
// successors all lead to function exit/abort or leave via the avoid predicate.
func leadsOnlyToExit(g *core.Graph, from *core.GNode, forbidden func(*core.GNode) bool) bool {
	r := g.ReachFromIncl(from, nil)
	for n := range r {
		if forbidden(n) {
			return false
		}
	}
	return true
}

// returnResults returns the result expressions of a return node (nil for bare return).
func returnResults(n *core.GNode) []ast.Expr {
	if rs, ok := n.Ast.(*ast.ReturnStmt); ok {
		return rs.Results
	}
	return nil
}

// errResultIndex returns the index of the last result if it has type error, else -1.
func errResultIndex(f *core.Func) int {
	var sig *types.Signature
	if f.Obj != nil {
		sig = f.Obj.Type().(*types.Signature)
	} else if tv, ok := f.Pkg.TypesInfo.Types[f.Lit]; ok {
		sig, _ = tv.Type.(*types.Signature)
	}
	if sig == nil || sig.Results().Len() == 0 {
		return -1
	}
	i := sig.Results().Len() - 1
	if core.IsErrorType(sig.Results().At(i).Type()) {
		return i
	}
	return -1
}

// isSuccessReturn reports whether the return node returns a nil error (literal nil in the error position)
// or, for single call results / named results, cannot be decided (second result false).
func isNilErrReturn(f *core.Func, n *core.GNode) (nilErr bool, decided bool) {
	rs, ok := n.Ast.(*ast.ReturnStmt)
	if !ok {
		return false, false
	}
	ei := errResultIndex(f)
	if ei < 0 {
		return true, true
	}
	if len(rs.Results) == 0 {
		// bare return: the error result is a named result; a blank name can never have been assigned
		if f.Type.Results != nil {
			fl := f.Type.Results.List
			if len(fl) > 0 {
				last := fl[len(fl)-1]
				if len(last.Names) > 0 && last.Names[len(last.Names)-1].Name == "_" {
					return true, true
				}
			}
		}
		return false, false // named results
	}
	if len(rs.Results) == 1 && ei > 0 {
		return false, false // return f() forwarding a tuple
	}
	if ei >= len(rs.Results) {
		return false, false
	}
	if core.IsNil(f.Pkg.TypesInfo, rs.Results[ei]) {
		return true, true
	}
	if call, ok := core.Unparen(rs.Results[ei]).(*ast.CallExpr); ok && !isErrorConstructor(f.Pkg.TypesInfo, call) {
		return false, false // forwards the error result of another call: may be nil
	}
	return false, true
}

// isErrorConstructor: the call builds a non-nil error (fmt.Errorf, errors.New, status.Errorf, NewErr...).
func isErrorConstructor(info *types.Info, call *ast.CallExpr) bool {
	nm := core.CalleeName(info, call)
	switch nm {
	case "fmt.Errorf", "errors.New", "google.golang.org/grpc/status.Errorf", "google.golang.org/grpc/status.Error", "errors.Join":
		return true
	}
	short := nm[strings.LastIndex(nm, ".")+1:]
	return strings.HasPrefix(short, "NewErr") || strings.HasPrefix(short, "newErr") || strings.HasPrefix(short, "newTxMetaError")
}

func contains(ss []string, s string) bool {
	for _, x := range ss {
		if x == s {
			return true
		}
	}
	return false
}

// definitelyErrorReturn: the return yields a non-nil error for sure: a call/composite in the error position
// (fmt.Errorf, errors.New, status.Errorf ...) or an error variable that a dominating fact knows to be non-nil.
func definitelyErrorReturn(g *core.Graph, f *core.Func, rn *core.GNode) bool {
	rs, ok := rn.Ast.(*ast.ReturnStmt)
	if !ok {
		return false
	}
	ei := errResultIndex(f)
	if ei < 0 || len(rs.Results) != ei+1 {
		return false
	}
	info := f.Pkg.TypesInfo
	e := core.Unparen(rs.Results[ei])
	if core.IsNil(info, e) {
		return false
	}
	if call, ok := e.(*ast.CallExpr); ok && !isErrorConstructor(info, call) {
		return false
	}
	if o := core.ObjOf(info, e); o != nil {
		if v, isVar := o.(*types.Var); isVar {
			if v.Parent() != nil && v.Pkg() != nil && v.Parent() == v.Pkg().Scope() {
				return true // package-level sentinel error (io.EOF, ErrNotFound ...)
			}
			// `return nil, 0, err`: every other result is a zero literal - the error-return convention
			allZero := true
			for i, r := range rs.Results {
				if i == ei {
					continue
				}
				r = core.Unparen(r)
				if core.IsNil(info, r) {
					continue
				}
				if tv, ok := info.Types[r]; ok && tv.Value != nil {
					s := tv.Value.ExactString()
					if s == "0" || s == "false" || s == `""` {
						continue
					}
				}
				if cl, ok := r.(*ast.CompositeLit); ok && len(cl.Elts) == 0 {
					continue
				}
				allZero = false
			}
			if allZero && len(rs.Results) > 1 {
				return true
			}
			for _, fc := range g.FactsAt(rn) {
				if x, eq, ok := core.NilCompare(info, fc.Expr); ok && fc.Tag == nil && fc.Unless == nil && core.ObjOf(info, x) == o && eq != fc.Truth && g.FactFresh(fc, rn) {
					return true
				}
			}
			return false
		}
	}
	return true
}

// tokenOrName: the canonical token of a local variable of f (core/canon.go), or the object's name for anything else.
func tokenOrName(f *core.Func, o types.Object) string {
	if o == nil {
		return "?"
	}
	if t := core.LocalToken(f, o); t != "" {
		return t
	}
	return o.Name()
}

func init() {
	// parameter roles of anchored functions, by position (confirmed on the pinned tree; see core.ParamRoles)
	history := map[string]int{"limit": 2, "before": 3, "until": 4}
	core.ParamRoles["slottools.CalcEpochForSlot"] = map[string]int{"slot": 0}
	core.ParamRoles["gsfa.(*GsfaReader).Get"] = map[string]int{"limit": 2}
	core.ParamRoles["gsfa.(*GsfaReaderMultiepoch).Get"] = map[string]int{"limit": 2}
	for _, k := range []string{"gsfa.(*GsfaReader).GetBeforeUntil", "gsfa.(*GsfaReaderMultiepoch).GetBeforeUntil", "gsfa.(*GsfaReaderMultiepoch).GetBeforeUntilSlot",
		"gsfa.(*GsfaReaderMultiepoch).iterBeforeUntil", "gsfa.(*GsfaReaderMultiepoch).iterBeforeUntilSlot"} {
		core.ParamRoles[k] = history
	}
	core.ParamRoles["main.(*MultiEpoch).getGsfaReadersInEpochDescendingOrderForSlotRange"] = map[string]int{"startSlot": 1, "endSlot": 2}
	core.ParamRoles["main.(*MultiEpoch).findEpochNumberFromSignature"] = map[string]int{"sig": 1}
	core.ParamRoles["main.(*MultiEpoch).processSlotTransactions"] = map[string]int{"startSlot": 2, "endSlot": 3, "filter": 4}
	core.ParamRoles["split-car-fetcher.NewMultiReaderAt"] = map[string]int{"readers": 0, "sizes": 1}
	core.ParamRoles["gsfa/linkedlog.(*LinkedLog).ReadWithSize"] = map[string]int{"offset": 0, "size": 1}
	core.ParamRoles["compactindexsized.(*Builder).Insert"] = map[string]int{"key": 0, "value": 1}
}

// addStep recognises every spelling of "add to a place":  p += e,  p = p + e,  p = e + p,  p++.
// It returns the place, the addend (nil for p++, which adds the constant 1) and ok.
func addStep(info *types.Info, st ast.Node) (place ast.Expr, addend ast.Expr, ok bool) {
	switch s := st.(type) {
	case *ast.IncDecStmt:
		if s.Tok == token.INC {
			return s.X, nil, true
		}
	case *ast.AssignStmt:
		if len(s.Lhs) != 1 || len(s.Rhs) != 1 {
			return nil, nil, false
		}
		switch s.Tok {
		case token.ADD_ASSIGN:
			return s.Lhs[0], core.Unparen(s.Rhs[0]), true
		case token.ASSIGN:
			be, isB := core.Unparen(s.Rhs[0]).(*ast.BinaryExpr)
			if !isB || be.Op != token.ADD {
				return nil, nil, false
			}
			same := func(a, b ast.Expr) bool {
				a, b = core.Unparen(a), core.Unparen(b)
				if oa, ob := core.ObjOf(info, a), core.ObjOf(info, b); oa != nil && oa == ob {
					return core.ExprStr(a) == core.ExprStr(b)
				}
				return false
			}
			if same(s.Lhs[0], be.X) {
				return s.Lhs[0], core.Unparen(be.Y), true
			}
			if same(s.Lhs[0], be.Y) {
				return s.Lhs[0], core.Unparen(be.X), true
			}
		}
	}
	return nil, nil, false
}

// addsOne: the statement increments a place by the constant 1 (p++, p += 1, p = p + 1).
func addsOne(info *types.Info, st ast.Node) (ast.Expr, bool) {
	place, addend, ok := addStep(info, st)
	if !ok {
		return nil, false
	}
	if addend == nil {
		return place, true
	}
	if v, isC := core.ConstInt(info, addend); isC && v == 1 {
		return place, true
	}
	return nil, false
}

var swapCmpOp = map[token.Token]token.Token{token.LSS: token.GTR, token.GTR: token.LSS, token.LEQ: token.GEQ, token.GEQ: token.LEQ, token.EQL: token.EQL, token.NEQ: token.NEQ}

// orientCmp reads a comparison with the given variable on the left, whichever side it was written on:
// `i < n` and `n > i` both give (n, <).
func orientCmp(info *types.Info, be *ast.BinaryExpr, o types.Object) (other ast.Expr, op token.Token, ok bool) {
	if _, isCmp := swapCmpOp[be.Op]; !isCmp || o == nil {
		return nil, 0, false
	}
	if core.ObjOf(info, stripConvs(info, be.X)) == o {
		return be.Y, be.Op, true
	}
	if core.ObjOf(info, stripConvs(info, be.Y)) == o {
		return be.X, swapCmpOp[be.Op], true
	}
	return nil, 0, false
}

// orientCmpBy is orientCmp with the left side chosen by a predicate on the operand.
func orientCmpBy(be *ast.BinaryExpr, isLeft func(ast.Expr) bool) (left, right ast.Expr, op token.Token, ok bool) {
	if _, isCmp := swapCmpOp[be.Op]; !isCmp {
		return nil, nil, 0, false
	}
	if isLeft(be.X) {
		return be.X, be.Y, be.Op, true
	}
	if isLeft(be.Y) {
		return be.Y, be.X, swapCmpOp[be.Op], true
	}
	return nil, nil, 0, false
}

// constOnRight returns the comparison with its constant operand on the right (`Max < len(x)` reads `len(x) > Max`);
// other expressions are returned unchanged.
func constOnRight(info *types.Info, be *ast.BinaryExpr) *ast.BinaryExpr {
	op, isCmp := swapCmpOp[be.Op]
	if !isCmp {
		return be
	}
	isConst := func(e ast.Expr) bool {
		tv, ok := info.Types[core.Unparen(e)]
		return ok && tv.Value != nil
	}
	if isConst(be.X) && !isConst(be.Y) {
		return &ast.BinaryExpr{X: be.Y, OpPos: be.OpPos, Op: op, Y: be.X}
	}
	return be
}
