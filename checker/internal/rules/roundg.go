package rules

import (
	"fmt"
	"go/ast"
	"go/constant"
	"go/token"
	"go/types"
	"strings"

	"yfverif/checker/internal/core"
)

// readersImmutableAfterConstruction (C03.R5): the address-index readers answer from the files alone. Their fields are set
// when the reader is built (a function without receiver that returns the reader, or a composite literal) and by Close;
// no lookup path stores anything in them - with or without a mutex. A memo of "the last key and its location" kept on the
// reader answers a later request for an absent address with the previous address's history (there is no downstream check
// of the address in the linked log).
func readersImmutableAfterConstruction(r *core.Report, rule string) {
	p := r.Prog
	anchor := r.Anchor(rule, "gsfa.(*GsfaReader).Get")
	if anchor == nil {
		return
	}
	readerTypes := map[*types.TypeName]bool{}
	for _, nm := range []string{"GsfaReader", "GsfaReaderMultiepoch"} {
		if tn, ok := anchor.Pkg.Types.Scope().Lookup(nm).(*types.TypeName); ok {
			readerTypes[tn] = true
		}
	}
	isReader := func(t types.Type) bool {
		if pt, ok := t.(*types.Pointer); ok {
			t = pt.Elem()
		}
		n, ok := t.(*types.Named)
		return ok && readerTypes[n.Obj()]
	}
	// the lookup paths: the methods of the readers that take the address (a solana.PublicKey parameter), and what they reach
	// in the package
	inLookup := map[*core.Func]bool{}
	for _, top := range p.FuncsInPkg("gsfa") {
		if top.Obj == nil || top.Body == nil {
			continue
		}
		sig := top.Obj.Type().(*types.Signature)
		if sig.Recv() == nil || !isReader(sig.Recv().Type()) {
			continue
		}
		takesKey := false
		for i := 0; i < sig.Params().Len(); i++ {
			if strings.HasSuffix(sig.Params().At(i).Type().String(), "solana-go.PublicKey") {
				takesKey = true
			}
		}
		if !takesKey {
			continue
		}
		for _, sf := range pkgScope(p, top, 3) {
			inLookup[sf.Root()] = true
		}
	}
	n := 0
	for _, top := range p.FuncsInPkg("gsfa") {
		for _, f := range top.AllWithLits() {
			if f.Body == nil || strings.HasSuffix(p.FileOf(f.Pos()), "_test.go") {
				continue
			}
			info := f.Pkg.TypesInfo
			root := f.Root()
			// outside the lookup paths (constructors, Close, set-up at load time) fields may be set
			allowed := !inLookup[root]
			cnt := 0
			ast.Inspect(f.Body, func(m ast.Node) bool {
				if _, ok := m.(*ast.FuncLit); ok {
					return false
				}
				var lhs []ast.Expr
				switch x := m.(type) {
				case *ast.AssignStmt:
					lhs = x.Lhs
				case *ast.IncDecStmt:
					lhs = []ast.Expr{x.X}
				}
				for _, l := range lhs {
					e := core.Unparen(l)
					for {
						if ix, ok := e.(*ast.IndexExpr); ok {
							e = core.Unparen(ix.X)
							continue
						}
						break
					}
					sel, ok := e.(*ast.SelectorExpr)
					if !ok {
						continue
					}
					s := info.Selections[sel]
					if s == nil || s.Kind() != types.FieldVal || !isReader(s.Recv()) {
						continue
					}
					n++
					cnt++
					key := fmt.Sprintf("%s#reader-field-store@%d:%s", f.Key, cnt, sel.Sel.Name)
					r.Check(allowed, rule, key, pos(r, l), "a field of the reader is set while it is being built (or closed)",
						"a lookup path stores into the field "+sel.Sel.Name+" of the shared address-index reader: state kept from one request changes the answer of the next (a remembered location is served for a different, absent address)")
				}
				return true
			})
		}
	}
	r.Extra["gsfa_reader_field_stores"] = n
	if n == 0 {
		r.OK(rule, "gsfa#reader-field-stores", posP(r, anchor.Pos()), "the readers' fields are only set by composite literals")
	}
}

// c04HashOfTheKeyRead (C04.R11): when a bucket is mined, each key is read back from the spill file and hashed. The bytes
// hashed must be exactly the bytes that were read: the argument of the entry hash is the same expression as the buffer
// handed to io.ReadFull for the key (a shared, longer buffer hashed as a whole mixes in the tail of an earlier key, and
// which keys are then lost depends on the insertion order).
func c04HashOfTheKeyRead(r *core.Report) {
	const rule = "C04.R11"
	p := r.Prog
	for _, pk := range c04Pkgs {
		f := r.Anchor(rule, pk+".hashBucket")
		if f == nil {
			continue
		}
		n := 0
		for _, sf := range pkgScope(p, f, 1) {
			if sf.Body == nil {
				continue
			}
			info := sf.Pkg.TypesInfo
			// buffers filled by io.ReadFull(rd, X) where X is not a constant-size array slice of the fixed tuple head
			var reads []ast.Expr
			for _, c := range core.CallsIn(sf.Body, false) {
				if core.CalleeName(info, c) == "io.ReadFull" && len(c.Args) == 2 {
					reads = append(reads, core.Unparen(c.Args[1]))
				}
			}
			for _, c := range core.CallsIn(sf.Body, false) {
				nm := core.CalleeName(info, c)
				if !strings.HasSuffix(nm, ".EntryHash64") && !strings.HasSuffix(nm, ".entryHash64") {
					continue
				}
				if len(c.Args) < 2 {
					continue
				}
				n++
				arg := core.Unparen(c.Args[len(c.Args)-1])
				same := false
				for _, rd := range reads {
					if core.ExprStr(rd) == core.ExprStr(arg) {
						same = true
					}
				}
				// the key is a field of a small struct a same-package helper returns (tuple.key): the helper read the key
				// into that very field of the value it returns
				if sel, isSel := arg.(*ast.SelectorExpr); !same && isSel {
					if xo := core.ObjOf(info, sel.X); xo != nil {
						ast.Inspect(sf.Body, func(m ast.Node) bool {
							as, ok := m.(*ast.AssignStmt)
							if !ok || len(as.Rhs) != 1 {
								return true
							}
							hc, ok := core.Unparen(as.Rhs[0]).(*ast.CallExpr)
							if !ok {
								return true
							}
							for ri, l := range as.Lhs {
								if core.ObjOf(info, l) != xo {
									continue
								}
								if fo := core.Callee(info, hc); fo != nil {
									if h := p.ByObj[fo.Origin()]; h != nil && h.Body != nil && h.Pkg == sf.Pkg && helperReturnsTheBufferItReadField(p, h, ri, sel.Sel.Name) {
										same = true
									}
								}
							}
							return true
						})
					}
				}
				// the key comes out of a same-package helper that returns the very buffer it read the key into
				if !same {
					if o := core.ObjOf(info, arg); o != nil {
						ast.Inspect(sf.Body, func(m ast.Node) bool {
							as, ok := m.(*ast.AssignStmt)
							if !ok || len(as.Rhs) != 1 {
								return true
							}
							hc, ok := core.Unparen(as.Rhs[0]).(*ast.CallExpr)
							if !ok {
								return true
							}
							for ri, l := range as.Lhs {
								if core.ObjOf(info, l) != o {
									continue
								}
								fo := core.Callee(info, hc)
								if fo == nil {
									continue
								}
								h := p.ByObj[fo.Origin()]
								if h == nil || h.Body == nil || h.Pkg != sf.Pkg {
									continue
								}
								if helperReturnsTheBufferItRead(p, h, ri) {
									same = true
								}
							}
							return true
						})
					}
				}
				r.Check(same, rule, fmt.Sprintf("%s#hash-of-the-bytes-read@%d", sf.Key, n), pos(r, c), "the key hashed is the buffer the key was read into",
					"the bytes hashed ("+core.ExprStr(arg)+") are not the buffer the key was read into: with a shared or longer buffer a short key is hashed together with the tail of an earlier one and can no longer be found")
			}
		}
		if n == 0 {
			r.Undecided(rule, f.Key+"#entry-hash", posP(r, f.Pos()), "hash of the key read back from the spill file not found")
		}
	}
}

// c05DedupHasNoSentinel (C05.R9): the writer drops repeated hashes of a bucket by comparing neighbours of the sorted list.
// The comparison must be between two elements of the list (entries[i] with entries[i-1] under i > 0, or slices.Compact): a
// "previous value" variable that starts at its zero value is a sentinel - a genuine hash equal to it (0) is dropped and the
// signature is reported absent by the sealed file.
func c05DedupHasNoSentinel(r *core.Report) {
	const rule = "C05.R9"
	p := r.Prog
	for _, pk := range []string{"bucketteer", "deprecated/bucketteer"} {
		f := r.Anchor(rule, pk+".getCleanSet")
		if f == nil {
			continue
		}
		info := f.Pkg.TypesInfo
		g := p.Graph(f)
		bad := ""
		n := 0
		for _, e := range g.Nodes {
			if e.Kind != core.KEdge || e.Ast == nil || e.Tag != nil {
				continue
			}
			for _, fc := range e.Facts() {
				be, ok := core.Unparen(fc.Expr).(*ast.BinaryExpr)
				if !ok || (be.Op != token.EQL && be.Op != token.NEQ) {
					continue
				}
				for _, side := range []ast.Expr{be.X, be.Y} {
					id, isId := core.Unparen(side).(*ast.Ident)
					if !isId {
						continue
					}
					v, isVar := info.Uses[id].(*types.Var)
					if !isVar || isParamOf(f, v) {
						continue
					}
					if bt, isB := v.Type().Underlying().(*types.Basic); !isB || bt.Info()&types.IsInteger == 0 {
						continue
					}
					// a range value / key is an element of the list, not a remembered value
					isRangeVar := false
					hasZeroDef := false
					ast.Inspect(f.Body, func(m ast.Node) bool {
						switch x := m.(type) {
						case *ast.RangeStmt:
							if (x.Key != nil && core.ObjOf(info, x.Key) == types.Object(v)) || (x.Value != nil && core.ObjOf(info, x.Value) == types.Object(v)) {
								isRangeVar = true
							}
						case *ast.ValueSpec:
							for i, nm := range x.Names {
								if info.Defs[nm] == types.Object(v) {
									if len(x.Values) == 0 {
										hasZeroDef = true
									} else if c, isC := core.ConstInt(info, x.Values[i]); isC && c == 0 {
										hasZeroDef = true
									}
								}
							}
						case *ast.AssignStmt:
							if x.Tok == token.DEFINE {
								for i, l := range x.Lhs {
									if core.ObjOf(info, l) == types.Object(v) && i < len(x.Rhs) {
										if _, isC := core.ConstInt(info, x.Rhs[i]); isC {
											hasZeroDef = true
										}
									}
								}
							}
						}
						return true
					})
					if isRangeVar {
						continue
					}
					n++
					if hasZeroDef {
						bad = core.ExprStr(be) + " (" + v.Name() + " starts at a constant)"
					}
				}
			}
		}
		r.Check(bad == "", rule, f.Key+"#duplicates-are-found-by-comparing-neighbours", posP(r, f.Pos()), "no comparison of the de-duplication uses a remembered value that starts at a constant",
			"the de-duplication compares with a remembered value that starts at a constant ["+bad+"]: a genuine hash equal to that constant is taken for a repeat and dropped - the signature is then reported absent by the sealed file while the writer still reports it")
		_ = n
	}
}

// c06DedupAfterSort (C06.R10): an address is recorded once per transaction. The address list of a transaction is reduced
// with a method that is order independent (Dedupe, which sorts first) - a slices.Compact / CompactFunc, which only drops
// ADJACENT repeats, is applied only to a list that was sorted before.
func c06DedupAfterSort(r *core.Report) {
	const rule = "C06.R10"
	p := r.Prog
	f := r.Anchor(rule, "gsfa.(*GsfaWriter).Push")
	if f == nil {
		return
	}
	n := 0
	for _, sf := range pkgScope(p, f, 1) {
		if sf.Body == nil {
			continue
		}
		info := sf.Pkg.TypesInfo
		g := p.Graph(sf)
		for _, nd := range stmtNodes(g) {
			for _, c := range nodeCalls(nd) {
				nm := core.CalleeName(info, c)
				if !strings.HasSuffix(nm, "slices.Compact") && !strings.HasSuffix(nm, "slices.CompactFunc") {
					continue
				}
				n++
				// the argument (through Clone) is a variable sorted by a dominating call
				arg := core.Unparen(c.Args[0])
				for {
					if cc, ok := arg.(*ast.CallExpr); ok && strings.HasSuffix(core.CalleeName(info, cc), "slices.Clone") && len(cc.Args) == 1 {
						arg = core.Unparen(cc.Args[0])
						continue
					}
					break
				}
				o := core.ObjOf(info, arg)
				sorted := false
				if o != nil {
					for _, d := range g.Dominators(nd) {
						if d.Kind != core.KStmt {
							continue
						}
						for _, sc := range nodeCalls(d) {
							snm := core.CalleeName(info, sc)
							isSort := strings.HasSuffix(snm, ".Sort") || strings.HasPrefix(snm, "slices.Sort") || strings.HasPrefix(snm, "sort.")
							if !isSort {
								continue
							}
							onSame := false
							if sel, ok := core.Unparen(sc.Fun).(*ast.SelectorExpr); ok && core.ObjOf(info, sel.X) == o {
								onSame = true
							}
							for _, a := range sc.Args {
								if core.ObjOf(info, a) == o {
									onSame = true
								}
							}
							if onSame && !reassignedBetween(g, info, d, nd, o) {
								sorted = true
							}
						}
					}
				}
				r.Check(sorted, rule, fmt.Sprintf("%s#compact@%d-on-a-sorted-list", sf.Key, n), pos(r, c), "adjacent-duplicate removal is applied to a list sorted before",
					"slices.Compact only drops adjacent repeats and is applied to a list that was not sorted before: an address listed twice at non-adjacent positions is recorded twice for the transaction")
			}
		}
	}
	// the reduction itself must exist
	info := f.Pkg.TypesInfo
	has := n > 0
	for _, c := range core.CallsIn(f.Body, false) {
		if strings.HasSuffix(core.CalleeName(info, c), ".Dedupe") {
			has = true
		}
	}
	r.Check(has, rule, f.Key+"#address-list-is-deduplicated", posP(r, f.Pos()), "the transaction's address list is de-duplicated before it is recorded",
		"Push records the address list without removing repeats: an address that appears twice in a transaction is recorded twice")
}

// c07EveryLocationExamined (C07.R13): the slot-window walk decides entry by entry: after a linked-log record was read every
// way on to the next record passes through the loop over its locations. A shortcut that skips the whole record after
// looking at one of its entries (the newest one, say) drops the entries of that record that do fall into the window.
func c07EveryLocationExamined(r *core.Report) {
	const rule = "C07.R13"
	p := r.Prog
	n := 0
	for _, k := range []string{"gsfa.(*GsfaReaderMultiepoch).iterBeforeUntilSlot", "gsfa.(*GsfaReaderMultiepoch).iterBeforeUntil", "gsfa.(*GsfaReader).GetBeforeUntil"} {
		a := r.Anchor(rule, k)
		if a == nil {
			continue
		}
		for _, f := range pkgScope(p, a, 1) {
			if f.Body == nil {
				continue
			}
			info := f.Pkg.TypesInfo
			g := p.Graph(f)
			for _, nd := range stmtNodes(g) {
				as, ok := nd.Ast.(*ast.AssignStmt)
				if !ok || len(as.Rhs) != 1 || len(as.Lhs) < 2 {
					continue
				}
				c, ok := core.Unparen(as.Rhs[0]).(*ast.CallExpr)
				if !ok || !strings.Contains(core.CalleeName(info, c), "linkedlog.(*LinkedLog).Read") {
					continue
				}
				locs := core.ObjOf(info, as.Lhs[0])
				eo := core.ObjOf(info, as.Lhs[len(as.Lhs)-1])
				if locs == nil {
					continue
				}
				// the loop(s) over the locations
				var loops []ast.Stmt
				ast.Inspect(f.Body, func(m ast.Node) bool {
					if rs, ok := m.(*ast.RangeStmt); ok && core.ObjOf(info, rs.X) == locs {
						loops = append(loops, rs)
					}
					return true
				})
				if len(loops) == 0 {
					continue
				}
				n++
				// the slice looped over is the slice that was read: not re-sliced or replaced in between
				replaced := ""
				ast.Inspect(f.Body, func(m ast.Node) bool {
					if a2, ok := m.(*ast.AssignStmt); ok && a2 != as {
						for _, l := range a2.Lhs {
							if id, isId := core.Unparen(l).(*ast.Ident); isId && info.ObjectOf(id) == locs {
								replaced = core.ExprStr(a2)
							}
						}
					}
					return true
				})
				r.Check(replaced == "", rule, fmt.Sprintf("%s#record-read@%d-locations-kept-as-read", f.Key, n), pos(r, c), "the locations of the record are examined as they were read",
					"the slice of locations is replaced after the record was read ["+replaced+"]: entries cut away before the before / until / limit tests were applied to them are lost (a page that has to skip up to `before` inside this record comes back empty or jumps ahead)")
				inLoop := func(x *core.GNode) bool {
					if x.Kind != core.KEdge || x.Loop == nil {
						return false
					}
					for _, l := range loops {
						if x.Loop == l {
							return true
						}
					}
					return false
				}
				errEdge := func(x *core.GNode) bool {
					if x.Kind != core.KEdge || x.Ast == nil || eo == nil {
						return false
					}
					for _, fc := range x.Facts() {
						if v, eq, isNil := core.NilCompare(info, fc.Expr); isNil && core.ObjOf(info, v) == eo && eq != fc.Truth {
							return true
						}
					}
					return false
				}
				back := func(x *core.GNode) bool {
					for _, s := range x.Succs {
						if s == nd {
							return true
						}
					}
					return false
				}
				emptyEdge := func(x *core.GNode) bool {
					if x.Kind != core.KEdge || x.Ast == nil {
						return false
					}
					for _, fc := range x.Facts() {
						be, ok := core.Unparen(fc.Expr).(*ast.BinaryExpr)
						if !ok || fc.Tag != nil {
							continue
						}
						xx, c, isC := orientConst(info, be)
						if !isC || c != 0 {
							continue
						}
						if lc, ok := core.Unparen(xx).(*ast.CallExpr); ok && core.BuiltinName(info, lc) == "len" && len(lc.Args) == 1 && core.ObjOf(info, lc.Args[0]) == locs {
							if (be.Op == token.EQL && fc.Truth) || (be.Op == token.NEQ && !fc.Truth) || (be.Op == token.GTR && !fc.Truth) {
								return true
							}
						}
					}
					return false
				}
				path := g.PathAvoiding(nd, back, func(x *core.GNode) bool { return inLoop(x) || errEdge(x) || emptyEdge(x) })
				r.Check(path == nil, rule, fmt.Sprintf("%s#record-read@%d-every-location-examined", f.Key, n), pos(r, c), "the next record is read only after the loop over this record's locations was entered",
					"after a record was read the walk can go on to the next record without looking at its locations one by one: entries of the skipped record that lie inside the requested window are dropped", g.PathStrings(path)...)
			}
		}
	}
	if n == 0 {
		r.Undecided(rule, "gsfa#record-reads", "", "no record read followed by a loop over its locations found")
	}
}

// c12MarshalAcceptsWhatWasParsed (C12.R10): the gsfa manifest re-serialises the metadata it has just parsed (Meta.Bytes,
// which panics when MarshalBinary fails). That is safe only while MarshalBinary cannot reject a Meta the decoder accepted:
// the decoder reads lengths and the count as single bytes, so every rejection in MarshalBinary must be of the form
// `len(...) > C` with C >= 255. A new rejection (empty key, smaller limit) turns a crafted file into a panic.
func c12MarshalAcceptsWhatWasParsed(r *core.Report) {
	const rule = "C12.R10"
	p := r.Prog
	f := r.Anchor(rule, "indexmeta.(Meta).MarshalBinary")
	if f == nil {
		return
	}
	info := f.Pkg.TypesInfo
	g := p.Graph(f)
	n, bad := 0, ""
	for _, e := range g.Nodes {
		if e.Kind != core.KEdge || e.Ast == nil || e.Tag != nil || !onlyErrorsReachable(g, f, e) {
			continue
		}
		n++
		okEdge := false
		for _, fc := range e.Facts() {
			be, isB := core.Unparen(fc.Expr).(*ast.BinaryExpr)
			if !isB {
				continue
			}
			x, c, isC := orientConst(info, be)
			if !isC {
				continue
			}
			// x > C true / x <= C false, with x a length and C >= 255
			xs := core.ExprStr(expandLocalsIn(f, x))
			isLen := strings.HasPrefix(xs, "len(")
			gt := (be.Op == token.GTR && fc.Truth) || (be.Op == token.LEQ && !fc.Truth)
			if _, cOnLeft := core.ConstInt(info, be.X); cOnLeft {
				gt = (be.Op == token.LSS && fc.Truth) || (be.Op == token.GEQ && !fc.Truth)
			}
			if isLen && gt && c >= 255 {
				okEdge = true
			}
		}
		if !okEdge {
			bad = core.ExprStr(e.Ast.(ast.Expr))
			if !e.Truth {
				bad = "!(" + bad + ")"
			}
		}
	}
	r.Check(bad == "" && n > 0, rule, f.Key+"#rejects-only-what-the-decoder-cannot-produce", posP(r, f.Pos()), "every rejection in MarshalBinary is a length above a limit of at least 255, which single-byte lengths cannot reach",
		"MarshalBinary rejects a Meta the decoder can produce ["+bad+"]: Meta.Bytes panics on it, and the gsfa manifest re-serialises the metadata it has just parsed - a crafted manifest crashes the server at start-up")
}

// expandLocalsIn replaces a local identifier that has a single definition by that definition (one level).
func expandLocalsIn(f *core.Func, e ast.Expr) ast.Expr {
	if id, ok := core.Unparen(e).(*ast.Ident); ok {
		if o := f.Pkg.TypesInfo.Uses[id]; o != nil {
			if d := singleDef(f, o); d != nil {
				return d
			}
		}
	}
	return e
}

// c13InitOnlyWhenEmpty (C13.R6): NewManifest writes a fresh header into the file only when the file is empty. The decision
// is the file size being 0 (from Stat / getFileSize) - not the outcome of trying to parse what is there: a manifest cut
// exactly at a field boundary reads as a clean io.EOF, and treating that as "new file" overwrites it and serves an index
// without its metadata.
func c13InitOnlyWhenEmpty(r *core.Report) {
	const rule = "C13.R6"
	p := r.Prog
	f := r.Anchor(rule, "gsfa/manifest.NewManifest")
	if f == nil {
		return
	}
	info := f.Pkg.TypesInfo
	g := p.Graph(f)
	// size variables: bound from getFileSize() / Stat().Size()
	sizeVars := map[types.Object]bool{}
	for _, nd := range stmtNodes(g) {
		if as, ok := nd.Ast.(*ast.AssignStmt); ok && len(as.Rhs) == 1 {
			s := core.ExprStr(as.Rhs[0])
			if strings.Contains(s, "getFileSize()") || strings.Contains(s, ".Size()") {
				if o := core.ObjOf(info, as.Lhs[0]); o != nil {
					sizeVars[o] = true
				}
			}
		}
	}
	n := 0
	for _, nd := range stmtNodes(g) {
		for _, c := range nodeCalls(nd) {
			if !strings.HasSuffix(core.CalleeName(info, c), "manifest.writeHeader") {
				continue
			}
			n++
			guarded := false
			for _, fc := range g.FactsAt(nd) {
				be, ok := core.Unparen(fc.Expr).(*ast.BinaryExpr)
				if !ok || fc.Tag != nil || !g.FactFresh(fc, nd) {
					continue
				}
				x, cst, isC := orientConst(info, be)
				if !isC || cst != 0 || !sizeVars[core.ObjOf(info, x)] {
					continue
				}
				if (be.Op == token.EQL && fc.Truth) || (be.Op == token.NEQ && !fc.Truth) || (be.Op == token.GTR && !fc.Truth) {
					guarded = true
				}
			}
			r.Check(guarded, rule, fmt.Sprintf("%s#header-written@%d-only-into-an-empty-file", f.Key, n), pos(r, c), "a fresh header is written only when the file size is 0",
				"a fresh header is written without the file having been found empty (size == 0): a manifest truncated at a field boundary is taken for a new file, overwritten, and the index is served without its recorded metadata")
		}
	}
	if n == 0 {
		r.Undecided(rule, f.Key+"#writeHeader", posP(r, f.Pos()), "initialisation of a new manifest not found")
	}
}

// c14VerifyHashIsAFunctionOfItsArguments (C14.R9): whether a payload verifies depends on its bytes and the recorded checksum
// only. VerifyHash and the checksum functions read no package-level variable that anything in the repository writes (and
// write none): a process-wide "legacy checksum seen" switch makes the answer for one payload depend on which payloads were
// verified before it.
func c14VerifyHashIsAFunctionOfItsArguments(r *core.Report) {
	const rule = "C14.R9"
	p := r.Prog
	f := r.Anchor(rule, "ipld/ipldbindcode.VerifyHash")
	if f == nil {
		return
	}
	// package-level variables of the package that are written somewhere (assignment, ++, &v, method call Store/Swap/Add...)
	written := map[types.Object]string{}
	for _, top := range p.FuncsInPkg("ipld/ipldbindcode") {
		for _, fn := range top.AllWithLits() {
			if fn.Body == nil || strings.HasSuffix(p.FileOf(fn.Pos()), "_test.go") {
				continue
			}
			info := fn.Pkg.TypesInfo
			isPkgVar := func(e ast.Expr) types.Object {
				id, ok := core.Unparen(e).(*ast.Ident)
				if !ok {
					return nil
				}
				v, ok := info.Uses[id].(*types.Var)
				if !ok || v.Pkg() == nil || v.Parent() != v.Pkg().Scope() {
					return nil
				}
				return v
			}
			ast.Inspect(fn.Body, func(m ast.Node) bool {
				switch x := m.(type) {
				case *ast.AssignStmt:
					for _, l := range x.Lhs {
						if o := isPkgVar(l); o != nil {
							written[o] = fn.Key
						}
					}
				case *ast.IncDecStmt:
					if o := isPkgVar(x.X); o != nil {
						written[o] = fn.Key
					}
				case *ast.CallExpr:
					if sel, ok := core.Unparen(x.Fun).(*ast.SelectorExpr); ok {
						if o := isPkgVar(sel.X); o != nil {
							switch sel.Sel.Name {
							case "Store", "Swap", "CompareAndSwap", "Add", "Or", "And", "Lock", "Do":
								written[o] = fn.Key
							}
						}
					}
				}
				return true
			})
		}
	}
	for _, sf := range pkgScope(p, f, 2) {
		if sf.Body == nil {
			continue
		}
		info := sf.Pkg.TypesInfo
		bad := ""
		ast.Inspect(sf.Body, func(m ast.Node) bool {
			if id, ok := m.(*ast.Ident); ok {
				if v, ok := info.Uses[id].(*types.Var); ok && v.Pkg() != nil && v.Parent() == v.Pkg().Scope() {
					if w, isW := written[v]; isW {
						bad = v.Name() + " (written in " + w + ")"
					}
				}
			}
			return true
		})
		r.Check(bad == "", rule, sf.Key+"#depends-on-its-arguments-only", posP(r, sf.Pos()), "no package-level variable that the package writes is read or written here",
			"the verification consults mutable package-level state ["+bad+"]: whether a valid payload verifies depends on which payloads were verified before it")
	}
}

// c16HeaderBytesComeFromTheStream (C16.R8): the split command records "the bytes of the original header" so that the pieces
// can be read back as the original CAR. The buffer readHeader returns is filled by copying from the input stream only
// (io.CopyN / io.Copy / ReadFull from the reader parameter); nothing re-encodes the header into it (car.WriteHeader gives
// different bytes for a header that is valid CBOR but was not written by go-car).
func c16HeaderBytesComeFromTheStream(r *core.Report) {
	const rule = "C16.R8"
	p := r.Prog
	f := r.Anchor(rule, "main.readHeader")
	if f == nil {
		return
	}
	info := f.Pkg.TypesInfo
	g := p.Graph(f)
	src := f.ParamObj(0)
	// the buffer(s) whose bytes are returned
	bufs := map[types.Object]bool{}
	for _, rn := range g.Returns() {
		res := returnResults(rn)
		if len(res) == 0 {
			continue
		}
		ast.Inspect(res[0], func(m ast.Node) bool {
			if id, ok := m.(*ast.Ident); ok {
				if v, ok := info.Uses[id].(*types.Var); ok && !v.IsField() && v.Pkg() != nil && v.Parent() != v.Pkg().Scope() && !isParamOf(f, v) {
					if !core.IsNil(info, id) {
						bufs[v] = true
					}
				}
			}
			return true
		})
	}
	if len(bufs) == 0 || src == nil {
		r.Undecided(rule, f.Key+"#returned-buffer", posP(r, f.Pos()), "returned header buffer or input reader not identified")
		return
	}
	n, bad := 0, ""
	for _, c := range core.CallsIn(f.Body, false) {
		uses := false
		for _, a := range c.Args {
			for b := range bufs {
				if core.Mentions(info, a, b) {
					uses = true
				}
			}
		}
		if !uses {
			continue
		}
		nm := core.CalleeName(info, c)
		if core.BuiltinName(info, c) != "" || strings.HasPrefix(nm, "fmt.") || strings.HasPrefix(nm, "encoding/binary.") {
			continue // len(), error messages, decoding a prefix of the copied bytes
		}
		n++
		fromStream := false
		switch nm {
		case "io.CopyN", "io.Copy", "io.ReadFull", "io.ReadAtLeast":
			for _, a := range c.Args {
				if core.ObjOf(info, a) == types.Object(src) {
					fromStream = true
				}
			}
		}
		if !fromStream {
			bad = core.ExprStr(c.Fun)
		}
	}
	r.Check(bad == "" && n > 0, rule, f.Key+"#header-copied-from-the-stream", posP(r, f.Pos()), "the returned header buffer is filled by copying from the input stream only",
		"the header bytes recorded for the split are produced by "+bad+" instead of being copied from the input stream: a header that is valid CBOR but encoded differently (key order, integer width) is replaced by a re-encoding, and the read-back stream no longer starts with the original bytes")
}

// c19NoZeroPadding (C19.R14): the keys parsed from a request filter are exactly the parsed keys. The slice the parser
// returns starts empty and grows by append (or is cut to the number of keys stored before it is returned): a slice made
// with a non-zero length and filled by index leaves zero keys behind whenever an input is skipped - and the zero key is the
// System Program, so exclude / required / include filters then match on it.
func c19NoZeroPadding(r *core.Report) {
	const rule = "C19.R14"
	p := r.Prog
	f := r.Anchor(rule, "main.publicKeysFromBase58")
	if f == nil {
		return
	}
	info := f.Pkg.TypesInfo
	g := p.Graph(f)
	n := 0
	for i, rn := range g.Returns() {
		res := returnResults(rn)
		if len(res) == 0 || core.IsNil(info, res[0]) {
			continue
		}
		n++
		e := core.Unparen(res[0])
		good, why := false, ""
		if se, ok := e.(*ast.SliceExpr); ok && se.High != nil {
			good = true // cut to the number stored
		} else if o := core.ObjOf(info, e); o != nil {
			// every make that defines it has length 0
			good = true
			ast.Inspect(f.Body, func(m ast.Node) bool {
				as, ok := m.(*ast.AssignStmt)
				if !ok || len(as.Lhs) != len(as.Rhs) {
					return true
				}
				for k, l := range as.Lhs {
					if core.ObjOf(info, l) != o {
						continue
					}
					if c, ok := core.Unparen(as.Rhs[k]).(*ast.CallExpr); ok && core.BuiltinName(info, c) == "make" && len(c.Args) >= 2 {
						if tv, ok := info.Types[c.Args[1]]; !ok || tv.Value == nil || constant.Sign(constant.ToInt(tv.Value)) != 0 {
							good = false
							why = core.ExprStr(c)
						}
					}
				}
				return true
			})
		} else {
			good = true
		}
		r.Check(good, rule, fmt.Sprintf("%s#return@%d-holds-exactly-the-parsed-keys", f.Key, i), pos(r, rn.Ast), "the returned slice starts empty (or is cut to the number of keys stored)",
			"the returned slice is made with a non-zero length ["+why+"] and returned whole: every input that is skipped or rejected leaves a zero key in the parsed filter, and the zero key is the System Program id")
	}
	if n == 0 {
		r.Undecided(rule, f.Key+"#returns", posP(r, f.Pos()), "no return of parsed keys found")
	}
}

// onlyErrorsReachable: at least one return is reachable from the edge e and every return reachable from it is a definite
// error return (leadsToErrorOnly looks at the returns e dominates only, which is too weak inside a loop).
func onlyErrorsReachable(g *core.Graph, f *core.Func, e *core.GNode) bool {
	n := 0
	for x := range g.ReachFromIncl(e, nil) {
		if x.Kind != core.KStmt {
			continue
		}
		if _, ok := x.Ast.(*ast.ReturnStmt); ok {
			if !definitelyErrorReturn(g, f, x) {
				return false
			}
			n++
		}
	}
	return n > 0
}

// helperReturnsTheBufferItRead: every return of h that is not a definite error return yields, as result ri, an expression
// (or the named result) that is textually the buffer h handed to io.ReadFull.
func helperReturnsTheBufferItRead(p *core.Prog, h *core.Func, ri int) bool {
	info := h.Pkg.TypesInfo
	g := p.Graph(h)
	var reads []string
	for _, c := range core.CallsIn(h.Body, false) {
		if core.CalleeName(info, c) == "io.ReadFull" && len(c.Args) == 2 {
			reads = append(reads, core.ExprStr(core.Unparen(c.Args[1])))
		}
	}
	if len(reads) == 0 {
		return false
	}
	named := ""
	if h.Type.Results != nil {
		i := 0
		for _, fl := range h.Type.Results.List {
			for _, nm := range fl.Names {
				if i == ri {
					named = nm.Name
				}
				i++
			}
			if len(fl.Names) == 0 {
				i++
			}
		}
	}
	n := 0
	for _, rn := range g.Returns() {
		if definitelyErrorReturn(g, h, rn) {
			continue
		}
		res := returnResults(rn)
		got := named
		if len(res) > ri {
			got = core.ExprStr(core.Unparen(res[ri]))
		}
		if core.IsNil(info, func() ast.Expr {
			if len(res) > ri {
				return res[ri]
			}
			return ast.NewIdent("_")
		}()) {
			continue
		}
		ok := false
		for _, rd := range reads {
			if rd == got {
				ok = true
			}
		}
		if !ok {
			return false
		}
		n++
	}
	return n > 0
}

// helperReturnsTheBufferItReadField: every non-error return of h yields, as result ri, a local struct value v such that h
// handed v.<field> to io.ReadFull.
func helperReturnsTheBufferItReadField(p *core.Prog, h *core.Func, ri int, field string) bool {
	info := h.Pkg.TypesInfo
	g := p.Graph(h)
	reads := map[string]bool{}
	for _, c := range core.CallsIn(h.Body, false) {
		if core.CalleeName(info, c) == "io.ReadFull" && len(c.Args) == 2 {
			reads[core.ExprStr(core.Unparen(c.Args[1]))] = true
		}
	}
	n := 0
	for _, rn := range g.Returns() {
		if definitelyErrorReturn(g, h, rn) {
			continue
		}
		res := returnResults(rn)
		if len(res) <= ri {
			return false
		}
		id, ok := core.Unparen(res[ri]).(*ast.Ident)
		if !ok || !reads[id.Name+"."+field] {
			return false
		}
		n++
	}
	return n > 0
}
