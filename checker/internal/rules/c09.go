package rules

import (
	"fmt"
	"go/ast"
	"go/token"
	"go/types"
	"strings"

	"yfverif/checker/internal/core"
)

func init() { register("C09", C09) }

// C09 — queries and epoch reloads never deadlock and see a consistent epoch set.
func C09(r *core.Report) {
	r.Explanation = "Decides structural clauses of C09 over every function of the repository (all CFG paths, hence all interleavings that drive them): " +
		"R1 no mutex is re-acquired by a function reachable through synchronous calls while it is held (sync.RWMutex is not reentrant: a queued writer between two RLocks deadlocks); " +
		"R2 every Lock/RLock is released in the same mode on every path to the function exit; R3 the acquired-while-holding relation between distinct mutexes is acyclic; " +
		"R4 every read of MultiEpoch.epochs happens under mu (R or W) and every write under mu.Lock, in the function or at every call site of it; " +
		"R5 the epoch listing is built from map keys (duplicate free) and a strict descending sort dominates its return. " +
		"R7 single source of truth - every function that removes or replaces an entry of MultiEpoch.epochs also updates every other field of MultiEpoch that can hold an *Epoch (directly or through a same-package callee); adding a key found absent is exempt. " +
		"R7 also covers state derived from the epoch map: any field some method fills while reading the map. R7 derived state is recognised through callees (a field assigned in a function that reaches a read of the epoch map). R8 no function waits for other goroutines (JobGroup runs, FirstSuccess, errgroup / WaitGroup Wait, channel receive) while it holds the epoch-set lock: the per-epoch jobs take the same lock, and a queued writer would stop reader, writer and jobs for good. Not decided: liveness of I/O performed by queries, use-after-close of an epoch that is being replaced (exempted by the property)."
	r.Assumptions = []string{
		"call graph: static calls, interface calls resolved by CHA over the repository's named types, function values resolved one level through call-site arguments/assignments",
		"a function literal passed as an argument is assumed to be run synchronously by the callee unless the callee is go/errgroup.Go/conc pool Go",
		"two acquisitions of the same mutex field are assumed to concern the same instance (conservative)",
	}
	checkLockDiscipline(r, "C09", func(f *core.Func) bool { return true })
	checkGuardedBy(r, "C09.R4", guardedField{Type: "main.MultiEpoch", Field: "epochs", Mutex: "mu"})
	c09ListingOrder(r)
	c09SnapshotSelfChecked(r)
	c09SingleSourceOfTruth(r)
	c09NoJoinUnderEpochLock(r)
	r.Floor("C09.R7", 2)
	r.Floor("C09.R1", 4)
	r.Floor("C09.R2", 25)
	r.Floor("C09.R4", 8)
	r.Floor("C09.R5", 1)
}

// c09ListingOrder: GetEpochNumbers returns a slice filled only from the keys of a map range
// and sorted by a strict descending comparator that dominates the return.
func c09ListingOrder(r *core.Report) {
	const rule = "C09.R5"
	f := r.Anchor(rule, "main.(*MultiEpoch).GetEpochNumbers")
	if f == nil {
		return
	}
	listingOrderRule(r, rule, f, token.GTR)
}

// listingOrderRule checks, for function f returning a slice variable X: every append to X adds the key
// of a range over a map; a sort.Slice(X, strict op on X[i] vs X[j]) dominates each return of X.
func listingOrderRule(r *core.Report, rule string, f *core.Func, want token.Token) {
	info := f.Pkg.TypesInfo
	g := r.Prog.Graph(f)
	rets := g.Returns()
	if len(rets) == 0 {
		r.Undecided(rule, f.Key+"#return", pos(r, f.Body), "no return statement")
		return
	}
	for i, rn := range rets {
		res := returnResults(rn)
		if len(res) != 1 {
			r.Undecided(rule, fmt.Sprintf("%s#return@%d", f.Key, i), pos(r, rn.Ast), "return shape not recognised")
			continue
		}
		x := core.ObjOf(info, res[0])
		if call, ok := core.Unparen(res[0]).(*ast.CallExpr); ok {
			// wrapper: return helper() - the obligation moves to the helper
			if fn := core.Callee(info, call); fn != nil && r.Prog.ByObj[fn] != nil && r.Prog.ByObj[fn] != f && r.Prog.ByObj[fn].Body != nil {
				r.OK(rule, fmt.Sprintf("%s#return@%d", f.Key, i), pos(r, rn.Ast), "forwards the result of "+core.ShortFuncName(fn)+" (checked there)")
				listingOrderRule(r, rule, r.Prog.ByObj[fn], want)
				continue
			}
		}
		if x == nil {
			if core.IsNil(info, res[0]) {
				r.OK(rule, fmt.Sprintf("%s#return@%d", f.Key, i), pos(r, rn.Ast), "returns nil (empty listing)")
				continue
			}
			r.Undecided(rule, fmt.Sprintf("%s#return@%d", f.Key, i), pos(r, rn.Ast), "returned value is not a variable")
			continue
		}
		// sort dominates return
		okSort := false
		var why string
		for _, n := range stmtNodes(g) {
			for _, si := range sortCalls(info, n.Ast) {
				if si.SliceObj != x {
					continue
				}
				if !si.Decided || !si.Strict {
					why = "comparator not a strict comparison of the same key on both elements"
					continue
				}
				if si.Op != want {
					// the opposite strict order followed by slices.Reverse of the same slice
					reversed := false
					if (si.Op == token.LSS && want == token.GTR) || (si.Op == token.GTR && want == token.LSS) {
						for _, rv := range stmtNodes(g) {
							for _, c := range nodeCalls(rv) {
								if strings.HasSuffix(core.CalleeName(info, c), "slices.Reverse") && len(c.Args) == 1 && core.ObjOf(info, c.Args[0]) == x &&
									si.keyIsElement() && g.Dominates(n, rv) && g.Dominates(rv, rn) && !reassignedBetween(g, info, n, rn, x) {
									reversed = true
								}
							}
						}
					}
					if reversed {
						okSort = true
						continue
					}
					why = fmt.Sprintf("comparator orders %s, want %s", si.Op, want)
					continue
				}
				if !si.keyIsElement() {
					why = "comparator key is not the element itself: " + si.KeyI
					continue
				}
				if g.Dominates(n, rn) && !reassignedBetween(g, info, n, rn, x) {
					okSort = true
				} else {
					why = "the sort does not dominate the return (or the slice is modified after it)"
				}
			}
		}
		// the sort may sit in a helper that leaves the slice it is handed sorted: sortNewestFirst(epochs)
		if !okSort {
			for _, n := range stmtNodes(g) {
				for _, c := range nodeCalls(n) {
					fo := core.Callee(info, c)
					if fo == nil {
						continue
					}
					h := r.Prog.ByObj[fo.Origin()]
					if h == nil || h.Body == nil || h == f {
						continue
					}
					for ai, a := range c.Args {
						if core.ObjOf(info, a) != x || !helperLeavesParamSorted(r.Prog, h, ai, want) {
							continue
						}
						// ... by the element itself
						byElem := false
						for _, hn := range stmtNodes(r.Prog.Graph(h)) {
							for _, si := range sortCalls(h.Pkg.TypesInfo, hn.Ast) {
								if si.SliceObj == types.Object(h.ParamObj(ai)) && si.Decided && si.Strict && si.Op == want && si.keyIsElement() {
									byElem = true
								}
							}
						}
						if byElem && g.Dominates(n, rn) && !reassignedBetween(g, info, n, rn, x) {
							okSort = true
						}
					}
				}
			}
		}
		if why == "" {
			why = "no sort.Slice on the returned slice"
		}
		r.Check(okSort, rule, fmt.Sprintf("%s#sorted-before-return@%d", f.Key, i), pos(r, rn.Ast),
			"a strict newest-first sort of the returned slice dominates the return", "epoch listing may be returned unsorted: "+why)
		// uniqueness: every append adds a map-range key
		okUniq := true
		nApp := 0
		var bad ast.Node
		ast.Inspect(f.Body, func(m ast.Node) bool {
			as, ok := m.(*ast.AssignStmt)
			if !ok {
				return true
			}
			for li, l := range as.Lhs {
				if core.ObjOf(info, l) != x {
					continue
				}
				if li >= len(as.Rhs) {
					okUniq, bad = false, as
					continue
				}
				call, ok := core.Unparen(as.Rhs[li]).(*ast.CallExpr)
				if !ok || core.BuiltinName(info, call) != "append" || len(call.Args) != 2 || core.ObjOf(info, call.Args[0]) != x || call.Ellipsis.IsValid() {
					if mk, ok := core.Unparen(as.Rhs[li]).(*ast.CallExpr); ok && core.BuiltinName(info, mk) == "make" {
						continue
					}
					okUniq, bad = false, as
					continue
				}
				nApp++
				k := core.ObjOf(info, call.Args[1])
				rs := enclosingRange(f.Body, as)
				if rs == nil || k == nil || core.ObjOf(info, rs.Key) != k {
					okUniq, bad = false, as
					continue
				}
				if _, isMap := info.TypeOf(rs.X).Underlying().(*types.Map); !isMap {
					okUniq, bad = false, as
				}
			}
			return true
		})
		msg := "an element that is not the key of a map range is added to the listing (duplicates possible)"
		if bad != nil {
			msg += " at " + pos(r, bad)
		}
		r.Check(okUniq && nApp > 0, rule, fmt.Sprintf("%s#unique-keys@%d", f.Key, i), pos(r, rn.Ast),
			fmt.Sprintf("all %d appends add the key of a map range: elements are pairwise distinct", nApp), msg)
	}
}

// reassignedBetween reports whether obj may be assigned on a path from a to b.
func reassignedBetween(g *core.Graph, info *types.Info, a, b *core.GNode, obj types.Object) bool {
	from := g.Reach(a, nil)
	to := g.CanReach(b, func(x *core.GNode) bool { return x == a })
	for n := range from {
		if n == b || !to[n] || n.Kind != core.KStmt {
			continue
		}
		if core.AssignsObj(info, n.Ast, obj) {
			return true
		}
	}
	return false
}

// enclosingRange returns the innermost range statement of root that contains n.
func enclosingRange(root ast.Node, n ast.Node) *ast.RangeStmt {
	var best *ast.RangeStmt
	ast.Inspect(root, func(m ast.Node) bool {
		if m == nil {
			return false
		}
		if m.Pos() > n.Pos() || m.End() < n.End() {
			return false
		}
		if rs, ok := m.(*ast.RangeStmt); ok && rs.Body.Pos() <= n.Pos() && n.End() <= rs.Body.End() {
			best = rs
		}
		return true
	})
	return best
}

// c09SnapshotSelfChecked (C09.R6): the epoch set can change between two lock sections, so a decision taken on one
// snapshot must not be applied to another one. Wherever an element of an epoch-number listing is taken by index, the
// listing is a local snapshot and a test on the length of that very snapshot is known at that point; indexing the fresh
// result of the accessor directly (guarded, at best, by an earlier and separately locked count) is reported.
func c09SnapshotSelfChecked(r *core.Report) {
	const rule = "C09.R6"
	p := r.Prog
	isListing := func(info *types.Info, c *ast.CallExpr) bool {
		nm := core.CalleeName(info, c)
		return nm == "main.(*MultiEpoch).GetEpochNumbers" || nm == "main.(*MultiEpoch).getEpochNumbersNoLock"
	}
	n := 0
	for _, f := range p.FuncsInPkg("main") {
		if f.Body == nil || strings.HasSuffix(p.FileOf(f.Pos()), "_test.go") {
			continue
		}
		for _, w := range f.AllWithLits() {
			info := w.Pkg.TypesInfo
			g := p.Graph(w)
			ast.Inspect(w.Body, func(m ast.Node) bool {
				if l, ok := m.(*ast.FuncLit); ok && l != w.Lit {
					return false
				}
				ix, ok := m.(*ast.IndexExpr)
				if !ok {
					return true
				}
				base := core.Unparen(ix.X)
				if c, ok := base.(*ast.CallExpr); ok && isListing(info, c) {
					n++
					r.Violation(rule, fmt.Sprintf("%s#index-on-fresh-listing:%s", w.Key, core.KeyStr(w, ix)), pos(r, ix), "an element is taken from a fresh epoch listing ("+core.ExprStr(ix)+") that was never checked itself: whatever was tested before came from another lock section, and the epoch set may have changed in between (wrong epoch chosen, or index out of range)")
					return true
				}
				o := core.ObjOf(info, base)
				if o == nil {
					return true
				}
				d := singleDef(w, o)
				if d == nil {
					return true
				}
				c, ok := core.Unparen(d).(*ast.CallExpr)
				if !ok || !isListing(info, c) {
					return true
				}
				if inSortComparator(p, w, base, ix.Index) {
					return true // indices handed out by sort.Slice for this very slice
				}
				n++
				k := fmt.Sprintf("%s#index-on-snapshot:%s", w.Key, core.KeyStr(w, ix))
				node := g.NodeOf(ix.Pos())
				okLen := false
				if node != nil {
					for _, fc := range g.FactsAtPos(node, ix.Pos(), ix.End()) {
						if fc.Tag == nil && (strings.Contains(core.ExprStr(fc.Expr), "len("+o.Name()+")") || mentionsLenOfVia(w, fc.Expr, o)) {
							okLen = true
						}
					}
				}
				// ranging over the snapshot also bounds the index
				if !okLen {
					ast.Inspect(w.Body, func(x ast.Node) bool {
						if rs, ok := x.(*ast.RangeStmt); ok && core.ObjOf(info, rs.X) == o && rs.Pos() <= ix.Pos() && ix.End() <= rs.End() && rs.Key != nil && core.ObjOf(info, rs.Key) == core.ObjOf(info, ix.Index) {
							okLen = true
						}
						return true
					})
				}
				r.Check(okLen, rule, k, pos(r, ix), "the element is taken from a local snapshot whose own length was tested", "an element of the epoch listing snapshot "+o.Name()+" is taken without a test on the length of that snapshot")
				return true
			})
		}
	}
	if n == 0 {
		r.OK(rule, "main#no-indexing-of-epoch-listings", "", "no element of an epoch listing is taken by index")
	}
}
