package rules

import (
	"fmt"
	"go/ast"
	"go/token"
	"go/types"
	"strings"

	"yfverif/checker/internal/core"
)

// offsetInstance is one occurrence of the running-offset idiom: a loop that reads CAR sections
// with (*carreader.CarReader).Next* and advances a uint64 accumulator by the returned section length.
type offsetInstance struct {
	Fn      *core.Func
	Loop    ast.Stmt
	Read    *core.GNode
	LenObj  types.Object // section length result
	CidObj  types.Object
	Acc     types.Object // the accumulator (nil when no update was found)
	Updates []*core.GNode
	Claimed types.Object // `cur := claim(L)` form: the local that receives the accumulator's value from before the update
}

func isCarNext(nm string) bool {
	return nm == "carreader.(*CarReader).NextNode" || nm == "carreader.(*CarReader).NextNodeBytes" || nm == "carreader.(*CarReader).NextInfo"
}

// findOffsetInstances discovers the idiom by role in every function of the repository.
func findOffsetInstances(p *core.Prog) []offsetInstance {
	var out []offsetInstance
	for _, f := range p.AllFns {
		if f.Body == nil {
			continue
		}
		info := f.Pkg.TypesInfo
		hasNext := false
		for _, cs := range p.Calls(f) {
			if isCarNext(cs.Name) {
				hasNext = true
			}
		}
		if !hasNext {
			continue
		}
		g := p.Graph(f)
		for _, n := range stmtNodes(g) {
			as, ok := n.Ast.(*ast.AssignStmt)
			if !ok || len(as.Rhs) != 1 || len(as.Lhs) < 3 {
				continue
			}
			c, ok := core.Unparen(as.Rhs[0]).(*ast.CallExpr)
			if !ok || !isCarNext(core.CalleeName(info, c)) {
				continue
			}
			inst := offsetInstance{Fn: f, Read: n, CidObj: core.ObjOf(info, as.Lhs[0]), LenObj: core.ObjOf(info, as.Lhs[1])}
			// enclosing loop
			ast.Inspect(f.Body, func(m ast.Node) bool {
				switch l := m.(type) {
				case *ast.ForStmt:
					if l.Body.Pos() <= as.Pos() && as.End() <= l.Body.End() {
						inst.Loop = l // innermost wins (later assignment)
					}
				}
				return true
			})
			if inst.Loop == nil || inst.LenObj == nil {
				continue
			}
			// accumulator: V += L inside the loop
			for _, u := range stmtNodes(g) {
				ua, ok := u.Ast.(*ast.AssignStmt)
				if !ok || len(ua.Lhs) != 1 || len(ua.Rhs) != 1 {
					continue
				}
				if ua.Pos() < inst.Loop.Pos() || ua.End() > inst.Loop.End() {
					continue
				}
				// V += L, or V = V + L / V = L + V
				addend := ast.Expr(nil)
				switch ua.Tok {
				case token.ADD_ASSIGN:
					addend = ua.Rhs[0]
				case token.ASSIGN:
					if be, isB := core.Unparen(ua.Rhs[0]).(*ast.BinaryExpr); isB && be.Op == token.ADD {
						lv := core.ObjOf(info, ua.Lhs[0])
						// V itself, or a copy of V taken earlier in the same iteration (cur := V; V = cur + L) with no
						// assignment to V in between
						isOld := func(e ast.Expr) bool {
							o := core.ObjOf(info, e)
							if o == nil || lv == nil {
								return false
							}
							if o == lv {
								return true
							}
							d := singleDef(f, o)
							if d == nil || core.ObjOf(info, d) != lv || d.Pos() < inst.Loop.Pos() || d.Pos() > ua.Pos() {
								return false
							}
							dn := g.NodeOf(d.Pos())
							return dn != nil && g.Dominates(dn, u) && !reassignedBetween(g, info, dn, u, lv)
						}
						if isOld(be.X) {
							addend = be.Y
						} else if isOld(be.Y) {
							addend = be.X
						}
					}
				}
				// V = next with next := V + L computed earlier in the same iteration (V untouched in between)
				if addend == nil && ua.Tok == token.ASSIGN {
					lv := core.ObjOf(info, ua.Lhs[0])
					if wo := core.ObjOf(info, core.Unparen(ua.Rhs[0])); wo != nil && lv != nil && wo != lv {
						if d := singleDef(f, wo); d != nil && d.Pos() >= inst.Loop.Pos() && d.Pos() < ua.Pos() {
							if be, isB := core.Unparen(d).(*ast.BinaryExpr); isB && be.Op == token.ADD {
								dn := g.NodeOf(d.Pos())
								if dn != nil && g.Dominates(dn, u) && !reassignedBetween(g, info, dn, u, lv) {
									if core.ObjOf(info, be.X) == lv {
										addend = be.Y
									} else if core.ObjOf(info, be.Y) == lv {
										addend = be.X
									}
								}
							}
						}
					}
				}
				if addend == nil {
					continue
				}
				if core.ObjOf(info, addend) == inst.LenObj {
					if v := core.ObjOf(info, ua.Lhs[0]); v != nil {
						if inst.Acc == nil || inst.Acc == v {
							inst.Acc = v
							inst.Updates = append(inst.Updates, u)
						}
					}
				}
			}
			// the same step wrapped in a local closure:  cur := claim(L)  with
			//   claim := func(n uint64) uint64 { start := acc; acc = start + n; return start }
			if inst.Acc == nil {
				for _, u := range stmtNodes(g) {
					ua, ok := u.Ast.(*ast.AssignStmt)
					if !ok || len(ua.Lhs) != 1 || len(ua.Rhs) != 1 || ua.Pos() < inst.Loop.Pos() || ua.End() > inst.Loop.End() {
						continue
					}
					c, ok := core.Unparen(ua.Rhs[0]).(*ast.CallExpr)
					if !ok || len(c.Args) != 1 || core.ObjOf(info, c.Args[0]) != inst.LenObj {
						continue
					}
					cv, isV := core.ObjOf(info, c.Fun).(*types.Var)
					if !isV || cv.IsField() {
						continue
					}
					for _, lit := range p.FuncValuesOf(cv, f) {
						if acc := claimsFrom(lit); acc != nil {
							inst.Acc = acc
							inst.Updates = append(inst.Updates, u)
							inst.Claimed = core.ObjOf(info, ua.Lhs[0])
						}
					}
				}
			}
			out = append(out, inst)
		}
	}
	return out
}

// claimsFrom recognises  func(n T) T { start := acc; acc = start + n (or acc += n); return start }  and returns acc: the
// closure hands out the current value of a captured accumulator and advances it by its argument.
func claimsFrom(lit *core.Func) types.Object {
	if lit == nil || lit.Lit == nil || lit.ParamObj(0) == nil || lit.ParamObj(1) != nil || len(lit.Body.List) != 3 {
		return nil
	}
	info := lit.Pkg.TypesInfo
	n := types.Object(lit.ParamObj(0))
	def, ok1 := lit.Body.List[0].(*ast.AssignStmt)
	upd, ok2 := lit.Body.List[1].(*ast.AssignStmt)
	ret, ok3 := lit.Body.List[2].(*ast.ReturnStmt)
	if !ok1 || !ok2 || !ok3 || def.Tok != token.DEFINE || len(def.Lhs) != 1 || len(def.Rhs) != 1 || len(upd.Lhs) != 1 || len(upd.Rhs) != 1 || len(ret.Results) != 1 {
		return nil
	}
	start := core.ObjOf(info, def.Lhs[0])
	acc, isV := core.ObjOf(info, def.Rhs[0]).(*types.Var)
	if start == nil || !isV || acc.IsField() || core.ObjOf(info, upd.Lhs[0]) != types.Object(acc) || core.ObjOf(info, ret.Results[0]) != start {
		return nil
	}
	// captured: declared outside the literal
	if acc.Pos() >= lit.Lit.Pos() && acc.Pos() <= lit.Lit.End() {
		return nil
	}
	switch upd.Tok {
	case token.ADD_ASSIGN:
		if core.ObjOf(info, upd.Rhs[0]) == n {
			return acc
		}
	case token.ASSIGN:
		if be, ok := core.Unparen(upd.Rhs[0]).(*ast.BinaryExpr); ok && be.Op == token.ADD {
			x, y := core.ObjOf(info, be.X), core.ObjOf(info, be.Y)
			old := func(o types.Object) bool { return o == start || o == types.Object(acc) }
			if (old(x) && y == n) || (old(y) && x == n) {
				return acc
			}
		}
	}
	return nil
}

// checkOffsetInstance emits the obligations (a)-(e) for one instance.
func checkOffsetInstance(r *core.Report, rule string, inst offsetInstance) {
	p := r.Prog
	f := inst.Fn
	info := f.Pkg.TypesInfo
	g := p.Graph(f)
	k := f.Key
	// does the function use byte offsets at all? (a loop that only counts items has no accumulator and no offset sinks)
	usesOffsets := false
	for _, cs := range p.CallsDeep(f) {
		if strings.HasSuffix(cs.Name, "CidToOffsetAndSize_Writer).Put") || strings.HasSuffix(cs.Name, "CidToOffset_Writer).Put") {
			usesOffsets = true
		}
	}
	if inst.Acc == nil {
		if !usesOffsets && !mentionsOffsetField(f) {
			r.OK(rule, k+"#no-offsets", pos(r, inst.Read.Ast), "the loop reads sections but records no byte offsets")
			return
		}
		r.Violation(rule, k+"#advance", pos(r, inst.Read.Ast), "the loop records byte offsets but never advances an accumulator by the section length returned by the reader")
		return
	}
	acc := inst.Acc
	// (b) exactly one update
	r.Check(len(inst.Updates) == 1, rule, k+"#single-update", pos(r, inst.Updates[0].Ast), "the offset is advanced exactly once per section, by the section length the reader returned",
		fmt.Sprintf("the offset accumulator %s is advanced %d times per iteration", acc.Name(), len(inst.Updates)))
	upd := inst.Updates[0]
	// (a) initialisation: before the loop the accumulator is zero plus the CAR header size
	okInit, initWhy := false, "the accumulator does not start at the CAR header size"
	nOther := 0
	type initScope struct {
		fn    *core.Func
		g     *core.Graph
		limit token.Pos
	}
	scopes := []initScope{{f, g, inst.Loop.Pos()}}
	if v, isVar := acc.(*types.Var); isVar && v.IsField() {
		// the accumulator is a field of a cursor object handed to this function: its initialisation is in the callers,
		// before they call this function for the first time
		for _, cs := range p.Callers(f) {
			if cs.In == nil || cs.In.Pkg != f.Pkg || cs.In == f {
				continue
			}
			scopes = append(scopes, initScope{cs.In.Root(), p.Graph(cs.In.Root()), cs.Call.Pos()})
		}
	}
	for _, sc := range scopes {
		f, info := sc.fn, sc.fn.Pkg.TypesInfo
		for _, n := range stmtNodes(sc.g) {
			if n.Ast.Pos() >= sc.limit {
				continue
			}
			switch s := n.Ast.(type) {
			case *ast.AssignStmt:
				for i, l := range s.Lhs {
					if core.ObjOf(info, l) != acc {
						continue
					}
					var rhs ast.Expr
					if len(s.Rhs) == len(s.Lhs) {
						rhs = s.Rhs[i]
					}
					if s.Tok == token.DEFINE || s.Tok == token.ASSIGN {
						if c, ok := core.ConstInt(info, rhs); ok && c == 0 {
							continue
						}
						if isHeaderSizeValue(p, f, rhs) {
							okInit = true
							continue
						}
						nOther++
						initWhy = "the accumulator is initialised with " + core.ExprStr(rhs)
					}
					if _, addend, isAdd := addStep(info, s); isAdd && addend != nil && s.Tok != token.ADD_ASSIGN {
						// acc = acc + X before the loop
						if isHeaderSizeValue(p, f, addend) {
							okInit = true
							nOther-- // counted as "initialised with" above
						}
					}
					if s.Tok == token.ADD_ASSIGN {
						if isHeaderSizeValue(p, f, rhs) {
							okInit = true
						} else {
							nOther++
							initWhy = "the accumulator is advanced by " + core.ExprStr(rhs) + " before the loop"
						}
					}
				}
			case *ast.ValueSpec:
				for i, nm := range s.Names {
					if info.Defs[nm] == acc && i < len(s.Values) {
						if c, ok := core.ConstInt(info, s.Values[i]); !ok || c != 0 {
							nOther++
						}
					}
				}
			}
		}
	}
	r.Check(okInit && nOther == 0, rule, k+"#starts-at-header-size", posP(r, acc.Pos()), "the accumulator starts at (*CarReader).HeaderSize()", initWhy)
	// offset uses inside the loop
	head := g.LoopHead(inst.Loop)
	afterUpdate := g.Reach(upd, func(x *core.GNode) bool { return x == head })
	nUses := 0
	for _, n := range stmtNodes(g) {
		if n == upd || n.Ast.Pos() < inst.Loop.Pos() || n.Ast.End() > inst.Loop.End() {
			continue
		}
		viaClaim := inst.Claimed != nil && core.MentionsOutsideLits(info, n.Ast, inst.Claimed)
		if !core.MentionsOutsideLits(info, n.Ast, acc) && !viaClaim {
			continue
		}
		if isLogOnly(info, n.Ast) {
			continue
		}
		nUses++
		// (c) pre-increment value (what the claim closure returns is the value from before its update, by construction)
		r.Check(!afterUpdate[n] || (viaClaim && !core.MentionsOutsideLits(info, n.Ast, acc)), rule, fmt.Sprintf("%s#use@%d-before-update", k, nUses), pos(r, n.Ast), "the offset is used before it is advanced in the same iteration (it is the section's own start)",
			"the offset is used after it was already advanced by this section's length: the recorded offset is that of the NEXT section")
		// (e) size recorded with it is the section length itself
		for _, c := range nodeCalls(n) {
			nm := core.CalleeName(info, c)
			if strings.HasSuffix(nm, "_Writer).Put") && len(c.Args) == 3 && (core.ObjOf(info, c.Args[1]) == acc || (inst.Claimed != nil && core.ObjOf(info, c.Args[1]) == inst.Claimed)) {
				r.Check(core.ObjOf(info, c.Args[2]) == inst.LenObj, rule, fmt.Sprintf("%s#use@%d-size-is-section-length", k, nUses), pos(r, c), "the size stored with the offset is the section length returned by the reader",
					"the size stored with the offset is "+core.ExprStr(c.Args[2])+", not the section length returned by the reader")
				r.Check(core.ObjOf(info, c.Args[0]) == inst.CidObj, rule, fmt.Sprintf("%s#use@%d-key-is-section-cid", k, nUses), pos(r, c), "the key stored with the offset is the CID returned by the same read",
					"the key stored with the offset is not the CID returned by the same read")
			}
		}
	}
	if usesOffsets || mentionsOffsetField(f) {
		r.Check(nUses > 0, rule, k+"#offset-used", pos(r, upd.Ast), "the accumulated offset is consumed in the loop", "the accumulated offset is never used in the loop although offsets are recorded")
	}
	// (d) every path from a successful read back to the loop head passes the update
	path := g.PathAvoiding(inst.Read, func(x *core.GNode) bool { return x == head }, func(x *core.GNode) bool { return x == upd })
	var wit []string
	if path != nil {
		wit = g.PathStrings(path)
	}
	r.Check(path == nil, rule, k+"#update-on-every-iteration", pos(r, upd.Ast), "every path from the read back to the loop head advances the offset (skipped and ignored sections included)",
		"a path through the loop body reaches the next iteration without advancing the offset (e.g. a `continue` before the update): every later object is recorded one section too early", wit...)
}

func mentionsOffsetField(f *core.Func) bool {
	found := false
	ast.Inspect(f.Body, func(n ast.Node) bool {
		if kv, ok := n.(*ast.KeyValueExpr); ok {
			if id, ok := kv.Key.(*ast.Ident); ok && id.Name == "Offset" {
				found = true
			}
		}
		return !found
	})
	return found
}

// isHeaderSizeValue: e is (a variable assigned from) a call to (*CarReader).HeaderSize().
func isHeaderSizeValue(p *core.Prog, f *core.Func, e ast.Expr) bool {
	if e == nil {
		return false
	}
	info := f.Pkg.TypesInfo
	if c, ok := core.Unparen(e).(*ast.CallExpr); ok {
		return core.CalleeName(info, c) == "carreader.(*CarReader).HeaderSize"
	}
	o := core.ObjOf(info, e)
	if o == nil {
		return false
	}
	ok := false
	ast.Inspect(f.Body, func(n ast.Node) bool {
		if as, isAs := n.(*ast.AssignStmt); isAs && len(as.Rhs) == 1 {
			for i, l := range as.Lhs {
				if core.ObjOf(info, l) == o && i == 0 {
					if c, isC := core.Unparen(as.Rhs[0]).(*ast.CallExpr); isC && core.CalleeName(info, c) == "carreader.(*CarReader).HeaderSize" {
						ok = true
					}
				}
			}
		}
		return true
	})
	return ok
}
