package rules

import (
	"fmt"
	"go/ast"
	"go/token"
	"go/types"
	"strings"

	"yfverif/checker/internal/core"
)

func init() { register("C18", C18) }

// C18 — parallel epoch search returns a hit whenever one exists.
func C18(r *core.Report) {
	r.Explanation = "Decides the channel/typestate shape of FirstSuccess on all CFG paths (hence for every outcome vector, completion order and concurrency limit): " +
		"R1 the result channel's capacity is len(jobs) of the very slice whose elements are launched (workers never block on it, so Wait returns and the channel is closed); " +
		"R2 every path through a worker performs exactly one send attempt on the result channel; R3 the channel is closed only by the closer goroutine, after Wait; " +
		"R4 every receive from the result channel either leads to the success return under err == nil or records the error in the slice that the failure return yields (no received failure is dropped), the success return's value comes from a received result, and no other success return exists; " +
		"R5 findEpochNumberFromSignature maps the outcome to not-found only when all job errors are ErrNotFound and the per-epoch job classifies a failed sig-exists read as an error. R9 a hit is told from a miss by the error only: no generic function compares a value of the result type, and at every invocation of a job every return reachable from the nil-error branch is a success return (a job succeeding with the zero value, epoch 0, is a hit). R6 job independence - no return of a per-epoch job is decided by a condition reading state that the jobs themselves write (shared flags, counters): a job's verdict depends on its own epoch only. R10 ErrorSlice is opaque to errors.Is / errors.As (no Unwrap, Is or As method), so a mixed outcome is never classified as not-found by the callers. R11 every function that removes or replaces a loaded epoch also updates every other field of MultiEpoch that holds epochs or state derived from the epoch map (a cached sig-exists table), same rule as C09.R7. R9 also: the error bound at a job invocation is not reassigned before it is handed on. Not decided: scheduler fairness, termination of the jobs themselves."
	f := r.Anchor("C18.R1", "main.FirstSuccess")
	if f == nil {
		return
	}
	p := r.Prog
	info := f.Pkg.TypesInfo
	g := p.Graph(f)
	// the result channel: local var made with make(chan T, cap)
	var ch types.Object
	var capExpr ast.Expr
	ast.Inspect(f.Body, func(n ast.Node) bool {
		if as, ok := n.(*ast.AssignStmt); ok && len(as.Lhs) == 1 && len(as.Rhs) == 1 {
			if c, ok := core.Unparen(as.Rhs[0]).(*ast.CallExpr); ok && core.BuiltinName(info, c) == "make" {
				if _, isChan := info.TypeOf(as.Lhs[0]).Underlying().(*types.Chan); isChan && ch == nil {
					ch = core.ObjOf(info, as.Lhs[0])
					if len(c.Args) >= 2 {
						capExpr = c.Args[1]
					}
				}
			}
		}
		return true
	})
	if ch == nil {
		r.Undecided("C18.R1", f.Key+"#channel", posP(r, f.Pos()), "result channel not found")
		return
	}
	// the launch loop: range over X with a body calling wg.Go(lit)
	var launched types.Object
	var worker *core.Func
	ast.Inspect(f.Body, func(n ast.Node) bool {
		rs, ok := n.(*ast.RangeStmt)
		if !ok {
			return true
		}
		for _, c := range core.CallsIn(rs.Body, false) {
			if strings.HasSuffix(core.CalleeName(info, c), "errgroup.(*Group).Go") && len(c.Args) == 1 {
				if lit, ok := core.Unparen(c.Args[0]).(*ast.FuncLit); ok {
					worker = p.ByLit[lit]
					launched = core.ObjOf(info, rs.X)
				} else if wc, ok := core.Unparen(c.Args[0]).(*ast.CallExpr); ok {
					// group.Go(wrap(job)): the worker is the literal the wrapper returns (a local closure or a function)
					var wrapBody *ast.BlockStmt
					if o := core.ObjOf(info, wc.Fun); o != nil {
						if d := singleDef(f, o); d != nil {
							if wl, ok := core.Unparen(d).(*ast.FuncLit); ok {
								wrapBody = wl.Body
							}
						}
						if fo, ok := o.(*types.Func); ok {
							if wf := p.ByObj[fo.Origin()]; wf != nil {
								wrapBody = wf.Body
							}
						}
					}
					if wrapBody != nil {
						ast.Inspect(wrapBody, func(m ast.Node) bool {
							if rs2, ok := m.(*ast.ReturnStmt); ok && len(rs2.Results) == 1 {
								if il, ok := core.Unparen(rs2.Results[0]).(*ast.FuncLit); ok {
									worker = p.ByLit[il]
									launched = core.ObjOf(info, rs.X)
								}
							}
							return true
						})
					}
				}
			}
		}
		return true
	})
	// the launched literal may only forward to the closure (or function) that does the work: group.Go(func() error { return runJob(job) })
	for depth := 0; worker != nil && depth < 2; depth++ {
		if worker.Body == nil || len(worker.Body.List) != 1 {
			break
		}
		rs, ok := worker.Body.List[0].(*ast.ReturnStmt)
		if !ok || len(rs.Results) != 1 {
			break
		}
		c, ok := core.Unparen(rs.Results[0]).(*ast.CallExpr)
		if !ok {
			break
		}
		var next *core.Func
		if o := core.ObjOf(info, c.Fun); o != nil {
			if fo, isFn := o.(*types.Func); isFn {
				next = p.ByObj[fo.Origin()]
			} else if d := singleDef(f, o); d != nil {
				if wl, isLit := core.Unparen(d).(*ast.FuncLit); isLit {
					next = p.ByLit[wl]
				}
			}
		}
		if next == nil || next.Body == nil {
			break
		}
		worker = next
	}
	if worker == nil || launched == nil {
		r.Undecided("C18.R1", f.Key+"#launch-loop", posP(r, f.Pos()), "loop launching one worker per job not found")
		return
	}
	// R1
	okCap := false
	if capExpr != nil {
		ce := core.Unparen(capExpr)
		// a local that holds len(jobs) (assigned once) counts as len(jobs)
		if o := core.ObjOf(info, ce); o != nil {
			if d := singleDef(f, o); d != nil {
				ce = core.Unparen(d)
			}
		}
		if c, ok := ce.(*ast.CallExpr); ok && core.BuiltinName(info, c) == "len" && len(c.Args) == 1 && core.ObjOf(info, c.Args[0]) == launched {
			okCap = true
		}
	}
	r.Check(okCap, "C18.R1", f.Key+"#capacity=len(jobs)", posP(r, ch.Pos()), "result channel capacity is len("+launched.Name()+"), one slot per launched worker",
		"the result channel's capacity is not the number of launched workers: a worker can block on its send after the reader has returned, Wait never returns and the goroutines leak (or, with a smaller buffer and a limit, the search deadlocks)")
	// R2 worker sends exactly once
	wg := p.Graph(worker)
	sends := map[*core.GNode]bool{}
	for _, n := range stmtNodes(wg) {
		if s, ok := n.Ast.(*ast.SendStmt); ok && core.ObjOf(info, s.Chan) == ch {
			sends[n] = true
		}
	}
	path := wg.PathAvoiding(wg.Entry, func(x *core.GNode) bool { return x == wg.Exit }, func(x *core.GNode) bool { return sends[x] })
	r.Check(path == nil && len(sends) > 0, "C18.R2", worker.Key+"#at-least-one-send", posP(r, worker.Pos()), "every path through the worker attempts a send of its outcome",
		"a path through the worker ends without sending its outcome: the reader can miss a hit or wait for a result that never comes", wg.PathStrings(path)...)
	twice := false
	for s := range sends {
		for x := range wg.Reach(s, nil) {
			if sends[x] {
				twice = true
			}
		}
	}
	r.Check(!twice, "C18.R2", worker.Key+"#at-most-one-send", posP(r, worker.Pos()), "no path sends twice", "a path through the worker sends two outcomes: the channel sized for one result per worker can fill up and block")
	// R3 close only in the closer goroutine after Wait
	nClose := 0
	for _, fn := range f.AllWithLits() {
		fg := p.Graph(fn)
		for _, n := range stmtNodes(fg) {
			for _, c := range nodeCalls(n) {
				if core.BuiltinName(info, c) != "close" || len(c.Args) != 1 || core.ObjOf(info, c.Args[0]) != ch {
					continue
				}
				nClose++
				okc := fn.Lit != nil && fn != worker
				// go statement?
				isGo := false
				ast.Inspect(f.Body, func(m ast.Node) bool {
					if gs, ok := m.(*ast.GoStmt); ok {
						if core.Unparen(gs.Call.Fun) == ast.Expr(fn.Lit) {
							isGo = true
						}
						// go name() where name is a local bound once to this literal
						if o := core.ObjOf(info, gs.Call.Fun); o != nil {
							if d := singleDef(f, o); d != nil && core.Unparen(d) == ast.Expr(fn.Lit) {
								isGo = true
							}
						}
					}
					return true
				})
				waited := false
				for _, d := range fg.Dominators(n) {
					if d.Kind == core.KStmt {
						for _, c2 := range nodeCalls(d) {
							if strings.HasSuffix(core.CalleeName(info, c2), "errgroup.(*Group).Wait") {
								waited = true
							}
						}
					}
				}
				r.Check(okc && isGo && waited, "C18.R3", fmt.Sprintf("%s#close@%d", f.Key, nClose), pos(r, c), "the channel is closed by the closer goroutine after Wait",
					"the result channel is closed outside the closer goroutine or before all workers have finished: a late worker panics on send or results are lost")
			}
		}
	}
	if nClose == 0 {
		r.Violation("C18.R3", f.Key+"#close", posP(r, f.Pos()), "the result channel is never closed: when every job fails the reader's range loop relies on the error count only")
	}
	// R4: the function that receives from the channel - FirstSuccess itself, or a helper it hands the channel to and whose
	// result it returns unchanged
	cf, chC := f, ch
	{
		receivesHere := false
		ast.Inspect(f.Body, func(n ast.Node) bool {
			switch s := n.(type) {
			case *ast.FuncLit:
				return false
			case *ast.RangeStmt:
				if core.ObjOf(info, s.X) == ch {
					receivesHere = true
				}
			case *ast.UnaryExpr:
				if s.Op == token.ARROW && core.ObjOf(info, s.X) == ch {
					receivesHere = true
				}
			}
			return true
		})
		if !receivesHere {
			for _, rn := range g.Returns() {
				res := returnResults(rn)
				if len(res) != 1 {
					continue
				}
				c, ok := core.Unparen(res[0]).(*ast.CallExpr)
				if !ok {
					continue
				}
				fo := core.Callee(info, c)
				if fo == nil {
					continue
				}
				h := p.ByObj[fo.Origin()]
				if h == nil || h.Body == nil {
					continue
				}
				for ai, a := range c.Args {
					if core.ObjOf(info, a) == ch {
						if po := h.ParamObj(ai); po != nil {
							cf, chC = h, po
						}
					}
				}
			}
		}
	}
	ci := cf.Pkg.TypesInfo
	cg := p.Graph(cf)
	// R4 receives
	var errs types.Object
	for _, rn := range cg.Returns() {
		res := returnResults(rn)
		if len(res) == 2 && !core.IsNil(ci, res[1]) {
			errs = core.ObjOf(ci, res[1])
		}
	}
	type recvSite struct {
		node *core.GNode // first node after which the received value is available
		val  types.Object
		desc string
		open types.Object // v, open := <-ch : false when the channel was closed and nothing was received
	}
	var sites []recvSite
	ast.Inspect(cf.Body, func(n ast.Node) bool {
		switch s := n.(type) {
		case *ast.FuncLit:
			return false
		case *ast.RangeStmt:
			if core.ObjOf(ci, s.X) == chC {
				var v types.Object
				if s.Key != nil {
					v = core.ObjOf(ci, s.Key)
				}
				// the body entry edge
				for _, e := range cg.Nodes {
					if e.Kind == core.KEdge && e.Truth && e.Loop == ast.Stmt(s) {
						sites = append(sites, recvSite{e, v, "range over the result channel", nil})
					}
				}
			}
		case *ast.UnaryExpr:
			if s.Op == token.ARROW && core.ObjOf(ci, s.X) == chC {
				nd := cg.NodeOf(s.Pos())
				var v, open types.Object
				// x := <-ch  /  x, open := <-ch
				ast.Inspect(cf.Body, func(m ast.Node) bool {
					if as, ok := m.(*ast.AssignStmt); ok && len(as.Rhs) == 1 && core.Unparen(as.Rhs[0]) == ast.Expr(s) {
						v = core.ObjOf(ci, as.Lhs[0])
						if len(as.Lhs) == 2 {
							open = core.ObjOf(ci, as.Lhs[1])
						}
					}
					return true
				})
				if nd != nil {
					sites = append(sites, recvSite{nd, v, "receive at " + p.Rel(s.Pos()), open})
				}
			}
		}
		return true
	})
	if len(sites) == 0 {
		r.Undecided("C18.R4", cf.Key+"#receive", posP(r, cf.Pos()), "no receive from the result channel found")
	}
	for i, st := range sites {
		key := fmt.Sprintf("%s#receive@%d", cf.Key, i)
		if st.val == nil || errs == nil {
			r.Violation("C18.R4", key, posP(r, cf.Pos()), st.desc+": the received outcome is discarded")
			continue
		}
		// nodes that consume the outcome: success return under err == nil, or append of its error to errs
		consume := map[*core.GNode]bool{}
		for _, n := range stmtNodes(cg) {
			switch s := n.Ast.(type) {
			case *ast.ReturnStmt:
				if len(s.Results) == 2 && core.IsNil(ci, s.Results[1]) && core.Mentions(ci, s.Results[0], st.val) {
					okNil := false
					for _, fc := range cg.FactsAt(n) {
						if x, eq, ok := core.NilCompare(ci, fc.Expr); ok && fc.Tag == nil && fc.Unless == nil && eq == fc.Truth && core.Mentions(ci, x, st.val) && strings.HasSuffix(core.ExprStr(x), ".err") {
							okNil = true
						}
					}
					if okNil {
						consume[n] = true
					}
				}
			case *ast.AssignStmt:
				if len(s.Lhs) == 1 && len(s.Rhs) == 1 && core.ObjOf(ci, s.Lhs[0]) == errs {
					if c, ok := core.Unparen(s.Rhs[0]).(*ast.CallExpr); ok && core.BuiltinName(ci, c) == "append" && len(c.Args) == 2 && core.ObjOf(ci, c.Args[0]) == errs && core.Mentions(ci, c.Args[1], st.val) {
						consume[n] = true
					}
				}
			}
		}
		// from the receive, every path to the next receive or to the exit passes a consume node
		stopAt := func(x *core.GNode) bool {
			if x == cg.Exit {
				return true
			}
			for _, o := range sites {
				if x == o.node {
					return true
				}
			}
			return false
		}
		// the edge on which the comma-ok flag of the receive is false: the channel was closed, nothing was received
		nothingReceived := func(x *core.GNode) bool {
			if st.open == nil || x.Kind != core.KEdge || x.Ast == nil {
				return false
			}
			for _, fc := range x.Facts() {
				if id, isId := core.Unparen(fc.Expr).(*ast.Ident); isId && fc.Tag == nil && ci.Uses[id] == st.open && !fc.Truth {
					return true
				}
			}
			return false
		}
		path := cg.PathAvoiding(st.node, stopAt, func(x *core.GNode) bool { return consume[x] || nothingReceived(x) })
		r.Check(path == nil, "C18.R4", key, posP(r, cf.Pos()), st.desc+": every received outcome is returned as the success or appended to the error list",
			st.desc+": a received failure can be dropped (neither returned nor appended to the error list): when no job succeeds the error list is incomplete and an index read error can be reported as not-found", cg.PathStrings(path)...)
	}
	// every success return takes its value from a received result
	for i, rn := range cg.Returns() {
		res := returnResults(rn)
		if len(res) != 2 || !core.IsNil(ci, res[1]) {
			continue
		}
		fromRecv := false
		for _, st := range sites {
			if st.val != nil && core.Mentions(ci, res[0], st.val) {
				fromRecv = true
			}
		}
		r.Check(fromRecv, "C18.R4", fmt.Sprintf("%s#success-return@%d", cf.Key, i), pos(r, rn.Ast), "the success value is that of a received job outcome", "a success return yields a value that no job produced")
	}
	c18Classification(r)
	c18JobIndependence(r)
	c18AllJobsStarted(r)
	c18HitConfirmedByIndex(r)
	c18ValueBlind(r)
	c18ErrorSliceIsOpaque(r, "C18.R10")
	singleSourceOfTruth(r, "C18.R11")
	epochRoutedOnlyAfterTheFilter(r, "C18.R12")
	r.Floor("C18.R9", 2)
	r.Floor("C18.R8", 1)
	r.Floor("C18.R7", 1)
	r.Floor("C18.R6", 1)
	r.Floor("C18.R2", 1)
	r.Floor("C18.R3", 1)
	r.Floor("C18.R4", 1)
	r.Floor("C18.R5", 1)
}

// c18Classification (R5): findEpochNumberFromSignature.
func c18Classification(r *core.Report) {
	const rule = "C18.R5"
	p := r.Prog
	f := r.Anchor(rule, "main.(*MultiEpoch).findEpochNumberFromSignature")
	if f == nil {
		return
	}
	info := f.Pkg.TypesInfo
	// the function that classifies the outcome: f itself or a helper f calls; it tests errs.All(pred) where pred (a literal
	// or a named function) is errors.Is(_, ErrNotFound)
	isNotFoundPred := func(e ast.Expr, in *core.Func) bool {
		var body ast.Node
		switch x := core.Unparen(e).(type) {
		case *ast.FuncLit:
			body = x.Body
		default:
			if fo, ok := core.ObjOf(in.Pkg.TypesInfo, x).(*types.Func); ok {
				if pf := p.ByObj[fo.Origin()]; pf != nil && pf.Body != nil {
					body = pf.Body
				}
			}
			// a local bound to a closure: isNotFound := func(err error) bool { ... }
			if v, ok := core.ObjOf(in.Pkg.TypesInfo, x).(*types.Var); ok && !v.IsField() {
				if vals := p.FuncValuesOf(v, in); len(vals) == 1 && vals[0].Body != nil {
					body = vals[0].Body
				}
			}
		}
		if body == nil {
			return false
		}
		s := core.ExprStr(body)
		return strings.Contains(s, "errors.Is(") && strings.Contains(s, "ErrNotFound")
	}
	cands := []*core.Func{f}
	for _, cs := range p.Calls(f) {
		if cs.In == f && len(cs.Targets) == 1 && cs.Targets[0].Pkg == f.Pkg {
			cands = append(cands, cs.Targets[0])
		}
	}
	var cf *core.Func
	allFact := func(fn *core.Func, at *core.GNode) bool {
		fg := p.Graph(fn)
		for _, fc := range fg.FactsAt(at) {
			if c, ok := core.Unparen(fc.Expr).(*ast.CallExpr); ok && fc.Truth && fc.Tag == nil && core.CalleeName(fn.Pkg.TypesInfo, c) == "main.(ErrorSlice).All" && len(c.Args) == 1 && isNotFoundPred(c.Args[0], fn) {
				return true
			}
			// the test made by a boolean helper of the package: every return of the helper that can be true has
			// errs.All(not-found) among its conjuncts (allEpochsSearchedWithoutHit(err))
			if c, ok := core.Unparen(fc.Expr).(*ast.CallExpr); ok && fc.Truth && fc.Tag == nil {
				if fo := core.Callee(fn.Pkg.TypesInfo, c); fo != nil {
					if h := p.ByObj[fo.Origin()]; h != nil && h.Body != nil && h.Pkg == fn.Pkg && h != fn {
						hi := h.Pkg.TypesInfo
						hg := p.Graph(h)
						all, cnt := true, 0
						for _, rn := range hg.Returns() {
							res := returnResults(rn)
							if len(res) != 1 {
								all = false
								continue
							}
							if b, isC := boolConst(hi, res[0]); isC && !b {
								continue
							}
							cnt++
							has := false
							for _, cj := range conjuncts(res[0]) {
								if cc, isCall := core.Unparen(cj).(*ast.CallExpr); isCall && core.CalleeName(hi, cc) == "main.(ErrorSlice).All" && len(cc.Args) == 1 && isNotFoundPred(cc.Args[0], h) {
									has = true
								}
							}
							// or the return is reached under the All fact inside the helper
							for _, hf := range hg.FactsAt(rn) {
								if cc, isCall := core.Unparen(hf.Expr).(*ast.CallExpr); isCall && hf.Truth && hf.Tag == nil && core.CalleeName(hi, cc) == "main.(ErrorSlice).All" && len(cc.Args) == 1 && isNotFoundPred(cc.Args[0], h) {
									has = true
								}
							}
							if !has {
								all = false
							}
						}
						if all && cnt > 0 {
							return true
						}
					}
				}
			}
		}
		return false
	}
	for _, c := range cands {
		found := false
		for _, cc := range core.CallsIn(c.Body, false) {
			if core.CalleeName(c.Pkg.TypesInfo, cc) == "main.(ErrorSlice).All" && len(cc.Args) == 1 && isNotFoundPred(cc.Args[0], c) {
				found = true
			}
		}
		if found {
			cf = c
		}
	}
	if cf == nil {
		r.Violation(rule, f.Key+"#all-not-found-test", posP(r, f.Pos()), "the outcome is not classified by errs.All(errors.Is(_, ErrNotFound))")
		return
	}
	r.OK(rule, f.Key+"#all-not-found-test", posP(r, cf.Pos()), "not-found is decided by errs.All(errors.Is(_, ErrNotFound)) in "+cf.Key)
	g := p.Graph(f)
	// after the search call, every return of ErrNotFound (in f, and in the classifying helper) is reached under the All test
	var searchNode *core.GNode
	for _, n := range stmtNodes(g) {
		for _, c := range nodeCalls(n) {
			nm := core.CalleeName(info, c)
			if strings.HasSuffix(nm, ".RunWithConcurrency") || strings.HasSuffix(nm, "JobGroup).Run") || nm == "main.FirstSuccess" {
				searchNode = n
			}
		}
	}
	if searchNode == nil {
		r.Undecided(rule, f.Key+"#search-call", posP(r, f.Pos()), "search call not found")
		return
	}
	nNF := 0
	checkNF := func(fn *core.Func, after *core.GNode) {
		fg := p.Graph(fn)
		for i, rn := range fg.Returns() {
			if after != nil && !fg.Dominates(after, rn) {
				continue
			}
			isNF := false
			for _, e := range returnResults(rn) {
				if core.ExprStr(e) == "ErrNotFound" {
					isNF = true
				}
			}
			if isNF {
				nNF++
				r.Check(allFact(fn, rn), rule, fmt.Sprintf("%s#not-found-return@%d", fn.Key, i), pos(r, rn.Ast), "not-found is answered only when every job error is not-found",
					"not-found is answered although some epoch search failed with another error (e.g. an index read error)")
			}
		}
	}
	checkNF(f, searchNode)
	if cf != f {
		checkNF(cf, nil)
	}
	if nNF == 0 {
		r.Undecided(rule, f.Key+"#not-found-return", posP(r, f.Pos()), "no return of ErrNotFound found after the search")
	}
	// the per-epoch job: an error from bucket.Has is returned as an error (not as not-found)
	jobFns, _ := epochJobFuncs(p, f)
	for _, lit := range jobFns {
		li := lit.Pkg.TypesInfo
		lg := p.Graph(lit)
		for _, n := range stmtNodes(lg) {
			as, ok := n.Ast.(*ast.AssignStmt)
			if !ok || len(as.Rhs) != 1 {
				continue
			}
			c, ok := core.Unparen(as.Rhs[0]).(*ast.CallExpr)
			if !ok || !strings.HasSuffix(core.CalleeName(li, c), ".Has") || len(as.Lhs) != 2 {
				continue
			}
			errObj := core.ObjOf(li, as.Lhs[1])
			okErr := false
			for _, rn := range lg.Returns() {
				res := returnResults(rn)
				if len(res) != 2 || !lg.Dominates(n, rn) {
					continue
				}
				for _, fc := range lg.FactsAt(rn) {
					if x, eq, ok := core.NilCompare(li, fc.Expr); ok && core.ObjOf(li, x) == errObj && eq != fc.Truth && fc.Unless == nil && !reassignedBetween(lg, li, n, fc.Edge, errObj) {
						if !strings.Contains(core.ExprStr(res[1]), "ErrNotFound") && !core.IsNil(li, res[1]) {
							okErr = true
						}
					}
				}
			}
			r.Check(okErr, rule, lit.Key+"#sig-exists-error-propagated", pos(r, as), "a failed sig-exists read is reported as an error of that epoch", "a failed sig-exists read is not reported as an error: the epoch is treated as not containing the signature")
		}
	}
}

// c18JobIndependence (C18.R6): the verdict of a per-epoch job depends only on that epoch. A job that writes state shared
// with the other jobs (an outer variable assigned, incremented or updated through Store/Add/Swap/CompareAndSwap/Set) and
// decides one of its returns on a condition reading that state can answer not-found because another job got there first,
// although its own epoch holds the signature.
func c18JobIndependence(r *core.Report) {
	const rule = "C18.R6"
	p := r.Prog
	f := r.Anchor(rule, "main.(*MultiEpoch).findEpochNumberFromSignature")
	if f == nil {
		return
	}
	info := f.Pkg.TypesInfo
	n := 0
	jobFns, sharedCaptures := epochJobFuncs(p, f)
	for _, lit := range jobFns {
		if lit.Lit == nil || !sharedCaptures[lit] {
			// a job built by a constructor or a named function captures per-job state only; nothing of f is shared
			n++
			r.OK(rule, lit.Key+"#job-verdict-independent-of-other-jobs", posP(r, lit.Pos()), "the job captures no variable of the search function (per-job state only)")
			continue
		}
		n++
		outer := func(o types.Object) bool {
			v, ok := o.(*types.Var)
			return ok && !v.IsField() && v.Pkg() == f.Pkg.Types && (o.Pos() < lit.Lit.Pos() || o.Pos() >= lit.Lit.End()) && o.Parent() != f.Pkg.Types.Scope()
		}
		written := map[types.Object]string{}
		ast.Inspect(lit.Body, func(m ast.Node) bool {
			switch s := m.(type) {
			case *ast.AssignStmt:
				if s.Tok == token.DEFINE {
					return true
				}
				for _, l := range s.Lhs {
					root := l
					for {
						switch x := core.Unparen(root).(type) {
						case *ast.IndexExpr:
							root = x.X
							continue
						case *ast.SelectorExpr:
							root = x.X
							continue
						case *ast.StarExpr:
							root = x.X
							continue
						}
						break
					}
					if o := core.ObjOf(info, root); o != nil && outer(o) && !core.IsErrorType(o.Type()) {
						written[o] = "assigned"
					}
				}
			case *ast.IncDecStmt:
				if o := core.ObjOf(info, s.X); o != nil && outer(o) {
					written[o] = "incremented"
				}
			case *ast.CallExpr:
				if sel, ok := core.Unparen(s.Fun).(*ast.SelectorExpr); ok {
					switch sel.Sel.Name {
					case "Store", "Add", "Swap", "CompareAndSwap", "Set", "Do":
						if o := core.ObjOf(info, sel.X); o != nil && outer(o) {
							written[o] = "updated through " + sel.Sel.Name
						}
					}
				}
			}
			return true
		})
		g := p.Graph(lit)
		bad := ""
		var badAt ast.Node
		for _, rn := range g.Returns() {
			for _, fc := range g.FactsAt(rn) {
				for o, how := range written {
					if core.Mentions(info, fc.Expr, o) && bad == "" {
						bad = fmt.Sprintf("the return at %s is decided by [%s], which reads %s, a variable shared by all jobs and %s inside the job", p.Rel(rn.Ast.Pos()), core.ExprStr(fc.Expr), o.Name(), how)
						badAt = rn.Ast
					}
				}
			}
		}
		k := fmt.Sprintf("%s#job-verdict-independent-of-other-jobs", lit.Key)
		if bad == "" {
			r.OK(rule, k, posP(r, lit.Pos()), fmt.Sprintf("no return of the job depends on state written by jobs (%d shared variables written)", len(written)))
		} else {
			r.Violation(rule, k, pos(r, badAt), bad+": a job can report not-found because another job ran first, although its own epoch holds the signature")
		}
	}
	if n == 0 {
		r.Undecided(rule, f.Key+"#jobs", posP(r, f.Pos()), "no per-epoch job literal found")
	}
}

// c18AllJobsStarted (C18.R7): FirstSuccess gives its guarantee (a hit whenever one exists, otherwise every error) for
// the jobs it is handed. The JobGroup runners must therefore hand it the whole group: the spread argument is the group
// itself (or an unsliced copy of it). A runner that passes sub-slices must do so from a loop whose windows provably
// cover the group (low bound running from 0 while it is below len, high bound capped at len); anything else can leave
// trailing jobs unstarted.
func c18AllJobsStarted(r *core.Report) {
	const rule = "C18.R7"
	p := r.Prog
	n := 0
	for _, key := range []string{"main.(*JobGroup).Run", "main.(*JobGroup).RunWithConcurrency"} {
		f := r.Anchor(rule, key)
		if f == nil {
			continue
		}
		info := f.Pkg.TypesInfo
		recv := info.Defs[f.Decl.Recv.List[0].Names[0]]
		isWhole := func(e ast.Expr) bool {
			e = core.Unparen(e)
			if st, ok := e.(*ast.StarExpr); ok && core.ObjOf(info, st.X) == recv {
				return true
			}
			if o := core.ObjOf(info, e); o != nil {
				if d := singleDef(f, o); d != nil {
					if st, ok := core.Unparen(d).(*ast.StarExpr); ok && core.ObjOf(info, st.X) == recv {
						return true
					}
				}
			}
			return false
		}
		calls := 0
		for _, w := range f.AllWithLits() {
			for _, c := range core.CallsIn(w.Body, false) {
				if core.CalleeName(info, c) != "main.FirstSuccess" || len(c.Args) < 3 || !c.Ellipsis.IsValid() {
					continue
				}
				calls++
				n++
				k := fmt.Sprintf("%s#jobs-handed-to-FirstSuccess@%d", f.Key, calls)
				arg := c.Args[len(c.Args)-1]
				if isWhole(arg) {
					r.OK(rule, k, pos(r, c), "the whole job group is handed to FirstSuccess")
					continue
				}
				se, isSlice := core.Unparen(arg).(*ast.SliceExpr)
				if !isSlice || !isWhole(se.X) {
					r.Violation(rule, k, pos(r, c), "FirstSuccess is not handed the job group ("+core.ExprStr(arg)+"): jobs that are not passed never run, so an existing hit can be missed and the error list is incomplete")
					continue
				}
				// windowed: for lo := 0; lo < len(jobs); lo += step { hi := min(lo+step, len(jobs)); jobs[lo:hi] }
				okWin, why := false, "the windows are not produced by a loop of the form `for lo := 0; lo < len(jobs); lo += step` with the upper bound capped at len(jobs)"
				var loop *ast.ForStmt
				ast.Inspect(w.Body, func(m ast.Node) bool {
					if fs, ok := m.(*ast.ForStmt); ok && fs.Pos() <= c.Pos() && c.End() <= fs.End() {
						loop = fs
					}
					return true
				})
				if loop != nil && loop.Cond != nil && se.Low != nil {
					lo := core.ObjOf(info, se.Low)
					if be, ok := core.Unparen(loop.Cond).(*ast.BinaryExpr); ok && be.Op == token.LSS && core.ObjOf(info, be.X) == lo && lo != nil {
						if lc, ok := core.Unparen(be.Y).(*ast.CallExpr); ok && core.BuiltinName(info, lc) == "len" && isWhole(lc.Args[0]) {
							// the high bound: min(lo+step, len(jobs)) or a variable clamped to len(jobs)
							hs := core.ExprStr(se.High)
							if se.High == nil || strings.HasPrefix(hs, "min(") {
								okWin = true
							} else if ho := core.ObjOf(info, se.High); ho != nil {
								clamped := false
								ast.Inspect(loop.Body, func(x ast.Node) bool {
									if is, ok := x.(*ast.IfStmt); ok && core.Mentions(info, is.Cond, ho) && strings.Contains(core.ExprStr(is.Cond), "len(") {
										clamped = true
									}
									return true
								})
								okWin = clamped
							}
						}
					} else {
						why = "the window loop runs while " + core.ExprStr(loop.Cond) + ", which stops before a trailing partial window"
					}
				}
				r.Check(okWin, rule, k, pos(r, c), "the windows handed to FirstSuccess cover the whole job group",
					"only part of the job group reaches FirstSuccess: "+why+" - the jobs of the last window never run, an existing hit is missed and the error list is incomplete")
			}
		}
		if calls == 0 {
			r.Violation(rule, f.Key+"#calls-FirstSuccess", posP(r, f.Pos()), "the runner does not call FirstSuccess")
		}
	}
	_ = p
	if n == 0 {
		r.Undecided(rule, "main.JobGroup#runners", "", "no JobGroup runner found")
	}
}

// c18HitConfirmedByIndex (C18.R8): the sig-exists filter only says "maybe" (it compares 64-bit hashes inside a two-byte
// bucket); a per-epoch job may report a hit only after that epoch's signature-to-CID index returned the signature. Every
// success return of a job is dominated by the nil outcome of a FindCidFromSignature call made for the searched signature.
func c18HitConfirmedByIndex(r *core.Report) { hitConfirmedByIndex(r, "C18.R8") }

func hitConfirmedByIndex(r *core.Report, rule string) {
	p := r.Prog
	f := r.Anchor(rule, "main.(*MultiEpoch).findEpochNumberFromSignature")
	if f == nil {
		return
	}
	sig := f.ParamByName("sig")
	n := 0
	var check func(fn *core.Func, sigs map[types.Object]bool, depth int) (int, string, ast.Node)
	check = func(fn *core.Func, sigs map[types.Object]bool, depth int) (int, string, ast.Node) {
		info := fn.Pkg.TypesInfo
		g := p.Graph(fn)
		// the confirming calls and the error variables they define
		confirm := map[types.Object]*core.GNode{}
		for _, node := range g.Nodes {
			if node.Kind != core.KStmt {
				continue
			}
			as, ok := node.Ast.(*ast.AssignStmt)
			if !ok || len(as.Rhs) != 1 {
				continue
			}
			c, ok := core.Unparen(as.Rhs[0]).(*ast.CallExpr)
			if !ok || !strings.HasSuffix(core.CalleeName(info, c), "(*Epoch).FindCidFromSignature") {
				continue
			}
			if len(c.Args) < 2 || !sigs[core.ObjOf(info, c.Args[1])] {
				continue
			}
			if eo := core.ObjOf(info, as.Lhs[len(as.Lhs)-1]); eo != nil {
				confirm[eo] = node
			}
		}
		count := 0
		for _, rn := range g.Returns() {
			nilErr, dec := isNilErrReturn(fn, rn)
			if dec && !nilErr {
				continue
			}
			res := returnResults(rn)
			// `if ctx.Err() != nil { return 0, ctx.Err() }`: the returned expression is the one just tested non-nil
			if len(res) == 2 && !dec {
				isErr := false
				for _, fc := range g.FactsAt(rn) {
					if x, isNil, isCmp := core.NilCompare(info, fc.Expr); isCmp && isNil != fc.Truth && core.ExprStr(x) == core.ExprStr(res[1]) {
						isErr = true
					}
				}
				if isErr {
					continue
				}
			}
			// delegation: return helper(..., sig, ...)
			if len(res) == 1 && depth < 3 {
				if c, ok := core.Unparen(res[0]).(*ast.CallExpr); ok {
					if fnObj := core.Callee(info, c); fnObj != nil {
						if callee := p.ByObj[fnObj.Origin()]; callee != nil && callee.Body != nil {
							sub := map[types.Object]bool{}
							for ai, a := range c.Args {
								if sigs[core.ObjOf(info, a)] {
									if po := callee.ParamObj(ai); po != nil {
										sub[po] = true
									}
								}
							}
							if len(sub) > 0 {
								k, why, at := check(callee, sub, depth+1)
								count += k
								if why != "" {
									return count, why, at
								}
								continue
							}
						}
					}
				}
			}
			count++
			ok := false
			for _, fc := range g.FactsAt(rn) {
				if x, isNil, isCmp := core.NilCompare(info, fc.Expr); isCmp && isNil == fc.Truth {
					if cn := confirm[core.ObjOf(info, x)]; cn != nil && g.Dominates(cn, rn) && g.FactFresh(fc, rn) {
						ok = true
					}
				}
			}
			if !ok {
				return count, "the success return at " + p.Rel(rn.Ast.Pos()) + " is not reached under the nil outcome of FindCidFromSignature for the searched signature", rn.Ast
			}
		}
		return count, "", nil
	}
	// the job functions: whatever is handed to <JobGroup>.Add in f
	info := f.Pkg.TypesInfo
	for _, w := range f.AllWithLits() {
		for _, c := range core.CallsIn(w.Body, false) {
			if !strings.HasSuffix(core.CalleeName(info, c), "JobGroup).Add") || len(c.Args) != 1 {
				continue
			}
			sigs := map[types.Object]bool{}
			if sig != nil {
				sigs[sig] = true
			}
			var jobs []*core.Func
			var jobSigs []map[types.Object]bool
			switch a := core.Unparen(c.Args[0]).(type) {
			case *ast.FuncLit:
				jobs, jobSigs = append(jobs, p.ByLit[a]), append(jobSigs, sigs)
			case *ast.CallExpr:
				// a constructor returning the job closure
				if fnObj := core.Callee(info, a); fnObj != nil {
					if mk := p.ByObj[fnObj.Origin()]; mk != nil && mk.Body != nil {
						sub := map[types.Object]bool{}
						for ai, arg := range a.Args {
							if sigs[core.ObjOf(info, arg)] {
								if po := mk.ParamObj(ai); po != nil {
									sub[po] = true
								}
							}
						}
						for _, l := range mk.Lits {
							jobs, jobSigs = append(jobs, l), append(jobSigs, sub)
						}
					}
				}
			default:
				if fnObj, ok := core.ObjOf(info, a).(*types.Func); ok {
					if j := p.ByObj[fnObj.Origin()]; j != nil {
						// a method value of a job struct (search.run): the fields that the struct literal fills with the
						// signature stand for the signature inside the method
						sub := map[types.Object]bool{}
						for o := range sigs {
							sub[o] = true
						}
						for _, w2 := range f.AllWithLits() {
							ast.Inspect(w2.Body, func(m ast.Node) bool {
								cl, isLit := m.(*ast.CompositeLit)
								if !isLit {
									return true
								}
								for _, el := range cl.Elts {
									if kv, isKV := el.(*ast.KeyValueExpr); isKV && sigs[core.ObjOf(info, kv.Value)] {
										if kid, isId := kv.Key.(*ast.Ident); isId {
											if fo := info.ObjectOf(kid); fo != nil {
												sub[fo] = true
											}
										}
									}
								}
								return true
							})
						}
						jobs, jobSigs = append(jobs, j), append(jobSigs, sub)
					}
				}
			}
			for ji, job := range jobs {
				if job == nil {
					continue
				}
				k, why, at := check(job, jobSigs[ji], 0)
				n += k
				key := fmt.Sprintf("%s#job-hit-confirmed-by-signature-index", job.Key)
				if why == "" && k > 0 {
					r.OK(rule, key, posP(r, job.Pos()), "the job reports a hit only after the epoch's signature index returned the signature")
				} else if why != "" {
					r.Violation(rule, key, pos(r, at), "a per-epoch job reports a hit without confirmation: "+why+" - a false positive of the sig-exists filter in another epoch wins the search and the transaction is answered as not found")
				}
			}
		}
	}
	if n == 0 {
		r.Undecided(rule, f.Key+"#job-success-returns", posP(r, f.Pos()), "no success return of a per-epoch job found")
	}
}

// epochJobFuncs returns the functions that make up the per-epoch search jobs of findEpochNumberFromSignature: the
// literals handed to <JobGroup>.Add, the literals returned by a constructor handed to Add, named functions used as jobs,
// and the functions those delegate to with `return helper(...)`. shared[fn] tells whether fn's enclosing function is f
// itself (its captured variables are then shared by all jobs).
func epochJobFuncs(p *core.Prog, f *core.Func) (jobs []*core.Func, shared map[*core.Func]bool) {
	info := f.Pkg.TypesInfo
	shared = map[*core.Func]bool{}
	seen := map[*core.Func]bool{}
	var add func(fn *core.Func, sh bool, depth int)
	add = func(fn *core.Func, sh bool, depth int) {
		if fn == nil || fn.Body == nil || seen[fn] || depth > 3 {
			return
		}
		seen[fn] = true
		jobs = append(jobs, fn)
		shared[fn] = sh
		g := p.Graph(fn)
		for _, rn := range g.Returns() {
			res := returnResults(rn)
			if len(res) != 1 {
				continue
			}
			if c, ok := core.Unparen(res[0]).(*ast.CallExpr); ok {
				if fo := core.Callee(fn.Pkg.TypesInfo, c); fo != nil {
					add(p.ByObj[fo.Origin()], false, depth+1)
				}
			}
		}
	}
	for _, w := range f.AllWithLits() {
		for _, c := range core.CallsIn(w.Body, false) {
			if !strings.HasSuffix(core.CalleeName(info, c), "JobGroup).Add") || len(c.Args) != 1 {
				continue
			}
			switch a := core.Unparen(c.Args[0]).(type) {
			case *ast.FuncLit:
				add(p.ByLit[a], true, 0)
			case *ast.CallExpr:
				if fo := core.Callee(info, a); fo != nil {
					if mk := p.ByObj[fo.Origin()]; mk != nil {
						for _, l := range mk.Lits {
							add(l, false, 0)
						}
					}
				}
			default:
				if fo, ok := core.ObjOf(info, a).(*types.Func); ok {
					add(p.ByObj[fo.Origin()], false, 0)
				}
			}
		}
	}
	return
}
