package rules

import (
	"encoding/json"
	"fmt"
	"go/ast"
	"go/token"
	"go/types"
	"os"
	"path/filepath"
	"sort"
	"strings"

	"yfverif/checker/internal/core"
)

func init() { register("C12", C12) }

// c12Entries: parser entry points (prefix match on function keys).
var c12Entries = []string{
	"iplddecoders.Decode", "iplddecoders.GetKind", "iplddecoders._Decode",
	"ipld/ipldbindcode.(*Epoch).UnmarshalCBOR", "ipld/ipldbindcode.(*Subset).UnmarshalCBOR", "ipld/ipldbindcode.(*Block).UnmarshalCBOR",
	"ipld/ipldbindcode.(*Entry).UnmarshalCBOR", "ipld/ipldbindcode.(*Transaction).UnmarshalCBOR", "ipld/ipldbindcode.(*Rewards).UnmarshalCBOR",
	"ipld/ipldbindcode.(*DataFrame).UnmarshalCBOR",
	"carreader.New", "carreader.ReadHeader", "carreader.(*CarReader).Next", "carreader.ReadNodeInfo", "carreader.ReadSectionLength",
	"compactindexsized.Open", "compactindexsized.(*DB).", "compactindexsized.(*Bucket).", "compactindexsized.(*Header).Load",
	"deprecated/compactindex.Open", "deprecated/compactindex.(*DB).", "deprecated/compactindex.(*Bucket).", "deprecated/compactindex.(*Header).Load",
	"deprecated/compactindex36.Open", "deprecated/compactindex36.(*DB).", "deprecated/compactindex36.(*Bucket).", "deprecated/compactindex36.(*Header).Load",
	"indexes.OpenWithReader_", "indexes.Open_", "indexes.(*CidToOffsetAndSize_Reader).", "indexes.(*SlotToCid_Reader).", "indexes.(*SigToCid_Reader).",
	"indexes.(*PubkeyToOffsetAndSize_Reader).", "indexes.(*Deprecated_CidToOffset_Reader).", "indexes.BtoUint", "indexes.(*OffsetAndSize).FromBytes", "indexes.OffsetAndSizeSliceFromBytes",
	"indexmeta.(*Meta).Unmarshal", "indexmeta.(Meta).Get", "indexmeta.(Meta).ReadFirst",
	"bucketteer.NewReader", "bucketteer.Open", "bucketteer.(*Reader).Has",
	"deprecated/bucketteer.NewReader", "deprecated/bucketteer.Open", "deprecated/bucketteer.(*Reader).Has",
	"blocktimeindex.FromBytes", "blocktimeindex.FromReader", "blocktimeindex.FromFile", "blocktimeindex.(*Index).Get", "blocktimeindex.(*Index).FromBytes", "blocktimeindex.(*Index).UnmarshalBinary",
	"gsfa/linkedlog.(*LinkedLog).Read", "gsfa/linkedlog.OffsetAndSizeAndSlotSliceFromBytes", "gsfa/linkedlog.(*OffsetAndSizeAndSlot).FromBytes",
	"gsfa/manifest.NewManifest", "gsfa/manifest.(*Manifest).ReadAll",
	"solana-tx-meta-parsers.Parse",
	"main.parseNodeFromSection", "main.readNodeWithKnownSize", "main.readNodeFromReaderAtWithOffsetAndSize", "main.readNodeSizeFromReaderAtWithOffset", "main.readSectionFromReaderAt",
	"ipld/ipldbindcode.(Transaction).Signature", "ipld/ipldbindcode.(Transaction).GetSolanaTransaction",
	"tooling.LoadDataFromDataFrames", "tooling.DecompressZstd",
	"accum.(*ObjectAccumulator).Run", "accum.ObjectsToTransactionsAndMetadata",
}

// c12MainRoots: functions of package main that belong to the scope (prefixes of the root function key).
var c12MainRoots = []string{"main.parseNode", "main.readNode", "main.readSection", "main.(*Epoch).GetNodeByOffsetAndSize"}

// c12ScopePkgs: repository packages whose functions are analysed when reachable from an entry.
var c12ScopePkgs = map[string]bool{
	"iplddecoders": true, "ipld/ipldbindcode": true, "carreader": true, "compactindexsized": true, "deprecated/compactindex": true,
	"deprecated/compactindex36": true, "indexes": true, "indexmeta": true, "bucketteer": true, "deprecated/bucketteer": true,
	"blocktimeindex": true, "gsfa/linkedlog": true, "gsfa/manifest": true, "solana-tx-meta-parsers": true, "main": true, "tooling": true,
	"accum": true, "parse_legacy_transaction_status_meta": true, "third_party/solana_proto/confirmed_block": false,
}

type c12Exempt struct {
	Key    string   `json:"key"`
	CKey   string   `json:"ckey,omitempty"`  // the key the checker prints for the construct (core.KeyStr); what is matched
	CKey2  string   `json:"ckey2,omitempty"` // its short form (core.ShortKey): matched when the value is computed elsewhere
	Rule   string   `json:"rule,omitempty"`
	Reason string   `json:"reason"`
	Needs  []string `json:"needs_fact_mentioning,omitempty"` // the exemption only holds under a dominating guard mentioning these names
	CNeeds []string `json:"cneeds,omitempty"`                // canonical form of Needs
}

// c12Scope returns the functions in scope, the reach map and the entries.
func c12Scope(r *core.Report) ([]*core.Func, map[*core.Func]*core.Func, int) {
	p := r.Prog
	var roots []*core.Func
	matched := map[string]int{}
	for _, f := range p.AllFns {
		if f.Decl == nil || f.Body == nil {
			continue
		}
		for _, pre := range c12Entries {
			if strings.HasPrefix(f.Key, pre) {
				// builder-side methods of (*DB)/(*Bucket) prefixes are readers only in query.go; keep all
				roots = append(roots, f)
				matched[pre]++
				break
			}
		}
	}
	for _, pre := range c12Entries {
		if matched[pre] == 0 {
			r.Undecided("C12.R0", "anchor:"+pre, "", "no parser entry point matches "+pre+": the entry table no longer describes the code")
		}
	}
	reach := p.Reachable(roots, func(cs *core.CallSite) bool {
		// stay inside the parser packages: do not wander into writers/builders through shared helpers
		return true
	}, true)
	var fns []*core.Func
	for f := range reach {
		if f.Body == nil {
			continue
		}
		pk := core.ShortPkg(f.Pkg.PkgPath)
		if !c12ScopePkgs[pk] {
			continue
		}
		if pk == "main" {
			// from package main only the section parsers themselves
			root := f.Root().Key
			in := false
			for _, pre := range c12MainRoots {
				if strings.HasPrefix(root, pre) {
					in = true
				}
			}
			if !in {
				continue
			}
		}
		fns = append(fns, f)
	}
	sort.Slice(fns, func(i, j int) bool { return fns[i].Key < fns[j].Key })
	return fns, reach, len(roots)
}

// C12 — parsers of external data return errors, never crash, on arbitrary bytes.
func C12(r *core.Report) {
	r.Explanation = "Crash-idiom inventory over every repository function reachable from the parser entry points (decoders, CAR reader, compact index readers in three formats, typed index readers, index metadata, sig-exists readers, block-time index, address-index log and manifest, transaction-status parsers, CAR section parsers, frame reassembly, block accumulator): " +
		"R1 single-value type assertions, R2 index and slice expressions, R3 fixed-width binary decodes (binary.*Endian.UintN / PutUintN and the repo's BtoUintN helpers) and slice-to-array conversions, R4 make() sized by a non-constant value, R5 explicit panic, R6 integer division by a non-constant - each site must be discharged by a dominating guard found on the CFG (length facts, comma-ok, range index, loop bounds, array types, lengths of slices made in the function), or be listed with its invariant in tables/c12_exempt.json; an undischarged unlisted site is a violation. " +
		"R9 a data-driven loop (no counter) goes round again only after the error of the read in it was found to be nil: a truncated file, where the read keeps answering (0, io.EOF), ends the loop instead of spinning. Decides: absence of unguarded instances of these idioms in the analysed functions. R10 Meta.MarshalBinary rejects only what the decoder cannot produce (lengths above a limit >= 255): the manifest re-serialises parsed metadata through Meta.Bytes, which panics on a marshal error. R11 the byte count of binary.Uvarint / Varint is used (added to a cursor, sliced with, returned) only where it is known to be positive - a test that excludes 0 only lets an overlong varint (negative count) through; exempt: the count converted to an unsigned type and added to a length that is compared with an upper limit before every successful return. Not decided: termination beyond R9, memory proportionality beyond idiom R4, panics inside dependencies (cbor, cid, solana-go, zstd, protobuf), arithmetic overflow. R12 the decoder of the block-time index accepts a capacity only when a known comparison implies capacity >= end-start+1 (the accessors admit every slot of the inclusive range and index values[slot-start]); the linear form of the compared expression is computed through locals, and the inclusiveness is read from the accessors' own upper test."
	r.Assumptions = []string{"facts are matched syntactically (same printed expression) and must be fresh (no reassignment between guard and use)", "the exemption table entries were confirmed by reading; each names one construct and its invariant"}
	p := r.Prog
	fns, reach, nroots := c12Scope(r)
	table := loadExemptTable(p, "c12_exempt.json")
	usedExempt := map[string]bool{}
	r.Extra["C12_entry_functions"] = nroots
	r.Extra["C12_scope_functions"] = len(fns)
	counts := map[string]int{}
	var curNode *core.GNode
	var curGraph *core.Graph
	report := func(rule, key string, posn string, ok bool, okMsg, badMsg string, f *core.Func) {
		counts[rule]++
		if ok {
			r.OK(rule, key, posn, okMsg)
			return
		}
		if ckey, listed := exemptKey(table, key); listed {
			reason := table[ckey]
			usedExempt[ckey] = true
			needOK := true
			if needs := exemptNeeds[ckey]; len(needs) > 0 {
				needOK = false
				if curNode != nil && curGraph != nil {
					for _, fc := range curGraph.FactsAt(curNode) {
						s := p.CanonText(f.RootKey(), core.ExprStr(fc.Expr))
						all := true
						for _, w := range needs {
							if !core.ContainsCanon(s, w) {
								all = false
							}
						}
						if all && curGraph.FactFresh(fc, curNode) {
							needOK = true
						}
					}
					if !needOK && len(needs) == 1 && guardedInProducer(p, f, curGraph, curNode, needs[0]) {
						needOK = true
					}
				}
			}
			if needOK {
				r.OK(rule, key, posn, "exempt (tables/c12_exempt.json): "+reason)
				return
			}
			badMsg += " [the table exemption for this site requires a dominating guard mentioning " + strings.Join(exemptNeedsText[ckey], ", ") + ", which is missing]"
		}
		r.Violation(rule, key, posn, badMsg, core.PathTo(reach, f)...)
	}
	for _, f := range fns {
		info := f.Pkg.TypesInfo
		g := p.Graph(f)
		// R1 type assertions
		okForm := commaOkAssertions(f)
		cnt := map[string]int{}
		mk := func(s string) string {
			cnt[s]++
			if cnt[s] > 1 {
				return fmt.Sprintf("%s#%d", s, cnt[s])
			}
			return s
		}
		curGraph = g
		ast.Inspect(f.Body, func(n ast.Node) bool {
			if n != nil {
				if e, isExpr := n.(ast.Expr); isExpr {
					curNode = g.NodeOf(e.Pos())
				}
			}
			switch x := n.(type) {
			case *ast.FuncLit:
				return false
			case *ast.TypeAssertExpr:
				if x.Type == nil {
					return true
				}
				key := mk(fmt.Sprintf("%s#assert:%s", f.Key, core.KeyStr(f, x)))
				if decodedLinkAssertion(p, f, x) {
					key = mk(fmt.Sprintf("%s#assert:decoded-link.(cidlink.Link)", f.Key))
					report("C12.R1", key, pos(r, x), true, "a link of a node decoded by this repository's decoders: they construct every link as cidlink.Link (checked: ipldbindcode stores nothing else into a Link slot)", "", f)
					return true
				}
				if c, ok := core.Unparen(x.X).(*ast.CallExpr); ok && core.CalleeName(info, c) == "sync.(*Pool).Get" {
					report("C12.R1", key, pos(r, x), true, "value taken from a sync.Pool the package fills itself (not input data)", "", f)
					return true
				}
				report("C12.R1", key, pos(r, x), okForm[x], "comma-ok / type-switch form", "single-value type assertion on decoded external data: a value of another dynamic type panics instead of returning an error", f)
			case *ast.CallExpr:
				nm := core.CalleeName(info, x)
				// R3 fixed-width decodes
				if w := fixedWidth(nm); w > 0 && len(x.Args) >= 1 {
					arg := x.Args[0]
					nd := g.NodeOf(x.Pos())
					ok, why := bufAtLeast(p, f, g, nd, arg, int64(w))
					if !ok && selfGuardingDecoder(p, info, x, int64(w)) {
						ok, why = true, "the helper checks the length of its argument itself before decoding"
					}
					key := mk(fmt.Sprintf("%s#%s(%s)", f.Key, nm[strings.LastIndex(nm, ".")+1:], core.KeyStr(f, arg)))
					report("C12.R3", key, pos(r, x), ok, why, fmt.Sprintf("%s needs %d bytes but the length of %s is not guarded: a short input panics", nm, w, core.ExprStr(arg)), f)
				}
				// slice-to-array conversion
				if tv, ok := info.Types[x.Fun]; ok && tv.IsType() && len(x.Args) == 1 {
					if at, ok := tv.Type.Underlying().(*types.Array); ok {
						if _, isSl := info.TypeOf(x.Args[0]).Underlying().(*types.Slice); isSl {
							nd := g.NodeOf(x.Pos())
							ok, why := bufAtLeast(p, f, g, nd, x.Args[0], at.Len())
							key := mk(fmt.Sprintf("%s#toarray(%s)", f.Key, core.KeyStr(f, x.Args[0])))
							report("C12.R3", key, pos(r, x), ok, why, "slice-to-array conversion without a length guard", f)
						}
					}
				}
				switch core.BuiltinName(info, x) {
				case "make":
					if len(x.Args) >= 2 {
						for _, a := range x.Args[1:] {
							if _, isConst := core.ConstInt(info, a); isConst {
								continue
							}
							nd := g.NodeOf(x.Pos())
							ok, why := sizeBounded(p, f, g, nd, a)
							key := mk(fmt.Sprintf("%s#make(%s)", f.Key, core.KeyStr(f, a)))
							report("C12.R4", key, pos(r, x), ok, why, "allocation sized by "+core.ExprStr(a)+", which is taken from the input without an upper bound (or can be negative)", f)
						}
					}
				case "panic":
					key := mk(fmt.Sprintf("%s#panic(%s)", f.Key, core.Trunc(argList(f, x), 40)))
					report("C12.R5", key, pos(r, x), false, "", "explicit panic in a parser of external data", f)
				}
			case *ast.BinaryExpr:
				if (x.Op == token.QUO || x.Op == token.REM) && isIntegerType(info.TypeOf(x.X)) {
					if _, isConst := core.ConstInt(info, x.Y); !isConst {
						nd := g.NodeOf(x.Pos())
						ok := false
						if nd != nil {
							for _, fc := range g.FactsAt(nd) {
								if strings.Contains(core.ExprStr(fc.Expr), core.ExprStr(x.Y)) {
									ok = true
								}
							}
						}
						key := mk(fmt.Sprintf("%s#div(%s)", f.Key, core.KeyStr(f, x)))
						report("C12.R6", key, pos(r, x), ok, "divisor is tested before the division", "integer division by "+core.ExprStr(x.Y)+", which is not tested against zero", f)
					}
				}
			}
			return true
		})
		// R2 bounds
		for _, s := range analyzeBounds(p, f) {
			curNode = g.NodeOf(s.Expr.Pos())
			key := mk(s.key())
			if !s.OK {
				// a constant bound on a parameter: every caller in the repository passes a buffer at least that long
				if need, ok := constNeed(info, s); ok {
					if okc, why := paramLongEnoughAtCallers(p, f, s.Base, need); okc {
						s.OK, s.Reason = true, why
					}
				}
			}
			report("C12.R2", key, pos(r, s.Expr), s.OK, s.Reason, s.Reason+": out-of-range on malformed input panics instead of returning an error", f)
		}
	}
	c12Invariants(r)
	c12KindByte(r)
	c12ReadLoopsLeaveOnError(r, fns)
	c12VarintCountUsedOnlyWhenPositive(r, fns)
	c12MarshalAcceptsWhatWasParsed(r)
	// stale table entries are reported (not as violations) so the table stays minimal
	var stale []string
	for k := range table {
		if strings.HasPrefix(k, "short:") {
			continue
		}
		if !usedExempt[k] {
			stale = append(stale, k)
		}
	}
	sort.Strings(stale)
	r.Extra["C12_exempt_entries"] = len(table)
	r.Extra["C12_exempt_stale"] = stale
	r.Extra["C12_site_counts"] = counts
	c12CapacityCoversTheSlotRange(r)
	r.Floor("C12.R12", 1)
	r.Floor("C12.R1", 6)
	r.Floor("C12.R9", 2)
	r.Floor("C12.R2", 44)
	r.Floor("C12.R3", 10)
	r.Floor("C12.R4", 8)
}

// c12KindByte (R8): anywhere in the repository, a byte of a CAR section that is converted to
// iplddecoders.Kind must be read under a length guard (or through iplddecoders.GetKind).
func c12KindByte(r *core.Report) {
	const rule = "C12.R8"
	p := r.Prog
	n := 0
	for _, f := range p.AllFns {
		if f.Body == nil {
			continue
		}
		info := f.Pkg.TypesInfo
		var sites []*ast.IndexExpr
		ast.Inspect(f.Body, func(m ast.Node) bool {
			if _, ok := m.(*ast.FuncLit); ok {
				return false
			}
			c, ok := m.(*ast.CallExpr)
			if !ok || len(c.Args) != 1 {
				return true
			}
			tv, ok := info.Types[c.Fun]
			if !ok || !tv.IsType() || core.NamedTypeName(tv.Type) != "iplddecoders.Kind" {
				return true
			}
			if ix, ok := core.Unparen(c.Args[0]).(*ast.IndexExpr); ok {
				sites = append(sites, ix)
			}
			return true
		})
		if len(sites) == 0 {
			continue
		}
		bs := analyzeBounds(p, f)
		for _, ix := range sites {
			n++
			ok, why := false, "site not analysed"
			for _, s := range bs {
				if s.Expr == ast.Expr(ix) {
					ok, why = s.OK, s.Reason
				}
			}
			r.Check(ok, rule, fmt.Sprintf("%s#kind(%s)", f.Key, core.KeyStr(f, ix)), pos(r, ix), "kind byte read under a length guard: "+why,
				"the node kind is read as "+core.ExprStr(ix)+" without checking that the section has that many bytes (use iplddecoders.GetKind): an empty or one-byte section panics the reader")
		}
	}
	r.Extra["C12_kind_byte_reads"] = n
}

type c12Invariant struct {
	Func      string   `json:"func"`
	Mentions  []string `json:"mentions"`
	CMentions []string `json:"cmentions,omitempty"` // canonical form of Mentions w.r.t. the locals of Func (core/canon.go)
	What      string   `json:"what"`
}

// c12Invariants (R7): the validation steps that the exemption table relies on are really performed:
// every non-error return of the named function is dominated by a rejecting guard (a condition whose
// other branch returns an error) that mentions all the listed names.
func c12Invariants(r *core.Report) { checkInvariantTable(r, "C12.R7", "c12_invariants.json") }

// checkInvariantTable: see c12Invariants; shared by other properties with their own tables.
func checkInvariantTable(r *core.Report, rule, tableFile string) {
	p := r.Prog
	b, err := os.ReadFile(filepath.Join(VerifDir, "tables", tableFile))
	if err != nil {
		r.Undecided(rule, "table", "", "tables/"+tableFile+" missing: "+err.Error())
		return
	}
	var list []c12Invariant
	if err := json.Unmarshal(b, &list); err != nil {
		r.Undecided(rule, "table", "", "bad invariants table: "+err.Error())
		return
	}
	for _, inv := range list {
		key := inv.Func + "#guards(" + strings.Join(inv.Mentions, ",") + ")"
		f := p.Fn(inv.Func)
		if f == nil || f.Body == nil {
			r.Undecided(rule, "anchor:"+key, "", "function "+inv.Func+" not found: the exemptions relying on its validation cannot be justified")
			continue
		}
		cm := inv.CMentions
		if len(cm) != len(inv.Mentions) {
			cm = nil
			for _, m := range inv.Mentions {
				cm = append(cm, p.CanonText(f.RootKey(), m))
			}
		}
		bad := invariantHolds(p, f, cm, 0)
		r.Check(bad == "", rule, key, posP(r, f.Pos()), inv.What+": validated on every success path", inv.What+" - this validation is relied upon by bounds/size exemptions elsewhere, but "+bad)
	}
}

func containsWord(s, w string) bool {
	for i := 0; i+len(w) <= len(s); i++ {
		if s[i:i+len(w)] != w {
			continue
		}
		before := i == 0 || !isIdentChar(s[i-1])
		after := i+len(w) == len(s) || !isIdentChar(s[i+len(w)])
		if before && after || strings.ContainsAny(w, "(.") {
			return true
		}
	}
	return false
}

func isIdentChar(c byte) bool {
	return c == '_' || c >= '0' && c <= '9' || c >= 'a' && c <= 'z' || c >= 'A' && c <= 'Z'
}

func isIntegerType(t types.Type) bool {
	if t == nil {
		return false
	}
	b, ok := t.Underlying().(*types.Basic)
	return ok && b.Info()&types.IsInteger != 0
}

func commaOkAssertions(f *core.Func) map[*ast.TypeAssertExpr]bool {
	okForm := map[*ast.TypeAssertExpr]bool{}
	ast.Inspect(f.Body, func(n ast.Node) bool {
		switch s := n.(type) {
		case *ast.AssignStmt:
			if len(s.Lhs) == 2 && len(s.Rhs) == 1 {
				if ta, ok := core.Unparen(s.Rhs[0]).(*ast.TypeAssertExpr); ok {
					okForm[ta] = true
				}
			}
		case *ast.ValueSpec:
			if len(s.Names) == 2 && len(s.Values) == 1 {
				if ta, ok := core.Unparen(s.Values[0]).(*ast.TypeAssertExpr); ok {
					okForm[ta] = true
				}
			}
		case *ast.TypeSwitchStmt:
			ast.Inspect(s.Assign, func(m ast.Node) bool {
				if ta, ok := m.(*ast.TypeAssertExpr); ok {
					okForm[ta] = true
				}
				return true
			})
		}
		return true
	})
	return okForm
}

// fixedWidth returns the number of bytes the named decode/encode helper reads from its first argument.
func fixedWidth(nm string) int {
	switch {
	case strings.HasSuffix(nm, "Endian).Uint16"), strings.HasSuffix(nm, "Endian).PutUint16"):
		return 2
	case strings.HasSuffix(nm, "Endian).Uint32"), strings.HasSuffix(nm, "Endian).PutUint32"):
		return 4
	case strings.HasSuffix(nm, "Endian).Uint64"), strings.HasSuffix(nm, "Endian).PutUint64"):
		return 8
	}
	switch nm {
	case "indexes.BtoUint24":
		return 3
	case "indexes.BtoUint40":
		return 5
	case "indexes.BtoUint48":
		return 6
	case "indexes.BtoUint64", "indexmeta.decodeUint64":
		return 8
	}
	return 0
}

// bufAtLeast: the byte slice expression has at least w bytes at node n: constant-bounded slice expression,
// array, slice made with a constant length, or a dominating length fact.
func bufAtLeast(p *core.Prog, f *core.Func, g *core.Graph, n *core.GNode, e ast.Expr, w int64) (bool, string) {
	info := f.Pkg.TypesInfo
	e = core.Unparen(e)
	if se, ok := e.(*ast.SliceExpr); ok {
		lo, hi := int64(0), int64(-1)
		if se.Low != nil {
			if c, ok := core.ConstInt(info, se.Low); ok {
				lo = c
			} else {
				lo = -1
			}
		}
		if se.High != nil {
			if c, ok := core.ConstInt(info, se.High); ok {
				hi = c
			}
		} else if at := arrayLen(info.TypeOf(se.X)); at >= 0 {
			hi = at
		}
		if lo >= 0 && hi >= 0 && hi-lo >= w {
			// the slice expression itself is a bounds site (checked by R2); given it succeeds, the width is available
			return true, fmt.Sprintf("argument is a %d-byte constant sub-slice", hi-lo)
		}
		// buf[a:] with len(buf) >= a+w
		if lo >= 0 && se.High == nil {
			if l := minLenAt(p, f, g, n, se.X); l >= lo+w {
				return true, fmt.Sprintf("len(%s) >= %d is known here", core.ExprStr(se.X), lo+w)
			}
		}
		return false, ""
	}
	if at := arrayLen(info.TypeOf(e)); at >= w {
		return true, "argument is an array of sufficient size"
	}
	if l := minLenAt(p, f, g, n, e); l >= w {
		return true, fmt.Sprintf("len(%s) >= %d is known here", core.ExprStr(e), w)
	}
	// a local assigned once from a constant sub-slice (buf := scratch[:4] with scratch an array)
	if o := core.ObjOf(info, e); o != nil {
		if d := singleDef(f, o); d != nil {
			if _, isSl := core.Unparen(d).(*ast.SliceExpr); isSl {
				if ok, _ := bufAtLeastNoRec(p, f, g, n, d, w); ok {
					return true, fmt.Sprintf("%s is the constant sub-slice %s", core.ExprStr(e), core.ExprStr(d))
				}
			}
		}
	}
	// a function parameter whose every caller in the repository passes a sufficiently long buffer: one level
	if o := core.ObjOf(info, e); o != nil && f.Obj != nil {
		idx := -1
		for i := 0; ; i++ {
			po := f.ParamObj(i)
			if po == nil {
				break
			}
			if po == o {
				idx = i
			}
		}
		if idx >= 0 {
			callers := p.Callers(f)
			if len(callers) > 0 {
				all := true
				for _, cs := range callers {
					if idx >= len(cs.Call.Args) {
						all = false
						break
					}
					cg := p.Graph(cs.In)
					ok, _ := bufAtLeastNoRec(p, cs.In, cg, cg.NodeOf(cs.Call.Pos()), cs.Call.Args[idx], w)
					if !ok {
						all = false
					}
				}
				if all {
					return true, fmt.Sprintf("all %d repository callers pass at least %d bytes", len(callers), w)
				}
			}
		}
	}
	return false, ""
}

func bufAtLeastNoRec(p *core.Prog, f *core.Func, g *core.Graph, n *core.GNode, e ast.Expr, w int64) (bool, string) {
	info := f.Pkg.TypesInfo
	e = core.Unparen(e)
	if se, ok := e.(*ast.SliceExpr); ok {
		lo, hi := int64(0), int64(-1)
		if se.Low != nil {
			if c, ok := core.ConstInt(info, se.Low); ok {
				lo = c
			} else {
				lo = -1
			}
		}
		if se.High != nil {
			if c, ok := core.ConstInt(info, se.High); ok {
				hi = c
			}
		} else if at := arrayLen(info.TypeOf(se.X)); at >= 0 {
			hi = at
		}
		if lo >= 0 && hi >= 0 && hi-lo >= w {
			return true, ""
		}
		if lo >= 0 && se.High == nil {
			if l := minLenAt(p, f, g, n, se.X); l >= lo+w {
				return true, ""
			}
		}
		return false, ""
	}
	if at := arrayLen(info.TypeOf(e)); at >= w {
		return true, ""
	}
	return minLenAt(p, f, g, n, e) >= w, ""
}

func arrayLen(t types.Type) int64 {
	if t == nil {
		return -1
	}
	if at, ok := t.Underlying().(*types.Array); ok {
		return at.Len()
	}
	if pt, ok := t.Underlying().(*types.Pointer); ok {
		if at, ok := pt.Elem().Underlying().(*types.Array); ok {
			return at.Len()
		}
	}
	return -1
}

// minLenAt: lower bound of len(e) at node n from facts and from a dominating make with constant length.
func minLenAt(p *core.Prog, f *core.Func, g *core.Graph, n *core.GNode, e ast.Expr) int64 {
	info := f.Pkg.TypesInfo
	var best int64
	if n != nil {
		best = minLenFromFacts(g, info, n, e)
	}
	if o := core.ObjOf(info, e); o != nil {
		// x := make([]byte, C) / var x [C]byte, never reassigned
		var lens []int64
		reassigned := false
		ast.Inspect(f.Body, func(m ast.Node) bool {
			if as, ok := m.(*ast.AssignStmt); ok && len(as.Lhs) == len(as.Rhs) {
				for i, l := range as.Lhs {
					if core.ObjOf(info, l) != o {
						continue
					}
					if c, ok := core.Unparen(as.Rhs[i]).(*ast.CallExpr); ok && core.BuiltinName(info, c) == "make" && len(c.Args) >= 2 {
						if k, ok := core.ConstInt(info, c.Args[1]); ok {
							lens = append(lens, k)
							continue
						}
					}
					reassigned = true
				}
			}
			return true
		})
		if !reassigned && len(lens) > 0 {
			m := lens[0]
			for _, l := range lens {
				if l < m {
					m = l
				}
			}
			if m > best {
				best = m
			}
		}
	}
	return best
}

// sizeBounded: the allocation size expression is bounded above by a dominating comparison (and is of an
// unsigned type or compared from below), or is derived from len()/cap() of existing data.
func sizeBounded(p *core.Prog, f *core.Func, g *core.Graph, n *core.GNode, a ast.Expr) (bool, string) {
	return sizeBoundedDepth(p, f, g, n, a, 0)
}

func sizeBoundedDepth(p *core.Prog, f *core.Func, g *core.Graph, n *core.GNode, a ast.Expr, depth int) (bool, string) {
	info := f.Pkg.TypesInfo
	// what is left of a CAR section after its CID: int64(L) - int64(c) with L the length ReadSectionLength returned (at most
	// util.MaxAllowedSectionSize: C12.R7 carreader) and the difference known not to be negative - directly, through a local,
	// or as a field of the struct a helper returned
	if sectionRemainderBounded(p, f, g, n, a, 0) {
		return true, "size is a section length bounded by ReadSectionLength minus the CID length, checked not to be negative"
	}
	// sums and products whose operands are each bounded on their own: constants, values of 8/16-bit types, lengths of
	// existing buffers, min(K, x) with a constant K, and locals assigned once from such expressions
	if boundedArith(p, f, a, 0) {
		return true, "every operand of the size is bounded by a constant, by its 8/16-bit type or by min(constant, _)"
	}
	// a local that is a (converted) copy of a value of a small unsigned type: stride := int64(b.Stride)
	if id, isId := core.Unparen(a).(*ast.Ident); isId && depth < 3 {
		if v, isVar := info.Uses[id].(*types.Var); isVar && !v.IsField() && !isParamOf(f.Root(), v) {
			if d := singleDef(f.Root(), v); d != nil {
				src := stripConvs(info, d)
				if bt, ok := info.TypeOf(src).Underlying().(*types.Basic); ok && (bt.Kind() == types.Uint8 || bt.Kind() == types.Uint16) {
					return true, "size is a copy of an 8/16-bit value: bounded by its type"
				}
			}
		}
	}
	// the size is a parameter of an unexported function that is never reassigned: it is what the callers pass - a constant,
	// or an expression bounded at the call site
	if po, isVar := core.ObjOf(info, core.Unparen(a)).(*types.Var); isVar && depth < 2 && f.Lit == nil && f.Obj != nil && !f.Obj.Exported() && isParamOf(f, po) {
		pi := -1
		for i := 0; f.ParamObj(i) != nil; i++ {
			if f.ParamObj(i) == po {
				pi = i
			}
		}
		reassigned := false
		ast.Inspect(f.Body, func(m ast.Node) bool {
			if as, isAs := m.(*ast.AssignStmt); isAs && core.AssignsObj(info, as, po) {
				reassigned = true
			}
			if id, isInc := m.(*ast.IncDecStmt); isInc && core.ObjOf(info, id.X) == types.Object(po) {
				reassigned = true
			}
			return !reassigned
		})
		callers := p.Callers(f)
		if pi >= 0 && !reassigned && len(callers) > 0 {
			all := true
			for _, cs := range callers {
				if cs.In == nil || pi >= len(cs.Call.Args) || cs.Dynamic {
					all = false
					break
				}
				ci := cs.In.Pkg.TypesInfo
				arg := cs.Call.Args[pi]
				if _, isC := core.ConstInt(ci, arg); isC {
					continue
				}
				cg := p.Graph(cs.In)
				if ok, _ := sizeBoundedDepth(p, cs.In, cg, cg.NodeOf(cs.Call.Pos()), arg, depth+1); !ok {
					all = false
					break
				}
			}
			if all {
				return true, "size is a parameter to which every caller passes a constant or a bounded value"
			}
		}
	}
	// every variable operand has a small unsigned type: the size is bounded by the type
	small := true
	nvars := 0
	ast.Inspect(a, func(m ast.Node) bool {
		var e ast.Expr
		switch x := m.(type) {
		case *ast.Ident:
			if _, ok := info.Uses[x].(*types.Var); ok {
				e = x
			}
		case *ast.SelectorExpr:
			if s := info.Selections[x]; s != nil && s.Kind() == types.FieldVal {
				e = x
			}
		case *ast.CallExpr:
			if tv, ok := info.Types[x.Fun]; !(ok && tv.IsType()) && core.BuiltinName(info, x) == "" {
				small = false
			}
		}
		if e != nil {
			nvars++
			bt, ok := info.TypeOf(e).Underlying().(*types.Basic)
			if !ok || (bt.Kind() != types.Uint8 && bt.Kind() != types.Uint16) {
				small = false
			}
			if _, isSel := e.(*ast.SelectorExpr); isSel {
				return false
			}
		}
		return true
	})
	if small && nvars > 0 {
		return true, "size operands are 8/16-bit values: bounded by their type"
	}
	// a local variable that is only ever assigned constants
	if o := core.ObjOf(info, a); o != nil && o.Pos() >= f.Body.Pos() && o.Pos() < f.Body.End() {
		onlyConst, any := true, false
		// sums of lengths of buffers that already exist count like constants: the result is proportional to the input held
		lenOnly := func(e ast.Expr) bool {
			ok := true
			ast.Inspect(e, func(m ast.Node) bool {
				switch x := m.(type) {
				case *ast.CallExpr:
					bn := core.BuiltinName(info, x)
					if bn == "len" || bn == "cap" {
						return false
					}
					if tv, isT := info.Types[x.Fun]; isT && tv.IsType() {
						return true
					}
					ok = false
				case *ast.Ident:
					if v, isV := info.Uses[x].(*types.Var); isV && v != o {
						ok = false
					}
				case *ast.BinaryExpr:
					if x.Op != token.ADD {
						ok = false
					}
				}
				return true
			})
			return ok
		}
		ast.Inspect(f.Body, func(m ast.Node) bool {
			switch s := m.(type) {
			case *ast.AssignStmt:
				for i, l := range s.Lhs {
					if core.ObjOf(info, l) == o {
						any = true
						if len(s.Rhs) != len(s.Lhs) {
							onlyConst = false
						} else if _, isC := core.ConstInt(info, s.Rhs[i]); !isC && !((s.Tok == token.ADD_ASSIGN || s.Tok == token.ASSIGN || s.Tok == token.DEFINE) && lenOnly(s.Rhs[i])) {
							onlyConst = false
						}
					}
				}
			case *ast.IncDecStmt:
				if core.ObjOf(info, s.X) == o {
					onlyConst = false
				}
			}
			return true
		})
		if any && onlyConst {
			return true, "size is a local variable that only ever holds constants or sums of lengths of existing buffers"
		}
	}
	// sizes built only from len(...)/cap(...) of existing buffers and constants are proportional to the input
	onlyLen := true
	ast.Inspect(a, func(m ast.Node) bool {
		switch x := m.(type) {
		case *ast.CallExpr:
			bn := core.BuiltinName(info, x)
			if bn == "len" || bn == "cap" || bn == "min" {
				return false
			}
			if tv, ok := info.Types[x.Fun]; ok && tv.IsType() {
				return true
			}
			onlyLen = false
			return false
		case *ast.Ident:
			if o, ok := info.Uses[x].(*types.Var); ok {
				_ = o
				onlyLen = false
			}
		case *ast.SelectorExpr:
			if _, ok := info.Uses[x.Sel].(*types.Const); !ok {
				onlyLen = false
			}
			return false
		}
		return true
	})
	if onlyLen {
		if be, ok := core.Unparen(a).(*ast.BinaryExpr); ok && be.Op == token.SUB {
			// len(x) - k: needs len(x) >= k
			if n != nil {
				if c, ok := core.Unparen(be.X).(*ast.CallExpr); ok && core.BuiltinName(info, c) == "len" {
					if k, ok := core.ConstInt(info, be.Y); ok && minLenFromFacts(g, info, n, c.Args[0]) >= k {
						return true, "size is len(buffer) minus a constant covered by a length guard"
					}
				}
			}
			return false, ""
		}
		return true, "size derived from the length of existing data"
	}
	if n == nil {
		return false, ""
	}
	// every variable in the size expression has a dominating upper-bound comparison against a constant (or a named limit)
	vars := map[string]bool{}
	ast.Inspect(a, func(m ast.Node) bool {
		switch x := m.(type) {
		case *ast.Ident:
			if _, ok := info.Uses[x].(*types.Var); ok {
				vars[x.Name] = true
			}
		case *ast.SelectorExpr:
			if s := info.Selections[x]; s != nil && s.Kind() == types.FieldVal {
				vars[core.ExprStr(x)] = true
				return false
			}
		}
		return true
	})
	if be, ok := core.Unparen(a).(*ast.BinaryExpr); ok && be.Op == token.SUB {
		// a - b: needs a >= b known
		okSub := false
		for _, fc := range g.FactsAt(n) {
			s := core.ExprStr(fc.Expr)
			if strings.Contains(s, core.ExprStr(be.X)) && strings.Contains(s, core.ExprStr(be.Y)) && g.FactFresh(fc, n) {
				okSub = true
			}
		}
		if !okSub {
			return false, ""
		}
	}
	for v := range vars {
		bounded := false
		for _, fc := range g.FactsAt(n) {
			be, ok := core.Unparen(fc.Expr).(*ast.BinaryExpr)
			if !ok || fc.Tag != nil {
				continue
			}
			s := core.ExprStr(fc.Expr)
			if !strings.Contains(s, v) {
				continue
			}
			// v > LIMIT false, v <= LIMIT true, v < LIMIT true, LIMIT < v false ...
			upper := false
			lhsHas := strings.Contains(core.ExprStr(be.X), v)
			switch be.Op {
			case token.GTR, token.GEQ:
				upper = (lhsHas && !fc.Truth) || (!lhsHas && fc.Truth)
			case token.LSS, token.LEQ:
				upper = (lhsHas && fc.Truth) || (!lhsHas && !fc.Truth)
			case token.EQL:
				upper = fc.Truth
			case token.NEQ:
				upper = !fc.Truth
			}
			if upper && g.FactFresh(fc, n) {
				bounded = true
			}
		}
		if !bounded && boundedByValidatingMethod(p, f, g, n, v) {
			bounded = true
		}
		if !bounded {
			return false, ""
		}
	}
	if len(vars) == 0 {
		return false, ""
	}
	return true, "every input-derived operand of the size has a dominating upper bound"
}

// narrowArith: the expression contains an addition or multiplication of two non-constant operands carried out in an
// integer type narrower than 64 bits (uint8, uint16, uint32, int8, int16, int32): the result can wrap.
func narrowArith(info *types.Info, e ast.Expr) bool {
	found := false
	ast.Inspect(e, func(n ast.Node) bool {
		be, ok := n.(*ast.BinaryExpr)
		if !ok || (be.Op != token.ADD && be.Op != token.MUL && be.Op != token.SHL) {
			return true
		}
		tv, ok := info.Types[be]
		if !ok || tv.Value != nil {
			return true
		}
		b, ok := tv.Type.Underlying().(*types.Basic)
		if !ok {
			return true
		}
		switch b.Kind() {
		case types.Uint8, types.Uint16, types.Uint32, types.Int8, types.Int16, types.Int32:
			if xv, ok := info.Types[be.X]; ok && xv.Value == nil {
				if yv, ok := info.Types[be.Y]; ok && yv.Value == nil {
					found = true
				}
			}
		}
		return true
	})
	return found
}

// invariantHolds: every non-error return of f is dominated by a rejecting guard that mentions all the names, either in f
// itself or - when the success path runs through `if err := helper(args); err != nil { return err }` - in the helper,
// with the names translated from the caller's argument expressions to the helper's parameters. Returns "" when it holds.
func invariantHolds(p *core.Prog, f *core.Func, mentions []string, depth int) string {
	g := p.Graph(f)
	info := f.Pkg.TypesInfo
	canon := func(e ast.Node) string { return p.CanonText(f.RootKey(), core.ExprStr(e)) }
	// the edges after which the validation is known to have been made:
	//  (a) the surviving side of a rejecting guard that mentions every listed quantity,
	//  (b) the nil outcome of a helper that receives the quantities and itself validates them on every success path,
	//  (c) the side on which a mentioned pointer is nil (nothing to compare with: the `p != nil && ...` form of a guard)
	passed := map[*core.GNode]bool{}
	for _, e := range g.Nodes {
		if e.Kind != core.KEdge || e.Ast == nil {
			continue
		}
		for _, fc := range e.Facts() {
			if x, isNil, isCmp := core.NilCompare(info, fc.Expr); fc.Tag == nil && isCmp && isNil == fc.Truth {
				// (c)
				cx := canon(x)
				for _, m := range mentions {
					if cx == m {
						passed[e] = true
					}
				}
				// (b) delegated validation: err == nil of a helper call
				if eo := core.ObjOf(info, x); eo != nil && core.IsErrorType(eo.Type()) && depth < 3 {
					var call *ast.CallExpr
					ast.Inspect(f.Body, func(n ast.Node) bool {
						as, isA := n.(*ast.AssignStmt)
						if !isA || len(as.Rhs) != 1 || as.Pos() > fc.Expr.Pos() {
							return true
						}
						for _, l := range as.Lhs {
							if core.ObjOf(info, l) == eo {
								if c, isC := core.Unparen(as.Rhs[0]).(*ast.CallExpr); isC {
									call = c
								}
							}
						}
						return true
					})
					if call != nil {
						if fn := core.Callee(info, call); fn != nil {
							if h := p.ByObj[fn.Origin()]; h != nil && h.Body != nil {
								// translate the mentioned quantities into the helper's terms: an argument that is (or
								// contains) a mentioned quantity becomes the helper's parameter at that position
								tr := make([]string, len(mentions))
								copy(tr, mentions)
								for ai, a := range call.Args {
									po := h.ParamObj(ai)
									if po == nil {
										continue
									}
									as := canon(a)
									ptok := p.CanonText(h.RootKey(), po.Name())
									for i := range tr {
										if core.ContainsCanon(tr[i], as) {
											tr[i] = strings.ReplaceAll(tr[i], as, ptok)
										} else if strings.Contains(as, tr[i]) {
											tr[i] = ptok // the mentioned quantity is passed as this argument
										}
									}
								}
								if invariantHolds(p, h, tr, depth+1) == "" {
									passed[e] = true
								}
							}
						}
					}
				}
			}
			// (a) - the guard may be written on locals that hold the mentioned quantities (keyLen := len(key))
			s := canon(fc.Expr)
			if fc.Tag != nil {
				s = canon(fc.Tag) + " == " + s // a case of `switch <tag>`
			}
			sx := p.CanonText(f.RootKey(), expandLocals(f, fc.Expr, 0))
			all := true
			for _, m := range mentions {
				if !core.ContainsCanon(s, m) && !core.ContainsCanon(sx, m) {
					all = false
				}
			}
			if !all || narrowArith(info, fc.Expr) {
				continue // (a guard computed in a narrow integer type can wrap around and let through what it should reject)
			}
			// the other branch must reject (reach only error returns before re-joining)
			var opp *core.GNode
			for _, pr := range e.Preds {
				for _, sx := range pr.Succs {
					if sx != e && sx.Kind == core.KEdge {
						opp = sx
					}
				}
			}
			if opp == nil {
				continue
			}
			for x := range g.ReachFromIncl(opp, nil) {
				if x.Kind == core.KStmt && g.Dominates(opp, x) {
					if _, isRet := x.Ast.(*ast.ReturnStmt); isRet && definitelyErrorReturn(g, f, x) {
						passed[e] = true
					}
				}
			}
		}
	}
	bad := ""
	nret := 0
	for _, rn := range g.Returns() {
		if definitelyErrorReturn(g, f, rn) {
			continue
		}
		nret++
		// tail call `return validate(...)`: this return succeeds exactly when the callee does
		if res := returnResults(rn); len(res) == 1 && depth < 3 {
			if call, isC := core.Unparen(res[0]).(*ast.CallExpr); isC {
				if fn := core.Callee(info, call); fn != nil {
					if h := p.ByObj[fn.Origin()]; h != nil && h.Body != nil && h != f {
						tr := make([]string, len(mentions))
						copy(tr, mentions)
						for ai, a := range call.Args {
							po := h.ParamObj(ai)
							if po == nil {
								continue
							}
							as := canon(a)
							ptok := p.CanonText(h.RootKey(), po.Name())
							for i := range tr {
								if core.ContainsCanon(tr[i], as) {
									tr[i] = strings.ReplaceAll(tr[i], as, ptok)
								} else if strings.Contains(as, tr[i]) {
									tr[i] = ptok
								}
							}
						}
						if invariantHolds(p, h, tr, depth+1) == "" {
							continue
						}
					}
				}
			}
		}
		if path := g.PathAvoiding(g.Entry, func(x *core.GNode) bool { return x == rn }, func(x *core.GNode) bool { return passed[x] }); path != nil {
			bad = "the return at " + p.Rel(rn.Ast.Pos()) + " can be reached without passing a rejecting guard that mentions " + strings.Join(mentions, ", ")
		}
	}
	if nret == 0 {
		bad = "no success return found"
	}
	return bad
}


// constNeed: the number of bytes a bounds site needs from its base when the bound is a constant: x[k] needs k+1,
// x[a:b] needs b, x[a:] needs a.
func constNeed(info *types.Info, s boundsSite) (int64, bool) {
	switch e := s.Expr.(type) {
	case *ast.IndexExpr:
		if c, ok := core.ConstInt(info, e.Index); ok {
			return c + 1, true
		}
	case *ast.SliceExpr:
		var need int64 = -1
		if e.High != nil {
			if c, ok := core.ConstInt(info, e.High); ok {
				need = c
			} else {
				return 0, false
			}
		}
		if e.Low != nil {
			if c, ok := core.ConstInt(info, e.Low); ok {
				if c > need {
					need = c
				}
			} else {
				return 0, false
			}
		}
		if need >= 0 {
			return need, true
		}
	}
	return 0, false
}

// paramLongEnoughAtCallers: base is a slice parameter of f and every call site of f in the repository passes a buffer
// whose length (capacity, for a slice of a whole array) is statically at least need.
func paramLongEnoughAtCallers(p *core.Prog, f *core.Func, base ast.Expr, need int64) (bool, string) {
	info := f.Pkg.TypesInfo
	o := core.ObjOf(info, base)
	if o == nil || f.Obj == nil {
		return false, ""
	}
	idx := -1
	for i := 0; ; i++ {
		po := f.ParamObj(i)
		if po == nil {
			break
		}
		if po == o {
			idx = i
		}
	}
	if idx < 0 {
		return false, ""
	}
	// the parameter must not be reassigned to something else before the site (only reslicing of itself is allowed)
	callers := p.Callers(f)
	if len(callers) == 0 {
		return false, ""
	}
	for _, cs := range callers {
		if idx >= len(cs.Call.Args) {
			return false, ""
		}
		cg := p.Graph(cs.In)
		if ok, _ := bufAtLeast(p, cs.In, cg, cg.NodeOf(cs.Call.Pos()), cs.Call.Args[idx], need); !ok {
			return false, ""
		}
	}
	return true, fmt.Sprintf("every one of the %d callers passes at least %d bytes for %s", len(callers), need, o.Name())
}

// decodedLinkAssertion: x.(cidlink.Link) where x is a link taken out of a node that this repository's own decoders
// produced (an element of an ipldbindcode.List__Link, or a datamodel.Link field of an ipldbindcode node). Those decoders
// build every link as cidlink.Link{Cid: ...}; that supporting fact is checked once per run by linkSlotsHoldCidlinks.
func decodedLinkAssertion(p *core.Prog, f *core.Func, x *ast.TypeAssertExpr) bool {
	info := f.Pkg.TypesInfo
	if t := info.TypeOf(x.Type); t == nil || !strings.HasSuffix(t.String(), "linking/cid.Link") {
		return false
	}
	st := info.TypeOf(x.X)
	if st == nil || !strings.HasSuffix(st.String(), "datamodel.Link") {
		return false
	}
	if !linkSlotsHoldCidlinks(p) {
		return false
	}
	fromNode := func(e ast.Expr) bool {
		t := info.TypeOf(e)
		if t == nil {
			return false
		}
		s := t.String()
		return strings.Contains(s, "ipld/ipldbindcode.")
	}
	switch e := core.Unparen(x.X).(type) {
	case *ast.SelectorExpr: // node.Rewards
		return fromNode(e.X)
	case *ast.IndexExpr: // node.Entries[i]
		return fromNode(e.X) || func() bool {
			if se, ok := core.Unparen(e.X).(*ast.SelectorExpr); ok {
				return fromNode(se.X)
			}
			return false
		}()
	case *ast.Ident: // range value over a List__Link, or a local copy of one of the above
		o := info.ObjectOf(e)
		found := false
		ast.Inspect(f.Root().Body, func(n ast.Node) bool {
			switch s := n.(type) {
			case *ast.RangeStmt:
				if s.Value != nil && core.ObjOf(info, s.Value) == o {
					if t := info.TypeOf(s.X); t != nil && (strings.Contains(t.String(), "ipld/ipldbindcode.List__Link") || strings.Contains(t.String(), "[]github.com/ipld/go-ipld-prime/datamodel.Link")) {
						found = true
					}
				}
			case *ast.AssignStmt:
				for i, l := range s.Lhs {
					if core.ObjOf(info, l) == o && i < len(s.Rhs) {
						switch r := core.Unparen(s.Rhs[i]).(type) {
						case *ast.SelectorExpr:
							if fromNode(r.X) {
								found = true
							}
						case *ast.IndexExpr:
							if t := info.TypeOf(r.X); t != nil && strings.Contains(t.String(), "List__Link") {
								found = true
							}
						}
					}
				}
			}
			return true
		})
		if found {
			return true
		}
		// the link is a parameter of an unexported helper (getFramesBehindLink(link, ...)): it is a decoded link when every
		// caller passes one
		if v, isVar := o.(*types.Var); isVar && f.Lit == nil && f.Obj != nil && !f.Obj.Exported() && isParamOf(f, v) {
			pi := -1
			for i := 0; f.ParamObj(i) != nil; i++ {
				if f.ParamObj(i) == v {
					pi = i
				}
			}
			callers := p.Callers(f)
			if pi < 0 || len(callers) == 0 {
				return false
			}
			for _, cs := range callers {
				if cs.In == nil || cs.Dynamic || pi >= len(cs.Call.Args) {
					return false
				}
				probe := &ast.TypeAssertExpr{X: cs.Call.Args[pi], Type: x.Type}
				if !decodedLinkExpr(p, cs.In, probe) {
					return false
				}
			}
			return true
		}
		return false
	}
	return false
}

// decodedLinkExpr: decodedLinkAssertion for an assertion that is not in the source (the argument a caller passes for a link
// parameter): only the classification of the asserted expression is used.
func decodedLinkExpr(p *core.Prog, f *core.Func, x *ast.TypeAssertExpr) bool {
	info := f.Pkg.TypesInfo
	st := info.TypeOf(x.X)
	if st == nil || !strings.HasSuffix(st.String(), "datamodel.Link") || !linkSlotsHoldCidlinks(p) {
		return false
	}
	fromNode := func(e ast.Expr) bool {
		t := info.TypeOf(e)
		return t != nil && strings.Contains(t.String(), "ipld/ipldbindcode.")
	}
	switch e := core.Unparen(x.X).(type) {
	case *ast.SelectorExpr:
		return fromNode(e.X)
	case *ast.IndexExpr:
		if fromNode(e.X) {
			return true
		}
		if t := info.TypeOf(e.X); t != nil && strings.Contains(t.String(), "List__Link") {
			return true
		}
		if se, ok := core.Unparen(e.X).(*ast.SelectorExpr); ok {
			return fromNode(se.X)
		}
	case *ast.Ident:
		o := info.ObjectOf(e)
		found := false
		ast.Inspect(f.Root().Body, func(n ast.Node) bool {
			if rs, ok := n.(*ast.RangeStmt); ok && rs.Value != nil && core.ObjOf(info, rs.Value) == o {
				if t := info.TypeOf(rs.X); t != nil && (strings.Contains(t.String(), "ipld/ipldbindcode.List__Link") || strings.Contains(t.String(), "[]github.com/ipld/go-ipld-prime/datamodel.Link")) {
					found = true
				}
			}
			return true
		})
		return found
	}
	return false
}

var linkSlotsChecked, linkSlotsOK bool

// linkSlotsHoldCidlinks: in package ipld/ipldbindcode every value appended to a List__Link or assigned to a
// datamodel.Link-typed destination by the hand-written decoders is a cidlink.Link composite literal.
func linkSlotsHoldCidlinks(p *core.Prog) bool {
	if linkSlotsChecked {
		return linkSlotsOK
	}
	linkSlotsChecked, linkSlotsOK = true, true
	pkg := p.Pkg("ipld/ipldbindcode")
	if pkg == nil {
		linkSlotsOK = false
		return false
	}
	info := pkg.TypesInfo
	isLinkT := func(t types.Type) bool { return t != nil && strings.HasSuffix(t.String(), "datamodel.Link") }
	// the value stored has the static type cidlink.Link (a literal, a local or the result of a helper of that type): its
	// dynamic type in the interface slot is then cidlink.Link
	isCidlinkLit := func(e ast.Expr) bool {
		t := info.TypeOf(core.Unparen(e))
		return t != nil && strings.HasSuffix(t.String(), "linking/cid.Link")
	}
	n := 0
	for _, file := range pkg.Syntax {
		fname := p.Fset.Position(file.Pos()).Filename
		if strings.HasSuffix(fname, "_test.go") || !strings.HasSuffix(fname, "cbor.go") {
			continue
		}
		ast.Inspect(file, func(m ast.Node) bool {
			switch s := m.(type) {
			case *ast.AssignStmt:
				for i, l := range s.Lhs {
					if i >= len(s.Rhs) || !isLinkT(info.TypeOf(l)) {
						continue
					}
					n++
					if !isCidlinkLit(s.Rhs[i]) {
						linkSlotsOK = false
					}
				}
			case *ast.CallExpr:
				if core.BuiltinName(info, s) == "append" && len(s.Args) == 2 {
					if t := info.TypeOf(s.Args[0]); t != nil {
						if sl, ok := t.Underlying().(*types.Slice); ok && isLinkT(sl.Elem()) {
							n++
							if !isCidlinkLit(s.Args[1]) {
								linkSlotsOK = false
							}
						}
					}
				}
			}
			return true
		})
	}
	if n == 0 {
		linkSlotsOK = false
	}
	return linkSlotsOK
}

// guardedInProducer: the guard an exemption asks for was moved, together with the computation, into a helper:
//   v, err := helper(...); if err != nil { return ... }   ...use of v...
// v (a local whose canonical token is `need`, mentioned at the site) is the result of a repository function whose error
// is known to be nil at the site, and every success return of that function returns a value that one of the facts
// dominating that return mentions.
func guardedInProducer(p *core.Prog, f *core.Func, g *core.Graph, n *core.GNode, need string) bool {
	if n == nil || n.Ast == nil {
		return false
	}
	info := f.Pkg.TypesInfo
	var cands []types.Object
	ast.Inspect(n.Ast, func(m ast.Node) bool {
		if id, ok := m.(*ast.Ident); ok {
			if o := info.Uses[id]; o != nil && core.LocalToken(f, o) == need {
				cands = append(cands, o)
			}
		}
		return true
	})
	for _, o := range cands {
		for _, dn := range stmtNodes(g) {
			as, ok := dn.Ast.(*ast.AssignStmt)
			if !ok || len(as.Rhs) != 1 || len(as.Lhs) < 2 || !g.Dominates(dn, n) {
				continue
			}
			idx := -1
			for i, l := range as.Lhs {
				if core.ObjOf(info, l) == o {
					idx = i
				}
			}
			call, isC := core.Unparen(as.Rhs[0]).(*ast.CallExpr)
			eo := core.ObjOf(info, as.Lhs[len(as.Lhs)-1])
			if idx < 0 || !isC || eo == nil || !core.IsErrorType(eo.Type()) {
				continue
			}
			fo := core.Callee(info, call)
			if fo == nil {
				continue
			}
			h := p.ByObj[fo.Origin()]
			if h == nil || h.Body == nil {
				continue
			}
			// err == nil at the site
			errNil := false
			for _, fc := range g.FactsAt(n) {
				if x, isNil, isCmp := core.NilCompare(info, fc.Expr); isCmp && isNil == fc.Truth && core.ObjOf(info, x) == eo && fc.Edge != nil && g.Dominates(dn, fc.Edge) {
					errNil = true
				}
			}
			if !errNil {
				continue
			}
			hg := p.Graph(h)
			hi := h.Pkg.TypesInfo
			all, nret := true, 0
			for _, rn := range hg.Returns() {
				if definitelyErrorReturn(hg, h, rn) {
					continue
				}
				res := returnResults(rn)
				if idx >= len(res) {
					all = false
					continue
				}
				nret++
				ro := core.ObjOf(hi, stripConvs(hi, res[idx]))
				guarded := false
				for _, fc := range hg.FactsAt(rn) {
					if ro != nil && fc.Tag == nil && core.Mentions(hi, fc.Expr, ro) && hg.FactFresh(fc, rn) {
						guarded = true
					}
				}
				if !guarded {
					all = false
				}
			}
			if all && nret > 0 {
				return true
			}
		}
	}
	return false
}

// expandLocals prints e with every local that is assigned exactly once replaced by (its defining expression), two levels
// deep: a guard on `keyLen` with `keyLen := len(key)` reads as a guard on len(key).
func expandLocals(f *core.Func, e ast.Expr, depth int) string {
	info := f.Pkg.TypesInfo
	type saved struct {
		id   *ast.Ident
		name string
	}
	var undo []saved
	ast.Inspect(e, func(m ast.Node) bool {
		id, ok := m.(*ast.Ident)
		if !ok {
			return true
		}
		v, isV := info.Uses[id].(*types.Var)
		if !isV || v.IsField() || isParamOf(f.Root(), v) {
			return true
		}
		d := singleDef(f, v)
		if d == nil {
			return true
		}
		if _, isLit := core.Unparen(d).(*ast.FuncLit); isLit {
			return true
		}
		txt := core.ExprStr(d)
		if depth < 1 {
			txt = expandLocals(f, d, depth+1)
		}
		undo = append(undo, saved{id, id.Name})
		id.Name = "(" + txt + ")"
		return true
	})
	out := core.ExprStr(e)
	for _, u := range undo {
		u.id.Name = u.name
	}
	return out
}

// boundedArith: e is built with + and * (and integer conversions) from operands that are bounded on their own.
func boundedArith(p *core.Prog, f *core.Func, e ast.Expr, depth int) bool {
	if depth > 5 {
		return false
	}
	info := f.Pkg.TypesInfo
	e = core.Unparen(e)
	if _, isC := core.ConstInt(info, e); isC {
		return true
	}
	if t := info.TypeOf(e); t != nil {
		if bt, ok := t.Underlying().(*types.Basic); ok && (bt.Kind() == types.Uint8 || bt.Kind() == types.Uint16) {
			return true
		}
	}
	switch x := e.(type) {
	case *ast.BinaryExpr:
		if x.Op == token.ADD || x.Op == token.MUL {
			return boundedArith(p, f, x.X, depth+1) && boundedArith(p, f, x.Y, depth+1)
		}
	case *ast.CallExpr:
		if tv, ok := info.Types[x.Fun]; ok && tv.IsType() && len(x.Args) == 1 {
			// widening or same-width integer conversion of a bounded value
			if bt, ok := tv.Type.Underlying().(*types.Basic); ok && bt.Info()&types.IsInteger != 0 {
				return boundedArith(p, f, x.Args[0], depth+1)
			}
			return false
		}
		switch core.BuiltinName(info, x) {
		case "len", "cap":
			return true
		case "min":
			for _, a := range x.Args {
				if boundedArith(p, f, a, depth+1) {
					return true
				}
			}
			return false
		}
		// a two-parameter minimum helper of the repository: returns one of its parameters, the first only under a < b
		if fo := core.Callee(info, x); fo != nil && len(x.Args) == 2 {
			if h := p.ByObj[fo.Origin()]; h != nil && isMinHelper(p, h) {
				return boundedArith(p, f, x.Args[0], depth+1) || boundedArith(p, f, x.Args[1], depth+1)
			}
		}
	case *ast.Ident:
		if v, isVar := info.Uses[x].(*types.Var); isVar && !v.IsField() && !isParamOf(f.Root(), v) {
			if d := singleDef(f.Root(), v); d != nil {
				return boundedArith(p, f, d, depth+1)
			}
		}
	}
	return false
}

// isMinHelper: h(a, b) returns a on the paths where a < b (or a <= b) is known and b otherwise - never anything else.
func isMinHelper(p *core.Prog, h *core.Func) bool {
	a, b := h.ParamObj(0), h.ParamObj(1)
	if a == nil || b == nil || h.ParamObj(2) != nil || h.Body == nil {
		return false
	}
	info := h.Pkg.TypesInfo
	g := p.Graph(h)
	n := 0
	for _, rn := range g.Returns() {
		res := returnResults(rn)
		if len(res) != 1 {
			return false
		}
		o := core.ObjOf(info, res[0])
		if o != types.Object(a) && o != types.Object(b) {
			return false
		}
		n++
		// the returned parameter is known not to exceed the other one
		known := false
		for _, fc := range g.FactsAt(rn) {
			be, ok := core.Unparen(fc.Expr).(*ast.BinaryExpr)
			if !ok || fc.Tag != nil {
				continue
			}
			x, y := core.ObjOf(info, be.X), core.ObjOf(info, be.Y)
			other := types.Object(b)
			if o == types.Object(b) {
				other = a
			}
			// o <= other holds
			switch {
			case x == o && y == other && ((be.Op == token.LSS || be.Op == token.LEQ) == fc.Truth) && (be.Op == token.LSS || be.Op == token.LEQ || be.Op == token.GTR || be.Op == token.GEQ):
				known = (be.Op == token.LSS || be.Op == token.LEQ) && fc.Truth || (be.Op == token.GTR || be.Op == token.GEQ) && !fc.Truth
			case x == other && y == o && (be.Op == token.LSS || be.Op == token.LEQ || be.Op == token.GTR || be.Op == token.GEQ):
				known = (be.Op == token.GTR || be.Op == token.GEQ) && fc.Truth || (be.Op == token.LSS || be.Op == token.LEQ) && !fc.Truth
			}
		}
		if !known {
			return false
		}
	}
	return n >= 2
}

// sectionRemainderBounded: see sizeBoundedDepth.
func sectionRemainderBounded(p *core.Prog, f *core.Func, g *core.Graph, n *core.GNode, a ast.Expr, depth int) bool {
	if depth > 3 || n == nil {
		return false
	}
	info := f.Pkg.TypesInfo
	a = core.Unparen(a)
	// x.F of a struct returned by a helper: decided in the helper, at its success returns
	if sel, ok := a.(*ast.SelectorExpr); ok {
		h, val := helperLiteralField(p, f, sel.X, sel.Sel.Name)
		if h == nil {
			return false
		}
		hg := p.Graph(h)
		cnt := 0
		for _, rn := range hg.Returns() {
			if definitelyErrorReturn(hg, h, rn) {
				continue
			}
			cnt++
			if !sectionRemainderBounded(p, h, hg, rn, val, depth+1) {
				return false
			}
		}
		return cnt > 0
	}
	id, ok := a.(*ast.Ident)
	if !ok {
		return false
	}
	v, isVar := info.Uses[id].(*types.Var)
	if !isVar || v.IsField() || isParamOf(f.Root(), v) {
		return false
	}
	d := singleDef(f.Root(), v)
	if d == nil {
		return false
	}
	be, isBin := core.Unparen(d).(*ast.BinaryExpr)
	if !isBin || be.Op != token.SUB {
		return false
	}
	// the minuend is the length returned by ReadSectionLength
	lo := core.ObjOf(info, stripConvs(info, be.X))
	fromRSL := false
	if lo != nil {
		ast.Inspect(f.Root().Body, func(m ast.Node) bool {
			if as, isAs := m.(*ast.AssignStmt); isAs && len(as.Rhs) == 1 && len(as.Lhs) >= 1 && core.ObjOf(info, as.Lhs[0]) == lo {
				if c, isCall := core.Unparen(as.Rhs[0]).(*ast.CallExpr); isCall && strings.HasSuffix(core.CalleeName(info, c), "carreader.ReadSectionLength") {
					fromRSL = true
				}
			}
			return true
		})
	}
	if !fromRSL {
		return false
	}
	// v >= 0 is known at n: a fresh fact v < 0 false / v >= 0 true
	for _, fc := range g.FactsAt(n) {
		cb, isCmp := core.Unparen(fc.Expr).(*ast.BinaryExpr)
		if !isCmp || fc.Tag != nil || core.ObjOf(info, cb.X) != types.Object(v) {
			continue
		}
		if c, isC := core.ConstInt(info, cb.Y); isC && c == 0 && ((cb.Op == token.LSS && !fc.Truth) || (cb.Op == token.GEQ && fc.Truth)) && g.FactFresh(fc, n) {
			return true
		}
	}
	return false
}

// selfGuardingDecoder: the call runs a repository helper of the fixed-width list that has come to validate its own
// argument: every fixed-width decode inside the helper that reads its first parameter (directly or through a constant
// sub-slice of it) is dominated by a length fact of at least w bytes on that parameter.
func selfGuardingDecoder(p *core.Prog, info *types.Info, c *ast.CallExpr, w int64) bool {
	fo := core.Callee(info, c)
	if fo == nil {
		return false
	}
	h := p.ByObj[fo.Origin()]
	if h == nil || h.Body == nil || h.ParamObj(0) == nil {
		return false
	}
	hi := h.Pkg.TypesInfo
	hg := p.Graph(h)
	po := types.Object(h.ParamObj(0))
	n, okAll := 0, true
	for _, ic := range core.CallsIn(h.Body, false) {
		iw := fixedWidth(core.CalleeName(hi, ic))
		if iw == 0 || len(ic.Args) < 1 {
			continue
		}
		a := core.Unparen(ic.Args[0])
		if se, isSe := a.(*ast.SliceExpr); isSe {
			a = core.Unparen(se.X)
		}
		if core.ObjOf(hi, a) != po {
			continue
		}
		n++
		nd := hg.NodeOf(ic.Pos())
		if nd == nil || minLenFromFacts(hg, hi, nd, ast.NewIdent(po.Name())) < int64(iw) {
			okAll = false
		}
	}
	return n > 0 && okAll
}

var boundedDepth = 0

// upperBoundFact: the fact bounds the printed operand v from above (v > L refused, v <= L taken, ...).
func upperBoundFact(fc core.Fact, v string) bool {
	be, ok := core.Unparen(fc.Expr).(*ast.BinaryExpr)
	if !ok || fc.Tag != nil || !strings.Contains(core.ExprStr(fc.Expr), v) {
		return false
	}
	lhsHas := strings.Contains(core.ExprStr(be.X), v)
	switch be.Op {
	case token.GTR, token.GEQ:
		return (lhsHas && !fc.Truth) || (!lhsHas && fc.Truth)
	case token.LSS, token.LEQ:
		return (lhsHas && fc.Truth) || (!lhsHas && !fc.Truth)
	case token.EQL:
		return fc.Truth
	case token.NEQ:
		return !fc.Truth
	}
	return false
}

// boundedByValidatingMethod: the operand v of an allocation size in method f is (a copy of) a field of f's receiver, and on
// the way to n a method of the same receiver was called and answered nil whose every success return knows an upper bound of
// that field: capacity := read(); i.capacity = capacity; if err := i.checkCapacity(left); err != nil { return err };
// make([]T, capacity).
func boundedByValidatingMethod(p *core.Prog, f *core.Func, g *core.Graph, n *core.GNode, v string) bool {
	rv := f.RecvObj()
	if rv == nil || n == nil {
		return false
	}
	info := f.Pkg.TypesInfo
	field := ""
	if strings.HasPrefix(v, rv.Name()+".") && !strings.Contains(v[len(rv.Name())+1:], ".") {
		field = v[len(rv.Name())+1:]
	} else {
		// a local assigned once whose value is stored into the field before n
		nAssign := 0
		var store *core.GNode
		for _, nd := range stmtNodes(g) {
			as, ok := nd.Ast.(*ast.AssignStmt)
			if !ok {
				continue
			}
			for i, l := range as.Lhs {
				if id, isId := core.Unparen(l).(*ast.Ident); isId && id.Name == v {
					nAssign++
				}
				if sel, isSel := core.Unparen(l).(*ast.SelectorExpr); isSel && len(as.Lhs) == len(as.Rhs) && core.ObjOf(info, sel.X) == rv {
					if rid, isId := core.Unparen(as.Rhs[i]).(*ast.Ident); isId && rid.Name == v && g.Dominates(nd, n) {
						field, store = sel.Sel.Name, nd
					}
				}
			}
		}
		if nAssign != 1 || store == nil {
			return false
		}
	}
	if field == "" {
		return false
	}
	// the field is bounded before every call of this (unexported) method: unmarshal calls readHeader (validates), then readValues
	if depth0 := strings.HasPrefix(v, rv.Name()+"."); depth0 && f.Obj != nil && !f.Obj.Exported() && f.Lit == nil && boundedDepth < 2 {
		callers := p.Callers(f)
		all := len(callers) > 0
		for _, cs := range callers {
			if cs.In == nil || cs.Dynamic || cs.In.RecvObj() == nil {
				all = false
				break
			}
			sel, isSel := core.Unparen(cs.Call.Fun).(*ast.SelectorExpr)
			if !isSel || core.ObjOf(cs.In.Pkg.TypesInfo, sel.X) != cs.In.RecvObj() {
				all = false
				break
			}
			cg := p.Graph(cs.In)
			boundedDepth++
			ok := boundedByValidatingMethod(p, cs.In, cg, cg.NodeOf(cs.Call.Pos()), cs.In.RecvObj().Name()+"."+field)
			boundedDepth--
			if !ok {
				all = false
				break
			}
		}
		if all {
			return true
		}
	}
	for _, d := range g.Dominators(n) {
		if d.Kind != core.KEdge || d.Ast == nil {
			continue
		}
		ce, isE := d.Ast.(ast.Expr)
		if !isE {
			continue
		}
		x, isNil, isCmp := core.NilCompare(info, ce)
		if !isCmp || isNil != d.Truth {
			continue
		}
		eo := core.ObjOf(info, x)
		if eo == nil || !core.IsErrorType(eo.Type()) {
			continue
		}
		for _, dd := range g.Dominators(d) {
			as, isAs := dd.Ast.(*ast.AssignStmt)
			if dd.Kind != core.KStmt || !isAs || len(as.Rhs) != 1 || core.ObjOf(info, as.Lhs[len(as.Lhs)-1]) != eo {
				continue
			}
			c, isCall := core.Unparen(as.Rhs[0]).(*ast.CallExpr)
			if !isCall {
				continue
			}
			sel, isSel := core.Unparen(c.Fun).(*ast.SelectorExpr)
			if !isSel || core.ObjOf(info, sel.X) != rv {
				continue
			}
			fo := core.Callee(info, c)
			if fo == nil {
				continue
			}
			m := p.ByObj[fo.Origin()]
			if m == nil || m.Body == nil || m.RecvObj() == nil {
				continue
			}
			if methodBoundsField(p, m, field, 0) {
				return true
			}
		}
	}
	return false
}

// methodBoundsField: every success return of method m knows an upper bound of the receiver's field, or hands on the answer
// of another method of the receiver that does (return i.checkCapacity(n)).
func methodBoundsField(p *core.Prog, m *core.Func, field string, depth int) bool {
	if m == nil || m.Body == nil || m.RecvObj() == nil || depth > 2 {
		return false
	}
	mi := m.Pkg.TypesInfo
	mg := p.Graph(m)
	mv := m.RecvObj().Name() + "." + field
	nRet, nOK := 0, 0
	for _, rn := range mg.Returns() {
		res := returnResults(rn)
		if len(res) > 0 {
			if c, isCall := core.Unparen(res[len(res)-1]).(*ast.CallExpr); isCall {
				if sel, isSel := core.Unparen(c.Fun).(*ast.SelectorExpr); isSel && core.ObjOf(mi, sel.X) == m.RecvObj() {
					if fo := core.Callee(mi, c); fo != nil {
						nRet++
						if methodBoundsField(p, p.ByObj[fo.Origin()], field, depth+1) {
							nOK++
						}
						continue
					}
				}
			}
		}
		if definitelyErrorReturn(mg, m, rn) || returnsFailure(m, rn) {
			continue
		}
		nRet++
		for _, fc := range mg.FactsAt(rn) {
			if upperBoundFact(fc, mv) && mg.FactFresh(fc, rn) {
				nOK++
				break
			}
		}
	}
	return nRet > 0 && nOK == nRet
}
