package rules

import (
	"fmt"
	"go/ast"
	"go/types"
	"strings"

	"yfverif/checker/internal/core"
)

// c02BlocktimeValueBlind (C02.R10): the slot-to-blocktime index is a dense array; a stored time of 0 is what early
// epochs record and is a valid answer. Wherever a block time is read from the index (directly, or through a wrapper that
// returns the index's value) no test of the time's VALUE may lead to an error-only outcome: presence is decided by the
// look-up's error alone. (A test that only chooses between two encodings of the answer - 0 as null - is not an error
// outcome and is accepted.)
func c02BlocktimeValueBlind(r *core.Report) {
	const rule = "C02.R10"
	p := r.Prog
	src := r.Anchor(rule, "blocktimeindex.(*Index).Get")
	if src == nil {
		return
	}
	// wrappers: functions whose (value, error) results forward a source's results
	sources := map[*types.Func]bool{src.Obj.Origin(): true}
	isSrcCall := func(info *types.Info, e ast.Expr) bool {
		c, ok := core.Unparen(e).(*ast.CallExpr)
		if !ok {
			return false
		}
		fo := core.Callee(info, c)
		return fo != nil && sources[fo.Origin()]
	}
	// valueVars: locals of f bound to the value result of a source call
	valueVars := func(f *core.Func) map[types.Object]*ast.CallExpr {
		out := map[types.Object]*ast.CallExpr{}
		info := f.Pkg.TypesInfo
		ast.Inspect(f.Body, func(n ast.Node) bool {
			switch x := n.(type) {
			case *ast.FuncLit:
				return false
			case *ast.AssignStmt:
				if len(x.Rhs) == 1 && len(x.Lhs) == 2 && isSrcCall(info, x.Rhs[0]) {
					if o := core.ObjOf(info, x.Lhs[0]); o != nil {
						out[o] = core.Unparen(x.Rhs[0]).(*ast.CallExpr)
					}
				}
			}
			return true
		})
		return out
	}
	for changed, round := true, 0; changed && round < 4; round++ {
		changed = false
		for _, f := range p.AllFns {
			if f.Obj == nil || f.Body == nil || sources[f.Obj.Origin()] || strings.HasSuffix(p.FileOf(f.Pos()), "_test.go") {
				continue
			}
			sig := f.Obj.Type().(*types.Signature)
			if sig.Results().Len() != 2 || errResultIndex(f) != 1 {
				continue
			}
			info := f.Pkg.TypesInfo
			vv := valueVars(f)
			fwd := false
			for _, rn := range p.Graph(f).Returns() {
				res := returnResults(rn)
				if len(res) == 1 && isSrcCall(info, res[0]) {
					fwd = true
				}
				if len(res) == 2 {
					if o := core.ObjOf(info, res[0]); o != nil && vv[o] != nil {
						fwd = true
					}
				}
			}
			if fwd {
				sources[f.Obj.Origin()] = true
				changed = true
			}
		}
	}
	n := 0
	for _, f := range p.AllFns {
		if f.Body == nil || strings.HasSuffix(p.FileOf(f.Pos()), "_test.go") || f == src {
			continue
		}
		vv := valueVars(f)
		if len(vv) == 0 {
			continue
		}
		info := f.Pkg.TypesInfo
		g := p.Graph(f)
		i := 0
		for _, nd := range stmtNodes(g) {
			as, ok := nd.Ast.(*ast.AssignStmt)
			if !ok || len(as.Lhs) != 2 || len(as.Rhs) != 1 {
				continue
			}
			vo := core.ObjOf(info, as.Lhs[0])
			if vo == nil || vv[vo] == nil || core.Unparen(as.Rhs[0]) != ast.Expr(vv[vo]) {
				continue
			}
			i++
			n++
			bad := ""
			for _, e := range g.Nodes {
				if e.Kind != core.KEdge || e.Ast == nil || !g.Reach(nd, nil)[e] {
					continue
				}
				if !core.Mentions(info, e.Ast, vo) && (e.Tag == nil || !core.Mentions(info, e.Tag, vo)) {
					continue
				}
				if reassignedBetween(g, info, nd, e, vo) {
					continue
				}
				if onlyErrorsReachable(g, f, e) {
					bad = core.ExprStr(e.Ast.(ast.Expr))
					if !e.Truth {
						bad = "!(" + bad + ")"
					}
				}
			}
			r.Check(bad == "", rule, fmt.Sprintf("%s#blocktime@%d-presence-by-error-only", f.Key, i), pos(r, as), "no test of the block time's value ends in an error: a recorded time of 0 is answered",
				"the block time read from the index is classified by its value ["+bad+"] and that branch ends in an error: an archived block whose recorded time is 0 (early epochs) is answered as missing")
		}
	}
	if n == 0 {
		r.Undecided(rule, src.Key+"#uses", posP(r, src.Pos()), "no read of the block time index found")
	}
}
