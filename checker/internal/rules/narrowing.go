package rules

import (
	"go/ast"
	"go/types"

	"yfverif/checker/internal/core"
)

// narrowSite is one conversion of a non-constant integer to a narrower unsigned type (or of a signed value to an
// unsigned type of at most the same width... only strictly narrower targets are listed).
type narrowSite struct {
	Call             *ast.CallExpr
	SrcBits, DstBits int
	Bounded          bool // a fresh dominating comparison bounds the operand to the target range
}

// narrowingSites lists the narrowing conversions of f (nested literals excluded).
func narrowingSites(p *core.Prog, f *core.Func) []narrowSite {
	if f.Body == nil {
		return nil
	}
	info := f.Pkg.TypesInfo
	g := p.Graph(f)
	var out []narrowSite
	ast.Inspect(f.Body, func(n ast.Node) bool {
		switch x := n.(type) {
		case *ast.FuncLit:
			return false
		case *ast.CallExpr:
			tv, ok := info.Types[x.Fun]
			if !ok || !tv.IsType() || len(x.Args) != 1 {
				return true
			}
			tb, tu, isInt := uintBits(tv.Type)
			if !isInt || !tu || tb >= 64 {
				return true
			}
			if _, isConst := core.ConstInt(info, x.Args[0]); isConst {
				return true
			}
			st := info.TypeOf(x.Args[0])
			if st == nil {
				return true
			}
			if _, isTP := st.(*types.TypeParam); isTP {
				return true
			}
			sb, _, sok := uintBits(st)
			if !sok || sb <= tb {
				return true
			}
			limit := int64(1)<<uint(tb) - 1
			out = append(out, narrowSite{Call: x, SrcBits: sb, DstBits: tb, Bounded: operandBounded(g, info, g.NodeOf(x.Pos()), x.Args[0], limit)})
		}
		return true
	})
	return out
}
