package rules

import (
	"fmt"
	"go/ast"
	"go/constant"
	"go/token"
	"go/types"
	"sort"
	"strings"

	"yfverif/checker/internal/core"
)

func init() { register("C04", C04) }

var c04Pkgs = []string{"compactindexsized", "deprecated/compactindex", "deprecated/compactindex36"}

// C04 — compact hash index: every inserted key is found with its value, in every format.
func C04(r *core.Report) {
	r.Explanation = "Decides structural necessary conditions of C04 for the three index formats alike (the mining / eytzinger algorithms themselves are not decided): " +
		"R1 lossless narrowing - every conversion of a non-constant value to a narrower unsigned integer type and every uint8 addition in the builder and reader is dominated by a guard bounding the operand to the target range, or is listed with its invariant in tables/c04_exempt.json (key length recorded in 16 bits, entry stride held in 8 bits, value size, entry counts); the validations those invariants rely on are checked to exist (tables/c04_invariants.json); " +
		"R2 layout agreement between writer and reader - the builder's and the reader's entry stride are the same expression, BucketHeader.Store and Load touch the same byte ranges, and the fixed offsets read by Header.Load equal the cumulative sizes of the fields written by Header.Bytes; the value handed to Insert is checked against the declared value size; " +
		"R3 determinism - no iteration over a Go map, no clock and no random source in the functions reachable from Insert and Seal; " +
		"R4 failure is loud - no error result is discarded on the Insert/Seal paths, and every return that yields a nil table / nil bucket carries a definitely non-nil error (a shadowed or stale error variable must not turn exhaustion of the mining attempts into success). " +
		"R10 legacy format: Insert hands a value on only when it fits the intWidth(FileSize) bytes of an entry, builder and reader derive that width from the same header field, and an undeclared target size (0) falls back to a size of full 8-byte width. R11 when a bucket is mined the bytes hashed are exactly the buffer the key was read into (all three formats). R12 no builder file is opened with O_APPEND (the spill file is written and read back from offset 0). Not decided: that mining finds a perfect hash when one exists, the eytzinger layout and search, bucket balance. R13 every positional read (ReadAt) of the three compact-index readers is judged by its byte count: an error outcome leads to a failing return only where the count is known short or the error is known not to be io.EOF - io.ReaderAt may report io.EOF together with a complete read at the end of the source, and the key in the last slot of the file must still be found."
	c04Narrowing(r)
	c04Layout(r)
	c04Determinism(r)
	c04Loud(r)
	c12InvariantsFrom(r, "C04.R1", "c04_invariants.json")
	for _, pk := range c04Pkgs {
		if f := r.Anchor("C04.R5", pk+".(*DB).Lookup"); f != nil {
			checkReentrant(r, "C04.R5", f, "lookups")
		}
	}
	c04ReadsJudgedByCount(r)
	r.Floor("C04.R13", 5)
	r.Floor("C04.R1", 12)
	r.Floor("C04.R2", 3)
	r.Floor("C04.R3", 1)
	r.Floor("C04.R4", 7)
	r.Floor("C04.R5", 9)
	c04ReaderCapsCoverWriter(r)
	c04EntryCodecRoundTrip(r)
	c04CollisionDetectionExact(r)
	c04ValueOnlyOnHashMatch(r)
	c04LegacyValueWidth(r)
	c04HashOfTheKeyRead(r)
	c04SpillFileFlags(r)
	r.Floor("C04.R11", 1)
	r.Floor("C04.R10", 2)
	r.Floor("C04.R9", 1)
	r.Floor("C04.R8", 1)
	r.Floor("C04.R7", 3)
	r.Floor("C04.R6", 1)
}

func c04Funcs(p *core.Prog) []*core.Func {
	var out []*core.Func
	for _, pk := range c04Pkgs {
		for _, f := range p.FuncsInPkg(pk) {
			out = append(out, f.AllWithLits()...)
		}
	}
	return out
}

func uintBits(t types.Type) (bits int, unsigned bool, ok bool) {
	b, isB := t.Underlying().(*types.Basic)
	if !isB || b.Info()&types.IsInteger == 0 {
		return 0, false, false
	}
	switch b.Kind() {
	case types.Uint8:
		return 8, true, true
	case types.Uint16:
		return 16, true, true
	case types.Uint32:
		return 32, true, true
	case types.Uint64, types.Uint, types.Uintptr:
		return 64, true, true
	case types.Int8:
		return 8, false, true
	case types.Int16:
		return 16, false, true
	case types.Int32:
		return 32, false, true
	case types.Int64, types.Int:
		return 64, false, true
	}
	return 0, false, false
}

// c04Narrowing (R1).
func c04Narrowing(r *core.Report) {
	const rule = "C04.R1"
	p := r.Prog
	table := loadExemptTable(r.Prog, "c04_exempt.json")
	used := map[string]bool{}
	for _, f := range c04Funcs(p) {
		if f.Body == nil {
			continue
		}
		info := f.Pkg.TypesInfo
		g := p.Graph(f)
		cnt := map[string]int{}
		emit := func(key string, at ast.Node, ok bool, okMsg, badMsg string) {
			cnt[key]++
			if cnt[key] > 1 {
				key = fmt.Sprintf("%s#%d", key, cnt[key])
			}
			if ok {
				r.OK(rule, key, pos(r, at), okMsg)
				return
			}
			if tk, listed := exemptKey(table, key); listed {
				reason := table[tk]
				used[tk] = true
				r.OK(rule, key, pos(r, at), "exempt (tables/c04_exempt.json): "+reason)
				return
			}
			r.Violation(rule, key, pos(r, at), badMsg)
		}
		ast.Inspect(f.Body, func(n ast.Node) bool {
			switch x := n.(type) {
			case *ast.FuncLit:
				return false
			case *ast.CallExpr:
				tv, ok := info.Types[x.Fun]
				if !ok || !tv.IsType() || len(x.Args) != 1 {
					return true
				}
				tb, tu, isInt := uintBits(tv.Type)
				if !isInt || !tu || tb >= 64 {
					return true
				}
				if _, isConst := core.ConstInt(info, x.Args[0]); isConst {
					return true
				}
				st := info.TypeOf(x.Args[0])
				sb, _, sok := uintBits(st)
				if !sok || sb <= tb {
					return true
				}
				// operand bounded by a dominating comparison with a constant that fits the target
				nd := g.NodeOf(x.Pos())
				limit := int64(1)<<uint(tb) - 1
				ok2 := operandBounded(g, info, nd, x.Args[0], limit)
				key := fmt.Sprintf("%s#narrow:%s", f.Key, core.KeyStr(f, x))
				emit(key, x, ok2, fmt.Sprintf("the operand is bounded to %d by a dominating guard", limit),
					fmt.Sprintf("%s narrows a %d-bit value to %d bits without a dominating guard: a larger value is silently truncated and the index is built or read with a wrong length/stride/count instead of failing", core.ExprStr(x), sb, tb))
			case *ast.BinaryExpr:
				if x.Op != token.ADD && x.Op != token.MUL {
					return true
				}
				bt, _, ok := uintBits(info.TypeOf(x))
				if !ok || bt != 8 {
					return true
				}
				if _, isConst := core.ConstInt(info, x); isConst {
					return true
				}
				key := fmt.Sprintf("%s#uint8-arith:%s", f.Key, core.KeyStr(f, x))
				emit(key, x, false, "", fmt.Sprintf("8-bit arithmetic %s can wrap around: a value size close to 255 yields a tiny entry stride and Seal panics or corrupts the entries", core.ExprStr(x)))
			}
			return true
		})
	}
	var stale []string
	for k := range table {
		if strings.HasPrefix(k, "short:") {
			continue
		}
		if !used[k] {
			stale = append(stale, k)
		}
	}
	sort.Strings(stale)
	r.Extra["C04_exempt_entries"] = len(table)
	r.Extra["C04_exempt_stale"] = stale
}

// operandBounded: a fresh dominating fact bounds e from above by a constant <= limit.
func operandBounded(g *core.Graph, info *types.Info, n *core.GNode, e ast.Expr, limit int64) bool {
	if n == nil {
		return false
	}
	want := core.ExprStr(core.Unparen(e))
	for _, fc := range g.FactsAtPos(n, e.Pos(), e.End()) {
		if fc.Tag != nil || fc.Unless != nil {
			continue
		}
		be, ok := core.Unparen(fc.Expr).(*ast.BinaryExpr)
		if !ok {
			continue
		}
		x, y, op := be.X, be.Y, be.Op
		if core.ExprStr(core.Unparen(y)) == want {
			x, y = y, x
			op = map[token.Token]token.Token{token.LSS: token.GTR, token.GTR: token.LSS, token.LEQ: token.GEQ, token.GEQ: token.LEQ, token.EQL: token.EQL, token.NEQ: token.NEQ}[op]
		}
		if core.ExprStr(core.Unparen(x)) != want {
			continue
		}
		c, isConst := core.ConstInt(info, y)
		if !isConst {
			continue
		}
		var hi int64 = -1
		switch {
		case op == token.GTR && !fc.Truth, op == token.LEQ && fc.Truth:
			hi = c
		case op == token.GEQ && !fc.Truth, op == token.LSS && fc.Truth:
			hi = c - 1
		case op == token.EQL && fc.Truth:
			hi = c
		}
		if hi >= 0 && hi <= limit && g.FactFresh(fc, n) {
			return true
		}
	}
	return false
}

// c04Layout (R2).
func c04Layout(r *core.Report) {
	const rule = "C04.R2"
	p := r.Prog
	for _, pk := range c04Pkgs {
		// entry stride: builder and reader use the same expression
		bs, rs := p.Fn(pk+".(*Builder).getEntryStride"), r.Anchor(rule, pk+".(*DB).entryStride")
		if bs == nil && rs != nil {
			// legacy formats: the builder computes the stride inline in sealBucket as 3 + <value width>; the reader as uint8(hashSize) + <value width>
			sb := r.Anchor(rule, pk+".(*Builder).sealBucket")
			if sb != nil {
				bw, rw := "", ""
				ast.Inspect(sb.Body, func(n ast.Node) bool {
					if kv, ok := n.(*ast.KeyValueExpr); ok && core.ExprStr(kv.Key) == "Stride" {
						if be, ok := core.Unparen(kv.Value).(*ast.BinaryExpr); ok {
							if cst, isC := core.ConstInt(sb.Pkg.TypesInfo, be.X); isC {
								bw = fmt.Sprintf("%d + %s", cst, valueSizeRole(p, sb, be.Y))
							}
						}
					}
					return true
				})
				var off string
				ast.Inspect(rs.Body, func(n ast.Node) bool {
					if as, ok := n.(*ast.AssignStmt); ok && len(as.Lhs) == 1 && len(as.Rhs) == 1 {
						off = valueSizeRole(p, rs, as.Rhs[0])
					}
					if rt, ok := n.(*ast.ReturnStmt); ok && len(rt.Results) == 1 {
						if be, ok := core.Unparen(rt.Results[0]).(*ast.BinaryExpr); ok {
							if call, ok := core.Unparen(be.X).(*ast.CallExpr); ok && len(call.Args) == 1 {
								if cst, isC := constOrLocalConst(rs, call.Args[0]); isC {
									rw = fmt.Sprintf("%d + %s", cst, off)
								}
							}
						}
					}
					return true
				})
				r.Check(bw != "" && bw == rw, rule, pk+"#entry-stride-agrees", posP(r, rs.Pos()), "builder and reader compute the stride as "+bw, "the builder writes entries with stride "+bw+" but the reader uses "+rw)
			}
		}
		if bs != nil && rs != nil {
			norm := func(f *core.Func) string {
				var ret ast.Expr
				ast.Inspect(f.Body, func(n ast.Node) bool {
					if rt, ok := n.(*ast.ReturnStmt); ok && len(rt.Results) == 1 {
						ret = rt.Results[0]
					}
					return true
				})
				// both compute a local offsetSize from "the value size": locals are printed by type, so the two returns are
				// compared up to the names of their locals (the definition of the local is compared separately)
				s := core.ShapeStr(f, ret)
				return s
			}
			defOf := func(f *core.Func) string {
				out := ""
				ast.Inspect(f.Body, func(n ast.Node) bool {
					if as, ok := n.(*ast.AssignStmt); ok && len(as.Lhs) == 1 && len(as.Rhs) == 1 {
						out = valueSizeRole(p, f, as.Rhs[0])
					}
					return true
				})
				return out
			}
			a, b := norm(bs), norm(rs)
			da, db := defOf(bs), defOf(rs)
			// both hand "the value size" to one shared helper: return entryStrideFor(b.getValueSize())
			shared := func(f *core.Func) (types.Object, string) {
				var ret ast.Expr
				nRet := 0
				ast.Inspect(f.Body, func(n ast.Node) bool {
					if rt, ok := n.(*ast.ReturnStmt); ok && len(rt.Results) == 1 {
						ret = rt.Results[0]
						nRet++
					}
					return true
				})
				c, ok := core.Unparen(ret).(*ast.CallExpr)
				if !ok || nRet != 1 || len(c.Args) != 1 {
					return nil, ""
				}
				fo := core.Callee(f.Pkg.TypesInfo, c)
				if fo == nil || p.ByObj[fo.Origin()] == nil {
					return nil, ""
				}
				// the role names the header field; whose header it is (b.Header, db.Header through a getter) does not matter
				role := valueSizeRole(p, f, c.Args[0])
				if parts := strings.Split(role, "."); len(parts) > 2 {
					role = strings.Join(parts[len(parts)-2:], ".")
				}
				return fo.Origin(), role
			}
			if ha, ra := shared(bs); ha != nil && ra != "" {
				if hb2, rb := shared(rs); hb2 == ha {
					a, b, da, db = ha.Name()+"(·)", ha.Name()+"(·)", ra, rb
				}
			}
			// the value-size operand written in place instead of through a local: uint8(HashSize) + uint8(b.getValueSize())
			if sa, ra, oka := strideShape(p, bs); oka {
				if sb2, rb, okb := strideShape(p, rs); okb {
					a, b, da, db = sa, sb2, ra, rb
				}
			}
			r.Check(a == b && da == db && da != "", rule, pk+"#entry-stride-agrees", posP(r, rs.Pos()), fmt.Sprintf("builder and reader compute the stride as %s with offsetSize = %s", a, da),
				fmt.Sprintf("the builder computes the entry stride as %s (offset size: %s) but the reader as %s (offset size: %s): entries are written and read with different widths", a, da, b, db))
		}
		// bucket header Store/Load byte ranges
		st, ld := r.Anchor(rule, pk+".(*BucketHeader).Store"), r.Anchor(rule, pk+".(*BucketHeader).Load")
		if st != nil && ld != nil {
			ra, rb := fieldRanges(st), fieldRanges(ld)
			r.Check(ra == rb && ra != "", rule, pk+"#bucket-header-ranges-agree", posP(r, ld.Pos()), "Store and Load use the same byte ranges: "+ra,
				"BucketHeader.Store writes "+ra+" but Load reads "+rb)
		}
	}
	// sized format: Header.Bytes field order/sizes vs Header.Load offsets
	hb, hl := r.Anchor(rule, "compactindexsized.(*Header).Bytes"), r.Anchor(rule, "compactindexsized.(*Header).Load")
	if hb != nil && hl != nil {
		info := hb.Pkg.TypesInfo
		// cumulative offsets of binary.Write'd values after magic(8)+len(4)
		off := int64(12)
		var written []string
		var firstBuf types.Object
		done := false
		ast.Inspect(hb.Body, func(n ast.Node) bool {
			c, ok := n.(*ast.CallExpr)
			if !ok || done {
				return true
			}
			nm := core.CalleeName(info, c)
			switch {
			case nm == "encoding/binary.Write" && len(c.Args) == 3:
				bo := core.ObjOf(info, c.Args[0])
				if firstBuf == nil {
					firstBuf = bo
				}
				if bo != firstBuf {
					done = true
					return true
				}
				if sz := sizeOfType(info.TypeOf(c.Args[2])); sz > 0 {
					written = append(written, fmt.Sprintf("%d:%d", off, off+sz))
					off += sz
				}
			case nm == "bytes.(*Buffer).WriteByte":
				if sel, ok := core.Unparen(c.Fun).(*ast.SelectorExpr); ok && core.ObjOf(info, sel.X) == firstBuf {
					written = append(written, fmt.Sprintf("%d:%d", off, off+1))
					off++
				}
			case nm == "bytes.(*Buffer).Write":
				if sel, ok := core.Unparen(c.Fun).(*ast.SelectorExpr); ok && core.ObjOf(info, sel.X) == firstBuf {
					done = true // variable-length part starts
				}
			}
			return true
		})
		li := hl.Pkg.TypesInfo
		var read []string
		ast.Inspect(hl.Body, func(n ast.Node) bool {
			c, ok := n.(*ast.CallExpr)
			if !ok {
				return true
			}
			if w := fixedWidth(core.CalleeName(li, c)); w > 0 && len(c.Args) == 1 {
				if se, ok := core.Unparen(c.Args[0]).(*ast.SliceExpr); ok && se.High != nil {
					lo, _ := core.ConstInt(li, se.Low)
					hi, _ := core.ConstInt(li, se.High)
					// positions inside a sub-slice of the header (rest := buf[12:]) are counted from the start of the header
					if sh, okS := sliceShift(hl, se.X, 0); okS {
						lo, hi = lo+sh, hi+sh
					}
					if lo >= 12 {
						read = append(read, fmt.Sprintf("%d:%d", lo, hi))
					}
				}
			}
			return true
		})
		// version byte index
		verIdx := int64(-1)
		ast.Inspect(hl.Body, func(n ast.Node) bool {
			if be, ok := n.(*ast.BinaryExpr); ok && be.Op == token.NEQ && (strings.Contains(core.ExprStr(be.Y), "Version") || strings.Contains(core.ExprStr(be.X), "Version")) {
				lhs := core.Unparen(be.X)
				if strings.Contains(core.ExprStr(be.X), "Version") {
					lhs = core.Unparen(be.Y)
				}
				if o := core.ObjOf(li, lhs); o != nil {
					// `if version := buf[24]; version != Version`
					if d := singleDefOrInit(hl, o); d != nil {
						lhs = core.Unparen(d)
					}
				}
				if ix, ok := lhs.(*ast.IndexExpr); ok {
					verIdx, _ = core.ConstInt(li, ix.Index)
					if sh, okS := sliceShift(hl, ix.X, 0); okS {
						verIdx += sh
					}
				}
			}
			return true
		})
		okFields := len(read) >= 2 && len(written) >= 3 && read[0] == written[0] && read[1] == written[1]
		okVer := len(written) >= 3 && fmt.Sprintf("%d:%d", verIdx, verIdx+1) == written[2]
		r.Check(okFields && okVer, rule, "compactindexsized#header-field-offsets-agree", posP(r, hl.Pos()), fmt.Sprintf("Header.Load reads value size, bucket count and version at the offsets Header.Bytes writes them (%v)", written),
			fmt.Sprintf("Header.Bytes writes the fixed fields at %v but Header.Load reads %v and the version at %d", written, read, verIdx))
	}
	// Insert checks the value length against the declared size (sized format)
	if ins := r.Anchor(rule, "compactindexsized.(*Builder).Insert"); ins != nil {
		info := ins.Pkg.TypesInfo
		g := p.Graph(ins)
		vo := ins.ParamByName("value")
		if vo == nil {
			vo = ins.ParamObj(1)
		}
		_ = g
		ok := vo != nil && invariantHolds(p, ins, []string{"len(" + core.LocalToken(ins, vo) + ")", "getValueSize()"}, 0) == ""
		_ = info
		r.Check(ok, rule, "compactindexsized#insert-checks-value-length", posP(r, ins.Pos()), "Insert rejects a value that does not fit the declared value size",
			"Insert does not compare the value's length with the declared value size: a longer value is silently truncated in the spill file, so lookups return a different value than was inserted")
	}
}

// valueSizeRole names where the stride's offset size comes from, independent of receiver names.
func valueSizeRole(p *core.Prog, f *core.Func, e ast.Expr) string {
	info := f.Pkg.TypesInfo
	if c, ok := core.Unparen(e).(*ast.CallExpr); ok {
		nm := core.CalleeName(info, c)
		switch {
		case strings.HasSuffix(nm, ".getValueSize"), strings.HasSuffix(nm, ".GetValueSize"):
			return "Header.ValueSize"
		case strings.HasSuffix(nm, ".intWidth"):
			return "intWidth(" + strings.TrimPrefix(core.ExprStr(c.Args[0]), rootIdent(c.Args[0]).Name+".") + ")"
		case strings.HasSuffix(nm, ".valueLength"):
			return "valueLength()"
		}
		return nm
	}
	return core.ExprStr(e)
}

func sizeOfType(t types.Type) int64 {
	if t == nil {
		return 0
	}
	if b, ok := t.Underlying().(*types.Basic); ok {
		switch b.Kind() {
		case types.Uint8, types.Int8:
			return 1
		case types.Uint16, types.Int16:
			return 2
		case types.Uint32, types.Int32:
			return 4
		case types.Uint64, types.Int64:
			return 8
		}
	}
	return 0
}

// fieldRanges renders the (field -> buf[lo:hi]) pairs used by a Store/Load pair.
func fieldRanges(f *core.Func) string {
	info := f.Pkg.TypesInfo
	var parts []string
	ast.Inspect(f.Body, func(n ast.Node) bool {
		switch x := n.(type) {
		case *ast.AssignStmt: // Load: b.F = conv(buf[lo:hi]) ; b.F = buf[i]
			if len(x.Lhs) == 1 && len(x.Rhs) == 1 {
				if sel, ok := core.Unparen(x.Lhs[0]).(*ast.SelectorExpr); ok {
					if rg := bufRange(info, x.Rhs[0]); rg != "" {
						parts = append(parts, sel.Sel.Name+"="+rg)
					}
				} else if ix, ok := core.Unparen(x.Lhs[0]).(*ast.IndexExpr); ok { // Store: buf[i] = b.F
					if sel, ok := core.Unparen(x.Rhs[0]).(*ast.SelectorExpr); ok {
						if c, ok := core.ConstInt(info, ix.Index); ok {
							parts = append(parts, fmt.Sprintf("%s=[%d]", sel.Sel.Name, c))
						}
					}
				}
			}
		case *ast.ExprStmt: // Store: put(buf[lo:hi], b.F)
			if c, ok := x.X.(*ast.CallExpr); ok && len(c.Args) == 2 {
				if sel, ok := core.Unparen(c.Args[1]).(*ast.SelectorExpr); ok {
					if rg := bufRange(info, c.Args[0]); rg != "" {
						parts = append(parts, sel.Sel.Name+"="+rg)
					}
				}
			}
		}
		return true
	})
	sort.Strings(parts)
	return strings.Join(parts, " ")
}

func bufRange(info *types.Info, e ast.Expr) string {
	var found string
	ast.Inspect(e, func(n ast.Node) bool {
		switch x := n.(type) {
		case *ast.SliceExpr:
			if x.Low != nil && x.High != nil {
				lo, ok1 := core.ConstInt(info, x.Low)
				hi, ok2 := core.ConstInt(info, x.High)
				if ok1 && ok2 {
					found = fmt.Sprintf("[%d:%d]", lo, hi)
				}
			}
		case *ast.IndexExpr:
			if c, ok := core.ConstInt(info, x.Index); ok && found == "" {
				found = fmt.Sprintf("[%d]", c)
			}
		}
		return true
	})
	return found
}

// c04Determinism (R3).
func c04Determinism(r *core.Report) {
	const rule = "C04.R3"
	p := r.Prog
	for _, pk := range c04Pkgs {
		var roots []*core.Func
		for _, k := range []string{".(*Builder).Insert", ".(*Builder).Seal"} {
			if f := r.Anchor(rule, pk+k); f != nil {
				roots = append(roots, f)
			}
		}
		reach := p.Reachable(roots, nil, true)
		bad := ""
		n := 0
		for f := range reach {
			if f.Body == nil || !strings.HasPrefix(core.ShortPkg(f.Pkg.PkgPath), pk) && core.ShortPkg(f.Pkg.PkgPath) != "indexmeta" {
				continue
			}
			n++
			info := f.Pkg.TypesInfo
			ast.Inspect(f.Body, func(m ast.Node) bool {
				switch x := m.(type) {
				case *ast.RangeStmt:
					if _, isMap := info.TypeOf(x.X).Underlying().(*types.Map); isMap {
						bad = "range over a map in " + f.Key + " at " + p.Rel(x.Pos())
					}
				case *ast.CallExpr:
					nm := core.CalleeName(info, x)
					if nm == "time.Now" || strings.HasPrefix(nm, "math/rand.") || strings.HasPrefix(nm, "crypto/rand.") {
						bad = nm + " called in " + f.Key + " at " + p.Rel(x.Pos())
					}
				}
				return true
			})
		}
		r.Check(bad == "", rule, pk+"#no-nondeterminism-in-build", "", fmt.Sprintf("no map iteration, clock or random source in the %d functions reachable from Insert/Seal", n),
			"sealing the same inserts twice may yield different files: "+bad)
	}
}

// c04Loud (R4).
func c04Loud(r *core.Report) {
	const rule = "C04.R4"
	p := r.Prog
	for _, pk := range c04Pkgs {
		var roots []*core.Func
		for _, k := range []string{".(*Builder).Insert", ".(*Builder).Seal", ".(*Builder).SealAndClose"} {
			if f := p.Fn(pk + k); f != nil {
				roots = append(roots, f)
			}
		}
		reach := p.Reachable(roots, nil, true)
		var fns []*core.Func
		for f := range reach {
			if f.Body != nil && core.ShortPkg(f.Pkg.PkgPath) == pk {
				fns = append(fns, f)
			}
		}
		sort.Slice(fns, func(i, j int) bool { return fns[i].Key < fns[j].Key })
		for _, f := range fns {
			info := f.Pkg.TypesInfo
			g := p.Graph(f)
			cnt := map[string]int{}
			// (a) discarded error results
			for _, n := range stmtNodes(g) {
				var call *ast.CallExpr
				discarded := false
				switch s := n.Ast.(type) {
				case *ast.ExprStmt:
					call, _ = s.X.(*ast.CallExpr)
					discarded = true
				case *ast.AssignStmt:
					if len(s.Rhs) == 1 {
						call, _ = core.Unparen(s.Rhs[0]).(*ast.CallExpr)
						if call != nil && len(s.Lhs) > 0 {
							if id, ok := s.Lhs[len(s.Lhs)-1].(*ast.Ident); ok && id.Name == "_" {
								discarded = true
							}
						}
					}
				case *ast.DeferStmt:
					continue
				}
				if call == nil || !discarded {
					continue
				}
				sig, ok := info.TypeOf(call.Fun).(*types.Signature)
				if !ok || sig.Results().Len() == 0 || !core.IsErrorType(sig.Results().At(sig.Results().Len()-1).Type()) {
					continue
				}
				nm := core.CalleeName(info, call)
				key := fmt.Sprintf("%s#discards-error:%s", f.Key, nm)
				cnt[key]++
				if cnt[key] > 1 {
					key = fmt.Sprintf("%s#%d", key, cnt[key])
				}
				benign := strings.HasPrefix(nm, "bytes.(*Buffer).Write") || strings.Contains(nm, "xxhash") || nm == "encoding/binary.Write" && isBytesBuffer(info.TypeOf(call.Args[0])) || strings.HasSuffix(nm, ".Close") || strings.HasSuffix(nm, ".Sync") || strings.HasPrefix(nm, "k8s.io/klog") || strings.HasPrefix(nm, "fmt.")
				r.Check(benign, rule, key, pos(r, call), "discarded error is that of an in-memory buffer write / close / sync", "the error returned by "+nm+" is discarded on the build path")
			}
			// (b) nil-result returns must be definite errors
			if ei := errResultIndex(f); ei > 0 {
				for i, rn := range g.Returns() {
					res := returnResults(rn)
					key := fmt.Sprintf("%s#nil-result-return@%d", f.Key, i)
					if len(res) == 0 {
						// bare return with named results: fine when the named error is known non-nil or the value results were assigned
						continue
					}
					if len(res) != ei+1 || !core.IsNil(info, res[0]) {
						continue
					}
					r.Check(definitelyErrorReturn(g, f, rn), rule, key, pos(r, rn.Ast), "a nil result is returned together with a definitely non-nil error",
						"this return yields a nil result but its error is not known to be non-nil (a stale or shadowed error variable): running out of mining attempts or a failed read can be reported as success with an empty table")
				}
			}
		}
	}
}

func isBytesBuffer(t types.Type) bool { return core.NamedTypeName(t) == "bytes.Buffer" }

// c12InvariantsFrom runs the invariant-establishment check with another table (shared with C12.R7).
func c12InvariantsFrom(r *core.Report, rule, table string) {
	checkInvariantTable(r, rule, table)
}

// constOrLocalConst: the constant value of e, also when e is a local variable assigned a constant exactly once.
func constOrLocalConst(f *core.Func, e ast.Expr) (int64, bool) {
	info := f.Pkg.TypesInfo
	if c, ok := core.ConstInt(info, e); ok {
		return c, true
	}
	o := core.ObjOf(info, e)
	if o == nil {
		return 0, false
	}
	var val int64
	n, okAll := 0, true
	ast.Inspect(f.Body, func(m ast.Node) bool {
		if as, ok := m.(*ast.AssignStmt); ok && len(as.Lhs) == len(as.Rhs) {
			for i, l := range as.Lhs {
				if core.ObjOf(info, l) == o {
					n++
					if c, isC := core.ConstInt(info, as.Rhs[i]); isC {
						val = c
					} else {
						okAll = false
					}
				}
			}
		}
		return true
	})
	return val, n == 1 && okAll
}

// c04ReaderCapsCoverWriter (C04.R6): the cap the reader puts on the header length read from the file must not be smaller
// than the largest header the builder can write, otherwise an index that was built and sealed without error cannot be
// opened. The writer's maximum is derived from the code: the fixed fields written by Header.Bytes (sizes of the
// binary.Write operands and WriteByte calls) plus the largest metadata block Meta.MarshalBinary accepts (its own
// byte-count writes and the Max* constants that guard each variable-length write).
func c04ReaderCapsCoverWriter(r *core.Report) {
	const rule = "C04.R6"
	p := r.Prog
	mb := r.Anchor(rule, "indexmeta.(Meta).MarshalBinary")
	hb := r.Anchor(rule, "compactindexsized.(*Header).Bytes")
	open := r.Anchor(rule, "compactindexsized.Open")
	if mb == nil || hb == nil || open == nil {
		return
	}
	constVal := func(pkg, name string) (int64, bool) {
		v, _ := constOf(p, pkg, name)
		if v == nil {
			return 0, false
		}
		return constant.Int64Val(v)
	}
	maxKVs, ok1 := constVal("indexmeta", "MaxNumKVs")
	if !ok1 {
		r.Undecided(rule, "indexmeta.MaxNumKVs", "", "constant not found")
		return
	}
	// --- metadata maximum
	minfo := mb.Pkg.TypesInfo
	var outside, insideFixed, insideVar int64
	undecided := ""
	var walk func(n ast.Node, inLoop bool)
	guardMax := func(arg ast.Expr) (int64, bool) {
		// Write(kv.Key): find the guard `len(kv.Key) > MaxX` / `keyLen > MaxX` in the function; the constant compared with
		// the length of this very expression
		want := core.ExprStr(arg)
		var found int64 = -1
		ast.Inspect(mb.Body, func(m ast.Node) bool {
			be0, ok := m.(*ast.BinaryExpr)
			if !ok {
				return true
			}
			be := constOnRight(minfo, be0)
			if be.Op != token.GTR {
				return true
			}
			tv, ok := minfo.Types[be.Y]
			if !ok || tv.Value == nil {
				return true
			}
			lhs := core.Unparen(be.X)
			matches := false
			if c, ok := lhs.(*ast.CallExpr); ok && core.BuiltinName(minfo, c) == "len" && core.ExprStr(c.Args[0]) == want {
				matches = true
			}
			if id, ok := lhs.(*ast.Ident); ok {
				if o := minfo.Uses[id]; o != nil {
					if d := singleDef(mb, o); d != nil {
						if c, ok := core.Unparen(d).(*ast.CallExpr); ok && core.BuiltinName(minfo, c) == "len" && core.ExprStr(c.Args[0]) == want {
							matches = true
						}
					}
				}
			}
			if matches {
				if v, ok := constant.Int64Val(tv.Value); ok {
					found = v
				}
			}
			return true
		})
		return found, found >= 0
	}
	walk = func(n ast.Node, inLoop bool) {
		ast.Inspect(n, func(m ast.Node) bool {
			switch x := m.(type) {
			case *ast.RangeStmt:
				if x != n {
					walk(x.Body, true)
					return false
				}
			case *ast.ForStmt:
				if x != n {
					walk(x.Body, true)
					return false
				}
			case *ast.CallExpr:
				nm := core.CalleeName(minfo, x)
				switch nm {
				case "bytes.(*Buffer).WriteByte":
					if inLoop {
						insideFixed++
					} else {
						outside++
					}
				case "bytes.(*Buffer).Write", "bytes.(*Buffer).WriteString":
					if v, ok := guardMax(x.Args[0]); ok {
						if inLoop {
							insideVar += v
						} else {
							outside += v
						}
					} else {
						undecided = "no upper bound found for " + core.ExprStr(x.Args[0])
					}
				}
			}
			return true
		})
	}
	walk(mb.Body, false)
	if undecided != "" {
		r.Undecided(rule, mb.Key+"#max-size", posP(r, mb.Pos()), undecided)
		return
	}
	metaMax := outside + maxKVs*(insideFixed+insideVar)
	r.OK(rule, mb.Key+"#max-size", posP(r, mb.Pos()), fmt.Sprintf("largest metadata block: %d + %d*(%d + %d) = %d bytes", outside, maxKVs, insideFixed, insideVar, metaMax))
	// --- fixed part of the header (the buffer whose Len() becomes the length field)
	hinfo := hb.Pkg.TypesInfo
	var lenBuf types.Object
	ast.Inspect(hb.Body, func(m ast.Node) bool {
		if c, ok := m.(*ast.CallExpr); ok && core.CalleeName(hinfo, c) == "encoding/binary.Write" && len(c.Args) == 3 {
			if conv, ok := core.Unparen(c.Args[2]).(*ast.CallExpr); ok && len(conv.Args) == 1 {
				if o := core.ObjOf(hinfo, conv.Args[0]); o != nil {
					if d := singleDef(hb, o); d != nil {
						if lc, ok := core.Unparen(d).(*ast.CallExpr); ok && strings.HasSuffix(core.CalleeName(hinfo, lc), "Buffer).Len") {
							if sel, ok := core.Unparen(lc.Fun).(*ast.SelectorExpr); ok {
								lenBuf = core.ObjOf(hinfo, sel.X)
							}
						}
					}
				}
			}
		}
		return true
	})
	if lenBuf == nil {
		r.Undecided(rule, hb.Key+"#length-field", posP(r, hb.Pos()), "the buffer whose length is written as the header length was not identified")
		return
	}
	var fixed int64
	meta := false
	sizes := types.SizesFor("gc", "amd64")
	for _, c := range core.CallsIn(hb.Body, false) {
		nm := core.CalleeName(hinfo, c)
		switch {
		case nm == "encoding/binary.Write" && len(c.Args) == 3 && core.ObjOf(hinfo, c.Args[0]) == lenBuf:
			fixed += sizes.Sizeof(hinfo.TypeOf(c.Args[2]))
		case nm == "bytes.(*Buffer).WriteByte":
			if sel, ok := core.Unparen(c.Fun).(*ast.SelectorExpr); ok && core.ObjOf(hinfo, sel.X) == lenBuf {
				fixed++
			}
		case nm == "bytes.(*Buffer).Write":
			if sel, ok := core.Unparen(c.Fun).(*ast.SelectorExpr); ok && core.ObjOf(hinfo, sel.X) == lenBuf {
				// the metadata block
				if o := core.ObjOf(hinfo, c.Args[0]); o != nil {
					if d := singleDef(hb, o); d != nil {
						if dc, ok := core.Unparen(d).(*ast.CallExpr); ok && strings.HasSuffix(core.CalleeName(hinfo, dc), "Meta).Bytes") {
							meta = true
						}
					}
				}
			}
		}
	}
	if !meta {
		r.Undecided(rule, hb.Key+"#metadata-write", posP(r, hb.Pos()), "the write of the metadata block into the header was not recognised")
		return
	}
	writerMax := fixed + metaMax
	// --- the reader's cap: the constant compared (>) with the size read from the file in Open
	oinfo := open.Pkg.TypesInfo
	var capV int64 = -1
	var capPos ast.Node
	g := p.Graph(open)
	for _, e := range g.Nodes {
		if e.Kind != core.KEdge || !e.Truth || e.Ast == nil {
			continue
		}
		be, ok := e.Ast.(*ast.BinaryExpr)
		if !ok || (be.Op != token.GTR && be.Op != token.GEQ) {
			continue
		}
		tv, ok := oinfo.Types[be.Y]
		if !ok || tv.Value == nil || !strings.Contains(strings.ToLower(core.ExprStr(be.X)), "size") {
			continue
		}
		if v, ok := constant.Int64Val(tv.Value); ok {
			capV, capPos = v, be
			if be.Op == token.GEQ {
				capV--
			}
		}
	}
	if capV < 0 {
		r.OK(rule, open.Key+"#header-cap", posP(r, open.Pos()), "Open puts no cap on the header length")
		return
	}
	r.Check(capV >= writerMax, rule, open.Key+"#header-cap>=writer-max", pos(r, capPos),
		fmt.Sprintf("Open accepts header lengths up to %d, the builder writes at most %d", capV, writerMax),
		fmt.Sprintf("Open rejects header lengths above %d but the builder can write %d bytes (fixed %d + metadata %d): an index sealed without error with large metadata cannot be opened", capV, writerMax, fixed, metaMax))
}

// c04EntryCodecRoundTrip (C04.R7): an entry written by marshalEntry is read back by unmarshalEntry with the same
// truncated hash and the same value bytes, for every value width the repository uses. Decided by bit-provenance
// evaluation of the two functions (and the little-endian helpers they call) on symbolic inputs.
func c04EntryCodecRoundTrip(r *core.Report) {
	const rule = "C04.R7"
	p := r.Prog
	for _, pk := range c04Pkgs {
		me := r.Anchor(rule, pk+".(*BucketDescriptor).marshalEntry")
		ue := r.Anchor(rule, pk+".(*BucketDescriptor).unmarshalEntry")
		if me == nil || ue == nil {
			continue
		}
		widths := []int{1, 8, 9, 36}
		if pk == "deprecated/compactindex36" {
			widths = []int{36}
		}
		if pk == "deprecated/compactindex" {
			widths = []int{1, 3, 5, 8}
		}
		const hashLen = 3
		recvName := func(f *core.Func) string { return f.Decl.Recv.List[0].Names[0].Name }
		for _, w := range widths {
			k := fmt.Sprintf("%s#entry-codec-round-trip(value=%d bytes)", pk, w)
			stride := hashLen + w
			// encoder
			eName := "e"
			if po := me.ParamObj(1); po != nil {
				eName = po.Name()
			}
			valIsInt := false
			if po := me.ParamObj(1); po != nil {
				if st, ok := po.Type().Underlying().(*types.Struct); ok {
					for i := 0; i < st.NumFields(); i++ {
						if st.Field(i).Name() == "Value" {
							if _, isBasic := st.Field(i).Type().Underlying().(*types.Basic); isBasic {
								valIsInt = true
							}
						}
					}
				}
			}
			value := symBytes("value", w)
			if valIsInt {
				value = maskInputs(symInt("value", 64), 8*w)
			}
			rn := recvName(me)
			env := evalBitFuncFields(p, me, map[string]bval{
				rn + ".HashLen": constIntVal(hashLen, 8), rn + ".OffsetWidth": constIntVal(uint64(w), 8), rn + ".Stride": constIntVal(uint64(stride), 8),
				eName + ".Hash": maskInputs(symInt("hash", 64), 8*hashLen), eName + ".Value": value,
			}, []bval{zeroBytes(stride)})
			var enc bval
			if po := me.ParamObj(0); po != nil && env.vars[po] != nil {
				enc = *env.vars[po]
			}
			if !enc.ok || !enc.slice {
				r.Undecided(rule, k, posP(r, me.Pos()), "marshalEntry could not be evaluated bit by bit: "+env.note)
				continue
			}
			// decoder
			rn2 := recvName(ue)
			denv := evalBitFuncFields(p, ue, map[string]bval{
				rn2 + ".HashLen": constIntVal(hashLen, 8), rn2 + ".OffsetWidth": constIntVal(uint64(w), 8), rn2 + ".Stride": constIntVal(uint64(stride), 8),
			}, []bval{enc})
			h, ok1 := denv.fieldNamed("Hash")
			v, ok2 := denv.fieldNamed("Value")
			if !ok1 || !ok2 || !h.ok || !v.ok {
				r.Undecided(rule, k, posP(r, ue.Pos()), "unmarshalEntry could not be evaluated bit by bit: "+denv.note)
				continue
			}
			okH, whyH := roundTripBits(h, "hash", 8*hashLen)
			okV, whyV := true, ""
			if v.slice {
				if len(v.bits) != 8*w {
					okV, whyV = false, fmt.Sprintf("the decoded value has %d bytes, %d were written", len(v.bits)/8, w)
				}
				for j := 0; okV && j < len(v.bits); j++ {
					if v.bits[j].src != "value" || v.bits[j].idx != j {
						okV, whyV = false, fmt.Sprintf("bit %d of the decoded value is %s, not value[%d]", j, v.bits[j], j)
					}
				}
			} else {
				okV, whyV = roundTripBits(v, "value", 8*w)
			}
			why := whyH
			if why == "" {
				why = whyV
			}
			r.Check(okH && okV, rule, k, posP(r, ue.Pos()), "an entry is read back with the hash and value bytes it was written with",
				"the entry codec does not round-trip: "+why+" - a key is found with another value, or not found at all")
		}
	}
}

// c04CollisionDetectionExact (C04.R8): a hash domain is accepted only if no two keys of the bucket share the truncated
// hash. hashBucket must therefore report ErrCollision through a test that sees every pair: either a membership
// structure indexed by the hash (test, then mark, for every key), or an adjacency comparison on a slice that is in
// sorted order at that point - not after the eytzinger layout, where equal hashes are no longer neighbours.
func c04CollisionDetectionExact(r *core.Report) {
	const rule = "C04.R8"
	p := r.Prog
	for _, pk := range c04Pkgs {
		f := r.Anchor(rule, pk+".hashBucket")
		if f == nil {
			continue
		}
		info := f.Pkg.TypesInfo
		g := p.Graph(f)
		// the hash variable
		var hashObj types.Object
		ast.Inspect(f.Body, func(n ast.Node) bool {
			as, ok := n.(*ast.AssignStmt)
			if !ok || len(as.Lhs) != 1 || len(as.Rhs) != 1 {
				return true
			}
			for _, c := range core.CallsIn(as.Rhs[0], false) {
				if strings.HasSuffix(core.CalleeName(info, c), ".EntryHash64") {
					hashObj = core.ObjOf(info, as.Lhs[0])
				}
			}
			return true
		})
		k := pk + ".hashBucket#collision-test-sees-every-pair"
		if hashObj == nil {
			r.Undecided(rule, k, posP(r, f.Pos()), "the truncated hash variable was not identified")
			continue
		}
		taint := taintFrom(f, hashObj)
		var colRets []*core.GNode
		for _, rn := range g.Returns() {
			for _, e := range returnResults(rn) {
				if strings.Contains(core.ExprStr(e), "ErrCollision") {
					colRets = append(colRets, rn)
				}
			}
		}
		if len(colRets) == 0 {
			r.Violation(rule, k, posP(r, f.Pos()), "hashBucket never reports ErrCollision: a hash domain in which two keys share the truncated hash is accepted and one key answers with the other's value")
			continue
		}
		ok, why := false, "the test in front of `return ErrCollision` is neither a membership test indexed by the hash nor an adjacency comparison on a sorted slice"
		for _, rn := range colRets {
			for _, fc := range g.FactsAt(rn) {
				if fc.Tag != nil {
					continue
				}
				// Form A: fact mentions a hash-derived variable; a store into the same container indexed by a hash-derived index follows
				mentionsT := false
				for o := range taint {
					if core.Mentions(info, fc.Expr, o) {
						mentionsT = true
					}
				}
				if mentionsT {
					stores := false
					ast.Inspect(f.Body, func(n ast.Node) bool {
						as, isA := n.(*ast.AssignStmt)
						if !isA {
							return true
						}
						for _, l := range as.Lhs {
							if ix, isIx := core.Unparen(l).(*ast.IndexExpr); isIx {
								io := core.ObjOf(info, ix.Index)
								if _, isMap := info.TypeOf(ix.X).Underlying().(*types.Map); isMap && (io == hashObj || taint[io]) {
									stores = true
								}
								if io != nil && (io == hashObj || taint[io]) && as.Pos() > fc.Expr.Pos() {
									stores = true
								}
							}
						}
						return true
					})
					if stores {
						ok = true
					} else {
						why = "the membership structure tested before `return ErrCollision` is never marked with the current hash"
					}
				}
				// Form C: the test-and-mark is done by a helper of the package - `if !claim(set, hash) { return ErrCollision }`
				if c, isCall := core.Unparen(fc.Expr).(*ast.CallExpr); isCall && !fc.Truth {
					if fo := core.Callee(info, c); fo != nil {
						if h := p.ByObj[fo.Origin()]; h != nil && h.Body != nil && h.Pkg == f.Pkg {
							hi := -1
							for ai, a := range c.Args {
								if ao := core.ObjOf(info, a); ao != nil && (ao == hashObj || taint[ao]) {
									hi = ai
								}
							}
							if hi >= 0 && testAndMarkHelper(p, h, hi) {
								ok = true
							} else if hi >= 0 {
								why = "the helper " + h.Key + " that decides the collision does not mark the hash on every path on which it reports 'not seen before'"
							}
						}
					}
				}
				// Form B: adjacency comparison X[i].Hash == X[i±1].Hash
				if be, isB := core.Unparen(fc.Expr).(*ast.BinaryExpr); isB && be.Op == token.EQL && fc.Truth {
					lx, rx := adjacencyBase(info, be.X), adjacencyBase(info, be.Y)
					if lx != nil && lx == rx {
						// the slice must be in sorted order here: a real sort dominates, and no layout transform of the slice in between
						sorted, transformed := false, false
						at := g.NodeOf(fc.Expr.Pos())
						for _, n := range stmtNodes(g) {
							if at == nil || !g.Dominates(n, at) {
								continue
							}
							for _, si := range sortCalls(info, n.Ast) {
								if si.SliceObj == lx && si.Decided {
									sorted, transformed = true, false
								}
							}
							for _, c := range nodeCalls(n) {
								nm := core.CalleeName(info, c)
								if (strings.HasSuffix(nm, ".sortWithCompare") || strings.HasSuffix(nm, ".eytzinger")) && len(c.Args) > 0 && core.ObjOf(info, c.Args[0]) == lx {
									transformed = true
								}
							}
						}
						if sorted && !transformed {
							ok = true
						} else {
							why = "equal hashes are looked for among neighbours of " + lx.Name() + ", which is in eytzinger (tree) order at that point, not in sorted order: most collisions go unnoticed"
						}
					}
				}
			}
		}
		r.Check(ok, rule, k, pos(r, colRets[0].Ast), "every pair of keys with the same truncated hash is reported as a collision (membership structure or sorted adjacency)",
			why+" - a colliding hash domain is accepted and one key answers with the other key's value")
	}
}

// testAndMarkHelper: h(.., hash, ..) bool answers true only after it stored into a container parameter at an index derived
// from the hash parameter, and has a false return under a test that reads the container at such an index.
func testAndMarkHelper(p *core.Prog, h *core.Func, hashParam int) bool {
	hp := h.ParamObj(hashParam)
	if hp == nil {
		return false
	}
	info := h.Pkg.TypesInfo
	g := p.Graph(h)
	taint := taintFrom(h, hp)
	derived := func(e ast.Expr) bool {
		found := false
		ast.Inspect(e, func(n ast.Node) bool {
			if id, ok := n.(*ast.Ident); ok {
				if o := info.Uses[id]; o != nil && (o == types.Object(hp) || taint[o]) {
					found = true
				}
			}
			return !found
		})
		return found
	}
	isStore := func(n *core.GNode) bool {
		as, ok := n.Ast.(*ast.AssignStmt)
		if n.Kind != core.KStmt || !ok {
			return false
		}
		for _, l := range as.Lhs {
			if ix, isIx := core.Unparen(l).(*ast.IndexExpr); isIx && derived(ix.Index) {
				if o := core.ObjOf(info, ix.X); o != nil && isParamOf(h, o) {
					return true
				}
			}
		}
		return false
	}
	nTrue, nFalseTested := 0, 0
	for _, rn := range g.Returns() {
		res := returnResults(rn)
		if len(res) != 1 {
			return false
		}
		b, isC := boolConst(info, res[0])
		if !isC {
			return false
		}
		if b {
			nTrue++
			if g.PathAvoiding(g.Entry, func(n *core.GNode) bool { return n == rn }, isStore) != nil {
				return false
			}
		} else {
			for _, fc := range g.FactsAt(rn) {
				reads := false
				ast.Inspect(fc.Expr, func(n ast.Node) bool {
					if ix, isIx := n.(*ast.IndexExpr); isIx && derived(ix.Index) {
						reads = true
					}
					return true
				})
				// the container element read into a local first (chunk := bitmap[bi])
				for o := range taint {
					if core.Mentions(info, fc.Expr, o) {
						reads = true
					}
				}
				if reads {
					nFalseTested++
				}
			}
		}
	}
	return nTrue > 0 && nFalseTested > 0
}

// adjacencyBase: X for expressions of the form X[i].Hash / X[i-1].Hash / X[i+1].Hash
func adjacencyBase(info *types.Info, e ast.Expr) types.Object {
	sel, ok := core.Unparen(e).(*ast.SelectorExpr)
	if !ok {
		return nil
	}
	ix, ok := core.Unparen(sel.X).(*ast.IndexExpr)
	if !ok {
		return nil
	}
	return core.ObjOf(info, ix.X)
}

// c04ValueOnlyOnHashMatch (C04.R9): a bucket lookup hands out a stored value only for an entry whose stored hash equals
// the hash of the requested key - that comparison is the only thing that ties a value to a key inside a bucket. Starting
// at (*Bucket).Lookup and following `return helper(..., target, ...)` delegations, every success return that yields an
// entry's Value is dominated by an equality between that entry's Hash and the value derived from Hash(key).
func c04ValueOnlyOnHashMatch(r *core.Report) { valueOnlyOnHashMatch(r, "C04.R9") }

func valueOnlyOnHashMatch(r *core.Report, rule string) {
	p := r.Prog
	for _, pk := range c04Pkgs {
		f := r.Anchor(rule, pk+".(*Bucket).Lookup")
		if f == nil {
			continue
		}
		var check func(fn *core.Func, target map[types.Object]bool, depth int) string
		check = func(fn *core.Func, target map[types.Object]bool, depth int) string {
			if depth > 4 {
				return "delegation too deep"
			}
			info := fn.Pkg.TypesInfo
			g := p.Graph(fn)
			// locals derived from the target (copies)
			for _, n := range stmtNodes(g) {
				if as, ok := n.Ast.(*ast.AssignStmt); ok && len(as.Lhs) == len(as.Rhs) {
					for i := range as.Lhs {
						if target[core.ObjOf(info, as.Rhs[i])] {
							if o := core.ObjOf(info, as.Lhs[i]); o != nil {
								target[o] = true
							}
						}
					}
				}
			}
			// target := b.Hash(key)
			ast.Inspect(fn.Body, func(n ast.Node) bool {
				as, ok := n.(*ast.AssignStmt)
				if !ok || len(as.Lhs) != 1 || len(as.Rhs) != 1 {
					return true
				}
				if c, ok := core.Unparen(as.Rhs[0]).(*ast.CallExpr); ok && strings.HasSuffix(core.CalleeName(info, c), "BucketHeader).Hash") {
					if o := core.ObjOf(info, as.Lhs[0]); o != nil {
						target[o] = true
					}
				}
				return true
			})
			isTargetExpr := func(e ast.Expr) bool {
				e = core.Unparen(e)
				if target[core.ObjOf(info, e)] {
					return true
				}
				if c, ok := e.(*ast.CallExpr); ok && strings.HasSuffix(core.CalleeName(info, c), "BucketHeader).Hash") {
					return true
				}
				return false
			}
			for _, rn := range g.Returns() {
				if definitelyErrorReturn(g, fn, rn) {
					continue
				}
				res := returnResults(rn)
				if len(res) == 0 {
					continue
				}
				// delegation
				if c, ok := core.Unparen(res[0]).(*ast.CallExpr); ok && len(res) == 1 {
					fnObj := core.Callee(info, c)
					var callee *core.Func
					if fnObj != nil {
						callee = p.ByObj[fnObj.Origin()]
					}
					if callee == nil {
						return "delegates to an unresolved function at " + p.Rel(rn.Ast.Pos())
					}
					sub := map[types.Object]bool{}
					for ai, a := range c.Args {
						if isTargetExpr(a) {
							if po := callee.ParamObj(ai); po != nil {
								sub[po] = true
							}
						}
					}
					if len(sub) == 0 {
						return "delegates to " + callee.Key + " at " + p.Rel(rn.Ast.Pos()) + " without passing the hash of the key"
					}
					if why := check(callee, sub, depth+1); why != "" {
						return why
					}
					continue
				}
				// direct: returns X.Value
				sel, ok := core.Unparen(res[0]).(*ast.SelectorExpr)
				if !ok || sel.Sel.Name != "Value" {
					if id, isId := core.Unparen(res[0]).(*ast.Ident); isId && id.Name == "nil" {
						continue
					}
					if _, isC := core.ConstInt(info, res[0]); isC {
						continue
					}
					if cl, isCL := core.Unparen(res[0]).(*ast.CompositeLit); isCL && len(cl.Elts) == 0 {
						continue
					}
					return "returns " + core.ExprStr(res[0]) + " at " + p.Rel(rn.Ast.Pos()) + ", not recognised as an entry's value"
				}
				eo := core.ObjOf(info, sel.X)
				okCmp := false
				for _, fc := range g.FactsAt(rn) {
					be, isB := core.Unparen(fc.Expr).(*ast.BinaryExpr)
					if !isB || fc.Tag != nil || !((be.Op == token.EQL && fc.Truth) || (be.Op == token.NEQ && !fc.Truth)) {
						continue
					}
					for _, pair := range [][2]ast.Expr{{be.X, be.Y}, {be.Y, be.X}} {
						hs, isS := core.Unparen(pair[0]).(*ast.SelectorExpr)
						if isS && hs.Sel.Name == "Hash" && core.ObjOf(info, hs.X) == eo && eo != nil && isTargetExpr(pair[1]) && g.FactFresh(fc, rn) {
							okCmp = true
						}
					}
				}
				if !okCmp {
					return fn.Key + " returns " + core.ExprStr(res[0]) + " at " + p.Rel(rn.Ast.Pos()) + " without having compared that entry's stored hash with the hash of the requested key"
				}
			}
			return ""
		}
		why := check(f, map[types.Object]bool{}, 0)
		r.Check(why == "", rule, pk+".(*Bucket).Lookup#value-only-on-hash-match", posP(r, f.Pos()), "a value is returned only for an entry whose stored hash equals the hash of the requested key",
			why+": an absent key that lands in the bucket is answered with another key's value instead of not-found")
	}
}

// strideShape: the single return of f is a sum; its operands are rendered with the operand that stands for the value size
// (a local assigned once, or a call written in place) replaced by ‹vs›; the role of that operand is returned separately.
func strideShape(p *core.Prog, f *core.Func) (shape string, role string, ok bool) {
	info := f.Pkg.TypesInfo
	var ret ast.Expr
	n := 0
	ast.Inspect(f.Body, func(m ast.Node) bool {
		if rt, isRet := m.(*ast.ReturnStmt); isRet && len(rt.Results) == 1 {
			ret = rt.Results[0]
			n++
		}
		return true
	})
	be, isBin := core.Unparen(ret).(*ast.BinaryExpr)
	if n != 1 || !isBin || be.Op != token.ADD {
		return "", "", false
	}
	render := func(e ast.Expr) string {
		e = core.Unparen(e)
		conv := ""
		if c, isCall := e.(*ast.CallExpr); isCall && len(c.Args) == 1 {
			if tv, isT := info.Types[c.Fun]; isT && tv.IsType() {
				conv = core.ExprStr(c.Fun)
				e = core.Unparen(c.Args[0])
			}
		}
		inner := core.ExprStr(e)
		if _, isC := core.ConstInt(info, e); !isC {
			src := e
			if o := core.ObjOf(info, e); o != nil {
				if d := singleDef(f, o); d != nil {
					src = d
				}
			}
			role = valueSizeRole(p, f, src)
			inner = "‹vs›"
		}
		if conv != "" {
			return conv + "(" + inner + ")"
		}
		return inner
	}
	shape = render(be.X) + "+" + render(be.Y)
	return shape, role, role != ""
}

// sliceShift: base is a local assigned once from a sub-slice with a constant lower bound (possibly of another such local);
// the number of bytes its position 0 lies behind position 0 of the underlying parameter or field. 0 for anything else.
func sliceShift(f *core.Func, base ast.Expr, depth int) (int64, bool) {
	info := f.Pkg.TypesInfo
	id, ok := core.Unparen(base).(*ast.Ident)
	if !ok || depth > 3 {
		return 0, false
	}
	v, isVar := info.Uses[id].(*types.Var)
	if !isVar || v.IsField() || isParamOf(f, v) {
		return 0, false
	}
	d := singleDef(f, v)
	if d == nil {
		return 0, false
	}
	se, isSe := core.Unparen(d).(*ast.SliceExpr)
	if !isSe {
		return 0, false
	}
	lo := int64(0)
	if se.Low != nil {
		c, isC := core.ConstInt(info, se.Low)
		if !isC {
			return 0, false
		}
		lo = c
	}
	inner, _ := sliceShift(f, se.X, depth+1)
	return lo + inner, true
}
