package rules

import (
	"go/ast"
	"go/token"
	"go/types"

	"yfverif/checker/internal/core"
)

// sortInfo describes a sort.Slice / sort.SliceStable / slices.SortFunc call whose comparator is a
// literal of the form `return a[i]<sel> OP a[j]<sel>` (possibly via method calls on the elements).
type sortInfo struct {
	Call     *ast.CallExpr
	Slice    ast.Expr     // the sorted slice expression
	SliceObj types.Object // object of the slice when it is an identifier/selector
	Op       token.Token  // comparison normalised so that the i-element is on the left: LSS ascending, GTR descending
	KeyI     string       // printed key expression of the i side with the index variable replaced by "·"
	KeyJ     string
	Decided  bool // comparator recognised
	Strict   bool // < or > (not <=, >=)
}

// sortCalls finds sort.Slice-like calls in n (not inside nested literals).
func sortCalls(info *types.Info, n ast.Node) []sortInfo {
	var out []sortInfo
	for _, c := range core.CallsIn(n, false) {
		nm := core.CalleeName(info, c)
		if nm != "sort.Slice" && nm != "sort.SliceStable" {
			continue
		}
		if len(c.Args) != 2 {
			continue
		}
		si := sortInfo{Call: c, Slice: c.Args[0], SliceObj: core.ObjOf(info, c.Args[0])}
		if lit, ok := core.Unparen(c.Args[1]).(*ast.FuncLit); ok {
			analyzeComparator(info, lit, &si)
		}
		out = append(out, si)
	}
	return out
}

func analyzeComparator(info *types.Info, lit *ast.FuncLit, si *sortInfo) {
	if len(lit.Type.Params.List) == 0 {
		return
	}
	var names []*ast.Ident
	for _, f := range lit.Type.Params.List {
		names = append(names, f.Names...)
	}
	if len(names) != 2 || len(lit.Body.List) != 1 {
		return
	}
	ret, ok := lit.Body.List[0].(*ast.ReturnStmt)
	if !ok || len(ret.Results) != 1 {
		return
	}
	be, ok := core.Unparen(ret.Results[0]).(*ast.BinaryExpr)
	if !ok {
		return
	}
	iObj, jObj := info.Defs[names[0]], info.Defs[names[1]]
	op := be.Op
	switch op {
	case token.LSS, token.GTR, token.LEQ, token.GEQ:
	default:
		return
	}
	lI, lJ := core.Mentions(info, be.X, iObj), core.Mentions(info, be.X, jObj)
	rI, rJ := core.Mentions(info, be.Y, iObj), core.Mentions(info, be.Y, jObj)
	var left, right ast.Expr
	switch {
	case lI && !lJ && rJ && !rI:
		left, right = be.X, be.Y
	case lJ && !lI && rI && !rJ:
		left, right = be.Y, be.X
		op = map[token.Token]token.Token{token.LSS: token.GTR, token.GTR: token.LSS, token.LEQ: token.GEQ, token.GEQ: token.LEQ}[op]
	default:
		return
	}
	si.KeyI = replaceIdent(info, left, iObj)
	si.KeyJ = replaceIdent(info, right, jObj)
	si.Op = op
	si.Strict = op == token.LSS || op == token.GTR
	si.Decided = si.KeyI == si.KeyJ
}

// replaceIdent prints e with every identifier resolving to obj replaced by "·".
func replaceIdent(info *types.Info, e ast.Expr, obj types.Object) string {
	s := ""
	var walk func(n ast.Expr) string
	walk = func(n ast.Expr) string {
		switch x := n.(type) {
		case *ast.Ident:
			if info.Uses[x] == obj {
				return "·"
			}
			return x.Name
		case *ast.IndexExpr:
			return walk(x.X) + "[" + walk(x.Index) + "]"
		case *ast.SelectorExpr:
			return walk(x.X) + "." + x.Sel.Name
		case *ast.CallExpr:
			a := ""
			for i, arg := range x.Args {
				if i > 0 {
					a += ","
				}
				a += walk(arg)
			}
			return walk(x.Fun) + "(" + a + ")"
		case *ast.ParenExpr:
			return walk(x.X)
		case *ast.StarExpr:
			return "*" + walk(x.X)
		case *ast.UnaryExpr:
			return x.Op.String() + walk(x.X)
		}
		return core.ExprStr(n)
	}
	s = walk(e)
	return s
}
