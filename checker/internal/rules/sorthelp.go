package rules

import (
	"fmt"
	"go/ast"
	"go/token"
	"go/types"

	"yfverif/checker/internal/core"
)

// sortInfo describes a sort.Slice / sort.SliceStable / slices.SortFunc call whose comparator is a
// literal of the form `return a[i]<sel> OP a[j]<sel>` (possibly via method calls on the elements).
type sortInfo struct {
	Call     *ast.CallExpr
	Slice    ast.Expr     // the sorted slice expression
	SliceObj types.Object // object of the slice when it is an identifier/selector
	Op       token.Token  // comparison normalised so that the i-element is on the left: LSS ascending, GTR descending
	KeyI     string       // printed key expression of the i side with the index variable replaced by "·"
	KeyJ     string
	Decided  bool // comparator recognised
	Strict   bool // < or > (not <=, >=)
}

// keyIsElement: the comparator orders by the element itself (not by a field or a derived key).
func (si sortInfo) keyIsElement() bool {
	return si.KeyI == "·" || si.KeyI == core.ExprStr(si.Slice)+"[·]"
}

// sortCalls finds sort.Slice-like calls in n (not inside nested literals).
func sortCalls(info *types.Info, n ast.Node) []sortInfo {
	var out []sortInfo
	for _, c := range core.CallsIn(n, false) {
		nm := core.CalleeName(info, c)
		if (nm == "slices.Sort" || nm == "sort.Ints" || nm == "sort.Strings") && len(c.Args) == 1 {
			// the natural ascending order of the elements
			out = append(out, sortInfo{Call: c, Slice: c.Args[0], SliceObj: core.ObjOf(info, c.Args[0]), Op: token.LSS, KeyI: "·", KeyJ: "·", Decided: true, Strict: true})
			continue
		}
		if nm != "sort.Slice" && nm != "sort.SliceStable" && nm != "slices.SortFunc" && nm != "slices.SortStableFunc" {
			continue
		}
		if len(c.Args) != 2 {
			continue
		}
		si := sortInfo{Call: c, Slice: c.Args[0], SliceObj: core.ObjOf(info, c.Args[0])}
		if lit, ok := core.Unparen(c.Args[1]).(*ast.FuncLit); ok {
			analyzeComparator(info, lit, &si)
		}
		out = append(out, si)
	}
	return out
}

func analyzeComparator(info *types.Info, lit *ast.FuncLit, si *sortInfo) {
	if len(lit.Type.Params.List) == 0 {
		return
	}
	var names []*ast.Ident
	for _, f := range lit.Type.Params.List {
		names = append(names, f.Names...)
	}
	if len(names) != 2 || len(lit.Body.List) != 1 {
		return
	}
	ret, ok := lit.Body.List[0].(*ast.ReturnStmt)
	if !ok || len(ret.Results) != 1 {
		return
	}
	be, ok := core.Unparen(ret.Results[0]).(*ast.BinaryExpr)
	if !ok {
		// three-way comparator of slices.SortFunc: cmp.Compare(x, y) orders x before y when x < y
		if c, isCall := core.Unparen(ret.Results[0]).(*ast.CallExpr); isCall && len(c.Args) == 2 {
			switch core.CalleeName(info, c) {
			case "cmp.Compare", "strings.Compare", "bytes.Compare":
				be = &ast.BinaryExpr{X: c.Args[0], Op: token.LSS, Y: c.Args[1]}
			}
		}
		if be == nil {
			return
		}
	}
	iObj, jObj := info.Defs[names[0]], info.Defs[names[1]]
	op := be.Op
	switch op {
	case token.LSS, token.GTR, token.LEQ, token.GEQ:
	default:
		return
	}
	lI, lJ := core.Mentions(info, be.X, iObj), core.Mentions(info, be.X, jObj)
	rI, rJ := core.Mentions(info, be.Y, iObj), core.Mentions(info, be.Y, jObj)
	var left, right ast.Expr
	switch {
	case lI && !lJ && rJ && !rI:
		left, right = be.X, be.Y
	case lJ && !lI && rI && !rJ:
		left, right = be.Y, be.X
		op = map[token.Token]token.Token{token.LSS: token.GTR, token.GTR: token.LSS, token.LEQ: token.GEQ, token.GEQ: token.LEQ}[op]
	default:
		return
	}
	si.KeyI = replaceIdent(info, left, iObj)
	si.KeyJ = replaceIdent(info, right, jObj)
	si.Op = op
	si.Strict = op == token.LSS || op == token.GTR
	si.Decided = si.KeyI == si.KeyJ
}

// replaceIdent prints e with every identifier resolving to obj replaced by "·".
func replaceIdent(info *types.Info, e ast.Expr, obj types.Object) string {
	s := ""
	var walk func(n ast.Expr) string
	walk = func(n ast.Expr) string {
		switch x := n.(type) {
		case *ast.Ident:
			if info.Uses[x] == obj {
				return "·"
			}
			return x.Name
		case *ast.IndexExpr:
			return walk(x.X) + "[" + walk(x.Index) + "]"
		case *ast.SelectorExpr:
			return walk(x.X) + "." + x.Sel.Name
		case *ast.CallExpr:
			a := ""
			for i, arg := range x.Args {
				if i > 0 {
					a += ","
				}
				a += walk(arg)
			}
			return walk(x.Fun) + "(" + a + ")"
		case *ast.ParenExpr:
			return walk(x.X)
		case *ast.StarExpr:
			return "*" + walk(x.X)
		case *ast.UnaryExpr:
			return x.Op.String() + walk(x.X)
		}
		return core.ExprStr(n)
	}
	s = walk(e)
	return s
}

// orderedSlice reports whether the slice variable obj of function f is, at node `at`, known to be ordered
// by a strict comparator `want` (GTR: descending). Order is established by (a) a dominating
// sort.Slice on obj with a strict `want` comparator, (b) obj being the result of a repository
// function all of whose returns yield such a slice, or (c) obj being filled only by appends inside a
// range over a slice that is itself ordered (order-preserving map/filter).
func orderedSlice(p *core.Prog, f *core.Func, obj types.Object, at *core.GNode, want token.Token, depth int) (bool, string) {
	if depth > 8 || obj == nil {
		return false, "order provenance too deep"
	}
	info := f.Pkg.TypesInfo
	g := p.Graph(f)
	why := "no strict " + want.String() + " sort establishes the order of " + obj.Name()
	for _, n := range stmtNodes(g) {
		for _, si := range sortCalls(info, n.Ast) {
			if si.SliceObj != obj {
				continue
			}
			if !si.Decided || !si.Strict || si.Op != want {
				why = fmt.Sprintf("the sort of %s uses comparator %s (want strict %s)", obj.Name(), si.Op, want)
				continue
			}
			if at == nil || (g.Dominates(n, at) && !reassignedBetween(g, info, n, at, obj)) {
				return true, "sorted by " + si.KeyI + " " + si.Op.String()
			}
		}
	}
	// a dominating call of a helper that leaves the slice it is handed sorted: `sortDescending(xs)`
	for _, n := range stmtNodes(g) {
		for _, c := range nodeCalls(n) {
			fo := core.Callee(info, c)
			if fo == nil {
				continue
			}
			h := p.ByObj[fo.Origin()]
			if h == nil || h.Body == nil || h == f {
				continue
			}
			for ai, a := range c.Args {
				if core.ObjOf(info, a) != obj || !helperLeavesParamSorted(p, h, ai, want) {
					continue
				}
				if at == nil || (g.Dominates(n, at) && !reassignedBetween(g, info, n, at, obj)) {
					return true, "sorted by " + h.Key
				}
			}
		}
	}
	// definitions of obj
	var defs []ast.Expr
	appendsOnly := true
	var appendRanges []*ast.RangeStmt
	ast.Inspect(f.Body, func(n ast.Node) bool {
		switch s := n.(type) {
		case *ast.AssignStmt:
			for i, l := range s.Lhs {
				if core.ObjOf(info, l) != obj {
					continue
				}
				var rhs ast.Expr
				if len(s.Rhs) == len(s.Lhs) {
					rhs = s.Rhs[i]
				} else if len(s.Rhs) == 1 {
					rhs = s.Rhs[0]
				}
				if c, ok := core.Unparen(rhs).(*ast.CallExpr); ok && core.BuiltinName(info, c) == "append" && len(c.Args) == 2 && core.ObjOf(info, c.Args[0]) == obj {
					if rs := enclosingRange(f.Body, s); rs != nil {
						appendRanges = append(appendRanges, rs)
					} else {
						appendsOnly = false
					}
					continue
				}
				if c, ok := core.Unparen(rhs).(*ast.CallExpr); ok && core.BuiltinName(info, c) == "make" {
					continue
				}
				defs = append(defs, rhs)
			}
		case *ast.ValueSpec:
			for i, nm := range s.Names {
				if info.Defs[nm] == obj && i < len(s.Values) {
					defs = append(defs, s.Values[i])
				}
			}
		}
		return true
	})
	if len(defs) == 1 && len(appendRanges) == 0 {
		if c, ok := core.Unparen(defs[0]).(*ast.CallExpr); ok {
			if fn := core.Callee(info, c); fn != nil {
				if callee := p.ByObj[fn]; callee != nil && callee.Body != nil {
					return returnsOrdered(p, callee, want, depth+1)
				}
			}
		}
	}
	if len(defs) == 0 && len(appendRanges) > 0 && appendsOnly {
		for _, rs := range appendRanges {
			so := core.ObjOf(info, rs.X)
			if _, isSlice := info.TypeOf(rs.X).Underlying().(*types.Slice); !isSlice || so == nil {
				return false, obj.Name() + " is filled while ranging over " + core.ExprStr(rs.X) + ", which has no defined order"
			}
			ok, w := orderedSlice(p, f, so, g.NodeOf(rs.X.Pos()), want, depth+1)
			if !ok {
				return false, w
			}
		}
		return true, "filled in order from an ordered slice"
	}
	return false, why
}

// returnsOrdered: every return of callee yields a slice ordered by `want` (or forwards such a call).
func returnsOrdered(p *core.Prog, callee *core.Func, want token.Token, depth int) (bool, string) {
	info := callee.Pkg.TypesInfo
	g := p.Graph(callee)
	rets := g.Returns()
	if len(rets) == 0 {
		return false, callee.Key + " has no return"
	}
	for _, rn := range rets {
		res := returnResults(rn)
		if len(res) < 1 {
			return false, "bare return in " + callee.Key
		}
		if core.IsNil(info, res[0]) {
			continue
		}
		if c, ok := core.Unparen(res[0]).(*ast.CallExpr); ok {
			if fn := core.Callee(info, c); fn != nil {
				if c2 := p.ByObj[fn]; c2 != nil && c2.Body != nil && c2 != callee {
					if ok, w := returnsOrdered(p, c2, want, depth+1); !ok {
						return false, w
					}
					continue
				}
			}
			return false, callee.Key + " returns the result of an unknown call"
		}
		ok, w := orderedSlice(p, callee, core.ObjOf(info, res[0]), rn, want, depth+1)
		if !ok {
			return false, callee.Key + ": " + w
		}
	}
	return true, callee.Key + " returns an ordered slice"
}

// helperLeavesParamSorted: every run of h that returns has sorted its i-th parameter (a slice, so the caller's elements)
// with a recognised strict comparator of direction `want`, and h does not touch the parameter after the sort.
func helperLeavesParamSorted(p *core.Prog, h *core.Func, i int, want token.Token) bool {
	po := h.ParamObj(i)
	if po == nil {
		return false
	}
	if _, isSlice := po.Type().Underlying().(*types.Slice); !isSlice {
		return false
	}
	info := h.Pkg.TypesInfo
	g := p.Graph(h)
	var sortNode *core.GNode
	for _, n := range stmtNodes(g) {
		for _, si := range sortCalls(info, n.Ast) {
			if si.SliceObj == types.Object(po) && si.Decided && si.Strict && si.Op == want {
				sortNode = n
			}
		}
	}
	if sortNode == nil {
		return false
	}
	for _, rn := range g.Returns() {
		if !g.Dominates(sortNode, rn) {
			return false
		}
	}
	if len(g.Returns()) == 0 && !g.Dominates(sortNode, g.Exit) {
		return false
	}
	for n := range g.Reach(sortNode, nil) {
		if n != sortNode && n.Kind == core.KStmt && n.Ast != nil && core.MentionsOutsideLits(info, n.Ast, po) {
			return false
		}
	}
	return true
}
