package rules

import (
	"fmt"
	"go/ast"
	"go/constant"
	"go/token"
	"go/types"
	"strings"

	"yfverif/checker/internal/core"
)

// Bit-provenance evaluation of fixed-width codecs.
//
// The index value codecs (offset: 48 bits, size: 24 bits, packed into 9 bytes) are written with shifts, masks,
// binary.LittleEndian.Put*/Uint*, slicing, append and small helper functions. All of these only move bits around, so
// an abstract value that records, for every bit, which bit of which input it is (or that it is zero) is exact. The
// evaluator below runs an encoder on symbolic inputs, feeds the resulting bytes to the decoder and compares the
// provenance of every decoded bit with the input bit it must equal. Nothing is executed; anything the evaluator does
// not understand yields an "unknown" bit, which makes the obligation undecided, never discharged.

type pbit struct {
	src string // "" = constant zero, "1" = constant one, "?" = unknown, otherwise the name of a symbolic input
	idx int
}

func (b pbit) String() string {
	switch b.src {
	case "":
		return "0"
	case "1":
		return "1"
	case "?":
		return "?"
	}
	return fmt.Sprintf("%s[%d]", b.src, b.idx)
}

type bval struct {
	bits  []pbit // integers: LSB first, len = width; byte slices: byte 0 first, each byte LSB first
	slice bool
	ok    bool // false: unknown shape (e.g. slice of unknown length)
	fn    *core.Func
}

func unknownInt(w int) bval {
	b := make([]pbit, w)
	for i := range b {
		b[i] = pbit{src: "?"}
	}
	return bval{bits: b, ok: true}
}

func symInt(name string, w int) bval {
	b := make([]pbit, w)
	for i := range b {
		b[i] = pbit{src: name, idx: i}
	}
	return bval{bits: b, ok: true}
}

func constIntVal(v uint64, w int) bval {
	b := make([]pbit, w)
	for i := range b {
		if i < 64 && v&(1<<uint(i)) != 0 {
			b[i] = pbit{src: "1"}
		}
	}
	return bval{bits: b, ok: true}
}

func zeroBytes(n int) bval { return bval{bits: make([]pbit, 8*n), slice: true, ok: true} }

func (v bval) resize(w int) bval {
	out := make([]pbit, w)
	copy(out, v.bits)
	return bval{bits: out, ok: v.ok}
}

type bitEnv struct {
	p     *core.Prog
	f     *core.Func
	info  *types.Info
	vars  map[types.Object]*bval
	flds  map[string]*bval // "recv.Field"
	depth int
	note  string
}

func intWidth(t types.Type) int {
	if t == nil {
		return 64
	}
	b, ok := t.Underlying().(*types.Basic)
	if !ok {
		return 64
	}
	switch b.Kind() {
	case types.Uint8, types.Int8:
		return 8
	case types.Uint16, types.Int16:
		return 16
	case types.Uint32, types.Int32:
		return 32
	}
	return 64
}

func (e *bitEnv) fail(format string, a ...any) bval {
	if e.note == "" {
		e.note = fmt.Sprintf(format, a...)
	}
	return bval{ok: false}
}

func (e *bitEnv) constOf(x ast.Expr) (int64, bool) {
	if tv, ok := e.info.Types[x]; ok && tv.Value != nil {
		if v, exact := constant.Int64Val(constant.ToInt(tv.Value)); exact {
			return v, true
		}
		if u, exact := constant.Uint64Val(constant.ToInt(tv.Value)); exact {
			return int64(u), true
		}
	}
	// a variable / field / small expression whose abstract value is a constant (e.g. b.HashLen bound by the caller)
	x = core.Unparen(x)
	switch n := x.(type) {
	case *ast.BinaryExpr:
		if n.Op == token.ADD || n.Op == token.SUB || n.Op == token.MUL {
			a, ok1 := e.constOf(n.X)
			b, ok2 := e.constOf(n.Y)
			if ok1 && ok2 {
				switch n.Op {
				case token.ADD:
					return a + b, true
				case token.SUB:
					return a - b, true
				default:
					return a * b, true
				}
			}
		}
		return 0, false
	case *ast.CallExpr:
		if tv, ok := e.info.Types[n.Fun]; ok && tv.IsType() && len(n.Args) == 1 {
			return e.constOf(n.Args[0])
		}
		return 0, false
	case *ast.Ident, *ast.SelectorExpr:
	default:
		return 0, false
	}
	var v *bval
	if id, ok := x.(*ast.Ident); ok {
		v = e.vars[e.info.ObjectOf(id)]
	} else {
		v = e.flds[core.ExprStr(x)]
	}
	if v == nil || !v.ok || v.slice {
		return 0, false
	}
	var val int64
	for i, b := range v.bits {
		switch b.src {
		case "":
		case "1":
			if i < 62 {
				val |= 1 << uint(i)
			}
		default:
			return 0, false
		}
	}
	return val, true
}

func (e *bitEnv) eval(x ast.Expr) bval {
	x = core.Unparen(x)
	if tv, ok := e.info.Types[x]; ok && tv.Value != nil && tv.Value.Kind() == constant.Int {
		u, _ := constant.Uint64Val(tv.Value)
		if constant.Sign(tv.Value) < 0 {
			i, _ := constant.Int64Val(tv.Value)
			u = uint64(i)
		}
		return constIntVal(u, intWidth(tv.Type))
	}
	switch n := x.(type) {
	case *ast.Ident:
		if o := e.info.ObjectOf(n); o != nil {
			if v, ok := e.vars[o]; ok {
				return *v
			}
		}
		return e.fail("value of %s is not known", n.Name)
	case *ast.SelectorExpr:
		if v, ok := e.flds[core.ExprStr(n)]; ok {
			return *v
		}
		return e.fail("field %s is not known", core.ExprStr(n))
	case *ast.StarExpr:
		return e.eval(n.X)
	case *ast.BinaryExpr:
		// arithmetic on values that are constants in this evaluation (b.HashLen + b.OffsetWidth with both bound)
		if n.Op == token.ADD || n.Op == token.SUB || n.Op == token.MUL {
			if v, ok := e.constOf(n); ok && v >= 0 {
				w := intWidth(e.info.TypeOf(n))
				if w == 0 {
					w = 64
				}
				return constIntVal(uint64(v), w)
			}
		}
		l := e.eval(n.X)
		switch n.Op {
		case token.SHL, token.SHR:
			k, isC := e.constOf(n.Y)
			if !isC || !l.ok || l.slice {
				return e.fail("shift by a non-constant in %s", core.ExprStr(n))
			}
			w := len(l.bits)
			out := make([]pbit, w)
			for i := 0; i < w; i++ {
				var src int
				if n.Op == token.SHL {
					src = i - int(k)
				} else {
					src = i + int(k)
				}
				if src >= 0 && src < w {
					out[i] = l.bits[src]
				}
			}
			return bval{bits: out, ok: true}
		case token.AND, token.OR, token.XOR, token.ADD:
			r := e.eval(n.Y)
			if !l.ok || !r.ok || l.slice || r.slice {
				return e.fail("operand of %s not understood", core.ExprStr(n))
			}
			w := len(l.bits)
			if len(r.bits) > w {
				w = len(r.bits)
			}
			l, r = l.resize(w), r.resize(w)
			out := make([]pbit, w)
			for i := 0; i < w; i++ {
				a, b := l.bits[i], r.bits[i]
				switch n.Op {
				case token.AND:
					switch {
					case a.src == "" || b.src == "":
						out[i] = pbit{}
					case a.src == "1":
						out[i] = b
					case b.src == "1":
						out[i] = a
					case a == b:
						out[i] = a
					default:
						out[i] = pbit{src: "?"}
					}
				default: // OR, XOR, ADD of disjoint bit sets behave alike; overlapping unknown
					switch {
					case a.src == "":
						out[i] = b
					case b.src == "":
						out[i] = a
					case n.Op == token.OR && a == b:
						out[i] = a
					default:
						out[i] = pbit{src: "?"}
					}
				}
			}
			if n.Op == token.ADD {
				// an addition is a plain merge only when no position has two non-zero bits (no carries)
				for i := range out {
					if out[i].src == "?" {
						return e.fail("addition with overlapping bits in %s", core.ExprStr(n))
					}
				}
			}
			return bval{bits: out, ok: true}
		}
		return e.fail("operator %s not understood", n.Op)
	case *ast.SliceExpr:
		base := e.eval(n.X)
		if !base.ok || !base.slice {
			return e.fail("slicing of %s not understood", core.ExprStr(n.X))
		}
		lo, hi := 0, len(base.bits)/8
		if n.Low != nil {
			v, ok := e.constOf(n.Low)
			if !ok {
				return e.fail("non-constant slice bound in %s", core.ExprStr(n))
			}
			lo = int(v)
		}
		if n.High != nil {
			v, ok := e.constOf(n.High)
			if !ok {
				return e.fail("non-constant slice bound in %s", core.ExprStr(n))
			}
			hi = int(v)
		}
		if lo < 0 || hi > len(base.bits)/8 || lo > hi {
			return e.fail("slice bounds [%d:%d] outside the %d known bytes of %s", lo, hi, len(base.bits)/8, core.ExprStr(n.X))
		}
		return bval{bits: append([]pbit(nil), base.bits[8*lo:8*hi]...), slice: true, ok: true}
	case *ast.IndexExpr:
		base := e.eval(n.X)
		i, isC := e.constOf(n.Index)
		if !base.ok || !base.slice || !isC || int(i) >= len(base.bits)/8 {
			return e.fail("indexing %s not understood", core.ExprStr(n))
		}
		return bval{bits: append([]pbit(nil), base.bits[8*i:8*i+8]...), ok: true}
	case *ast.CallExpr:
		return e.evalCall(n)
	}
	return e.fail("expression %s not understood", core.ExprStr(x))
}

func (e *bitEnv) evalCall(c *ast.CallExpr) bval {
	// conversions
	if tv, ok := e.info.Types[c.Fun]; ok && tv.IsType() && len(c.Args) == 1 {
		v := e.eval(c.Args[0])
		if !v.ok {
			return v
		}
		if v.slice {
			return v
		}
		return v.resize(intWidth(tv.Type))
	}
	switch core.BuiltinName(e.info, c) {
	case "append":
		if len(c.Args) == 2 && c.Ellipsis != token.NoPos {
			a, b := e.eval(c.Args[0]), e.eval(c.Args[1])
			if a.ok && b.ok && a.slice && b.slice {
				return bval{bits: append(append([]pbit(nil), a.bits...), b.bits...), slice: true, ok: true}
			}
		}
		return e.fail("append form %s not understood", core.ExprStr(c))
	case "make":
		if len(c.Args) >= 2 {
			if n, ok := e.constOf(c.Args[1]); ok {
				return zeroBytes(int(n))
			}
			// len(x)+k
			if v, ok := e.lenExpr(c.Args[1]); ok {
				return zeroBytes(v)
			}
		}
		return e.fail("make with a non-constant length: %s", core.ExprStr(c))
	case "len":
		if v, ok := e.lenExpr(c); ok {
			return constIntVal(uint64(v), 64)
		}
		return e.fail("len of an unknown slice")
	}
	nm := core.CalleeName(e.info, c)
	switch {
	case strings.HasPrefix(nm, "encoding/binary.") && strings.Contains(nm, "ndian).Uint"):
		w := map[string]int{"Uint16": 16, "Uint32": 32, "Uint64": 64}[nm[strings.LastIndex(nm, ".")+1:]]
		s := e.eval(c.Args[0])
		if w == 0 || !s.ok || !s.slice || len(s.bits) < w {
			return e.fail("%s on a slice shorter than %d bits", nm, w)
		}
		out := make([]pbit, w)
		if strings.Contains(nm, "little") {
			copy(out, s.bits[:w])
		} else {
			nb := w / 8
			for i := 0; i < nb; i++ {
				copy(out[8*(nb-1-i):8*(nb-i)], s.bits[8*i:8*i+8])
			}
		}
		return bval{bits: out, ok: true}
	}
	// repository helper: inline
	if fn := core.Callee(e.info, c); fn != nil {
		if callee := e.p.ByObj[fn.Origin()]; callee != nil && callee.Body != nil && e.depth < 6 {
			var args []bval
			for _, a := range c.Args {
				args = append(args, e.eval(a))
			}
			// a method called on a struct literal: T{F: x, ...}.M() - the receiver's fields are the literal's elements;
			// the same for a local that was assigned such a literal
			var recvFields map[string]bval
			if sel, ok := core.Unparen(c.Fun).(*ast.SelectorExpr); ok {
				if cl, ok := core.Unparen(sel.X).(*ast.CompositeLit); ok {
					if _, isSt := e.info.TypeOf(cl).Underlying().(*types.Struct); isSt {
						var okl bool
						if recvFields, okl = e.structLitFields(cl); !okl {
							return e.fail("positional struct literal %s not understood", core.ExprStr(cl))
						}
					}
				} else if id, ok := core.Unparen(sel.X).(*ast.Ident); ok {
					for k, v := range e.flds {
						if strings.HasPrefix(k, id.Name+".") && !strings.Contains(k[len(id.Name)+1:], ".") {
							if recvFields == nil {
								recvFields = map[string]bval{}
							}
							recvFields[k[len(id.Name)+1:]] = *v
						}
					}
				}
			}
			res, note := evalBitFunc(e.p, callee, recvFields, args, e.depth+1)
			if note != "" && e.note == "" {
				e.note = note
			}
			if len(res) > 0 {
				return res[0]
			}
			return bval{ok: false}
		}
	}
	return e.fail("call %s not understood", core.ExprStr(c))
}

// structLitFields evaluates a keyed struct literal to the values of its fields (absent fields are zero).
func (e *bitEnv) structLitFields(cl *ast.CompositeLit) (map[string]bval, bool) {
	st, ok := e.info.TypeOf(cl).Underlying().(*types.Struct)
	if !ok {
		return nil, false
	}
	out := map[string]bval{}
	for i := 0; i < st.NumFields(); i++ {
		if w := intWidth(st.Field(i).Type()); w > 0 {
			out[st.Field(i).Name()] = constIntVal(0, w)
		}
	}
	for _, el := range cl.Elts {
		kv, ok := el.(*ast.KeyValueExpr)
		if !ok {
			return nil, false
		}
		id, ok := kv.Key.(*ast.Ident)
		if !ok {
			continue
		}
		v := e.eval(kv.Value)
		if w := intWidth(e.info.TypeOf(kv.Value)); w > 0 && v.ok && !v.slice {
			v = v.resize(w)
		}
		out[id.Name] = v
	}
	return out, true
}

func (e *bitEnv) lenExpr(x ast.Expr) (int, bool) {
	x = core.Unparen(x)
	if v, ok := e.constOf(x); ok {
		return int(v), true
	}
	switch n := x.(type) {
	case *ast.Ident:
		if v, ok := e.vars[e.info.ObjectOf(n)]; ok && v.ok && !v.slice {
			val := 0
			for i, b := range v.bits {
				switch b.src {
				case "":
				case "1":
					if i < 31 {
						val |= 1 << uint(i)
					}
				default:
					return 0, false
				}
			}
			return val, true
		}
	case *ast.CallExpr:
		if core.BuiltinName(e.info, n) == "len" && len(n.Args) == 1 {
			s := e.eval(n.Args[0])
			if s.ok && s.slice {
				return len(s.bits) / 8, true
			}
		}
	case *ast.BinaryExpr:
		a, ok1 := e.lenExpr(n.X)
		b, ok2 := e.lenExpr(n.Y)
		if ok1 && ok2 {
			switch n.Op {
			case token.ADD:
				return a + b, true
			case token.SUB:
				return a - b, true
			}
		}
	}
	return 0, false
}

// lvalue: a region of a local byte slice: buf, buf[a:b], buf[i]
func (e *bitEnv) region(x ast.Expr) (*bval, int, int, bool) {
	x = core.Unparen(x)
	switch n := x.(type) {
	case *ast.Ident:
		if v, ok := e.vars[e.info.ObjectOf(n)]; ok && v.ok && v.slice {
			return v, 0, len(v.bits) / 8, true
		}
	case *ast.SelectorExpr:
		if v, ok := e.flds[core.ExprStr(n)]; ok && v.ok && v.slice {
			return v, 0, len(v.bits) / 8, true
		}
		// an array field of a zero-valued named result: materialise it
		if t := e.info.TypeOf(n); t != nil {
			if arr, ok := t.Underlying().(*types.Array); ok {
				z := zeroBytes(int(arr.Len()))
				e.flds[core.ExprStr(n)] = &z
				return &z, 0, int(arr.Len()), true
			}
		}
	case *ast.SliceExpr:
		v, lo, hi, ok := e.region(n.X)
		if !ok {
			return nil, 0, 0, false
		}
		nlo, nhi := lo, hi
		if n.Low != nil {
			k, isC := e.constOf(n.Low)
			if !isC {
				return nil, 0, 0, false
			}
			nlo = lo + int(k)
		}
		if n.High != nil {
			k, isC := e.constOf(n.High)
			if !isC {
				return nil, 0, 0, false
			}
			nhi = lo + int(k)
		}
		if nlo < lo || nhi > hi || nlo > nhi {
			return nil, 0, 0, false
		}
		return v, nlo, nhi, true
	}
	return nil, 0, 0, false
}

// exec runs the statements of a straight-line function; guards whose body ends in return/panic are skipped (they only
// restrict the inputs). It returns the values of the first return statement reached at top level.
func (e *bitEnv) exec(stmts []ast.Stmt) ([]bval, bool) {
	for _, st := range stmts {
		switch s := st.(type) {
		case *ast.AssignStmt:
			if len(s.Lhs) != len(s.Rhs) {
				if len(s.Rhs) == 1 { // multi-value call: unknown
					for _, l := range s.Lhs {
						if id, ok := l.(*ast.Ident); ok && id.Name != "_" {
							v := bval{ok: false}
							e.vars[e.info.ObjectOf(id)] = &v
						}
					}
					continue
				}
			}
			for i, l := range s.Lhs {
				l = core.Unparen(l)
				if id, ok := l.(*ast.Ident); ok {
					if id.Name == "_" {
						continue
					}
					// local := T{F: a, G: b}: the local is the tuple of its fields
					if cl, isLit := core.Unparen(s.Rhs[i]).(*ast.CompositeLit); isLit && (s.Tok == token.DEFINE || s.Tok == token.ASSIGN) {
						if _, isSt := e.info.TypeOf(cl).Underlying().(*types.Struct); isSt {
							if fl, okl := e.structLitFields(cl); okl {
								for k, fv := range fl {
									fv := fv
									e.flds[id.Name+"."+k] = &fv
								}
								uv := bval{ok: false}
								e.vars[e.info.ObjectOf(id)] = &uv
								continue
							}
						}
					}
					v := e.eval(s.Rhs[i])
					if s.Tok == token.OR_ASSIGN || s.Tok == token.AND_ASSIGN || s.Tok == token.SHL_ASSIGN || s.Tok == token.SHR_ASSIGN {
						v = e.fail("compound assignment %s not understood", core.ExprStr(l))
					}
					e.vars[e.info.ObjectOf(id)] = &v
					continue
				}
				if ix, ok := l.(*ast.IndexExpr); ok {
					reg, lo, hi, okr := e.region(ix.X)
					k, isC := e.constOf(ix.Index)
					v := e.eval(s.Rhs[i])
					if okr && isC && lo+int(k) < hi && v.ok && !v.slice {
						copy(reg.bits[8*(lo+int(k)):8*(lo+int(k))+8], v.resize(8).bits)
						continue
					}
					e.fail("store %s not understood", core.ExprStr(l))
					continue
				}
				if sel, ok := l.(*ast.SelectorExpr); ok {
					v := e.eval(s.Rhs[i])
					e.flds[core.ExprStr(sel)] = &v
					continue
				}
				// *recv = T{F: a, G: b}: every named field is stored
				if st, ok := l.(*ast.StarExpr); ok {
					if cl, isLit := core.Unparen(s.Rhs[i]).(*ast.CompositeLit); isLit {
						keyed := len(cl.Elts) > 0
						for _, el := range cl.Elts {
							if _, isKV := el.(*ast.KeyValueExpr); !isKV {
								keyed = false
							}
						}
						if keyed {
							for _, el := range cl.Elts {
								kv := el.(*ast.KeyValueExpr)
								if id, isId := kv.Key.(*ast.Ident); isId {
									v := e.eval(kv.Value)
									e.flds[core.ExprStr(st.X)+"."+id.Name] = &v
								}
							}
							continue
						}
					}
				}
				e.fail("assignment to %s not understood", core.ExprStr(l))
			}
		case *ast.DeclStmt:
			if gd, ok := s.Decl.(*ast.GenDecl); ok {
				for _, sp := range gd.Specs {
					if vs, ok := sp.(*ast.ValueSpec); ok {
						for i, nm := range vs.Names {
							var v bval
							if i < len(vs.Values) {
								v = e.eval(vs.Values[i])
							} else if t := e.info.TypeOf(vs.Type); t != nil {
								if arr, ok := t.Underlying().(*types.Array); ok {
									v = zeroBytes(int(arr.Len()))
								} else {
									v = constIntVal(0, intWidth(t))
								}
							}
							e.vars[e.info.ObjectOf(nm)] = &v
						}
					}
				}
			}
		case *ast.ExprStmt:
			c, ok := s.X.(*ast.CallExpr)
			if !ok {
				continue
			}
			nm := core.CalleeName(e.info, c)
			switch {
			case strings.HasPrefix(nm, "encoding/binary.") && strings.Contains(nm, "ndian).PutUint"):
				w := map[string]int{"PutUint16": 16, "PutUint32": 32, "PutUint64": 64}[nm[strings.LastIndex(nm, ".")+1:]]
				reg, lo, hi, okr := e.region(c.Args[0])
				v := e.eval(c.Args[1])
				if !okr || !v.ok || w == 0 || hi-lo < w/8 {
					e.fail("%s not understood", core.ExprStr(c))
					continue
				}
				v = v.resize(w)
				if strings.Contains(nm, "little") {
					copy(reg.bits[8*lo:8*lo+w], v.bits)
				} else {
					nb := w / 8
					for i := 0; i < nb; i++ {
						copy(reg.bits[8*(lo+i):8*(lo+i)+8], v.bits[8*(nb-1-i):8*(nb-i)])
					}
				}
			case e.inlineMutatingCall(c):
			case core.BuiltinName(e.info, c) == "copy" && len(c.Args) == 2:
				reg, lo, hi, okr := e.region(c.Args[0])
				src := e.eval(c.Args[1])
				if !okr || !src.ok || !src.slice {
					e.fail("copy %s not understood", core.ExprStr(c))
					continue
				}
				n := len(src.bits) / 8
				if hi-lo < n {
					n = hi - lo
				}
				copy(reg.bits[8*lo:8*(lo+n)], src.bits[:8*n])
			}
		case *ast.IfStmt:
			// a guard: `if cond { return ... }` / `{ panic(...) }` restricts inputs only
			if s.Else == nil && len(s.Body.List) > 0 {
				switch last := s.Body.List[len(s.Body.List)-1].(type) {
				case *ast.ReturnStmt:
					continue
				case *ast.ExprStmt:
					if c, ok := last.X.(*ast.CallExpr); ok && core.BuiltinName(e.info, c) == "panic" {
						continue
					}
				}
			}
			e.fail("branching at %s not understood", e.p.Rel(s.Pos()))
			return nil, false
		case *ast.ReturnStmt:
			var out []bval
			for _, r := range s.Results {
				if t := e.info.TypeOf(r); t != nil && core.IsErrorType(t) {
					continue
				}
				if id, ok := core.Unparen(r).(*ast.Ident); ok && id.Name == "nil" {
					continue
				}
				// return T{F: x, ...}: the fields of the result are recorded like assignments to a named result
				if cl, ok := core.Unparen(r).(*ast.CompositeLit); ok {
					if _, isStruct := e.info.TypeOf(cl).Underlying().(*types.Struct); isStruct {
						okAll := true
						for _, el := range cl.Elts {
							kv, isKV := el.(*ast.KeyValueExpr)
							if !isKV {
								okAll = false
								continue
							}
							kid, isId := kv.Key.(*ast.Ident)
							if !isId {
								okAll = false
								continue
							}
							v := e.eval(kv.Value)
							vv := v
							e.flds["return."+kid.Name] = &vv
						}
						if okAll {
							out = append(out, bval{ok: true})
							continue
						}
					}
				}
				out = append(out, e.eval(r))
			}
			return out, true
		case *ast.BlockStmt:
			if res, done := e.exec(s.List); done {
				return res, true
			}
		default:
			e.fail("statement at %s not understood", e.p.Rel(st.Pos()))
			return nil, false
		}
	}
	return nil, false
}

// evalBitFunc evaluates f on the given receiver fields (may be nil) and argument values.
func evalBitFunc(p *core.Prog, f *core.Func, recvFields map[string]bval, args []bval, depth int) ([]bval, string) {
	e := &bitEnv{p: p, f: f, info: f.Pkg.TypesInfo, vars: map[types.Object]*bval{}, flds: map[string]*bval{}, depth: depth}
	if f.Decl != nil && f.Decl.Recv != nil && len(f.Decl.Recv.List) == 1 && len(f.Decl.Recv.List[0].Names) == 1 {
		rn := f.Decl.Recv.List[0].Names[0].Name
		for k, v := range recvFields {
			vv := v
			e.flds[rn+"."+k] = &vv
		}
	}
	for i := 0; ; i++ {
		po := f.ParamObj(i)
		if po == nil {
			break
		}
		if i < len(args) {
			v := args[i]
			e.vars[po] = &v
		}
	}
	res, _ := e.exec(f.Body.List)
	lastBitEnv = e
	return res, e.note
}

// roundTripBits compares a decoded value with the symbolic input it must reproduce: bit j equals input bit j below
// `valid` and is zero from there on.
func roundTripBits(got bval, name string, valid int) (bool, string) {
	if !got.ok || got.slice {
		return false, "decoded value not understood"
	}
	for j, b := range got.bits {
		if j < valid {
			if b.src != name || b.idx != j {
				return false, fmt.Sprintf("bit %d of the decoded %s is %s, not %s[%d]", j, name, b, name, j)
			}
		} else if b.src != "" {
			return false, fmt.Sprintf("bit %d of the decoded %s is %s although only %d bits are stored", j, name, b, valid)
		}
	}
	return true, ""
}

// maskInputs clears the bits an encoder may assume to be zero (its callers reject larger values).
func maskInputs(v bval, valid int) bval {
	out := v.resize(len(v.bits))
	for j := valid; j < len(out.bits); j++ {
		out.bits[j] = pbit{}
	}
	return out
}

var _ = ast.NewIdent

// lastBitEnv exposes the environment of the most recent top-level evaluation (to read a named local such as `value`).
var lastBitEnv *bitEnv

// fieldNamed returns the value last assigned to a selector whose field name is `field` (e.g. oas.Offset).
func (e *bitEnv) fieldNamed(field string) (bval, bool) {
	for k, v := range e.flds {
		if strings.HasSuffix(k, "."+field) {
			return *v, true
		}
	}
	return bval{}, false
}

func (e *bitEnv) varNamed(name string) (bval, bool) {
	for o, v := range e.vars {
		if o != nil && o.Name() == name {
			return *v, true
		}
	}
	return bval{}, false
}

// inlineMutatingCall evaluates a statement call of a repository helper that writes into slice arguments
// (putUintLe(buf[0:3], x)): the regions are passed by value and the callee's final parameter values are copied back.
func (e *bitEnv) inlineMutatingCall(c *ast.CallExpr) bool {
	fn := core.Callee(e.info, c)
	if fn == nil {
		return false
	}
	callee := e.p.ByObj[fn.Origin()]
	if callee == nil || callee.Body == nil || e.depth >= 6 {
		return false
	}
	type wb struct {
		reg    *bval
		lo, hi int
		param  int
	}
	var backs []wb
	var args []bval
	for i, a := range c.Args {
		if reg, lo, hi, ok := e.region(a); ok {
			args = append(args, bval{bits: append([]pbit(nil), reg.bits[8*lo:8*hi]...), slice: true, ok: true})
			backs = append(backs, wb{reg, lo, hi, i})
			continue
		}
		args = append(args, e.eval(a))
	}
	sub := &bitEnv{p: e.p, f: callee, info: callee.Pkg.TypesInfo, vars: map[types.Object]*bval{}, flds: map[string]*bval{}, depth: e.depth + 1}
	for i := range args {
		if po := callee.ParamObj(i); po != nil {
			v := args[i]
			sub.vars[po] = &v
		}
	}
	sub.exec(callee.Body.List)
	if sub.note != "" && e.note == "" {
		e.note = sub.note
	}
	for _, b := range backs {
		if po := callee.ParamObj(b.param); po != nil {
			if v := sub.vars[po]; v != nil && v.ok && v.slice && len(v.bits) == 8*(b.hi-b.lo) {
				copy(b.reg.bits[8*b.lo:8*b.hi], v.bits)
			}
		}
	}
	return true
}

// evalBitFuncFields evaluates f with explicit selector bindings ("b.HashLen", "e.Hash", ...) and argument values and
// returns the environment, so that callers can read back mutated parameters and assigned fields.
func evalBitFuncFields(p *core.Prog, f *core.Func, flds map[string]bval, args []bval) *bitEnv {
	e := &bitEnv{p: p, f: f, info: f.Pkg.TypesInfo, vars: map[types.Object]*bval{}, flds: map[string]*bval{}}
	for k, v := range flds {
		vv := v
		e.flds[k] = &vv
	}
	for i := 0; ; i++ {
		po := f.ParamObj(i)
		if po == nil {
			break
		}
		if i < len(args) {
			v := args[i]
			e.vars[po] = &v
		}
	}
	e.exec(f.Body.List)
	return e
}

func symBytes(name string, n int) bval {
	b := make([]pbit, 8*n)
	for i := range b {
		b[i] = pbit{src: name, idx: i}
	}
	return bval{bits: b, slice: true, ok: true}
}
