package rules

import (
	"fmt"
	"go/ast"
	"go/types"
	"strings"

	"yfverif/checker/internal/core"
)

// Quantifier helpers (refactoring batch w): a predicate may hand a whole account list to a helper that answers "the
// transaction mentions one of these" / "mentions all of these" instead of looping itself. The helper is judged by the
// same abstract run the per-key loops of a predicate are judged by.

// forcedRun: starting behind node def of fn's graph, with the boolean variable pv fixed to val, follow every way on that
// is consistent with that value. stop(x) ends a way harmlessly; every return met must satisfy okReturn. Reports whether no
// way escapes (reaches the exit, leaves through `leave`, or meets a return that is not okReturn).
func forcedRun(g *core.Graph, fn *core.Func, def *core.GNode, pv types.Object, val bool, leave func(*core.GNode) bool, okReturn func(*ast.ReturnStmt, *atomEnv, map[string]bool) bool, fixed ...map[types.Object]bool) bool {
	info := fn.Pkg.TypesInfo
	vals := map[string]bool{"P": val}
	fixedName := map[types.Object]string{}
	for _, m := range fixed {
		for o, b := range m {
			nm := fmt.Sprintf("F%d", len(fixedName))
			fixedName[o] = nm
			vals[nm] = b
		}
	}
	env := &atomEnv{fn: fn, named: func(x ast.Expr) (string, bool, bool) {
		if id, isId := core.Unparen(x).(*ast.Ident); isId {
			if info.Uses[id] == pv {
				return "P", false, true
			}
			if nm, ok := fixedName[info.Uses[id]]; ok {
				return nm, false, true
			}
		}
		return "", false, false
	}}
	seen := map[*core.GNode]bool{}
	queue := append([]*core.GNode{}, def.Succs...)
	for len(queue) > 0 {
		x := queue[0]
		queue = queue[1:]
		if seen[x] {
			continue
		}
		seen[x] = true
		if x == g.Exit || (leave != nil && leave(x)) {
			return false
		}
		if rt, isRet := x.Ast.(*ast.ReturnStmt); isRet && x.Kind == core.KStmt {
			if okReturn(rt, env, vals) {
				continue
			}
			return false
		}
		if x.Kind == core.KStmt && x.Ast != nil && core.AssignsObj(info, x.Ast, pv) && x != def {
			return false // the answer is overwritten: the fixed value no longer describes it
		}
		if x.Kind == core.KEdge && x.Ast != nil && x.Tag == nil {
			if ce, isExpr := x.Ast.(ast.Expr); isExpr {
				if v, okv := env.eval(ce, vals, 0); okv && v != x.Truth {
					continue
				}
			}
		}
		queue = append(queue, x.Succs...)
	}
	return true
}

// quantifierKind: h ranges over its slice parameter number listIdx, asks HasAccount (directly or through a forwarding
// wrapper) for every element, and
//   - "any": answers true (first result) as soon as one element is present, and false after the loop;
//   - "all": answers false as soon as one element is missing, and true after the loop.
// Anything else gives "".
func quantifierKind(p *core.Prog, h *core.Func, fixedArgs map[int]bool) (kind string, listIdx int, ansIdx int) {
	kind, listIdx, ansIdx = quantifierKind0(p, h, fixedArgs)
	return
}

// ansIdx is the position of the helper's boolean answer among its results (the first result of type bool); boolean parameters
// that the call site fixes to a constant (fixedArgs) take that value in the run. A third kind, "notall", answers true as soon
// as one element is missing and false after the loop.
func quantifierKind0(p *core.Prog, h *core.Func, fixedArgs map[int]bool) (string, int, int) {
	if h == nil || h.Body == nil {
		return "", -1, -1
	}
	ansIdx := -1
	if h.Obj == nil {
		return "", -1, -1
	}
	if sig, ok := h.Obj.Type().(*types.Signature); ok {
		for i := 0; i < sig.Results().Len(); i++ {
			if types.Identical(sig.Results().At(i).Type().Underlying(), types.Typ[types.Bool]) && ansIdx < 0 {
				ansIdx = i
			}
		}
	}
	if ansIdx < 0 {
		return "", -1, -1
	}
	fixed := map[types.Object]bool{}
	for i, b := range fixedArgs {
		if po := h.ParamObj(i); po != nil {
			fixed[po] = b
		}
	}
	listIdx := -1
	info := h.Pkg.TypesInfo
	g := p.Graph(h)
	var loop *ast.RangeStmt
	ast.Inspect(h.Body, func(m ast.Node) bool {
		if _, isLit := m.(*ast.FuncLit); isLit {
			return false
		}
		rs, ok := m.(*ast.RangeStmt)
		if !ok || loop != nil {
			return true
		}
		lo := core.ObjOf(info, rs.X)
		for i := 0; h.ParamObj(i) != nil; i++ {
			if types.Object(h.ParamObj(i)) == lo && lo != nil {
				loop, listIdx = rs, i
			}
		}
		return true
	})
	if loop == nil || loop.Value == nil {
		return "", -1, -1
	}
	kv := core.ObjOf(info, loop.Value)
	var def *core.GNode
	var pv types.Object
	ast.Inspect(loop.Body, func(k ast.Node) bool {
		as, ok := k.(*ast.AssignStmt)
		if !ok || len(as.Rhs) != 1 || def != nil {
			return true
		}
		c, ok := core.Unparen(as.Rhs[0]).(*ast.CallExpr)
		if !ok {
			return true
		}
		passesKey := false
		for _, a := range c.Args {
			if core.ObjOf(info, a) == kv {
				passesKey = true
			}
		}
		pi := -1
		if passesKey && strings.HasSuffix(core.CalleeName(info, c), ".HasAccount") {
			pi = 0
		} else if passesKey {
			pi = presenceResultOf(p, h, c)
		}
		if pi < 0 || pi >= len(as.Lhs) {
			return true
		}
		pv = core.ObjOf(info, as.Lhs[pi])
		def = g.NodeOf(as.Pos())
		return true
	})
	if def == nil || pv == nil {
		return "", -1, -1
	}
	head := g.LoopHead(loop)
	leave := func(x *core.GNode) bool {
		return x == head || (x.Ast != nil && (x.Ast.Pos() < loop.Body.Pos() || x.Ast.End() > loop.Body.End()))
	}
	firstConst := func(want bool) func(*ast.ReturnStmt, *atomEnv, map[string]bool) bool {
		return func(rt *ast.ReturnStmt, _ *atomEnv, _ map[string]bool) bool {
			if len(rt.Results) <= ansIdx {
				return false
			}
			if rn := g.NodeOf(rt.Pos()); rn != nil && len(rt.Results) >= 2 && definitelyErrorReturn(g, h, rn) {
				return true // the lookup failed: no answer is given, the caller sees the error
			}
			b, isC := boolConst(info, rt.Results[ansIdx])
			return isC && b == want
		}
	}
	// the returns outside the loop body that are not error exits: the answer when the loop ran to its end
	after := func(want bool) bool {
		n := 0
		for _, rn := range g.Returns() {
			rt := rn.Ast.(*ast.ReturnStmt)
			if rt.Pos() >= loop.Pos() && rt.End() <= loop.End() {
				continue
			}
			if len(rt.Results) >= 2 && definitelyErrorReturn(g, h, rn) {
				continue
			}
			n++
			if len(rt.Results) <= ansIdx {
				return false
			}
			if b, isC := boolConst(info, rt.Results[ansIdx]); !isC || b != want {
				return false
			}
		}
		return n > 0
	}
	switch {
	case forcedRun(g, h, def, pv, true, leave, firstConst(true), fixed) && after(false):
		return "any", listIdx, ansIdx
	case forcedRun(g, h, def, pv, false, leave, firstConst(false), fixed) && after(true):
		return "all", listIdx, ansIdx
	case forcedRun(g, h, def, pv, false, leave, firstConst(true), fixed) && after(false):
		return "notall", listIdx, ansIdx
	}
	return "", -1, -1
}

// quantifierCall: the statement assigns the answer of a quantifier helper that is handed the list lo; the helper's kind, the
// variable that receives the answer and the node of the statement.
func quantifierCall(p *core.Prog, fn *core.Func, g *core.Graph, as *ast.AssignStmt, lo types.Object) (kind string, answer types.Object, at *core.GNode) {
	info := fn.Pkg.TypesInfo
	if len(as.Rhs) != 1 || len(as.Lhs) < 1 {
		return "", nil, nil
	}
	c, ok := core.Unparen(as.Rhs[0]).(*ast.CallExpr)
	if !ok {
		return "", nil, nil
	}
	fo := core.Callee(info, c)
	if fo == nil {
		return "", nil, nil
	}
	h := p.ByObj[fo.Origin()]
	fixedArgs := map[int]bool{}
	for i, a := range c.Args {
		if b, isC := boolConst(info, a); isC {
			fixedArgs[i] = b
		}
	}
	k, li, ai := quantifierKind(p, h, fixedArgs)
	if k == "" || li >= len(c.Args) || ai >= len(as.Lhs) || (lo != nil && core.ObjOf(info, c.Args[li]) != lo) {
		return "", nil, nil
	}
	return k, core.ObjOf(info, as.Lhs[ai]), g.NodeOf(as.Pos())
}

// rejectingReturn: the return hands back false - as a constant, or as an expression that is false under the valuation.
func rejectingReturn(info *types.Info) func(*ast.ReturnStmt, *atomEnv, map[string]bool) bool {
	return func(rt *ast.ReturnStmt, env *atomEnv, vals map[string]bool) bool {
		if len(rt.Results) != 1 {
			return false
		}
		if b, isC := boolConst(info, rt.Results[0]); isC {
			return !b
		}
		v, known := env.eval(rt.Results[0], vals, 0)
		return known && !v
	}
}

// passedEveryTest: e is true exactly when tests passed: a conjunction of `err == nil`, of answers of all-of helpers and of
// negated answers of any-of helpers (each answer read from the variable the helper's result was assigned to in fn).
func passedEveryTest(p *core.Prog, fn *core.Func, e ast.Expr) bool {
	info := fn.Pkg.TypesInfo
	g := p.Graph(fn)
	kindOf := func(x ast.Expr) string {
		o := core.ObjOf(info, core.Unparen(x))
		if o == nil {
			return ""
		}
		kind, n := "", 0
		for _, nd := range stmtNodes(g) {
			as, ok := nd.Ast.(*ast.AssignStmt)
			if !ok || !core.AssignsObj(info, as, o) {
				continue
			}
			n++
			if k, ans, _ := quantifierCall(p, fn, g, as, nil); ans == o {
				kind = k
			}
		}
		if n != 1 {
			return ""
		}
		return kind
	}
	cs := conjuncts(e)
	if len(cs) == 0 {
		return false
	}
	for _, cj := range cs {
		cj = core.Unparen(cj)
		if x, eq, isNil := core.NilCompare(info, cj); isNil && eq {
			if o := core.ObjOf(info, x); o != nil && core.IsErrorType(o.Type()) {
				continue
			}
		}
		if u, isU := cj.(*ast.UnaryExpr); isU && u.Op.String() == "!" {
			if k := kindOf(u.X); k == "any" || k == "notall" {
				continue
			}
			return false
		}
		if kindOf(cj) == "all" {
			continue
		}
		return false
	}
	return true
}
