package rules

import (
	"go/ast"
	"go/token"
	"go/types"
	"sort"
	"strings"

	"yfverif/checker/internal/core"
)

// Provenance-based collection of the positional reads of a hand-written decoder (C11.R1 / R3).
//
// A *source* is a statement that obtains element k of a tuple: `v, ok := ARR.Get(k)` (as a statement or as the init of an
// if), or a call of a helper of the package that performs such a read on an array parameter (`uint64At(arr, k, "slot")`,
// `kindFromCBORArray(arr)`); helpers are summarised by running the same collection on them, an index that is a parameter of
// the helper being bound to the constant argument of the call.
//
// What happens to the element is read off the flow of the value, not off the statement shape:
//   Fields   - the struct fields assigned from an expression that mentions the value or a local derived from it
//              (derivation runs through assignments, range statements, type switches, composite literals, helper results and
//              field-wise filled local structs, also through nested tuples);
//   Decoder  - the conversions applied to the value or to a local derived from it WITHOUT passing through a nested tuple
//              read (getUint64FromInterface -> Int, CidFromBytes -> Link, x.([]byte) -> bytes ...), helpers of the package
//              being classified by what they do with their parameter;
//   NilGuard - a nil test of the value whose non-nil side dominates every such conversion;
//   ElseErr  - from the edge on which the element is absent (`ok` false) only error returns are reachable; for a helper:
//              the same inside the helper and the caller leaves with an error when the helper reported one.

type siteCollector struct {
	p     *core.Prog
	memo  map[*core.Func][]getSite
	busy  map[*core.Func]bool
	depth int
}

func collectGetSites(p *core.Prog, f *core.Func, body ast.Node) []getSite {
	sc := &siteCollector{p: p, memo: map[*core.Func][]getSite{}, busy: map[*core.Func]bool{}}
	var out []getSite
	for _, s := range sc.collect(f) {
		if s.IdxParam < 0 {
			out = append(out, s)
		}
	}
	return out
}

const arrayTypeName = "ipld/ipldbindcode._array"

func (sc *siteCollector) collect(f *core.Func) []getSite {
	if s, ok := sc.memo[f]; ok {
		return s
	}
	if sc.busy[f] || f.Body == nil {
		return nil
	}
	sc.busy[f] = true
	defer func() { sc.busy[f] = false }()
	p := sc.p
	info := f.Pkg.TypesInfo
	g := p.Graph(f)

	type source struct {
		site   getSite
		stmt   *ast.AssignStmt
		call   *ast.CallExpr
		vals   []types.Object
		okObj  types.Object
		errObj types.Object
		helper bool
		hs     getSite
	}
	var srcs []*source
	isSourceStmt := map[*ast.AssignStmt]bool{}

	paramIndex := func(o types.Object) int {
		for i := 0; f.ParamObj(i) != nil; i++ {
			if types.Object(f.ParamObj(i)) == o {
				return i
			}
		}
		return -1
	}
	arrObjOf := func(e ast.Expr) types.Object {
		e = core.Unparen(e)
		if c, ok := e.(*ast.CallExpr); ok && len(c.Args) == 1 {
			if tv, ok := info.Types[c.Fun]; ok && tv.IsType() {
				e = core.Unparen(c.Args[0])
			}
		}
		return core.ObjOf(info, e)
	}
	ast.Inspect(f.Body, func(m ast.Node) bool {
		if _, isLit := m.(*ast.FuncLit); isLit {
			return false
		}
		as, ok := m.(*ast.AssignStmt)
		if !ok || len(as.Rhs) != 1 {
			return true
		}
		c, ok := core.Unparen(as.Rhs[0]).(*ast.CallExpr)
		if !ok {
			return true
		}
		// direct read
		if sel, ok := core.Unparen(c.Fun).(*ast.SelectorExpr); ok && sel.Sel.Name == "Get" && len(c.Args) == 1 && len(as.Lhs) == 2 &&
			core.NamedTypeName(info.TypeOf(sel.X)) == arrayTypeName {
			s := &source{stmt: as, call: c}
			s.site = getSite{Arr: core.ExprStr(sel.X), ArrObj: arrObjOf(sel.X), At: as, IdxParam: -1}
			if idx, isC := core.ConstInt(info, c.Args[0]); isC {
				s.site.Index = idx
			} else if pi := paramIndex(core.ObjOf(info, c.Args[0])); pi >= 0 {
				s.site.IdxParam = pi
			} else {
				return true
			}
			if o := core.ObjOf(info, as.Lhs[0]); o != nil {
				s.vals = []types.Object{o}
				s.site.Var = o
			}
			s.okObj = core.ObjOf(info, as.Lhs[1])
			srcs = append(srcs, s)
			isSourceStmt[as] = true
			return true
		}
		// read through a helper of the package
		fo := core.Callee(info, c)
		if fo == nil {
			return true
		}
		h := p.ByObj[fo.Origin()]
		if h == nil || h.Body == nil || h.Pkg != f.Pkg || h == f || h.Lit != nil {
			return true
		}
		for ai, a := range c.Args {
			hp := h.ParamObj(ai)
			if hp == nil || core.NamedTypeName(hp.Type()) != arrayTypeName {
				continue
			}
			ao := arrObjOf(a)
			if ao == nil {
				continue
			}
			for _, hs := range sc.collect(h) {
				if hs.ArrObj != types.Object(hp) {
					continue
				}
				s := &source{stmt: as, call: c, helper: true, hs: hs}
				s.site = getSite{Arr: core.ExprStr(a), ArrObj: ao, At: as, IdxParam: -1, Index: hs.Index}
				if hs.IdxParam >= 0 {
					if hs.IdxParam >= len(c.Args) {
						continue
					}
					if idx, isC := core.ConstInt(info, c.Args[hs.IdxParam]); isC {
						s.site.Index = idx
					} else if pi := paramIndex(core.ObjOf(info, c.Args[hs.IdxParam])); pi >= 0 {
						s.site.IdxParam = pi
					} else {
						continue
					}
				}
				for _, l := range as.Lhs {
					o := core.ObjOf(info, l)
					if o == nil {
						continue
					}
					if core.IsErrorType(o.Type()) {
						s.errObj = o
						continue
					}
					if _, isSel := core.Unparen(l).(*ast.SelectorExpr); isSel {
						continue
					}
					s.vals = append(s.vals, o)
				}
				if len(s.vals) > 0 {
					s.site.Var = s.vals[0]
				}
				srcs = append(srcs, s)
				isSourceStmt[as] = true
			}
		}
		return true
	})
	if len(srcs) == 0 {
		sc.memo[f] = nil
		return nil
	}

	recv := types.Object(nil)
	if rv := f.RecvObj(); rv != nil {
		recv = rv
	}
	skipObj := func(o types.Object) bool {
		if o == nil || o == recv {
			return true
		}
		v, isVar := o.(*types.Var)
		if !isVar || v.IsField() {
			return true
		}
		if core.IsErrorType(o.Type()) {
			return true
		}
		if b, ok := o.Type().Underlying().(*types.Basic); ok && b.Kind() == types.Bool {
			return true
		}
		return false
	}
	mentionsAny := func(n ast.Node, set map[types.Object]bool) bool {
		found := false
		ast.Inspect(n, func(k ast.Node) bool {
			if found {
				return false
			}
			if id, ok := k.(*ast.Ident); ok {
				if o := info.Uses[id]; o != nil && set[o] {
					found = true
				}
			}
			return true
		})
		return found
	}
	// taint computes the locals derived from the seed objects. through==false stops at nested tuple reads (their results
	// are not "the element converted" any more).
	taint := func(seed []types.Object, through bool) map[types.Object]bool {
		set := map[types.Object]bool{}
		for _, o := range seed {
			if o != nil {
				set[o] = true
			}
		}
		add := func(e ast.Expr) bool {
			e = core.Unparen(e)
			if _, isSel := e.(*ast.SelectorExpr); isSel {
				// m.F = tainted: the local struct m carries the element (never the receiver)
				sel := e.(*ast.SelectorExpr)
				if o := core.ObjOf(info, sel.X); o != nil && !skipObj(o) && paramIndex(o) < 0 {
					if _, isStruct := derefStruct(o.Type()); isStruct && !set[o] {
						set[o] = true
						return true
					}
				}
				return false
			}
			o := core.ObjOf(info, e)
			if skipObj(o) || set[o] {
				return false
			}
			set[o] = true
			return true
		}
		for changed := true; changed; {
			changed = false
			ast.Inspect(f.Body, func(m ast.Node) bool {
				switch x := m.(type) {
				case *ast.AssignStmt:
					if isSourceStmt[x] && !through {
						return true
					}
					for i, l := range x.Lhs {
						var rhs ast.Expr
						if len(x.Rhs) == len(x.Lhs) {
							rhs = x.Rhs[i]
						} else if len(x.Rhs) == 1 {
							rhs = x.Rhs[0]
						}
						if rhs != nil && mentionsAny(rhs, set) && add(l) {
							changed = true
						}
					}
				case *ast.ValueSpec:
					for _, v := range x.Values {
						if mentionsAny(v, set) {
							for _, nm := range x.Names {
								if o := info.Defs[nm]; o != nil && !skipObj(o) && !set[o] {
									set[o] = true
									changed = true
								}
							}
						}
					}
				case *ast.RangeStmt:
					if x.Value != nil && mentionsAny(x.X, set) && add(x.Value) {
						changed = true
					}
				case *ast.CallExpr:
					// d.fromCBORArray(tainted): the local struct d is filled from the element
					if sel, ok := core.Unparen(x.Fun).(*ast.SelectorExpr); ok {
						if o := core.ObjOf(info, sel.X); o != nil && !skipObj(o) && !set[o] && paramIndex(o) < 0 {
							if _, isStruct := derefStruct(o.Type()); isStruct {
								for _, a := range x.Args {
									if mentionsAny(a, set) {
										set[o] = true
										changed = true
										break
									}
								}
							}
						}
					}
				case *ast.TypeSwitchStmt:
					if as, ok := x.Assign.(*ast.AssignStmt); ok && len(as.Rhs) == 1 && mentionsAny(as.Rhs[0], set) {
						// the symbol of a type switch has one object per clause (info.Implicits)
						for _, cl := range x.Body.List {
							if o := info.Implicits[cl]; o != nil && !set[o] {
								set[o] = true
								changed = true
							}
						}
					}
				}
				return true
			})
		}
		return set
	}

	// the edges taken when the test of obj (ok / err) that follows `after` fails resp. holds
	edgesOn := func(obj types.Object, after token.Pos, isNilTest bool) (holds, fails []*core.GNode) {
		if obj == nil || obj.Name() == "_" {
			return
		}
		nextDef := token.Pos(1 << 60)
		ast.Inspect(f.Body, func(m ast.Node) bool {
			if as, ok := m.(*ast.AssignStmt); ok && as.Pos() > after {
				for _, l := range as.Lhs {
					if core.ObjOf(info, l) == obj && as.Pos() < nextDef {
						nextDef = as.Pos()
					}
				}
			}
			return true
		})
		for _, e := range g.Nodes {
			if e.Kind != core.KEdge || e.Ast == nil || e.Tag != nil || e.Ast.Pos() <= after || e.Ast.Pos() >= nextDef {
				continue
			}
			for _, fc := range e.Facts() {
				if fc.Unless != nil {
					continue
				}
				if isNilTest {
					if x, eq, ok := core.NilCompare(info, fc.Expr); ok && core.ObjOf(info, x) == obj {
						// "holds" = the error is non-nil
						if eq != fc.Truth {
							holds = append(holds, e)
						} else {
							fails = append(fails, e)
						}
					}
				} else if id, ok := core.Unparen(fc.Expr).(*ast.Ident); ok && info.Uses[id] == obj {
					if fc.Truth {
						holds = append(holds, e)
					} else {
						fails = append(fails, e)
					}
				}
			}
		}
		// the false side of `ok && v != nil` implies no atomic fact: take the sibling of a holding edge
		if !isNilTest && len(fails) == 0 {
			for _, e := range holds {
				if sib := siblingEdge(e); sib != nil {
					fails = append(fails, sib)
				}
			}
		}
		return
	}

	var classifyIn func(h *core.Func, seed []types.Object, depth int) map[string]bool
	classify := func(fn *core.Func, direct map[types.Object]bool, depth int) (map[string]bool, []ast.Node) {
		finfo := fn.Pkg.TypesInfo
		tags := map[string]bool{}
		var convs []ast.Node
		mentions := func(n ast.Node) bool {
			found := false
			ast.Inspect(n, func(k ast.Node) bool {
				if id, ok := k.(*ast.Ident); ok {
					if o := finfo.Uses[id]; o != nil && direct[o] {
						found = true
					}
				}
				return !found
			})
			return found
		}
		ast.Inspect(fn.Body, func(k ast.Node) bool {
			switch x := k.(type) {
			case *ast.TypeAssertExpr:
				if x.Type != nil && mentions(x.X) {
					switch core.ExprStr(x.Type) {
					case "[]byte":
						tags["bytes"] = true
					case "[]interface{}", "[]any":
						tags["tuple"] = true
					}
					convs = append(convs, x)
				}
			case *ast.CallExpr:
				if tv, ok := finfo.Types[x.Fun]; ok && tv.IsType() {
					return true
				}
				argTainted := false
				for _, a := range x.Args {
					if mentions(a) {
						argTainted = true
					}
				}
				recvTainted := false
				if sel, ok := core.Unparen(x.Fun).(*ast.SelectorExpr); ok && mentions(sel.X) {
					recvTainted = true
				}
				nm := core.CalleeName(finfo, x)
				if strings.HasSuffix(nm, ".fromCBORArray") && (argTainted || recvTainted) {
					tags["DataFrame"] = true
					convs = append(convs, x)
					return true
				}
				if !argTainted || nm == "" {
					return true
				}
				if b := core.BuiltinName(finfo, x); b != "" {
					return true
				}
				resT := ""
				if tv := finfo.TypeOf(x); tv != nil {
					if tup, isTup := tv.(*types.Tuple); isTup && tup.Len() > 0 {
						resT = core.NamedTypeName(tup.At(0).Type())
					} else {
						resT = core.NamedTypeName(tv)
					}
				}
				inPkg := core.ShortPkg(pkgOfName(nm)) == "ipld/ipldbindcode" && !strings.Contains(nm, "_array")
				switch {
				case strings.HasSuffix(nm, ".getUint64FromInterface"):
					tags["Int"] = true
				case strings.HasSuffix(nm, ".decodeCborLinkListFromAny"), inPkg && strings.HasSuffix(resT, "List__Link"):
					tags["[Link]"] = true
				case strings.HasSuffix(nm, "cid.CidFromBytes"), strings.HasSuffix(nm, "cid.Cast"), inPkg && strings.HasSuffix(resT, "linking/cid.Link"):
					tags["Link"] = true
				case inPkg:
					// a helper of the package: what does it do with the parameter that receives the element?
					sub := map[string]bool{}
					if fo := core.Callee(finfo, x); fo != nil && depth < 3 {
						if h := sc.p.ByObj[fo.Origin()]; h != nil && h.Body != nil && h != fn {
							var seed []types.Object
							for ai, a := range x.Args {
								if mentions(a) && h.ParamObj(ai) != nil {
									seed = append(seed, h.ParamObj(ai))
								}
							}
							sub = classifyIn(h, seed, depth+1)
						}
					}
					if len(sub) == 0 {
						tags["call:"+nm[strings.LastIndex(nm, ".")+1:]] = true
					}
					for t := range sub {
						tags[t] = true
					}
				default:
					return true
				}
				convs = append(convs, x)
			}
			return true
		})
		return tags, convs
	}
	classifyIn = func(h *core.Func, seed []types.Object, depth int) map[string]bool {
		if len(seed) == 0 {
			return nil
		}
		// direct taint inside the helper (plain forward closure over assignments; the helper's own tuple reads stop it)
		hinfo := h.Pkg.TypesInfo
		set := map[types.Object]bool{}
		for _, o := range seed {
			set[o] = true
		}
		for changed := true; changed; {
			changed = false
			ast.Inspect(h.Body, func(m ast.Node) bool {
				mark := func(l ast.Expr) {
					if o := core.ObjOf(hinfo, core.Unparen(l)); o != nil && !set[o] && !core.IsErrorType(o.Type()) {
						if _, isSel := core.Unparen(l).(*ast.SelectorExpr); !isSel {
							if b, ok := o.Type().Underlying().(*types.Basic); !ok || b.Kind() != types.Bool {
								set[o] = true
								changed = true
							}
						}
					}
				}
				ment := func(n ast.Node) bool {
					found := false
					ast.Inspect(n, func(k ast.Node) bool {
						if id, ok := k.(*ast.Ident); ok {
							if o := hinfo.Uses[id]; o != nil && set[o] {
								found = true
							}
						}
						return !found
					})
					return found
				}
				switch x := m.(type) {
				case *ast.AssignStmt:
					if len(x.Rhs) == 1 {
						if c, ok := core.Unparen(x.Rhs[0]).(*ast.CallExpr); ok {
							if sel, ok := core.Unparen(c.Fun).(*ast.SelectorExpr); ok && sel.Sel.Name == "Get" && core.NamedTypeName(hinfo.TypeOf(sel.X)) == arrayTypeName {
								return true
							}
						}
					}
					for i, l := range x.Lhs {
						var rhs ast.Expr
						if len(x.Rhs) == len(x.Lhs) {
							rhs = x.Rhs[i]
						} else if len(x.Rhs) == 1 {
							rhs = x.Rhs[0]
						}
						if rhs != nil && ment(rhs) {
							mark(l)
						}
					}
				case *ast.RangeStmt:
					if x.Value != nil && ment(x.X) {
						mark(x.Value)
					}
				case *ast.TypeSwitchStmt:
					if as, ok := x.Assign.(*ast.AssignStmt); ok && len(as.Rhs) == 1 && ment(as.Rhs[0]) {
						for _, cl := range x.Body.List {
							if o := hinfo.Implicits[cl]; o != nil && !set[o] {
								set[o] = true
								changed = true
							}
						}
					}
				}
				return true
			})
		}
		tags, _ := classify(h, set, depth)
		// a type switch on the element with a []interface{} clause is a tuple conversion as well
		ast.Inspect(h.Body, func(m ast.Node) bool {
			if ts, ok := m.(*ast.TypeSwitchStmt); ok {
				for _, cl := range ts.Body.List {
					for _, t := range cl.(*ast.CaseClause).List {
						switch core.ExprStr(t) {
						case "[]interface{}", "[]any":
							tags["tuple"] = true
						case "[]byte":
							tags["bytes"] = true
						}
					}
				}
			}
			return true
		})
		return tags
	}
	pick := func(tags map[string]bool) string {
		for _, t := range []string{"[Link]", "Link", "DataFrame", "Int", "tuple", "bytes"} {
			if tags[t] {
				return t
			}
		}
		var rest []string
		for t := range tags {
			rest = append(rest, t)
		}
		sort.Strings(rest)
		if len(rest) > 0 {
			return rest[0]
		}
		return ""
	}

	// struct fields assigned from tainted expressions (also inside helpers that receive a tainted argument)
	var fieldsIn func(fn *core.Func, set map[types.Object]bool, depth int) []string
	fieldsIn = func(fn *core.Func, set map[types.Object]bool, depth int) []string {
		finfo := fn.Pkg.TypesInfo
		var out []string
		ment := func(n ast.Node) bool {
			found := false
			ast.Inspect(n, func(k ast.Node) bool {
				if id, ok := k.(*ast.Ident); ok {
					if o := finfo.Uses[id]; o != nil && set[o] {
						found = true
					}
				}
				return !found
			})
			return found
		}
		ast.Inspect(fn.Body, func(m ast.Node) bool {
			switch x := m.(type) {
			case *ast.AssignStmt:
				for i, l := range x.Lhs {
					ls, ok := core.Unparen(l).(*ast.SelectorExpr)
					if !ok {
						continue
					}
					if _, isStruct := derefStruct(finfo.TypeOf(ls.X)); !isStruct {
						continue
					}
					var rhs ast.Expr
					if len(x.Rhs) == len(x.Lhs) {
						rhs = x.Rhs[i]
					} else if len(x.Rhs) == 1 {
						rhs = x.Rhs[0]
					}
					if rhs != nil && ment(rhs) {
						out = append(out, ls.Sel.Name)
					}
				}
			case *ast.CompositeLit:
				if _, isStruct := derefStruct(finfo.TypeOf(x)); isStruct {
					for _, el := range x.Elts {
						if kv, ok := el.(*ast.KeyValueExpr); ok && ment(kv.Value) {
							if id, ok := kv.Key.(*ast.Ident); ok {
								out = append(out, id.Name)
							}
						}
					}
				}
			case *ast.CallExpr:
				if depth >= 2 {
					return true
				}
				fo := core.Callee(finfo, x)
				if fo == nil {
					return true
				}
				h := sc.p.ByObj[fo.Origin()]
				if h == nil || h.Body == nil || h.Pkg != fn.Pkg || h == fn || h.RecvObj() == nil {
					return true
				}
				// only when the helper is called on the struct being filled (the receiver of fn)
				if sel, ok := core.Unparen(x.Fun).(*ast.SelectorExpr); !ok || fn.RecvObj() == nil || core.ObjOf(finfo, sel.X) != types.Object(fn.RecvObj()) {
					return true
				}
				// x.appendShreddingFromAny(v): the fields of its own receiver the helper fills from the parameter
				sub := map[types.Object]bool{}
				for ai, a := range x.Args {
					if ment(a) && h.ParamObj(ai) != nil {
						sub[h.ParamObj(ai)] = true
					}
				}
				if len(sub) == 0 {
					return true
				}
				hinfo := h.Pkg.TypesInfo
				for changed := true; changed; {
					changed = false
					ast.Inspect(h.Body, func(k ast.Node) bool {
						if as, ok := k.(*ast.AssignStmt); ok {
							for i, l := range as.Lhs {
								var rhs ast.Expr
								if len(as.Rhs) == len(as.Lhs) {
									rhs = as.Rhs[i]
								} else if len(as.Rhs) == 1 {
									rhs = as.Rhs[0]
								}
								if rhs == nil {
									continue
								}
								hit := false
								ast.Inspect(rhs, func(q ast.Node) bool {
									if id, ok := q.(*ast.Ident); ok {
										if o := hinfo.Uses[id]; o != nil && sub[o] {
											hit = true
										}
									}
									return !hit
								})
								if !hit {
									continue
								}
								if id, ok := core.Unparen(l).(*ast.Ident); ok {
									if o := core.ObjOf(hinfo, id); o != nil && !sub[o] && !core.IsErrorType(o.Type()) {
										sub[o] = true
										changed = true
									}
								}
							}
						}
						if rs, ok := k.(*ast.RangeStmt); ok && rs.Value != nil {
							hit := false
							ast.Inspect(rs.X, func(q ast.Node) bool {
								if id, ok := q.(*ast.Ident); ok {
									if o := hinfo.Uses[id]; o != nil && sub[o] {
										hit = true
									}
								}
								return !hit
							})
							if o := core.ObjOf(hinfo, rs.Value); hit && o != nil && !sub[o] {
								sub[o] = true
								changed = true
							}
						}
						return true
					})
				}
				for _, fld := range fieldsIn(h, sub, depth+1) {
					out = append(out, fld)
				}
			}
			return true
		})
		return out
	}

	var out []getSite
	for _, s := range srcs {
		gs := s.site
		gs.Top = declaredWithoutValue(f, gs.ArrObj)
		full := taint(s.vals, true)
		direct := taint(s.vals, false)
		gs.Fields = fieldsIn(f, full, 0)
		tags, convs := classify(f, direct, 0)
		// absence
		if s.helper {
			holds, _ := edgesOn(s.errObj, s.stmt.Pos(), true)
			propagated := len(holds) > 0
			for _, e := range holds {
				if !onlyErrorsReachable(g, f, e) {
					propagated = false
				}
			}
			gs.ElseErr = s.hs.ElseErr && propagated
			gs.NilGuard = s.hs.NilGuard
			for t := range map[string]bool{s.hs.Decoder: true} {
				if t != "" && len(tags) == 0 {
					tags[t] = true
				}
			}
			if s.hs.Decoder != "" {
				tags[s.hs.Decoder] = true
			}
		} else {
			_, fails := edgesOn(s.okObj, s.stmt.Pos(), false)
			gs.ElseErr = len(fails) > 0
			for _, e := range fails {
				if !onlyErrorsReachable(g, f, e) {
					gs.ElseErr = false
				}
			}
		}
		// nil guard: a nil test of the element whose non-nil side dominates every conversion of it
		if !gs.NilGuard {
			for _, e := range g.Nodes {
				if e.Kind != core.KEdge || e.Ast == nil || e.Tag != nil {
					continue
				}
				for _, fc := range e.Facts() {
					x, eq, ok := core.NilCompare(info, fc.Expr)
					if !ok || eq == fc.Truth || fc.Unless != nil {
						continue
					}
					if o := core.ObjOf(info, x); o == nil || !direct[o] {
						continue
					}
					all := true
					for _, cv := range convs {
						if n := g.NodeOf(cv.Pos()); n == nil || !g.Dominates(e, n) {
							all = false
						}
					}
					if all {
						gs.NilGuard = true
					}
				}
			}
		}
		gs.Decoder = pick(tags)
		out = append(out, gs)
	}
	sort.SliceStable(out, func(i, j int) bool { return out[i].At.Pos() < out[j].At.Pos() })
	sc.memo[f] = out
	return out
}
