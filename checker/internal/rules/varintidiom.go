package rules

import (
	"fmt"
	"go/ast"
	"go/token"
	"go/types"
	"strings"

	"yfverif/checker/internal/core"
)

// Hand-written "how many bytes does the uvarint of x take" functions are a recurring source of off-by-one errors at the
// width boundaries (128, 16384, 2097152): the loop must run while x >= 0x80 (or x > 0x7f) and the count must start at 1.
// checkUvarintLenIdiom finds every function of the given packages that has this shape (a loop comparing a variable with
// 0x7f/0x80 that shifts it right by 7 and counts) and decides whether it agrees with encoding/binary's encoding. When
// there is no such function the rule records that once (every width then comes from the encoder itself).
func checkUvarintLenIdiom(r *core.Report, rule string, pkgs ...string) map[*types.Func]bool {
	p := r.Prog
	good := map[*types.Func]bool{}
	n := 0
	for _, pk := range pkgs {
		for _, f := range p.FuncsInPkg(pk) {
			if f.Body == nil || strings.HasSuffix(p.FileOf(f.Pos()), "_test.go") {
				continue
			}
			info := f.Pkg.TypesInfo
			ast.Inspect(f.Body, func(m ast.Node) bool {
				fs, ok := m.(*ast.ForStmt)
				if !ok || fs.Cond == nil {
					return true
				}
				be, ok := core.Unparen(fs.Cond).(*ast.BinaryExpr)
				if !ok {
					return true
				}
				c, isC := core.ConstInt(info, be.Y)
				xo := core.ObjOf(info, be.X)
				if !isC || xo == nil || (c != 0x80 && c != 0x7f) {
					return true
				}
				// shifts x right by 7 in the body or the post statement
				shifts := false
				chk := func(n ast.Node) {
					if n == nil {
						return
					}
					ast.Inspect(n, func(k ast.Node) bool {
						if as, ok := k.(*ast.AssignStmt); ok && len(as.Lhs) == 1 && core.ObjOf(info, as.Lhs[0]) == xo {
							if as.Tok == token.SHR_ASSIGN {
								if v, ok := core.ConstInt(info, as.Rhs[0]); ok && v == 7 {
									shifts = true
								}
							}
							if b2, ok := core.Unparen(as.Rhs[0]).(*ast.BinaryExpr); ok && b2.Op == token.SHR {
								if v, ok := core.ConstInt(info, b2.Y); ok && v == 7 {
									shifts = true
								}
							}
						}
						return true
					})
				}
				chk(fs.Body)
				chk(fs.Post)
				if !shifts {
					return true
				}
				n++
				okCond := (be.Op == token.GEQ && c == 0x80) || (be.Op == token.GTR && c == 0x7f)
				// the counter: the variable incremented in the loop; its initial value must be 1
				var cnt types.Object
				inc := func(n ast.Node) {
					if n == nil {
						return
					}
					ast.Inspect(n, func(k ast.Node) bool {
						if st, isStmt := k.(ast.Stmt); isStmt {
							if place, isInc := addsOne(info, st); isInc {
								cnt = core.ObjOf(info, place)
							}
						}
						return true
					})
				}
				inc(fs.Body)
				inc(fs.Post)
				okInit := false
				if cnt != nil {
					if d := singleDefOrInit(f, cnt); d != nil {
						if v, ok := core.ConstInt(info, d); ok && v == 1 {
							okInit = true
						}
					}
				}
				k := fmt.Sprintf("%s#uvarint-length-loop", f.Key)
				if okCond && okInit {
					r.OK(rule, k, pos(r, fs), "the hand-written uvarint length agrees with encoding/binary (loop while x >= 0x80, count from 1)")
					if f.Obj != nil {
						good[f.Obj] = true
					}
				} else {
					r.Violation(rule, k, pos(r, fs), fmt.Sprintf("the hand-written uvarint length loop runs while %s (count starting at 1: %v): it disagrees with the bytes binary.PutUvarint writes when the value is exactly 128, 16384, 2097152, ... - a length or offset derived from it is off by one at those sizes", core.ExprStr(fs.Cond), okInit))
				}
				return true
			})
		}
	}
	if n == 0 {
		r.OK(rule, "no-hand-written-uvarint-length", "", "no hand-written uvarint length computation in "+strings.Join(pkgs, ", ")+": widths come from the encoder")
	}
	return good
}

// singleDefOrInit returns the initial value expression of a local (its := definition, a var declaration value, or the
// Init statement of the loop it is declared in).
func singleDefOrInit(f *core.Func, o types.Object) ast.Expr {
	info := f.Pkg.TypesInfo
	var init ast.Expr
	ast.Inspect(f.Body, func(n ast.Node) bool {
		switch s := n.(type) {
		case *ast.AssignStmt:
			if s.Tok == token.DEFINE {
				for i, l := range s.Lhs {
					if id, ok := l.(*ast.Ident); ok && info.Defs[id] == o && i < len(s.Rhs) && init == nil {
						init = s.Rhs[i]
					}
				}
			}
		case *ast.ValueSpec:
			for i, nm := range s.Names {
				if info.Defs[nm] == o && i < len(s.Values) && init == nil {
					init = s.Values[i]
				}
			}
		}
		return true
	})
	return init
}
