package rules

import (
	"bufio"
	"bytes"
	"encoding/json"
	"fmt"
	"os"
	"path/filepath"
	"strings"

	"yfverif/checker/internal/core"
)

// CanonicaliseTables (yfcheck -canontables) is a maintenance step run by hand on the pinned, unchanged tree after a table
// or the known-findings file was edited: it adds to every entry the canonical form of its key (and of the names its
// guards must mention), so that a later renaming of a local variable in /repo does not detach the entry from its
// construct. Checks never call it and never write these files.
func CanonicaliseTables(p *core.Prog, verif string) error {
	write := func(path string, v any) error {
		var buf bytes.Buffer
		enc := json.NewEncoder(&buf)
		enc.SetEscapeHTML(false)
		enc.SetIndent("", " ")
		if err := enc.Encode(v); err != nil {
			return err
		}
		return os.WriteFile(path, buf.Bytes(), 0o644)
	}
	for _, name := range []string{"c04_exempt.json", "c12_exempt.json", "c13_exempt.json"} {
		path := filepath.Join(verif, "tables", name)
		b, err := os.ReadFile(path)
		if err != nil {
			return err
		}
		var list []c12Exempt
		if err := json.Unmarshal(b, &list); err != nil {
			return fmt.Errorf("%s: %w", name, err)
		}
		for i := range list {
			e := &list[i]
			root := p.RootFuncOfKey(e.Key)
			if root == "" {
				fmt.Printf("  %s: no function of the current tree matches key %q (entry left as is)\n", name, e.Key)
				continue
			}
			if e.CKey == "" {
				// the canonical key of a new entry is the key the checker prints for the obligation (expressions are
				// rendered by core.KeyStr, which a text rewrite cannot reproduce): paste it in by hand
				fmt.Printf("  %s: entry %q has no ckey - copy the key printed by `yfcheck -dump` for this construct\n", name, e.Key)
			}
			e.CNeeds = nil
			for _, w := range e.Needs {
				e.CNeeds = append(e.CNeeds, p.CanonText(root, w))
			}
		}
		if err := write(path, list); err != nil {
			return err
		}
		fmt.Printf("%s: %d entries\n", name, len(list))
	}
	for _, name := range []string{"c04_invariants.json", "c10_invariants.json", "c12_invariants.json"} {
		path := filepath.Join(verif, "tables", name)
		b, err := os.ReadFile(path)
		if err != nil {
			return err
		}
		var list []c12Invariant
		if err := json.Unmarshal(b, &list); err != nil {
			return fmt.Errorf("%s: %w", name, err)
		}
		for i := range list {
			e := &list[i]
			f := p.Fn(e.Func)
			if f == nil {
				fmt.Printf("  %s: function %q not found (entry left as is)\n", name, e.Func)
				continue
			}
			e.CMentions = nil
			for _, m := range e.Mentions {
				e.CMentions = append(e.CMentions, p.CanonText(f.RootKey(), m))
			}
		}
		if err := write(path, list); err != nil {
			return err
		}
		fmt.Printf("%s: %d entries\n", name, len(list))
	}
	// KNOWN_FINDINGS.jsonl: JSON lines get a ckey; plain lines are kept verbatim
	kf := filepath.Join(verif, "KNOWN_FINDINGS.jsonl")
	fh, err := os.Open(kf)
	if err != nil {
		return err
	}
	var out []string
	sc := bufio.NewScanner(fh)
	sc.Buffer(make([]byte, 1<<20), 1<<20)
	n := 0
	for sc.Scan() {
		line := sc.Text()
		if !strings.HasPrefix(strings.TrimSpace(line), "{") {
			out = append(out, line)
			continue
		}
		var k core.KnownFinding
		if err := json.Unmarshal([]byte(line), &k); err != nil {
			fh.Close()
			return err
		}
		if k.CKey == "" {
			fmt.Printf("  KNOWN_FINDINGS: entry %q has no ckey - copy the key printed by the check\n", k.Key)
		}
		var buf bytes.Buffer
		enc := json.NewEncoder(&buf)
		enc.SetEscapeHTML(false)
		enc.Encode(k)
		out = append(out, strings.TrimRight(buf.String(), "\n"))
		n++
	}
	fh.Close()
	if err := os.WriteFile(kf, []byte(strings.Join(out, "\n")+"\n"), 0o644); err != nil {
		return err
	}
	fmt.Printf("KNOWN_FINDINGS.jsonl: %d entries\n", n)
	return nil
}
