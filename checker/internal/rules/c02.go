package rules

import (
	"fmt"
	"go/ast"
	"go/constant"
	"go/token"
	"go/types"
	"strings"

	"yfverif/checker/internal/core"
)

func init() { register("C02", C02) }

// C02 — RPC answers for archived slots and signatures reproduce the archive exactly.
func C02(r *core.Report) {
	r.Explanation = "Decides structural necessary conditions of C02 (that every archived block and transaction is answered byte-identically is a statement about runtime data and is not decided): " +
		"R1 routing agreement - a handler that picks its epoch with CalcEpochForSlot(S) addresses that epoch's block / blocktime lookups with the very same S, or with a slot S' under a dominating test CalcEpochForSlot(S') == epoch; S is the request's slot without arithmetic; CalcEpochForSlot divides by EpochLen, CalcEpochLimits uses the same constant, and every other hard-coded epoch length in non-test code (blocktime index capacity, its byte size) equals EpochLen; " +
		"R2 completion-order independence of both getBlock assemblers - every store made by the concurrently started entry / transaction fetchers into shared slices goes to a slot addressed by the fetcher's own loop index (or the slice is sorted afterwards), and a shared scalar is written only by the fetcher whose index equals a loop-invariant value; " +
		"R3 the transactions of the answer are sorted by recorded position with a strict ascending comparator after the last append and before they are put in the response, and the position comes from the transaction node's GetPositionIndex; " +
		"R4 blockhash is the hash of the last entry (written under index == len(entries)-1) and previousBlockhash is taken from the last entry of the parent block fetched from the same epoch under the same-epoch test; " +
		"R5 payload bytes handed out do not alias pooled buffers (the C14.R5 rule, repo-wide); R6 in both getTransaction handlers the epoch handler is the one the signature search returned for the signature that is then fetched, and the answer's slot, block time (same handler's index, keyed by the node's slot), position and payload (same handler's frame getter) all come from that one node. " +
		"R10 wherever a block time is read from the slot-to-blocktime index (directly or through a forwarding wrapper) no test of the time's value ends in an error-only branch: presence is decided by the look-up's error, a recorded time of 0 is a valid answer. R11 the frame collector follows every fetched frame's own links and adds each frame once (same rule as C14.R10). Not decided: the index lookups themselves (C03, C10), payload reassembly (C14), encodings, which epochs are loaded."
	c02Routing(r)
	c02EpochConstants(r)
	c02CompletionOrder(r)
	c02PositionOrder(r)
	c02Blockhash(r)
	c14NoPooledAliasAs(r, "C02.R5")
	c02TransactionAnswer(r)
	c02PrefetchIsBestEffort(r)
	hitConfirmedByIndex(r, "C02.R9")
	c02BlocktimeValueBlind(r)
	everyFrameFollowedOnce(r, "C02.R11")
	epochRoutedOnlyAfterTheFilter(r, "C02.R12")
	r.Floor("C02.R10", 2)
	r.Floor("C02.R8", 1)
	for _, k := range []string{"main.(*Epoch).GetBlock", "main.(*Epoch).GetTransaction", "main.(*Epoch).GetNodeByCid", "main.(*Epoch).ReadAtFromCar"} {
		if f := r.Anchor("C02.R7", k); f != nil {
			checkReentrant(r, "C02.R7", f, "requests")
		}
	}
	r.Floor("C02.R1", 6)
	r.Floor("C02.R2", 2)
	r.Floor("C02.R3", 2)
	r.Floor("C02.R4", 2)
	r.Floor("C02.R6", 5)
}

func stripConvs(info *types.Info, e ast.Expr) ast.Expr {
	for {
		e = core.Unparen(e)
		c, ok := e.(*ast.CallExpr)
		if !ok || len(c.Args) != 1 {
			return e
		}
		if tv, ok := info.Types[c.Fun]; !ok || !tv.IsType() {
			return e
		}
		e = c.Args[0]
	}
}

// plainPlace: identifier, field selection or dereference chain without arithmetic or calls.
func plainPlace(info *types.Info, e ast.Expr) bool {
	switch x := stripConvs(info, e).(type) {
	case *ast.Ident:
		return true
	case *ast.SelectorExpr:
		return plainPlace(info, x.X)
	case *ast.StarExpr:
		return plainPlace(info, x.X)
	}
	return false
}

func singleDef(f *core.Func, o types.Object) ast.Expr {
	info := f.Pkg.TypesInfo
	var def ast.Expr
	n := 0
	root := f.Root()
	ast.Inspect(root.Body, func(m ast.Node) bool {
		as, ok := m.(*ast.AssignStmt)
		if !ok {
			return true
		}
		for i, l := range as.Lhs {
			id, ok := l.(*ast.Ident)
			if !ok {
				continue
			}
			if info.Defs[id] == o || (as.Tok == token.ASSIGN && info.Uses[id] == o) {
				n++
				if len(as.Rhs) == len(as.Lhs) {
					def = as.Rhs[i]
				} else if len(as.Rhs) == 1 {
					def = as.Rhs[0]
				}
			}
		}
		return true
	})
	if n != 1 {
		return nil
	}
	return def
}

func c02Routing(r *core.Report) {
	const rule = "C02.R1"
	p := r.Prog
	nRouted := 0
	for _, f := range p.FuncsInPkg("main") {
		if f.Body == nil || strings.HasSuffix(p.FileOf(f.Pos()), "_test.go") {
			continue
		}
		info := f.Pkg.TypesInfo
		g := p.Graph(f)
		for _, n := range stmtNodes(g) {
			as, ok := n.Ast.(*ast.AssignStmt)
			if !ok || len(as.Rhs) != 1 || len(as.Lhs) != 2 {
				continue
			}
			c, ok := core.Unparen(as.Rhs[0]).(*ast.CallExpr)
			if !ok || core.CalleeName(info, c) != "main.(*MultiEpoch).GetEpoch" || len(c.Args) != 1 {
				continue
			}
			handler := core.ObjOf(info, as.Lhs[0])
			eObj := core.ObjOf(info, stripConvs(info, c.Args[0]))
			var routeCall *ast.CallExpr
			if rc, ok := stripConvs(info, c.Args[0]).(*ast.CallExpr); ok && core.CalleeName(info, rc) == "slottools.CalcEpochForSlot" {
				routeCall = rc
			} else if eObj != nil {
				if d := singleDef(f, eObj); d != nil {
					if rc, ok := stripConvs(info, d).(*ast.CallExpr); ok && core.CalleeName(info, rc) == "slottools.CalcEpochForSlot" {
						routeCall = rc
					}
				}
			}
			if routeCall == nil || handler == nil {
				continue // epoch chosen by something else than a slot (signature search, epoch loops)
			}
			nRouted++
			base := fmt.Sprintf("%s#route@%s", f.Key, core.KeyStr(f, routeCall.Args[0]))
			slotExpr := routeCall.Args[0]
			r.Check(plainPlace(info, slotExpr), rule, base+"-slot-unmodified", pos(r, routeCall), "the epoch is computed from the slot as given",
				"the epoch is computed from "+core.ExprStr(slotExpr)+", an expression over the slot, not the slot itself")
			slotKey := core.ExprStr(stripConvs(info, slotExpr))
			// slot-addressed uses of the handler in this function and its literals
			idxObjs := map[types.Object]bool{}
			check := func(c2 *ast.CallExpr, arg ast.Expr, where *core.Func, what string) {
				k := fmt.Sprintf("%s-%s(%s)", base, what, core.KeyStr(f, arg))
				if core.ExprStr(stripConvs(info, arg)) == slotKey {
					r.OK(rule, k, pos(r, c2), "the lookup is addressed with the slot that selected the epoch")
					return
				}
				// a dominating same-epoch test
				wg := p.Graph(where)
				cn := wg.NodeOf(c2.Pos())
				ok := false
				if cn != nil {
					for _, fc := range wg.FactsAt(cn) {
						be, isB := core.Unparen(fc.Expr).(*ast.BinaryExpr)
						if !isB || fc.Tag != nil {
							continue
						}
						if !((be.Op == token.EQL && fc.Truth) || (be.Op == token.NEQ && !fc.Truth)) {
							continue
						}
						for _, pair := range [][2]ast.Expr{{be.X, be.Y}, {be.Y, be.X}} {
							rc, isC := core.Unparen(pair[0]).(*ast.CallExpr)
							if !isC || core.CalleeName(info, rc) != "slottools.CalcEpochForSlot" {
								continue
							}
							if core.ExprStr(stripConvs(info, rc.Args[0])) != core.ExprStr(stripConvs(info, arg)) {
								continue
							}
							other := core.Unparen(pair[1])
							if core.ObjOf(info, other) == eObj && eObj != nil {
								ok = true
							}
							if oc, isOC := other.(*ast.CallExpr); isOC && core.CalleeName(info, oc) == "slottools.CalcEpochForSlot" && core.ExprStr(stripConvs(info, oc.Args[0])) == slotKey {
								ok = true
							}
						}
					}
				}
				r.Check(ok, rule, k, pos(r, c2), "the lookup uses another slot only under a test that it lies in the selected epoch",
					fmt.Sprintf("epoch handler selected with CalcEpochForSlot(%s) is asked for slot %s without a dominating same-epoch test: the answer comes from the wrong epoch's indexes", slotKey, core.ExprStr(arg)))
			}
			fns := append([]*core.Func{f}, allLits(f)...)
			for _, w := range fns {
				for _, c2 := range core.CallsIn(w.Body, false) {
					sel, ok := core.Unparen(c2.Fun).(*ast.SelectorExpr)
					if !ok {
						continue
					}
					recv := core.ObjOf(info, sel.X)
					nm := core.CalleeName(info, c2)
					switch {
					case recv == handler && nm == "main.(*Epoch).GetBlock" && len(c2.Args) == 2:
						check(c2, c2.Args[1], w, "GetBlock")
					case recv == handler && nm == "main.(*Epoch).GetBlocktime" && len(c2.Args) == 1:
						check(c2, c2.Args[0], w, "GetBlocktime")
					case recv != nil && idxObjs[recv] && nm == "blocktimeindex.(*Index).Get" && len(c2.Args) == 1:
						check(c2, c2.Args[0], w, "blocktimeIndex.Get")
					}
				}
				// blocktime index variables taken from this handler
				ast.Inspect(w.Body, func(m ast.Node) bool {
					as2, ok := m.(*ast.AssignStmt)
					if !ok || len(as2.Rhs) != 1 || len(as2.Lhs) != 1 {
						return true
					}
					if c3, ok := core.Unparen(as2.Rhs[0]).(*ast.CallExpr); ok && core.CalleeName(info, c3) == "main.(*Epoch).GetBlocktimeIndex" {
						if sel, ok := core.Unparen(c3.Fun).(*ast.SelectorExpr); ok && core.ObjOf(info, sel.X) == handler {
							if o := core.ObjOf(info, as2.Lhs[0]); o != nil {
								idxObjs[o] = true
							}
						}
					}
					return true
				})
			}
			// second pass for index uses discovered after their calls were visited
			for _, w := range fns {
				for _, c2 := range core.CallsIn(w.Body, false) {
					sel, ok := core.Unparen(c2.Fun).(*ast.SelectorExpr)
					if !ok {
						continue
					}
					recv := core.ObjOf(info, sel.X)
					if recv != nil && idxObjs[recv] && core.CalleeName(info, c2) == "blocktimeindex.(*Index).Get" && len(c2.Args) == 1 {
						k := fmt.Sprintf("%s-%s(%s)", base, "blocktimeIndex.Get", core.KeyStr(f, c2.Args[0]))
						if !r.Has(rule, k) {
							check(c2, c2.Args[0], w, "blocktimeIndex.Get")
						}
					}
				}
			}
		}
	}
	if nRouted == 0 {
		r.Undecided(rule, "main#routing", "", "no handler routing by CalcEpochForSlot found")
	}
}

func constOf(p *core.Prog, pkg, name string) (constant.Value, token.Pos) {
	pk := p.Pkg(pkg)
	if pk == nil {
		return nil, token.NoPos
	}
	o := pk.Types.Scope().Lookup(name)
	if c, ok := o.(*types.Const); ok {
		return c.Val(), c.Pos()
	}
	return nil, token.NoPos
}

func c02EpochConstants(r *core.Report) {
	const rule = "C02.R1"
	p := r.Prog
	epochLen, epos := constOf(p, "slottools", "EpochLen")
	if epochLen == nil {
		r.Undecided(rule, "slottools.EpochLen", "", "constant slottools.EpochLen not found")
		return
	}
	want, _ := constant.Int64Val(epochLen)
	// CalcEpochForSlot divides by EpochLen
	if f := r.Anchor(rule, "slottools.CalcEpochForSlot"); f != nil {
		info := f.Pkg.TypesInfo
		ok := false
		for _, rn := range p.Graph(f).Returns() {
			res := returnResults(rn)
			if len(res) == 1 {
				if be, isB := core.Unparen(res[0]).(*ast.BinaryExpr); isB && be.Op == token.QUO && core.ObjOf(info, be.X) == types.Object(f.ParamByName("slot")) {
					if tv, has := info.Types[be.Y]; has && tv.Value != nil {
						if v, exact := constant.Int64Val(tv.Value); exact && v == want {
							ok = true
						}
					}
				}
			}
		}
		r.Check(ok, rule, f.Key+"#slot-div-epochlen", posP(r, f.Pos()), "the epoch of a slot is slot / EpochLen", "CalcEpochForSlot does not return slot / EpochLen")
	}
	if f := r.Anchor(rule, "slottools.CalcEpochLimits"); f != nil {
		info := f.Pkg.TypesInfo
		nUse := 0
		ast.Inspect(f.Body, func(n ast.Node) bool {
			if id, ok := n.(*ast.Ident); ok {
				if c, isC := info.Uses[id].(*types.Const); isC && c.Pos() == epos {
					nUse++
				}
			}
			return true
		})
		r.Check(nUse >= 2, rule, f.Key+"#uses-epochlen", posP(r, f.Pos()), "the epoch limits are computed from EpochLen", "CalcEpochLimits does not compute both limits from EpochLen")
	}
	// every other integer constant / literal >= 100000 that is a multiple or equal of an epoch length in non-test repo code
	n := 0
	for _, f := range p.AllFns {
		_ = f
	}
	for _, pkg := range p.Pkgs {
		for _, file := range pkg.Syntax {
			fname := p.Fset.Position(file.Pos()).Filename
			if strings.HasSuffix(fname, "_test.go") || strings.HasSuffix(fname, ".pb.go") {
				continue
			}
			ast.Inspect(file, func(m ast.Node) bool {
				bl, ok := m.(*ast.BasicLit)
				if !ok || bl.Kind != token.INT {
					return true
				}
				txt := strings.ReplaceAll(bl.Value, "_", "")
				if txt != "432000" {
					return true
				}
				// the definition of EpochLen itself
				if p.Rel(bl.Pos()) == p.Rel(epos) || strings.HasPrefix(p.Rel(bl.Pos()), strings.Split(p.Rel(epos), ":")[0]+":") && p.Line(bl.Pos()) == p.Line(epos) {
					return true
				}
				n++
				return true
			})
		}
	}
	// literal copies agree with EpochLen by construction only while EpochLen == 432000; any drift of either side is a disagreement
	r.Check(want == 432000 || n == 0, rule, "epoch-length-literals-agree", p.Rel(epos), fmt.Sprintf("EpochLen and the %d other hard-coded epoch lengths (432000) agree", n),
		fmt.Sprintf("slottools.EpochLen is %d but %d places in non-test code still hard-code 432000 (blocktime index capacity / byte size and others): slot routing and per-epoch indexes disagree", want, n))
	for _, cn := range [][2]string{{"blocktimeindex", "DefaultCapacityForEpoch"}} {
		v, vpos := constOf(p, cn[0], cn[1])
		if v == nil {
			r.Undecided(rule, cn[0]+"."+cn[1], "", "constant not found")
			continue
		}
		got, _ := constant.Int64Val(v)
		r.Check(got == want, rule, cn[0]+"."+cn[1]+"#equals-EpochLen", p.Rel(vpos), "the blocktime index capacity equals the epoch length",
			fmt.Sprintf("%s.%s is %d but slottools.EpochLen is %d: slots at the end of an epoch have no blocktime entry (or the index of one epoch covers slots routed to the next)", cn[0], cn[1], got, want))
	}
}

// enclosingRanges returns the range statements of root (descending into literals) that contain pos, outermost first.
func enclosingRanges(root ast.Node, at token.Pos) []*ast.RangeStmt {
	var out []*ast.RangeStmt
	ast.Inspect(root, func(n ast.Node) bool {
		if rs, ok := n.(*ast.RangeStmt); ok && rs.Pos() <= at && at < rs.End() {
			out = append(out, rs)
		}
		return true
	})
	return out
}

func keyCopiesOf(info *types.Info, rs *ast.RangeStmt) map[types.Object]bool {
	out := map[types.Object]bool{}
	if rs.Key == nil {
		return out
	}
	keyObj := core.ObjOf(info, rs.Key)
	if keyObj == nil {
		return out
	}
	out[keyObj] = true
	for _, st := range rs.Body.List {
		if as, ok := st.(*ast.AssignStmt); ok && as.Tok == token.DEFINE && len(as.Lhs) == len(as.Rhs) {
			for i := range as.Lhs {
				if core.ObjOf(info, as.Rhs[i]) == keyObj {
					if id, ok := as.Lhs[i].(*ast.Ident); ok {
						out[info.Defs[id]] = true
					}
				}
			}
		}
	}
	return out
}

func c02CompletionOrder(r *core.Report) {
	const rule = "C02.R2"
	for _, key := range []string{"main.(*MultiEpoch).handleGetBlock", "main.(*MultiEpoch).GetBlock"} {
		f := r.Anchor(rule, key)
		if f == nil {
			continue
		}
		info := f.Pkg.TypesInfo
		n := 0
		seen := map[string]int{}
		// every literal launched with <group>.Go / go inside a range loop
		ast.Inspect(f.Body, func(m ast.Node) bool {
			var lit *ast.FuncLit
			switch s := m.(type) {
			case *ast.GoStmt:
				lit, _ = core.Unparen(s.Call.Fun).(*ast.FuncLit)
			case *ast.CallExpr:
				if sel, ok := core.Unparen(s.Fun).(*ast.SelectorExpr); ok && sel.Sel.Name == "Go" && len(s.Args) == 1 {
					lit, _ = core.Unparen(s.Args[0]).(*ast.FuncLit)
				}
			}
			if lit == nil {
				return true
			}
			loops := enclosingRanges(f.Body, lit.Pos())
			if len(loops) == 0 {
				return true // a single concurrent task, not one per element
			}
			launchLoop := loops[len(loops)-1]
			// stores directly in this literal (nested launched literals are visited on their own)
			ast.Inspect(lit.Body, func(x ast.Node) bool {
				if l2, ok := x.(*ast.FuncLit); ok && l2 != lit {
					return false
				}
				as, ok := x.(*ast.AssignStmt)
				if !ok || as.Tok == token.DEFINE {
					return true
				}
				for _, l := range as.Lhs {
					l = core.Unparen(l)
					var idxs []ast.Expr
					base := l
					for {
						ix, ok := base.(*ast.IndexExpr)
						if !ok {
							break
						}
						idxs = append(idxs, ix.Index)
						base = core.Unparen(ix.X)
					}
					o := core.ObjOf(info, base)
					v, isVar := o.(*types.Var)
					if !isVar || v.IsField() || !declaredOutside(o, launchLoop) || core.IsErrorType(v.Type()) {
						continue
					}
					n++
					kb := fmt.Sprintf("%s#concurrent-store:%s", f.Key, core.KeyStr(f, l))
					seen[kb]++
					k := kb
					if seen[kb] > 1 {
						k = fmt.Sprintf("%s#%d", kb, seen[kb])
					}
					allowed := map[types.Object]bool{}
					for _, rs := range enclosingRanges(f.Body, as.Pos()) {
						for c := range keyCopiesOf(info, rs) {
							allowed[c] = true
						}
					}
					if len(idxs) > 0 {
						bad := ""
						for _, ix := range idxs {
							if !allowed[core.ObjOf(info, ix)] {
								bad = core.ExprStr(ix)
							}
						}
						if bad == "" {
							r.OK(rule, k, pos(r, as), "stored in the slot addressed by the fetcher's own loop indices")
						} else if sortedAfter(r.Prog, f, launchLoop, o) {
							r.OK(rule, k, pos(r, as), "stored by a non-loop index but sorted afterwards")
						} else {
							r.Violation(rule, k, pos(r, as), "a concurrent fetcher stores its result at index "+bad+", which is not its own loop index: the order of entries / transactions depends on completion order")
						}
						continue
					}
					// whole-variable store
					isAppend := false
					if len(as.Rhs) >= 1 {
						if c, ok := core.Unparen(as.Rhs[0]).(*ast.CallExpr); ok && core.BuiltinName(info, c) == "append" {
							isAppend = true
						}
					}
					if isAppend {
						if _, isTop := o.(*types.Var); isTop && len(enclosingRanges(f.Body, o.Pos())) == 0 && sortedAfter(r.Prog, f, outermost(loops), o) {
							r.OK(rule, k, pos(r, as), "collected in completion order but sorted afterwards")
						} else if responseSortedByPosition(r.Prog, f) {
							r.OK(rule, k, pos(r, as), "collected in completion order; the order is restored by the strict sort by recorded position of the response list")
						} else {
							r.Violation(rule, k, pos(r, as), "a concurrent fetcher appends to "+o.Name()+" in completion order and nothing sorts it afterwards")
						}
						continue
					}
					// scalar: written by exactly one fetcher (index == loop-invariant value)
					okGuard := false
					ast.Inspect(lit.Body, func(y ast.Node) bool {
						is, ok := y.(*ast.IfStmt)
						if !ok || !(is.Body.Pos() <= as.Pos() && as.Pos() < is.Body.End()) {
							return true
						}
						if be, ok := core.Unparen(is.Cond).(*ast.BinaryExpr); ok && be.Op == token.EQL {
							for _, pair := range [][2]ast.Expr{{be.X, be.Y}, {be.Y, be.X}} {
								if allowed[core.ObjOf(info, pair[0])] {
									inv := true
									for c := range allowed {
										if core.Mentions(info, pair[1], c) {
											inv = false
										}
									}
									if inv {
										okGuard = true
									}
								}
							}
						}
						return true
					})
					r.Check(okGuard, rule, k, pos(r, as), "the shared value is written by exactly one fetcher (its index equals a loop-invariant value)",
						"every concurrent fetcher overwrites "+o.Name()+": its final value depends on which fetcher finishes last")
				}
				return true
			})
			return true
		})
		if n == 0 {
			r.Undecided(rule, f.Key+"#concurrent-store", posP(r, f.Pos()), "no store from the concurrent fetchers found")
		}
	}
}

func outermost(l []*ast.RangeStmt) *ast.RangeStmt { return l[0] }

func c02PositionOrder(r *core.Report) {
	const rule = "C02.R3"
	p := r.Prog
	for _, key := range []string{"main.(*MultiEpoch).handleGetBlock", "main.(*MultiEpoch).GetBlock"} {
		f := r.Anchor(rule, key)
		if f == nil {
			continue
		}
		info := f.Pkg.TypesInfo
		g := p.Graph(f)
		// the slice put into the response's Transactions field
		var listObj types.Object
		var putNode *core.GNode
		for _, n := range stmtNodes(g) {
			as, ok := n.Ast.(*ast.AssignStmt)
			if !ok || len(as.Lhs) != 1 || len(as.Rhs) != 1 {
				continue
			}
			if sel, ok := core.Unparen(as.Lhs[0]).(*ast.SelectorExpr); ok && sel.Sel.Name == "Transactions" {
				if o := core.ObjOf(info, as.Rhs[0]); o != nil && listObj == nil {
					listObj, putNode = o, n
				}
			}
		}
		if listObj == nil {
			r.Undecided(rule, f.Key+"#response-transactions", posP(r, f.Pos()), "assignment of the transaction list to the response not found")
			continue
		}
		var sortNode *core.GNode
		var si sortInfo
		for _, n := range stmtNodes(g) {
			for _, s := range sortCalls(info, n.Ast) {
				if s.SliceObj == listObj {
					sortNode, si = n, s
				}
			}
		}
		if sortNode == nil {
			r.Violation(rule, f.Key+"#sorted-by-position", pos(r, putNode.Ast), "the transaction list is put in the response without being sorted by position")
			continue
		}
		okCmp, why := false, ""
		if si.Decided {
			okCmp = si.Strict && si.Op == token.LSS && (strings.Contains(si.KeyI, "Position") || strings.Contains(si.KeyI, "Index"))
			why = fmt.Sprintf("comparator %s %s %s", si.KeyI, si.Op, si.KeyJ)
		} else {
			// comparator with nil guards: its last return must be a strict `<` between the i and j elements' position
			okCmp, why = lastReturnStrictLess(p, info, si.Call)
		}
		r.Check(okCmp, rule, f.Key+"#sorted-by-position", pos(r, sortNode.Ast), "transactions are sorted by recorded position, strictly ascending", "the transaction list is not sorted ascending by position: "+why)
		// the sort follows every append and precedes the response
		okPlace := g.Dominates(sortNode, putNode)
		for _, n := range stmtNodes(g) {
			if as, ok := n.Ast.(*ast.AssignStmt); ok && len(as.Lhs) == 1 && core.ObjOf(info, as.Lhs[0]) == listObj && n != putNode {
				if g.Reach(sortNode, nil)[n] {
					okPlace = false
				}
			}
		}
		r.Check(okPlace, rule, f.Key+"#sort-after-last-append", pos(r, sortNode.Ast), "the sort comes after the last append and before the list is put in the response",
			"the list can be appended to after the sort, or is put in the response before it")
		// the position comes from GetPositionIndex of the node
		okPos := false
		for _, c := range core.CallsIn(f.Body, true) {
			if strings.HasSuffix(core.CalleeName(info, c), "ipld/ipldbindcode.(Transaction).GetPositionIndex") || strings.HasSuffix(core.CalleeName(info, c), "ipld/ipldbindcode.(*Transaction).GetPositionIndex") {
				okPos = true
			}
		}
		r.Check(okPos, rule, f.Key+"#position-from-node", posP(r, f.Pos()), "the position is read from the transaction node", "the recorded position (GetPositionIndex) is never read")
	}
}

// lastReturnStrictLess: the comparator literal of a sort call ends with `return a[i].K < a[j].K` (possibly dereferenced).
func lastReturnStrictLess(p *core.Prog, info *types.Info, call *ast.CallExpr) (bool, string) {
	if call == nil || len(call.Args) < 2 {
		return false, "comparator not found"
	}
	lit, ok := core.Unparen(call.Args[len(call.Args)-1]).(*ast.FuncLit)
	if !ok || len(lit.Body.List) == 0 || len(lit.Type.Params.List) == 0 {
		return false, "comparator is not a literal"
	}
	var names []string
	for _, fl := range lit.Type.Params.List {
		for _, nm := range fl.Names {
			names = append(names, nm.Name)
		}
	}
	if len(names) != 2 {
		return false, "comparator does not take two indices"
	}
	rs, ok := lit.Body.List[len(lit.Body.List)-1].(*ast.ReturnStmt)
	if !ok || len(rs.Results) != 1 {
		return false, "comparator does not end with a return"
	}
	// forwarding comparator: `return less(a[i], a[j])` - the helper is judged on its two parameters
	if c, isCall := core.Unparen(rs.Results[0]).(*ast.CallExpr); isCall && len(c.Args) == 2 && len(lit.Body.List) == 1 && p != nil {
		if fn := core.Callee(info, c); fn != nil {
			if h := p.ByObj[fn.Origin()]; h != nil && h.Body != nil && h.ParamObj(0) != nil && h.ParamObj(1) != nil {
				a0, a1 := core.ExprStr(c.Args[0]), core.ExprStr(c.Args[1])
				if strings.Contains(a0, "["+names[0]+"]") && strings.Contains(a1, "["+names[1]+"]") && strings.Replace(a0, "["+names[0]+"]", "[·]", 1) == strings.Replace(a1, "["+names[1]+"]", "[·]", 1) {
					return helperStrictLessOnPosition(h)
				}
			}
		}
	}
	be, ok := core.Unparen(rs.Results[0]).(*ast.BinaryExpr)
	if !ok || (be.Op != token.LSS && be.Op != token.GTR) {
		return false, "final comparison is " + core.ExprStr(rs.Results[0])
	}
	l, rr := core.ExprStr(be.X), core.ExprStr(be.Y)
	if be.Op == token.GTR {
		l, rr = rr, l // `b > a` is `a < b`
	}
	if !strings.Contains(l, "["+names[0]+"]") || !strings.Contains(rr, "["+names[1]+"]") || strings.Replace(l, "["+names[0]+"]", "[·]", 1) != strings.Replace(rr, "["+names[1]+"]", "[·]", 1) {
		return false, "final comparison is " + l + " < " + rr
	}
	if !(strings.Contains(l, "Position") || strings.Contains(l, "Index")) {
		return false, "sorted by " + l
	}
	// earlier returns may only return false (incomparable), never true
	bad := false
	ast.Inspect(lit.Body, func(n ast.Node) bool {
		if r2, ok := n.(*ast.ReturnStmt); ok && r2 != rs && len(r2.Results) == 1 {
			if b, isB := boolConst(info, r2.Results[0]); !isB || b {
				bad = true
			}
		}
		return true
	})
	if bad {
		return false, "an early return of the comparator is not `false`"
	}
	return true, ""
}

// helperStrictLessOnPosition: a two-parameter ordering helper whose every return is either the constant false
// (incomparable) or a strict `<` between the same position key of its first and of its second parameter.
func helperStrictLessOnPosition(h *core.Func) (bool, string) {
	info := h.Pkg.TypesInfo
	p0, p1 := h.ParamObj(0), h.ParamObj(1)
	strict := 0
	why := ""
	ast.Inspect(h.Body, func(n ast.Node) bool {
		if _, isLit := n.(*ast.FuncLit); isLit {
			return false
		}
		rs, ok := n.(*ast.ReturnStmt)
		if !ok || why != "" {
			return true
		}
		if len(rs.Results) != 1 {
			why = "the ordering helper " + h.Key + " has a return that is not a single value"
			return true
		}
		if b, isB := boolConst(info, rs.Results[0]); isB {
			if b {
				why = "the ordering helper " + h.Key + " returns true without comparing positions"
			}
			return true
		}
		be, ok := core.Unparen(rs.Results[0]).(*ast.BinaryExpr)
		if !ok || (be.Op != token.LSS && be.Op != token.GTR) {
			why = "final comparison is " + core.ExprStr(rs.Results[0])
			return true
		}
		x, y := be.X, be.Y
		if be.Op == token.GTR {
			x, y = y, x
		}
		l, rr := replaceIdent(info, x, p0), replaceIdent(info, y, p1)
		if !strings.Contains(l, "·") || l != rr {
			why = "final comparison is " + core.ExprStr(x) + " < " + core.ExprStr(y)
			return true
		}
		if !(strings.Contains(l, "Position") || strings.Contains(l, "Index")) {
			why = "sorted by " + core.ExprStr(x)
			return true
		}
		strict++
		return true
	})
	if why != "" {
		return false, why
	}
	if strict == 0 {
		return false, "the ordering helper " + h.Key + " never compares positions"
	}
	return true, ""
}

func c02Blockhash(r *core.Report) {
	const rule = "C02.R4"
	p := r.Prog
	for _, key := range []string{"main.(*MultiEpoch).handleGetBlock", "main.(*MultiEpoch).GetBlock"} {
		f := r.Anchor(rule, key)
		if f == nil {
			continue
		}
		info := f.Pkg.TypesInfo
		// (a) the variable that ends up in Blockhash is written under index == len(entries)-1 from the entry's Hash
		var hashObj types.Object
		ast.Inspect(f.Body, func(n ast.Node) bool {
			as, ok := n.(*ast.AssignStmt)
			if !ok || len(as.Lhs) != 1 || len(as.Rhs) != 1 {
				return true
			}
			if sel, ok := core.Unparen(as.Lhs[0]).(*ast.SelectorExpr); ok && sel.Sel.Name == "Blockhash" {
				ast.Inspect(as.Rhs[0], func(m ast.Node) bool {
					if id, ok := m.(*ast.Ident); ok && hashObj == nil {
						if v, isV := info.Uses[id].(*types.Var); isV && strings.HasSuffix(v.Type().String(), "solana-go.Hash") {
							hashObj = v
						}
					}
					return true
				})
			}
			return true
		})
		if hashObj == nil {
			r.Undecided(rule, f.Key+"#blockhash-source", posP(r, f.Pos()), "variable assigned to the response's Blockhash not found")
			continue
		}
		nW, okW := 0, true
		for _, w := range append([]*core.Func{f}, allLits(f)...) {
			wg := p.Graph(w)
			for _, n := range stmtNodes(wg) {
				as, ok := n.Ast.(*ast.AssignStmt)
				if !ok || len(as.Lhs) != 1 || core.ObjOf(info, as.Lhs[0]) != hashObj || as.Tok == token.DEFINE {
					continue
				}
				nW++
				last, fromHash := false, strings.Contains(core.ExprStr(as.Rhs[0]), ".Hash")
				// a fact `k == len(X) - 1` where k is the index of an enclosing range over X
				for _, rs := range enclosingRanges(f.Body, as.Pos()) {
					keys := keyCopiesOf(info, rs)
					want := "len(" + core.ExprStr(rs.X) + ") - 1"
					for _, fc := range wg.FactsAt(n) {
						be, ok := core.Unparen(fc.Expr).(*ast.BinaryExpr)
						if !ok || fc.Tag != nil || !fc.Truth || be.Op != token.EQL {
							continue
						}
						for _, pair := range [][2]ast.Expr{{be.X, be.Y}, {be.Y, be.X}} {
							other := core.Unparen(pair[1])
							// a local that holds len(X)-1 (assigned once) counts as len(X)-1
							if o := core.ObjOf(info, other); o != nil {
								if d := singleDef(f, o); d != nil {
									other = core.Unparen(d)
								}
							}
							if keys[core.ObjOf(info, pair[0])] && core.ExprStr(other) == want {
								last = true
							}
						}
					}
				}
				if !last || !fromHash {
					okW = false
				}
			}
		}
		r.Check(nW > 0 && okW, rule, f.Key+"#blockhash-is-last-entry-hash", posP(r, hashObj.Pos()), "the blockhash is the hash of the entry whose index is len(entries)-1",
			"the value returned as blockhash is not (only) written from the last entry's hash")
		// (b) previousBlockhash: parent fetched from the same handler under the same-epoch test, last entry of the parent
		okParent, okLastOfParent := false, false
		parentBlocks := map[types.Object]bool{} // what the parent's GetBlock was assigned to
		g := p.Graph(f)
		for _, n := range stmtNodes(g) {
			for _, c := range nodeCalls(n) {
				if core.CalleeName(info, c) != "main.(*Epoch).GetBlock" || len(c.Args) != 2 {
					continue
				}
				arg := core.ExprStr(stripConvs(info, c.Args[1]))
				for _, fc := range g.FactsAt(n) {
					if be, ok := core.Unparen(fc.Expr).(*ast.BinaryExpr); ok && fc.Tag == nil && fc.Truth && be.Op == token.EQL {
						if rc, ok := core.Unparen(be.X).(*ast.CallExpr); ok && core.CalleeName(info, rc) == "slottools.CalcEpochForSlot" && core.ExprStr(stripConvs(info, rc.Args[0])) == arg && derivedFromField(f, stripConvs(info, c.Args[1]), "Parent_slot") {
							okParent = true
							if as, isA := n.Ast.(*ast.AssignStmt); isA && len(as.Lhs) >= 1 {
								parentBlocks[core.ObjOf(info, as.Lhs[0])] = true
							}
						}
					}
				}
			}
		}
		ast.Inspect(f.Body, func(n ast.Node) bool {
			ix, ok := n.(*ast.IndexExpr)
			if !ok {
				return true
			}
			x, i := core.ExprStr(ix.X), core.ExprStr(ix.Index)
			rootObj := types.Object(nil)
			if rid := rootIdent(ix.X); rid != nil {
				rootObj = info.Uses[rid]
			}
			if rootObj != nil && parentBlocks[rootObj] && strings.HasSuffix(x, ".Entries") && (i == "len("+x+") - 1" || i == "len("+x+")-1") {
				okLastOfParent = true
			}
			return true
		})
		r.Check(okParent && okLastOfParent, rule, f.Key+"#previous-blockhash-from-parent-last-entry", posP(r, f.Pos()), "previousBlockhash is the hash of the parent block's last entry, fetched from the same epoch under the same-epoch test",
			"the parent block is not fetched under the same-epoch test, or its last entry is not the one used")
	}
}

// responseSortedByPosition: the list assigned to the response's Transactions field is sorted by position with a strict
// ascending comparator in a node that dominates that assignment.
func responseSortedByPosition(p *core.Prog, f *core.Func) bool {
	info := f.Pkg.TypesInfo
	g := p.Graph(f)
	for _, n := range stmtNodes(g) {
		as, ok := n.Ast.(*ast.AssignStmt)
		if !ok || len(as.Lhs) != 1 || len(as.Rhs) != 1 {
			continue
		}
		sel, ok := core.Unparen(as.Lhs[0]).(*ast.SelectorExpr)
		if !ok || sel.Sel.Name != "Transactions" {
			continue
		}
		o := core.ObjOf(info, as.Rhs[0])
		if o == nil {
			continue
		}
		for _, m := range stmtNodes(g) {
			for _, si := range sortCalls(info, m.Ast) {
				if si.SliceObj != o || !g.Dominates(m, n) {
					continue
				}
				if si.Decided && si.Strict && si.Op == token.LSS {
					return true
				}
				if ok, _ := lastReturnStrictLess(p, info, si.Call); ok {
					return true
				}
			}
		}
	}
	return false
}

// c02TransactionAnswer (C02.R6): in both getTransaction handlers the epoch is the one the signature search returned for
// the very signature that is then looked up, and slot, block time, position and payload of the answer are all taken
// from the transaction node fetched from that epoch's handler (block time through the same handler's index, keyed by the
// node's slot; payload frames through the same handler's frame getter).
func c02TransactionAnswer(r *core.Report) {
	const rule = "C02.R6"
	p := r.Prog
	for _, key := range []string{"main.(*MultiEpoch).handleGetTransaction", "main.(*MultiEpoch).GetTransaction"} {
		f := r.Anchor(rule, key)
		if f == nil {
			continue
		}
		info := f.Pkg.TypesInfo
		var sigObj, epochObj, handler, node types.Object
		idx := map[types.Object]bool{}
		ast.Inspect(f.Body, func(n ast.Node) bool {
			as, ok := n.(*ast.AssignStmt)
			if !ok || len(as.Rhs) != 1 {
				return true
			}
			c, ok := core.Unparen(as.Rhs[0]).(*ast.CallExpr)
			if !ok {
				return true
			}
			switch core.CalleeName(info, c) {
			case "main.(*MultiEpoch).findEpochNumberFromSignature":
				if len(c.Args) == 2 && len(as.Lhs) == 2 {
					sigObj, epochObj = core.ObjOf(info, c.Args[1]), core.ObjOf(info, as.Lhs[0])
				}
			case "main.(*MultiEpoch).GetEpoch":
				if len(c.Args) == 1 && len(as.Lhs) == 2 && epochObj != nil && core.ObjOf(info, stripConvs(info, c.Args[0])) == epochObj {
					handler = core.ObjOf(info, as.Lhs[0])
				}
			case "main.(*Epoch).GetTransaction":
				if sel, ok := core.Unparen(c.Fun).(*ast.SelectorExpr); ok && handler != nil && core.ObjOf(info, sel.X) == handler && len(c.Args) == 2 && len(as.Lhs) == 3 {
					if core.ObjOf(info, c.Args[1]) == sigObj {
						node = core.ObjOf(info, as.Lhs[0])
					}
				}
			case "main.(*Epoch).GetBlocktimeIndex":
				if sel, ok := core.Unparen(c.Fun).(*ast.SelectorExpr); ok && handler != nil && core.ObjOf(info, sel.X) == handler && len(as.Lhs) == 1 {
					if o := core.ObjOf(info, as.Lhs[0]); o != nil {
						idx[o] = true
					}
				}
			}
			return true
		})
		if handler != nil && singleDef(f, handler) == nil {
			r.Violation(rule, f.Key+"#handler-assigned-once", posP(r, f.Pos()), "the epoch handler variable is assigned more than once: the node, block time and frames may come from different epochs")
		} else if handler != nil {
			r.OK(rule, f.Key+"#handler-assigned-once", posP(r, f.Pos()), "the epoch handler is assigned exactly once")
		}
		r.Check(sigObj != nil && epochObj != nil && handler != nil, rule, f.Key+"#epoch-from-signature-search", posP(r, f.Pos()),
			"the handler is the epoch returned by the signature search", "the epoch handler is not obtained from findEpochNumberFromSignature's result")
		if !r.Check(node != nil, rule, f.Key+"#node-by-same-signature", posP(r, f.Pos()), "the node is fetched from that handler with the signature that was searched",
			"the transaction is not fetched from the selected epoch with the searched signature") {
			continue
		}
		var isNodeSlot func(e ast.Expr) bool
		isNodeSlot = func(e ast.Expr) bool {
			e = stripConvs(info, e)
			if c, ok := e.(*ast.CallExpr); ok && len(c.Args) == 1 && (core.CalleeName(info, c) == "main.ptrToUint64") {
				return isNodeSlot(c.Args[0])
			}
			if id, ok := e.(*ast.Ident); ok {
				if o := info.Uses[id]; o != nil {
					if d := singleDef(f, o); d != nil {
						return isNodeSlot(d)
					}
				}
				return false
			}
			sel, ok := e.(*ast.SelectorExpr)
			return ok && sel.Sel.Name == "Slot" && core.ObjOf(info, sel.X) == node
		}
		// slot of the answer
		okSlot := false
		ast.Inspect(f.Body, func(n ast.Node) bool {
			as, ok := n.(*ast.AssignStmt)
			if !ok || len(as.Lhs) != 1 || len(as.Rhs) != 1 {
				return true
			}
			if sel, ok := core.Unparen(as.Lhs[0]).(*ast.SelectorExpr); ok && sel.Sel.Name == "Slot" && strings.Contains(core.NamedTypeName(info.TypeOf(sel.X)), "Response") {
				if isNodeSlot(as.Rhs[0]) {
					okSlot = true
				}
			}
			return true
		})
		r.Check(okSlot, rule, f.Key+"#slot-from-node", posP(r, f.Pos()), "the answer's slot is the node's slot", "the answer's slot is not taken from the fetched transaction node")
		// block time: same handler's index, keyed by the node's slot
		nGet, okGet := 0, true
		for _, c := range core.CallsIn(f.Body, true) {
			if core.CalleeName(info, c) != "blocktimeindex.(*Index).Get" || len(c.Args) != 1 {
				continue
			}
			nGet++
			sel, _ := core.Unparen(c.Fun).(*ast.SelectorExpr)
			if sel == nil || !idx[core.ObjOf(info, sel.X)] || !isNodeSlot(c.Args[0]) {
				okGet = false
			}
		}
		r.Check(nGet > 0 && okGet, rule, f.Key+"#blocktime-by-node-slot", posP(r, f.Pos()), "the block time is looked up in the same epoch's index by the node's slot",
			"the block time is not looked up in the selected epoch's index by the node's slot")
		// payload: parse / get from the same node with the same handler's frame getter
		nPay, okPay := 0, true
		for _, c := range core.CallsIn(f.Body, true) {
			nm := core.CalleeName(info, c)
			if nm != "main.parseTransactionAndMetaFromNode" && nm != "main.getTransactionAndMetaFromNode" {
				continue
			}
			nPay++
			if len(c.Args) != 2 || core.ObjOf(info, c.Args[0]) != node {
				okPay = false
				continue
			}
			sel, ok := core.Unparen(c.Args[1]).(*ast.SelectorExpr)
			if !ok || sel.Sel.Name != "GetDataFrameByCid" || core.ObjOf(info, sel.X) != handler {
				okPay = false
			}
		}
		r.Check(nPay > 0 && okPay, rule, f.Key+"#payload-from-node-and-handler", posP(r, f.Pos()), "the payload is decoded from the node with the same epoch's frame getter",
			"the payload is not decoded from the fetched node with the selected epoch's GetDataFrameByCid")
		// position
		okPos := false
		for _, c := range core.CallsIn(f.Body, true) {
			if strings.HasSuffix(core.CalleeName(info, c), "Transaction).GetPositionIndex") {
				if sel, ok := core.Unparen(c.Fun).(*ast.SelectorExpr); ok && core.ObjOf(info, sel.X) == node {
					okPos = true
				}
			}
		}
		r.Check(okPos, rule, f.Key+"#position-from-node", posP(r, f.Pos()), "the position is read from the node", "the position is not read from the fetched node")
	}
	_ = p
}

// c02PrefetchIsBestEffort (C02.R8): the read-ahead that warms the object cache before a block is assembled is an
// accelerator; whether it succeeds must not decide the answer (it legitimately fails, e.g. when the span to read exceeds
// its size cap). In both getBlock assemblers the error of the prefetch closure never reaches a return statement.
func c02PrefetchIsBestEffort(r *core.Report) {
	const rule = "C02.R8"
	p := r.Prog
	for _, key := range []string{"main.(*MultiEpoch).handleGetBlock", "main.(*MultiEpoch).GetBlock"} {
		f := r.Anchor(rule, key)
		if f == nil {
			continue
		}
		info := f.Pkg.TypesInfo
		g := p.Graph(f)
		n := 0
		for _, node := range stmtNodes(g) {
			as, ok := node.Ast.(*ast.AssignStmt)
			if !ok || len(as.Rhs) != 1 || len(as.Lhs) != 1 {
				continue
			}
			c, ok := core.Unparen(as.Rhs[0]).(*ast.CallExpr)
			if !ok || len(c.Args) != 0 {
				continue
			}
			id, ok := core.Unparen(c.Fun).(*ast.Ident)
			if !ok || !strings.Contains(strings.ToLower(id.Name), "prefetch") {
				continue
			}
			errObj := core.ObjOf(info, as.Lhs[0])
			if errObj == nil || !core.IsErrorType(errObj.Type()) {
				continue
			}
			n++
			k := fmt.Sprintf("%s#%s-error-does-not-decide-the-answer", f.Key, id.Name)
			// edges asserting err != nil for this err (fresh), and returns they dominate
			bad := ""
			for _, e := range g.Nodes {
				if e.Kind != core.KEdge || e.Ast == nil {
					continue
				}
				x, isNil, ok := core.NilCompare(info, e.Ast.(ast.Expr))
				if !ok || core.ObjOf(info, x) != errObj || isNil == e.Truth {
					continue // we want the edge on which err != nil holds
				}
				if !g.Dominates(node, e) {
					continue
				}
				for _, rn := range g.Returns() {
					if g.Dominates(e, rn) {
						bad = p.Rel(rn.Ast.Pos())
					}
				}
			}
			r.Check(bad == "", rule, k, pos(r, c), "a failed read-ahead is only logged; the block is still assembled from the indexes",
				"the request is answered with an error when the cache read-ahead fails (return at "+bad+"): an intact archived block is refused whenever the read-ahead cannot complete, e.g. when the span exceeds its size cap")
		}
		if n == 0 {
			r.OK(rule, f.Key+"#no-prefetch", posP(r, f.Pos()), "no read-ahead step in this assembler")
		}
	}
}

// derivedFromField: the expression, or the single definition of the local it names, selects the given field.
func derivedFromField(f *core.Func, e ast.Expr, field string) bool {
	info := f.Pkg.TypesInfo
	has := func(x ast.Node) bool {
		found := false
		ast.Inspect(x, func(m ast.Node) bool {
			if sel, ok := m.(*ast.SelectorExpr); ok && sel.Sel.Name == field {
				found = true
			}
			return true
		})
		return found
	}
	if has(e) {
		return true
	}
	if o := core.ObjOf(info, e); o != nil {
		if d := singleDef(f, o); d != nil && has(d) {
			return true
		}
	}
	return false
}
