package rules

import (
	"fmt"
	"go/ast"
	"go/token"
	"go/types"
	"sort"
	"strings"

	"yfverif/checker/internal/core"
)

// Size accounting by abstract interpretation.
//
// Writers in this repository lay out records with encoding/binary.Write (fixed-size values), loops over a slice that
// write one fixed-size value per element, and helpers that do the same for a writer they are handed. The number of bytes
// such code emits is a linear expression  c + Σ k·len(S)  over the slices it ranges over. emitPoly computes that expression
// for a statement list (following helpers that receive the writer, with slices mapped from arguments to parameters), and
// polyOfExpr evaluates an integer expression (constants, len(S), +, ·constant, conversions, locals assigned once, results
// of helpers) to the same form. A rule can then compare "bytes written" with "size recorded" without caring in which
// function, variable or idiom either of them is expressed. Anything not understood makes the result !ok (undecided).

type sizePoly struct {
	c     int64
	terms map[types.Object]int64 // coefficient of len(obj)
}

func (p sizePoly) add(q sizePoly) sizePoly {
	out := sizePoly{c: p.c + q.c, terms: map[types.Object]int64{}}
	for o, k := range p.terms {
		out.terms[o] += k
	}
	for o, k := range q.terms {
		out.terms[o] += k
	}
	return out
}

func (p sizePoly) scale(k int64) sizePoly {
	out := sizePoly{c: p.c * k, terms: map[types.Object]int64{}}
	for o, c := range p.terms {
		out.terms[o] = c * k
	}
	return out
}

func (p sizePoly) isConst() bool {
	for _, k := range p.terms {
		if k != 0 {
			return false
		}
	}
	return true
}

func (p sizePoly) equal(q sizePoly) bool {
	if p.c != q.c {
		return false
	}
	for o, k := range p.terms {
		if q.terms[o] != k {
			return false
		}
	}
	for o, k := range q.terms {
		if p.terms[o] != k {
			return false
		}
	}
	return true
}

func (p sizePoly) String() string {
	var parts []string
	for o, k := range p.terms {
		if k != 0 {
			parts = append(parts, fmt.Sprintf("%d*len(%s)", k, o.Name()))
		}
	}
	sort.Strings(parts)
	return strings.Join(append([]string{fmt.Sprintf("%d", p.c)}, parts...), " + ")
}

// substitute maps the slice objects of a callee's polynomial (its parameters) to the caller's argument objects.
func (p sizePoly) substitute(m map[types.Object]types.Object) (sizePoly, bool) {
	out := sizePoly{c: p.c, terms: map[types.Object]int64{}}
	for o, k := range p.terms {
		if k == 0 {
			continue
		}
		to, ok := m[o]
		if !ok {
			return out, false
		}
		out.terms[to] += k
	}
	return out, true
}

func fixedSizeOf(t types.Type) int64 {
	if t == nil {
		return -1
	}
	switch u := t.Underlying().(type) {
	case *types.Basic:
		switch u.Kind() {
		case types.Uint8, types.Int8, types.Bool:
			return 1
		case types.Uint16, types.Int16:
			return 2
		case types.Uint32, types.Int32, types.Float32:
			return 4
		case types.Uint64, types.Int64, types.Float64:
			return 8
		}
	case *types.Array:
		if e := fixedSizeOf(u.Elem()); e > 0 {
			return e * u.Len()
		}
	}
	return -1
}

type emitInfo struct {
	poly sizePoly
	// witnesses for agreement rules
	countLenOf []types.Object // slices whose len() is written as a count value (binary.Write(w, _, uintN(len(S))))
	rangedOver []types.Object // slices whose elements are written one by one
	elemWidth  int64          // width of the per-element write (0 if none)
	countWidth int64          // width of the count write (0 if none)
}

// emitPoly computes the bytes written to writer w by the statements (see the file comment).
func emitPoly(p *core.Prog, fn *core.Func, stmts []ast.Stmt, w types.Object, depth int) (emitInfo, bool) {
	info := fn.Pkg.TypesInfo
	out := emitInfo{poly: sizePoly{terms: map[types.Object]int64{}}}
	ok := true
	var visitCall func(c *ast.CallExpr) bool
	visitCall = func(c *ast.CallExpr) bool {
		nm := core.CalleeName(info, c)
		if nm == "encoding/binary.Write" && len(c.Args) == 3 && core.ObjOf(info, c.Args[0]) == w {
			sz := fixedSizeOf(info.TypeOf(c.Args[2]))
			if sz <= 0 {
				ok = false
				return true
			}
			out.poly.c += sz
			// a count: uintN(len(S))
			var lenOf types.Object
			ast.Inspect(c.Args[2], func(m ast.Node) bool {
				if lc, isC := m.(*ast.CallExpr); isC && core.BuiltinName(info, lc) == "len" && len(lc.Args) == 1 {
					lenOf = core.ObjOf(info, lc.Args[0])
				}
				return true
			})
			if lenOf != nil {
				out.countLenOf = append(out.countLenOf, lenOf)
				out.countWidth = sz
			}
			return true
		}
		// the writer's own methods
		if sel, isSel := core.Unparen(c.Fun).(*ast.SelectorExpr); isSel && core.ObjOf(info, sel.X) == w {
			switch sel.Sel.Name {
			case "Write", "WriteString":
				if lv, isL := polyOfExpr(p, fn, &ast.CallExpr{Fun: ast.NewIdent("len"), Args: c.Args[:1]}, depth); isL {
					_ = lv
				}
				ok = false // variable-length write: not a fixed layout
				return true
			case "WriteByte":
				out.poly.c++
				return true
			case "Flush", "Reset", "Len", "Bytes":
				return true
			}
		}
		// helper receiving the writer
		for ai, a := range c.Args {
			if core.ObjOf(info, a) != w {
				continue
			}
			fo := core.Callee(info, c)
			var callee *core.Func
			if fo != nil {
				callee = p.ByObj[fo.Origin()]
			}
			if callee == nil || callee.Body == nil || depth > 3 {
				ok = false
				return true
			}
			pw := callee.ParamObj(ai)
			if pw == nil {
				ok = false
				return true
			}
			sub, sok := emitPoly(p, callee, callee.Body.List, pw, depth+1)
			if !sok {
				ok = false
				return true
			}
			m := map[types.Object]types.Object{}
			for bi, b := range c.Args {
				if po := callee.ParamObj(bi); po != nil {
					if ao := core.ObjOf(info, b); ao != nil {
						m[po] = ao
					}
				}
			}
			sp, pok := sub.poly.substitute(m)
			if !pok {
				ok = false
				return true
			}
			out.poly = out.poly.add(sp)
			for _, o := range sub.countLenOf {
				if to := m[o]; to != nil {
					out.countLenOf = append(out.countLenOf, to)
				}
			}
			for _, o := range sub.rangedOver {
				if to := m[o]; to != nil {
					out.rangedOver = append(out.rangedOver, to)
				}
			}
			if sub.elemWidth > 0 {
				out.elemWidth = sub.elemWidth
			}
			if sub.countWidth > 0 {
				out.countWidth = sub.countWidth
			}
			return true
		}
		return false
	}
	var walk func(stmts []ast.Stmt)
	callsIn := func(n ast.Node) {
		ast.Inspect(n, func(m ast.Node) bool {
			switch x := m.(type) {
			case *ast.FuncLit:
				return false
			case *ast.CallExpr:
				if visitCall(x) {
					return false
				}
			}
			return true
		})
	}
	walk = func(stmts []ast.Stmt) {
		for _, st := range stmts {
			switch s := st.(type) {
			case *ast.RangeStmt:
				sub, sok := emitPoly(p, fn, s.Body.List, w, depth)
				if !sok {
					ok = false
					continue
				}
				if sub.poly.c == 0 && sub.poly.isConst() {
					continue // nothing written in this loop
				}
				so := core.ObjOf(info, s.X)
				if so == nil || !sub.poly.isConst() {
					ok = false
					continue
				}
				out.poly.terms[so] += sub.poly.c
				out.rangedOver = append(out.rangedOver, so)
				out.elemWidth = sub.poly.c
			case *ast.ForStmt:
				// for i := 0; i < len(S); i++ { write }  /  for i := range via index
				sub, sok := emitPoly(p, fn, s.Body.List, w, depth)
				if !sok {
					ok = false
					continue
				}
				if sub.poly.c == 0 && sub.poly.isConst() {
					continue
				}
				var so types.Object
				if be, isB := core.Unparen(s.Cond).(*ast.BinaryExpr); isB && be.Op == token.LSS {
					if lc, isC := core.Unparen(be.Y).(*ast.CallExpr); isC && core.BuiltinName(info, lc) == "len" && len(lc.Args) == 1 {
						so = core.ObjOf(info, lc.Args[0])
					}
				}
				if so == nil || !sub.poly.isConst() {
					ok = false
					continue
				}
				out.poly.terms[so] += sub.poly.c
				out.rangedOver = append(out.rangedOver, so)
				out.elemWidth = sub.poly.c
			case *ast.IfStmt:
				if s.Init != nil {
					callsIn(s.Init)
				}
				callsIn(s.Cond)
				// bodies that end in return / continue are error handling; anything else that writes makes the layout conditional
				for _, blk := range []ast.Stmt{s.Body, s.Else} {
					if blk == nil {
						continue
					}
					sub, sok := emitPoly(p, fn, blockList(blk), w, depth)
					if !sok || sub.poly.c != 0 || !sub.poly.isConst() {
						ok = false
					}
				}
			case *ast.BlockStmt:
				walk(s.List)
			case *ast.SwitchStmt, *ast.TypeSwitchStmt, *ast.SelectStmt:
				sub, sok := emitPoly(p, fn, nil, w, depth)
				_ = sub
				_ = sok
				hasWrite := false
				ast.Inspect(s, func(m ast.Node) bool {
					if c, isC := m.(*ast.CallExpr); isC {
						for _, a := range c.Args {
							if core.ObjOf(info, a) == w {
								hasWrite = true
							}
						}
					}
					return true
				})
				if hasWrite {
					ok = false
				}
			default:
				callsIn(st)
			}
		}
	}
	walk(stmts)
	return out, ok
}

func blockList(s ast.Stmt) []ast.Stmt {
	switch b := s.(type) {
	case *ast.BlockStmt:
		return b.List
	case *ast.IfStmt:
		return []ast.Stmt{b}
	}
	return nil
}

// polyOfExpr evaluates an integer expression to c + Σ k·len(S).
func polyOfExpr(p *core.Prog, fn *core.Func, e ast.Expr, depth int) (sizePoly, bool) {
	info := fn.Pkg.TypesInfo
	e = core.Unparen(e)
	zero := sizePoly{terms: map[types.Object]int64{}}
	if v, ok := core.ConstInt(info, e); ok {
		zero.c = v
		return zero, true
	}
	switch x := e.(type) {
	case *ast.CallExpr:
		if tv, ok := info.Types[x.Fun]; ok && tv.IsType() && len(x.Args) == 1 {
			return polyOfExpr(p, fn, x.Args[0], depth)
		}
		if core.BuiltinName(info, x) == "len" && len(x.Args) == 1 {
			if o := core.ObjOf(info, x.Args[0]); o != nil {
				zero.terms[o] = 1
				return zero, true
			}
		}
		return zero, false
	case *ast.BinaryExpr:
		l, ok1 := polyOfExpr(p, fn, x.X, depth)
		r, ok2 := polyOfExpr(p, fn, x.Y, depth)
		if !ok1 || !ok2 {
			return zero, false
		}
		switch x.Op {
		case token.ADD:
			return l.add(r), true
		case token.MUL:
			if r.isConst() {
				return l.scale(r.c), true
			}
			if l.isConst() {
				return r.scale(l.c), true
			}
		}
		return zero, false
	case *ast.Ident:
		o := info.ObjectOf(x)
		if o == nil || depth > 4 {
			return zero, false
		}
		// a local assigned once: from an expression, or from a (multi-value) helper call
		var def ast.Expr
		var tupleIdx = -1
		n := 0
		ast.Inspect(fn.Root().Body, func(m ast.Node) bool {
			as, ok := m.(*ast.AssignStmt)
			if !ok {
				return true
			}
			for i, l := range as.Lhs {
				if core.ObjOf(info, l) != o {
					continue
				}
				n++
				if len(as.Rhs) == len(as.Lhs) {
					def, tupleIdx = as.Rhs[i], -1
				} else if len(as.Rhs) == 1 {
					def, tupleIdx = as.Rhs[0], i
				}
			}
			return true
		})
		if n != 1 || def == nil {
			return zero, false
		}
		if tupleIdx < 0 {
			return polyOfExpr(p, fn, def, depth+1)
		}
		c, ok := core.Unparen(def).(*ast.CallExpr)
		if !ok {
			return zero, false
		}
		fo := core.Callee(info, c)
		if fo == nil {
			return zero, false
		}
		callee := p.ByObj[fo.Origin()]
		if callee == nil || callee.Body == nil {
			return zero, false
		}
		// every non-error return yields the same polynomial for result tupleIdx
		var res sizePoly
		have := false
		cg := p.Graph(callee)
		for _, rn := range cg.Returns() {
			if definitelyErrorReturn(cg, callee, rn) {
				continue
			}
			rr := returnResults(rn)
			if tupleIdx >= len(rr) {
				return zero, false
			}
			q, ok := polyOfExpr(p, callee, rr[tupleIdx], depth+1)
			if !ok {
				return zero, false
			}
			if have && !q.equal(res) {
				return zero, false
			}
			res, have = q, true
		}
		if !have {
			return zero, false
		}
		m := map[types.Object]types.Object{}
		for bi, b := range c.Args {
			if po := callee.ParamObj(bi); po != nil {
				if ao := core.ObjOf(info, b); ao != nil {
					m[po] = ao
				}
			}
		}
		return res.substitute(m)
	}
	return zero, false
}
