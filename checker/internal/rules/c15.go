package rules

import (
	"fmt"
	"go/ast"
	"go/token"
	"go/types"
	"strings"

	"yfverif/checker/internal/core"
)

func init() { register("C15", C15) }

// C15 — block-by-block CAR traversal delivers each object once with its true offset.
func C15(r *core.Report) {
	r.Explanation = "Decides structural necessary conditions of C15 in accum.(*ObjectAccumulator): " +
		"R1 the running-offset idiom of Run (same rule as C01.R1: starts at the header size, advanced once per section on every path back to the loop head - skipped and ignored sections included -, the value copied into the delivered object is the pre-increment value, with the section length of the same read); " +
		"R2 buffer ownership - after a group slice has been handed to the flusher goroutine, no element is appended to (or written into) that slice variable before it is assigned a freshly made slice; re-slicing it ([:0]) keeps the shared backing array and is reported; " +
		"R3 single ordered consumer - exactly one goroutine is started for the flusher and only that function receives from the queue; R4 drain before close - WaitGroup.Add precedes every send on the queue, Done is on the normal path after the callback, and Wait precedes close(queue) in the deferred shutdown; " +
		"R5 group delimitation - the element matching the flush kind is sent as the group's parent by address of a per-iteration variable and the inner loop is left; end of file sends the remaining objects as a final group; ignored kinds are dropped only after the offset was advanced. " +
		"R6 the section length the offsets are advanced by comes from carreader.ReadSectionLength, which returns the decoded length together with the number of prefix bytes really consumed (the counting reader's counter), not a recomputed varint width. " +
		"R7 the wrapper that invokes the user callback skips it only on a path that established that the group's parent is nil: a block with no (non-ignored) children is still delivered. R8 the branch that drops an object as ignored is taken only after the comparison with the flush kind came out false. R9 no function of the carreader package assigns to a field of the parsed CAR header. Not decided: exactly-once delivery for all schedules (follows from R2-R4 plus channel FIFO, which is trusted)."
	r.Assumptions = []string{"channel FIFO; sync.WaitGroup semantics"}
	p := r.Prog
	checkReadSectionLength(r, "C15.R6")
	r.Floor("C15.R6", 1)
	run := r.Anchor("C15.R1", "accum.(*ObjectAccumulator).Run")
	if run == nil {
		return
	}
	// the function that holds the read loop: Run itself, or a method of the accumulator that Run calls (nextGroup)
	loopFn := run
	n := 0
	inScope := map[*core.Func]bool{}
	for _, h := range pkgScope(p, run, 2) {
		if h.Lit == nil {
			inScope[h] = true
		}
	}
	for _, inst := range findOffsetInstances(p) {
		if inst.Fn == run || inScope[inst.Fn] {
			n++
			loopFn = inst.Fn
			checkOffsetInstance(r, "C15.R1", inst)
		}
	}
	if n == 0 {
		r.Undecided("C15.R1", run.Key+"#read-loop", posP(r, run.Pos()), "loop reading CAR sections not found")
	}
	c15Ownership(r, loopFn)
	c15Consumer(r, run)
	c15Drain(r, run)
	c15Groups(r, loopFn)
	c15ParentAlwaysDelivered(r)
	c15IgnoreAppliesToChildrenOnly(r)
	c15HeaderKeptAsParsed(r, "C15.R9")
	r.Floor("C15.R8", 1)
	r.Floor("C15.R7", 1)
	r.Floor("C15.R1", 2)
	r.Floor("C15.R2", 2)
	r.Floor("C15.R3", 1)
	r.Floor("C15.R4", 2)
	r.Floor("C15.R5", 2)
}

// c15Ownership (R2).
func c15Ownership(r *core.Report, run *core.Func) { bufferOwnership(r, "C15.R2", run) }

func bufferOwnership(r *core.Report, rule string, run *core.Func) {
	p := r.Prog
	// the function that hands the groups over: Run itself or a method of the accumulator it calls
	hands := func(fn *core.Func) bool {
		for _, cs := range p.Calls(fn) {
			if cs.Name == "accum.(*ObjectAccumulator).sendToFlusher" {
				return true
			}
		}
		return false
	}
	if !hands(run) {
		for _, h := range pkgScope(p, run, 2) {
			if h.Lit == nil && h != run && hands(h) {
				run = h
				break
			}
		}
	}
	info := run.Pkg.TypesInfo
	g := p.Graph(run)
	// hand-off sites: sendToFlusher(x, S) with S a local slice variable
	type handoff struct {
		node *core.GNode
		obj  types.Object
	}
	var hs []handoff
	for _, n := range stmtNodes(g) {
		for _, c := range nodeCalls(n) {
			if core.CalleeName(info, c) == "accum.(*ObjectAccumulator).sendToFlusher" && len(c.Args) == 2 {
				if o := core.ObjOf(info, c.Args[1]); o != nil {
					hs = append(hs, handoff{n, o})
				}
			}
		}
	}
	if len(hs) == 0 {
		r.Undecided(rule, run.Key+"#handoff", posP(r, run.Pos()), "no hand-off of a group slice to the flusher found")
		return
	}
	// fresh allocations and mutations of the slice variable
	isFresh := func(n *core.GNode, o types.Object) bool {
		as, ok := n.Ast.(*ast.AssignStmt)
		if !ok {
			return false
		}
		for i, l := range as.Lhs {
			if core.ObjOf(info, l) == o && i < len(as.Rhs) {
				if c, ok := core.Unparen(as.Rhs[i]).(*ast.CallExpr); ok && (core.BuiltinName(info, c) == "make" || callReturnsFresh(p, run, c)) {
					return true
				}
				if core.IsNil(info, as.Rhs[i]) {
					return true
				}
			}
		}
		return false
	}
	isMutation := func(n *core.GNode, o types.Object) bool {
		as, ok := n.Ast.(*ast.AssignStmt)
		if !ok {
			return false
		}
		for i, l := range as.Lhs {
			// S = append(S, ...), S = S[:0], S[i] = ...
			if ix, ok := core.Unparen(l).(*ast.IndexExpr); ok && core.ObjOf(info, ix.X) == o {
				return true
			}
			if core.ObjOf(info, l) == o && i < len(as.Rhs) {
				if c, ok := core.Unparen(as.Rhs[i]).(*ast.CallExpr); ok && (core.BuiltinName(info, c) == "make" || callReturnsFresh(p, run, c)) {
					return false
				}
				if core.IsNil(info, as.Rhs[i]) {
					return false
				}
				if core.Mentions(info, as.Rhs[i], o) {
					return true // append / re-slice of the same backing array
				}
			}
		}
		return false
	}
	for i, h := range hs {
		var bad *core.GNode
		reach := g.Reach(h.node, func(x *core.GNode) bool { return x.Kind == core.KStmt && isFresh(x, h.obj) })
		for x := range reach {
			if x.Kind == core.KStmt && isMutation(x, h.obj) {
				if bad == nil || x.Ast.Pos() < bad.Ast.Pos() {
					bad = x
				}
			}
		}
		key := fmt.Sprintf("%s#handoff@%d(%s)", run.Key, i, tokenOrName(run, h.obj))
		if bad != nil {
			path := g.PathAvoiding(h.node, func(x *core.GNode) bool { return x == bad }, func(x *core.GNode) bool { return x.Kind == core.KStmt && isFresh(x, h.obj) })
			r.Violation(rule, key, pos(r, bad.Ast), fmt.Sprintf("after the slice %s was handed to the flusher goroutine it is appended to / re-sliced at %s without a fresh make in between: the reader overwrites the elements of a group the consumer may not have processed yet", h.obj.Name(), p.Rel(bad.Ast.Pos())), g.PathStrings(path)...)
		} else {
			r.OK(rule, key, pos(r, h.node.Ast), "the handed-off slice is not touched again before a fresh allocation")
		}
	}
	// the flusher side stores the slice as is (no copy) - documented so the ownership rule above is the only protection
	if sf := r.Anchor(rule, "accum.(*ObjectAccumulator).sendToFlusher"); sf != nil {
		r.OK(rule, sf.Key+"#passes-slice-by-reference", posP(r, sf.Pos()), "sendToFlusher forwards the slice header; ownership moves to the flusher")
	}
}

// c15Consumer (R3).
func c15Consumer(r *core.Report, run *core.Func) {
	const rule = "C15.R3"
	p := r.Prog
	// goroutines started for startFlusher in package accum
	nGo := 0
	inLoop := false
	for _, f := range p.FuncsInPkg("accum") {
		for _, fn := range f.AllWithLits() {
			if fn.Body == nil {
				continue
			}
			info := fn.Pkg.TypesInfo
			ast.Inspect(fn.Body, func(n ast.Node) bool {
				if _, ok := n.(*ast.FuncLit); ok {
					return false
				}
				gs, ok := n.(*ast.GoStmt)
				if !ok {
					return true
				}
				if core.CalleeName(info, gs.Call) == "accum.(*ObjectAccumulator).startFlusher" {
					nGo++
					ast.Inspect(fn.Body, func(m ast.Node) bool {
						switch l := m.(type) {
						case *ast.ForStmt:
							if l.Body.Pos() <= gs.Pos() && gs.End() <= l.Body.End() {
								inLoop = true
							}
						case *ast.RangeStmt:
							if l.Body.Pos() <= gs.Pos() && gs.End() <= l.Body.End() {
								inLoop = true
							}
						}
						return true
					})
				}
				return true
			})
		}
	}
	r.Check(nGo == 1 && !inLoop, rule, run.Key+"#one-flusher-goroutine", posP(r, run.Pos()), "exactly one flusher goroutine is started (not in a loop)",
		fmt.Sprintf("%d flusher goroutines are started (in a loop: %v): with more than one consumer groups can be delivered out of file order", nGo, inLoop))
	// receivers of flushQueue
	var receivers []string
	for _, f := range p.FuncsInPkg("accum") {
		for _, fn := range f.AllWithLits() {
			if fn.Body == nil {
				continue
			}
			ast.Inspect(fn.Body, func(n ast.Node) bool {
				if _, ok := n.(*ast.FuncLit); ok {
					return false
				}
				if u, ok := n.(*ast.UnaryExpr); ok && u.Op == token.ARROW && strings.HasSuffix(core.ExprStr(u.X), "flushQueue") {
					receivers = append(receivers, fn.Key)
				}
				if rs, ok := n.(*ast.RangeStmt); ok && strings.HasSuffix(core.ExprStr(rs.X), "flushQueue") {
					receivers = append(receivers, fn.Key)
				}
				return true
			})
		}
	}
	ok := len(receivers) >= 1
	for _, k := range receivers {
		if k != "accum.(*ObjectAccumulator).startFlusher" {
			ok = false
		}
	}
	r.Check(ok, rule, run.Key+"#single-receiver", posP(r, run.Pos()), "only startFlusher receives from the queue", fmt.Sprintf("the queue is received from in %v", receivers))
}

// c15Drain (R4).
func c15Drain(r *core.Report, run *core.Func) {
	const rule = "C15.R4"
	p := r.Prog
	// (a) in sendToFlusher: Add dominates the send
	if sf := r.Anchor(rule, "accum.(*ObjectAccumulator).sendToFlusher"); sf != nil {
		info := sf.Pkg.TypesInfo
		g := p.Graph(sf)
		var add, send *core.GNode
		for _, n := range stmtNodes(g) {
			if _, ok := n.Ast.(*ast.SendStmt); ok {
				send = n
			}
			for _, c := range nodeCalls(n) {
				if core.CalleeName(info, c) == "sync.(*WaitGroup).Add" {
					add = n
				}
			}
		}
		r.Check(add != nil && send != nil && g.Dominates(add, send), rule, sf.Key+"#add-before-send", posP(r, sf.Pos()), "WaitGroup.Add precedes the send on the queue",
			"the group is queued before (or without) being counted in the WaitGroup: shutdown can close the queue while a group is still in flight")
	}
	// (b) startFlusher: Done after every group taken from the queue, and only once the group was delivered
	if fl := r.Anchor(rule, "accum.(*ObjectAccumulator).startFlusher"); fl != nil {
		info := fl.Pkg.TypesInfo
		g := p.Graph(fl)
		var done, recv *core.GNode
		deliver := map[*core.GNode]bool{} // the call of the callback wrapper, or of the callback field itself
		parentText := ""
		for _, n := range stmtNodes(g) {
			for _, c := range nodeCalls(n) {
				switch core.CalleeName(info, c) {
				case "accum.(*ObjectAccumulator).flush":
					deliver[n] = true
					if len(c.Args) > 0 {
						parentText = core.ExprStr(c.Args[0])
					}
				case "sync.(*WaitGroup).Done":
					done = n
				}
				if isAccumulatorCallback(info, c) {
					deliver[n] = true
					if len(c.Args) > 0 {
						parentText = core.ExprStr(c.Args[0])
					}
				}
			}
		}
		recv, _ = queueTake(g, fl, "flushQueue")
		isDeliver := func(x *core.GNode) bool { return deliver[x] }
		// edges on which the group is known to have no parent (such a group may be skipped when it is empty)
		noParent := map[*core.GNode]bool{}
		for _, e := range g.Nodes {
			if e.Kind != core.KEdge || e.Ast == nil || parentText == "" {
				continue
			}
			for _, fc := range e.Facts() {
				if x, eq, isNil := core.NilCompare(info, fc.Expr); isNil && fc.Tag == nil && fc.Unless == nil && core.ExprStr(x) == parentText && eq == fc.Truth {
					noParent[e] = true
				}
			}
		}
		ok := len(deliver) > 0 && done != nil && recv != nil
		if ok {
			// no way round the loop from one receive to the next without Done
			ok = !cycleAvoiding(g, recv, func(x *core.GNode) bool { return x == done })
		}
		r.Check(ok, rule, fl.Key+"#done-after-each-group", posP(r, fl.Pos()), "every group taken from the queue is followed by WaitGroup.Done before the next one is taken",
			"a group can be flushed without WaitGroup.Done being called: Run's shutdown waits forever")
		// Done (and the return of the group's buffer to the pool) only after the callback has run: Run's Wait must cover the callback
		if len(deliver) > 0 && done != nil && recv != nil {
			skip := func(x *core.GNode) bool { return isDeliver(x) || noParent[x] }
			r.Check(g.PathAvoiding(recv, func(x *core.GNode) bool { return x == done }, skip) == nil, rule, fl.Key+"#done-only-after-callback", pos(r, done.Ast), "WaitGroup.Done is reached only after the group's callback returned",
				"WaitGroup.Done is signalled before the group's callback has run: Run's deferred Wait no longer covers the callback, so Run can return before the last group was delivered")
			for _, n := range stmtNodes(g) {
				for _, c := range nodeCalls(n) {
					if core.CalleeName(info, c) == "accum.putFlushBuffer" {
						n := n
						r.Check(g.PathAvoiding(recv, func(x *core.GNode) bool { return x == n }, skip) == nil, rule, fl.Key+"#buffer-released-only-after-callback", pos(r, c), "the group's buffer goes back to the pool only after the callback returned",
							"the group's buffer is returned to the pool before the callback ran: the next group can overwrite the children the callback is about to read")
					}
				}
			}
		}
	}
	// (b2) single consumer: the callback wrapper is invoked from the flusher goroutine only
	if fl := p.Fn("accum.(*ObjectAccumulator).flush"); fl != nil {
		bad := ""
		nc := 0
		for _, cs := range p.Callers(fl) {
			nc++
			if root := cs.In.Root(); root.Key != "accum.(*ObjectAccumulator).startFlusher" {
				bad = cs.In.Key + " at " + p.Rel(cs.Call.Pos())
			}
		}
		r.Check(nc > 0 && bad == "", "C15.R3", fl.Key+"#called-from-the-flusher-only", posP(r, fl.Pos()), "groups are delivered to the callback from the flusher goroutine only",
			"the callback is also invoked from "+bad+": groups can be delivered out of file order and concurrently with the flusher")
	}
	// (c) Run: deferred shutdown waits before closing
	info := run.Pkg.TypesInfo
	okDefer := false
	ast.Inspect(run.Body, func(n ast.Node) bool {
		d, ok := n.(*ast.DeferStmt)
		if !ok {
			return true
		}
		lit, ok := core.Unparen(d.Call.Fun).(*ast.FuncLit)
		if !ok {
			return true
		}
		lf := p.ByLit[lit]
		lg := p.Graph(lf)
		var wait, cl *core.GNode
		for _, x := range stmtNodes(lg) {
			for _, c := range nodeCalls(x) {
				if core.CalleeName(info, c) == "sync.(*WaitGroup).Wait" {
					wait = x
				}
				if core.BuiltinName(info, c) == "close" && len(c.Args) == 1 && strings.HasSuffix(core.ExprStr(c.Args[0]), "flushQueue") {
					cl = x
				}
			}
		}
		if wait != nil && cl != nil && lg.Dominates(wait, cl) {
			okDefer = true
		}
		return true
	})
	r.Check(okDefer, rule, run.Key+"#wait-before-close", posP(r, run.Pos()), "the deferred shutdown waits for the queued groups before closing the queue",
		"the queue is closed without waiting for the groups already queued (or is not closed by Run's deferred shutdown)")
}

// c15Groups (R5).
func c15Groups(r *core.Report, run *core.Func) {
	const rule = "C15.R5"
	p := r.Prog
	info := run.Pkg.TypesInfo
	g := p.Graph(run)
	nParent, nFinal := 0, 0
	for _, n := range stmtNodes(g) {
		for _, c := range nodeCalls(n) {
			if core.CalleeName(info, c) != "accum.(*ObjectAccumulator).sendToFlusher" || len(c.Args) != 2 {
				continue
			}
			if core.IsNil(info, c.Args[0]) {
				nFinal++
				// final group: followed by leaving the outer loop / returning, never by another read
				continue
			}
			nParent++
			u, ok := core.Unparen(c.Args[0]).(*ast.UnaryExpr)
			okAddr := ok && u.Op == token.AND
			var eo types.Object
			if okAddr {
				eo = core.ObjOf(info, u.X)
			}
			// the element variable is declared inside the innermost loop body (fresh per iteration)
			fresh := false
			if eo != nil {
				ast.Inspect(run.Body, func(m ast.Node) bool {
					if fs, ok := m.(*ast.ForStmt); ok && fs.Body.Pos() <= eo.Pos() && eo.Pos() < fs.Body.End() && fs.Body.Pos() <= c.Pos() && c.End() <= fs.Body.End() {
						fresh = true
					}
					return true
				})
			}
			r.Check(okAddr && fresh, rule, fmt.Sprintf("%s#parent@%d-fresh-element", run.Key, nParent), pos(r, c), "the group's parent is the address of a variable declared in this iteration",
				"the group's parent pointer does not refer to a per-iteration variable: a later iteration can overwrite the parent of a queued group")
			// guarded by the flush-kind comparison and followed by leaving the inner loop
			okKind := false
			for _, fc := range g.FactsAt(n) {
				if fc.Truth && strings.Contains(core.ExprStr(fc.Expr), "flushOnKind") && strings.Contains(core.ExprStr(fc.Expr), "==") {
					okKind = true
				}
			}
			r.Check(okKind, rule, fmt.Sprintf("%s#parent@%d-on-flush-kind", run.Key, nParent), pos(r, c), "a group is closed exactly when the object's kind equals the configured flush kind", "the group is closed under another condition than kind == flushOnKind")
			// after the send, the append of a child is not reachable before the children slice is re-made (covered by R2) and the inner loop is left:
			leaves := true
			if co := core.ObjOf(info, c.Args[1]); co != nil {
				isFresh := func(x *core.GNode) bool {
					as, ok := x.Ast.(*ast.AssignStmt)
					if x.Kind != core.KStmt || !ok {
						return false
					}
					for i, l := range as.Lhs {
						if core.ObjOf(info, l) == co && i < len(as.Rhs) {
							if mk, ok := core.Unparen(as.Rhs[i]).(*ast.CallExpr); ok && (core.BuiltinName(info, mk) == "make" || callReturnsFresh(p, run, mk)) {
								return true
							}
						}
					}
					return false
				}
				for _, inst := range findOffsetInstances(p) {
					if inst.Fn == run {
						if path := g.PathAvoiding(n, func(x *core.GNode) bool { return x == inst.Read }, isFresh); path != nil {
							leaves = false
						}
					}
				}
			}
			r.Check(leaves, rule, fmt.Sprintf("%s#parent@%d-leaves-inner-loop", run.Key, nParent), pos(r, c), "after closing a group the next section is read only after a new group buffer was started", "after a group was closed the loop can read the next section into the same group buffer")
		}
	}
	r.Check(nParent >= 1, rule, run.Key+"#groups-closed-on-parent", posP(r, run.Pos()), "groups are closed on the parent object", "no group is ever closed on a parent object")
	// EOF: a dominating errors.Is(err, io.EOF) edge leads to a final-group send
	okEOF := false
	for _, n := range stmtNodes(g) {
		for _, c := range nodeCalls(n) {
			if core.CalleeName(info, c) == "accum.(*ObjectAccumulator).sendToFlusher" && len(c.Args) == 2 && core.IsNil(info, c.Args[0]) {
				for _, fc := range g.FactsAt(n) {
					if fc.Truth && strings.Contains(core.ExprStr(fc.Expr), "io.EOF") {
						okEOF = true
					}
				}
			}
		}
	}
	r.Check(okEOF && nFinal >= 1, rule, run.Key+"#final-group-at-eof", posP(r, run.Pos()), "at end of file the remaining objects are delivered as a final group", "objects after the last parent are dropped at end of file")
}

// callReturnsFresh: the call runs a function or a local closure all of whose returns yield a newly made slice (make, nil,
// a composite literal) that does not depend on the arguments - an allocator like newGroup := func() []T { return make(..) }.
func callReturnsFresh(p *core.Prog, in *core.Func, call *ast.CallExpr) bool {
	info := in.Pkg.TypesInfo
	var targets []*core.Func
	if fo := core.Callee(info, call); fo != nil {
		if h := p.ByObj[fo.Origin()]; h != nil {
			targets = append(targets, h)
		}
	} else if v, ok := core.ObjOf(info, call.Fun).(*types.Var); ok && !v.IsField() {
		targets = p.FuncValuesOf(v, in)
	}
	if len(targets) == 0 {
		return false
	}
	for _, h := range targets {
		if h.Body == nil {
			return false
		}
		hi := h.Pkg.TypesInfo
		n := 0
		fresh := true
		ast.Inspect(h.Body, func(m ast.Node) bool {
			if l, isLit := m.(*ast.FuncLit); isLit && l != h.Lit {
				return false
			}
			rs, ok := m.(*ast.ReturnStmt)
			if !ok {
				return true
			}
			n++
			if len(rs.Results) != 1 {
				fresh = false
				return true
			}
			e := core.Unparen(rs.Results[0])
			switch x := e.(type) {
			case *ast.CallExpr:
				if core.BuiltinName(hi, x) != "make" {
					fresh = false
				}
			case *ast.CompositeLit:
			default:
				if !core.IsNil(hi, e) {
					fresh = false
				}
			}
			return true
		})
		if n == 0 || !fresh {
			return false
		}
	}
	return true
}

// isAccumulatorCallback: c invokes a function-typed field of the ObjectAccumulator (its callback).
func isAccumulatorCallback(info *types.Info, c *ast.CallExpr) bool {
	sel, ok := core.Unparen(c.Fun).(*ast.SelectorExpr)
	if !ok {
		return false
	}
	fld, isVar := info.Uses[sel.Sel].(*types.Var)
	if !isVar || !fld.IsField() {
		return false
	}
	if _, isSig := fld.Type().Underlying().(*types.Signature); !isSig {
		return false
	}
	rt := info.TypeOf(sel.X)
	return rt != nil && strings.HasSuffix(strings.TrimPrefix(rt.String(), "*"), "ObjectAccumulator")
}

// takesFromQueue: the statement receives from (or ranges over) the channel field named q.
func takesFromQueue(n ast.Node, q string) bool {
	if n == nil {
		return false
	}
	if rs, ok := n.(*ast.RangeStmt); ok {
		return strings.HasSuffix(core.ExprStr(rs.X), q)
	}
	found := false
	ast.Inspect(n, func(m ast.Node) bool {
		if _, isLit := m.(*ast.FuncLit); isLit {
			return false
		}
		if u, ok := m.(*ast.UnaryExpr); ok && u.Op == token.ARROW && strings.HasSuffix(core.ExprStr(u.X), q) {
			found = true
		}
		return !found
	})
	return found
}

// cycleAvoiding: n can be reached again from n without passing a node of `avoid`.
func cycleAvoiding(g *core.Graph, n *core.GNode, avoid func(*core.GNode) bool) bool {
	for _, s := range n.Succs {
		if avoid(s) {
			continue
		}
		if s == n || g.PathAvoiding(s, func(x *core.GNode) bool { return x == n }, avoid) != nil {
			return true
		}
	}
	return false
}

// queueTake finds where a function takes an element from the channel field named q (any channel when q is empty) and
// returns the node at which the element has just arrived, with the variable that holds it. go/cfg evaluates every
// communication of a select before branching, so for a select case the arrival node is the one go/cfg puts at the head
// of the case body (the bound variable), not the communication statement itself.
func queueTake(g *core.Graph, f *core.Func, q string) (*core.GNode, types.Object) {
	info := f.Pkg.TypesInfo
	var at *core.GNode
	var obj types.Object
	ast.Inspect(f.Body, func(m ast.Node) bool {
		if _, isLit := m.(*ast.FuncLit); isLit && m != ast.Node(f.Lit) {
			return false
		}
		switch x := m.(type) {
		case *ast.CommClause:
			as, ok := x.Comm.(*ast.AssignStmt)
			if !ok || !takesFromQueue(as, q) || len(as.Lhs) == 0 {
				return true
			}
			for _, n := range g.Nodes {
				if n.Kind == core.KStmt && n.Ast == ast.Node(as.Lhs[0]) {
					at, obj = n, core.ObjOf(info, as.Lhs[0])
				}
			}
		case *ast.RangeStmt:
			if strings.HasSuffix(core.ExprStr(x.X), q) && x.Key != nil {
				if _, isChan := info.TypeOf(x.X).Underlying().(*types.Chan); isChan {
					for _, n := range g.Nodes {
						if n.Kind == core.KStmt && n.Ast == ast.Node(x) {
							at, obj = n, core.ObjOf(info, x.Key)
						}
					}
				}
			}
		case *ast.AssignStmt:
			if at == nil && len(x.Lhs) >= 1 && takesFromQueue(x, q) {
				for _, n := range g.Nodes {
					if n.Kind == core.KStmt && n.Ast == ast.Node(x) {
						at, obj = n, core.ObjOf(info, x.Lhs[0])
					}
				}
			}
		}
		return true
	})
	return at, obj
}
