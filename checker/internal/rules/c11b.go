package rules

import (
	"fmt"
	"go/ast"
	"strings"

	"yfverif/checker/internal/core"
)

// c11LinksFromLibraryParser (C11.R6): a link decoded by the hand-written decoders is the CID the library parser reads
// from the link's own bytes (cid.CidFromBytes / cid.Cast / cid.Decode), as the schema-driven decoder does. A CID that
// the decoder assembles itself (cid.NewCidV1(codec, hash), cid.NewCidV0, Prefix.Sum) fixes the codec or version that
// the bytes do not necessarily carry: a raw or dag-pb link would be rewritten to another CID without any error.
func c11LinksFromLibraryParser(r *core.Report) {
	const rule = "C11.R6"
	p := r.Prog
	parsers := map[string]bool{"github.com/ipfs/go-cid.CidFromBytes": true, "github.com/ipfs/go-cid.Cast": true, "github.com/ipfs/go-cid.Decode": true, "github.com/ipfs/go-cid.Parse": true, "github.com/ipfs/go-cid.CidFromReader": true}
	n := 0
	for _, f := range p.FuncsInPkg("ipld/ipldbindcode") {
		for _, fn := range f.AllWithLits() {
			if fn.Body == nil || strings.HasSuffix(p.FileOf(fn.Pos()), "_test.go") {
				continue
			}
			info := fn.Pkg.TypesInfo
			cnt := 0
			ast.Inspect(fn.Body, func(m ast.Node) bool {
				switch x := m.(type) {
				case *ast.FuncLit:
					return false
				case *ast.CallExpr:
					nm := core.CalleeName(info, x)
					if strings.HasPrefix(nm, "github.com/ipfs/go-cid.NewCidV") || strings.HasSuffix(nm, "go-cid.Prefix).Sum") || strings.HasSuffix(nm, "go-cid.(*Prefix).Sum") || strings.HasSuffix(nm, "go-cid.(Prefix).Sum") || strings.HasSuffix(nm, "go-cid.V1Builder).Sum") || strings.HasSuffix(nm, "go-cid.(V1Builder).Sum") {
						n++
						cnt++
						r.Violation(rule, fmt.Sprintf("%s#cid-assembled@%d", fn.Key, cnt), pos(r, x), "a CID is assembled from parts ("+core.ExprStr(x.Fun)+") in the node decoders instead of being parsed from the link's bytes: the codec / version the bytes carry is replaced by a fixed one and the decoded link differs from the schema-driven decoder's")
					}
				case *ast.CompositeLit:
					t := info.TypeOf(x)
					if t == nil || !strings.HasSuffix(t.String(), "linking/cid.Link") {
						return true
					}
					for _, el := range x.Elts {
						v := el
						if kv, ok := el.(*ast.KeyValueExpr); ok {
							v = kv.Value
						}
						n++
						cnt++
						good, why := false, core.ExprStr(v)
						if o := core.ObjOf(info, v); o != nil {
							// every definition of the variable is a result of a library parser
							defs, ok := 0, true
							ast.Inspect(fn.Body, func(k ast.Node) bool {
								as, isA := k.(*ast.AssignStmt)
								if !isA {
									return true
								}
								for _, l := range as.Lhs {
									if core.ObjOf(info, l) == o {
										defs++
										if len(as.Rhs) != 1 {
											ok = false
											continue
										}
										c, isC := core.Unparen(as.Rhs[0]).(*ast.CallExpr)
										if !isC || !parsers[core.CalleeName(info, c)] {
											ok = false
										}
									}
								}
								return true
							})
							good = defs > 0 && ok
						}
						r.Check(good, rule, fmt.Sprintf("%s#link@%d-from-the-library-parser", fn.Key, cnt), pos(r, x), "the link's CID is what the library parser read from the link's bytes",
							"the CID put into the link ("+why+") is not the result of the library CID parser applied to the link's bytes")
					}
				}
				return true
			})
		}
	}
	if n == 0 {
		r.Undecided(rule, "ipld/ipldbindcode#links", "", "no link construction found in the node decoders")
	}
}
