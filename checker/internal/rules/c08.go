package rules

import (
	"fmt"
	"go/ast"
	"go/parser"
	"go/token"
	"go/types"
	"sort"
	"strings"

	"yfverif/checker/internal/core"
)

func init() { register("C08", C08) }

const grpcPkg = "old-faithful-proto/old-faithful-grpc"

// c08Roots returns the request entry points.
func c08Roots(r *core.Report, rule string) []*core.Func {
	p := r.Prog
	var roots []*core.Func
	if f := r.Anchor(rule, "main.newMultiEpochHandler"); f != nil {
		roots = append(roots, f.AllWithLits()...)
	}
	for _, k := range []string{"main.(*MultiEpoch).apiHandler", "main.(*MultiEpoch).handleRequest",
		"main.(*MultiEpoch).GetVersion", "main.(*MultiEpoch).GetBlock", "main.(*MultiEpoch).GetTransaction",
		"main.(*MultiEpoch).GetBlockTime", "main.(*MultiEpoch).Get", "main.(*MultiEpoch).StreamBlocks", "main.(*MultiEpoch).StreamTransactions"} {
		if f := r.Anchor(rule, k); f != nil {
			roots = append(roots, f)
		}
	}
	_ = p
	return roots
}

// c08Scope: functions of package main reachable from the request entry points.
func c08Scope(r *core.Report) (map[*core.Func]*core.Func, []*core.Func) {
	roots := c08Roots(r, "C08.R0")
	reach := r.Prog.Reachable(roots, nil, true)
	var fns []*core.Func
	for f := range reach {
		if f.Body != nil && core.ShortPkg(f.Pkg.PkgPath) == "main" {
			fns = append(fns, f)
		}
	}
	sort.Slice(fns, func(i, j int) bool { return fns[i].Key < fns[j].Key })
	return reach, fns
}

// C08 — no request can crash the server.
func C08(r *core.Report) {
	r.Explanation = "Decides the absence of the listed crash idioms on request-derived values in every function of package main reachable (repo call graph, literals included) from the HTTP handler closure, apiHandler and the gRPC methods: " +
		"R1 every dereference of an optional request pointer (jsonrpc2.Request.Params handed to the parse* functions, pointer-typed fields of old_faithful_grpc messages and of the parsed request structs, parameters that receive them) is dominated by a nil test, or the field is assigned on every path of its constructor; " +
		"R2 no Must* helper is applied to a non-constant value; R3 every return of a handle* method either carries a non-nil *jsonrpc2.Error or is preceded on all paths by a Reply call; " +
		"R4 a value returned together with an error is not used on a path that comes from the err != nil branch; R5 a pointer field of a locally built response is dereferenced only after being assigned on all paths; " +
		"R6 no single-value type assertion / explicit panic on request-tainted values. R2 also covers short aliases in dependencies that hand their parameter to a Must* helper (solana.MPK), found by parsing the dependency's source in the module cache. R9 no integer division or modulo in the request handlers has a request-derived divisor unless a dominating comparison excludes zero (for a difference a-b: a > b or a != b). Not decided: resource exhaustion, panics inside dependencies, crashes that need malformed archive data (C12)."
	r.Assumptions = []string{"gRPC never delivers a nil request message; optional scalar fields and nested messages may be nil", "generated proto getters (GetX) are nil-receiver safe",
		"sourcegraph/jsonrpc2 leaves Request.Params nil when the member is absent"}
	reach, fns := c08Scope(r)
	r.Extra["C08_scope_functions"] = len(fns)
	r.Extra["C08_reachable_total"] = len(reach)
	c08ComputeParamTaint(r.Prog, fns)
	r.Extra["C08_tainted_params"] = len(c08ParamTaint)
	c08NilGuards(r, fns)
	c08Must(r, fns, reach)
	c08ReplyTypestate(r, fns)
	c08UseAfterError(r, fns)
	c08LocalPtrField(r, fns)
	c08Assertions(r, fns)
	c08Bounds(r, fns)
	c08NoDivisionByRequestValue(r, fns)
	r.Floor("C08.R1", 8)
	r.Floor("C08.R3", 20)
	r.Floor("C08.R6", 4)
}

// ---- R1 ---------------------------------------------------------------------------------------

// isOptionalReqField: sel selects a pointer-typed field of a request type.
func isOptionalReqField(info *types.Info, sel *ast.SelectorExpr) bool {
	s := info.Selections[sel]
	if s == nil || s.Kind() != types.FieldVal {
		return false
	}
	fv, ok := s.Obj().(*types.Var)
	if !ok || !fv.IsField() || fv.Pkg() == nil {
		return false
	}
	if _, isPtr := fv.Type().Underlying().(*types.Pointer); !isPtr {
		return false
	}
	pk := core.ShortPkg(fv.Pkg().Path())
	switch pk {
	case grpcPkg:
		owner := fieldOwner(fv)
		return fv.Exported() && (strings.HasSuffix(owner, "Request") || strings.HasSuffix(owner, "Filter"))
	case "github.com/sourcegraph/jsonrpc2":
		return fv.Name() == "Params"
	case "main":
		owner := fieldOwner(fv)
		recvT := core.NamedTypeName(s.Recv())
		_ = recvT
		return owner == "GetBlockRequest" || owner == "GetTransactionRequest" || owner == "GetSignaturesForAddressParams" || strings.HasPrefix(fieldOwnerAnon(info, sel), "GetBlockRequest") || strings.HasPrefix(fieldOwnerAnon(info, sel), "GetTransactionRequest")
	}
	return false
}

// fieldOwnerAnon: for fields of the anonymous Options struct, the named type at the root of the selector chain.
func fieldOwnerAnon(info *types.Info, sel *ast.SelectorExpr) string {
	e := core.Unparen(sel.X)
	for {
		t := info.TypeOf(e)
		if n := core.NamedTypeName(t); n != "" {
			return n[strings.LastIndex(n, ".")+1:]
		}
		s, ok := e.(*ast.SelectorExpr)
		if !ok {
			return ""
		}
		e = core.Unparen(s.X)
	}
}

type derefUse struct {
	ptr  ast.Expr // the pointer expression being dereferenced
	at   ast.Node
	kind string
}

// derefsIn lists dereferences in body (not into nested literals): *p, p.f (p pointer to struct, field access), p[i] for pointer-to-array.
func derefsIn(info *types.Info, body ast.Node) []derefUse {
	var out []derefUse
	ast.Inspect(body, func(n ast.Node) bool {
		switch x := n.(type) {
		case *ast.FuncLit:
			return false
		case *ast.StarExpr:
			if tv, ok := info.Types[x]; ok && !tv.IsType() {
				out = append(out, derefUse{core.Unparen(x.X), x, "*"})
			}
		case *ast.SelectorExpr:
			s := info.Selections[x]
			if s != nil && s.Kind() == types.FieldVal {
				if _, isPtr := info.TypeOf(x.X).Underlying().(*types.Pointer); isPtr {
					out = append(out, derefUse{core.Unparen(x.X), x, "." + x.Sel.Name})
				}
			}
		}
		return true
	})
	return out
}

// nonNilKnown: is ptr (an identifier or selector path) known non-nil at the use, by a dominating fresh fact or a
// short-circuit guard inside the same condition?
func nonNilKnown(g *core.Graph, info *types.Info, ptr ast.Expr, use ast.Node) bool {
	n := g.NodeOf(use.Pos())
	if n == nil {
		return false
	}
	want := core.ExprStr(ptr)
	matches := func(f core.Fact) bool {
		if f.Tag != nil || f.Unless != nil {
			return false
		}
		x, eq, ok := core.NilCompare(info, f.Expr)
		if !ok || core.ExprStr(x) != want {
			return false
		}
		return eq != f.Truth
	}
	for _, f := range g.FactsAt(n) {
		if matches(f) && g.FactFresh(f, n) {
			return true
		}
	}
	// short-circuit inside the node: X || Y (Y evaluated when X false), X && Y (when X true)
	var found bool
	var walk func(e ast.Expr, facts []core.Fact)
	walk = func(e ast.Expr, facts []core.Fact) {
		if found || e == nil {
			return
		}
		if e.Pos() <= use.Pos() && use.End() <= e.End() {
			if be, ok := core.Unparen(e).(*ast.BinaryExpr); ok && (be.Op == token.LOR || be.Op == token.LAND) {
				if be.Y.Pos() <= use.Pos() && use.End() <= be.Y.End() {
					extra := core.DecomposeCond(be.X, be.Op == token.LAND)
					for _, f := range extra {
						if matches(f) {
							found = true
							return
						}
					}
					walk(be.Y, append(facts, extra...))
					return
				}
				walk(be.X, facts)
				return
			}
			if u, ok := core.Unparen(e).(*ast.UnaryExpr); ok {
				walk(u.X, facts)
				return
			}
			if c, ok := core.Unparen(e).(*ast.CallExpr); ok {
				for _, a := range c.Args {
					walk(a, facts)
				}
				return
			}
		}
	}
	if e, ok := n.Ast.(ast.Expr); ok {
		walk(e, nil)
	} else {
		ast.Inspect(n.Ast, func(m ast.Node) bool {
			if be, ok := m.(*ast.BinaryExpr); ok && (be.Op == token.LOR || be.Op == token.LAND) {
				walk(be, nil)
				return false
			}
			return !found
		})
	}
	return found
}

func c08NilGuards(r *core.Report, fns []*core.Func) {
	const rule = "C08.R1"
	p := r.Prog
	// parameters that receive optional request pointers (one level)
	optParam := map[types.Object]string{}
	for _, f := range fns {
		info := f.Pkg.TypesInfo
		for _, cs := range p.Calls(f) {
			for ai, a := range cs.Call.Args {
				sel, ok := core.Unparen(a).(*ast.SelectorExpr)
				if !ok || !isOptionalReqField(info, sel) {
					continue
				}
				for _, t := range cs.Targets {
					if po := t.ParamObj(ai); po != nil {
						optParam[po] = core.ExprStr(a) + " passed by " + f.Key
					}
				}
			}
		}
	}
	// constructor-assigned fields: fields of main request structs assigned on every success path of their parse function
	alwaysSet := map[string]bool{}
	for _, pf := range []string{"main.parseGetBlockRequest", "main.parseGetTransactionRequest", "main.parseGetSignaturesForAddressParams"} {
		f := p.Fn(pf)
		if f == nil || f.Body == nil {
			continue
		}
		g := p.Graph(f)
		info := f.Pkg.TypesInfo
		fields := map[string][]*core.GNode{}
		for _, n := range stmtNodes(g) {
			as, ok := n.Ast.(*ast.AssignStmt)
			if !ok {
				continue
			}
			// out := newRequest(...): a constructor of the package that sets a field on each of its success paths sets it here
			if len(as.Rhs) == 1 {
				if cc, isC := core.Unparen(as.Rhs[0]).(*ast.CallExpr); isC {
					if fo := core.Callee(info, cc); fo != nil {
						if ctor := p.ByObj[fo.Origin()]; ctor != nil && ctor.Body != nil && ctor.Pkg == f.Pkg && ctor != f {
							for _, path := range ctorAlwaysSets(p, ctor) {
								fields[path] = append(fields[path], n)
							}
						}
					}
				}
			}
			for i, l := range as.Lhs {
				sel, ok := core.Unparen(l).(*ast.SelectorExpr)
				if !ok || !isOptionalReqField(info, sel) || i >= len(as.Rhs) {
					continue
				}
				if u, ok := core.Unparen(as.Rhs[i]).(*ast.UnaryExpr); !ok || u.Op != token.AND {
					continue
				}
				path := selectorFieldPath(sel)
				fields[path] = append(fields[path], n)
			}
		}
		for path, nodes := range fields {
			set := map[*core.GNode]bool{}
			for _, n := range nodes {
				set[n] = true
			}
			all := true
			for _, rn := range g.Returns() {
				nilErr, dec := isNilErrReturn(f, rn)
				if dec && !nilErr {
					continue
				}
				if !set[rn] && g.PathAvoiding(g.Entry, func(x *core.GNode) bool { return x == rn }, func(x *core.GNode) bool { return set[x] }) != nil {
					all = false
				}
			}
			retType := ""
			if f.Obj != nil {
				retType = core.NamedTypeName(f.Obj.Type().(*types.Signature).Results().At(0).Type())
			}
			if all {
				alwaysSet[retType+"|"+path] = true
			}
			r.Check(true, rule, fmt.Sprintf("%s#constructor-sets:%s=%v", f.Key, path, all), posP(r, f.Pos()), fmt.Sprintf("field %s is assigned a non-nil pointer on every success path: %v", path, all), "")
		}
	}
	for _, f := range fns {
		info := f.Pkg.TypesInfo
		g := p.Graph(f)
		cnt := map[string]int{}
		for _, d := range derefsIn(info, f.Body) {
			why := ""
			switch x := d.ptr.(type) {
			case *ast.SelectorExpr:
				if isOptionalReqField(info, x) {
					why = "optional request field " + core.ExprStr(x)
					// constructor-assigned?
					root := fieldOwnerAnon(info, x)
					if alwaysSet["main."+root+"|"+selectorFieldPath(x)] {
						key := fmt.Sprintf("%s#deref:%s", f.Key, core.KeyStr(f, d.at))
						cnt[key]++
						if cnt[key] == 1 {
							r.OK(rule, key, pos(r, d.at), "field is assigned on every success path of its parse function")
						}
						continue
					}
				}
			case *ast.Ident:
				if o := info.Uses[x]; o != nil {
					if src, ok := optParam[o]; ok {
						why = "parameter " + x.Name + " receives " + src
					} else if isCapturedOptParam(p, f, o, optParam) != "" {
						why = "captured " + x.Name + ": " + isCapturedOptParam(p, f, o, optParam)
					}
				}
			}
			if why == "" {
				continue
			}
			key := fmt.Sprintf("%s#deref:%s", f.Key, core.KeyStr(f, d.at))
			cnt[key]++
			if cnt[key] > 1 {
				key = fmt.Sprintf("%s#%d", key, cnt[key])
			}
			ok := nonNilKnown(g, info, d.ptr, d.at)
			r.Check(ok, rule, key, pos(r, d.at), "dereference of "+why+" is dominated by a nil test",
				"dereference of "+why+" without a dominating nil test: a request that omits it crashes the server (no recover in the fasthttp/gRPC handler path)")
		}
	}
}

func isCapturedOptParam(p *core.Prog, f *core.Func, o types.Object, opt map[types.Object]string) string {
	if s, ok := opt[o]; ok && f.Parent != nil {
		return s
	}
	return ""
}

func selectorFieldPath(sel *ast.SelectorExpr) string {
	var parts []string
	var e ast.Expr = sel
	for {
		s, ok := core.Unparen(e).(*ast.SelectorExpr)
		if !ok {
			break
		}
		parts = append([]string{s.Sel.Name}, parts...)
		e = s.X
	}
	return strings.Join(parts, ".")
}

// requestTaint computes the request-derived variables of f: parameters of request types (own and
// captured), parameters of directly invoked literals whose arguments are tainted in the parent, and what
// is derived from them. Results of repository calls other than the request parsers are archive/server
// data, not request data (they are C12's concern).
var c08ParamTaint = map[types.Object]bool{}

// c08ComputeParamTaint propagates request taint through call arguments into the parameters of the
// repository functions in scope (fixpoint, bounded).
func c08ComputeParamTaint(p *core.Prog, fns []*core.Func) {
	c08ParamTaint = map[types.Object]bool{}
	for round := 0; round < 6; round++ {
		changed := false
		for _, f := range fns {
			t := requestTaint(p, f)
			if len(t) == 0 {
				continue
			}
			info := f.Pkg.TypesInfo
			for _, cs := range p.Calls(f) {
				for _, tg := range cs.Targets {
					if tg.Obj == nil || core.ShortPkg(tg.Pkg.PkgPath) != "main" {
						continue
					}
					for i, a := range cs.Call.Args {
						if !mentionsAny(info, a, t, false) {
							continue
						}
						if po := tg.ParamObj(i); po != nil && !c08ParamTaint[po] && !core.IsErrorType(po.Type()) && core.NamedTypeName(po.Type()) != "context.Context" {
							c08ParamTaint[po] = true
							changed = true
						}
					}
				}
			}
		}
		if !changed {
			break
		}
	}
}

func requestTaint(p *core.Prog, f *core.Func) map[types.Object]bool {
	var seeds []types.Object
	for x := f; x != nil; x = x.Parent {
		for i := 0; ; i++ {
			po := x.ParamObj(i)
			if po == nil {
				break
			}
			if c08ParamTaint[po] {
				seeds = append(seeds, po)
			}
		}
	}
	for x := f; x != nil; x = x.Parent {
		for i := 0; ; i++ {
			po := x.ParamObj(i)
			if po == nil {
				break
			}
			tn := core.NamedTypeName(po.Type())
			if strings.HasPrefix(tn, grpcPkg+".") && (strings.HasSuffix(tn, "Request") || strings.HasSuffix(tn, "Filter")) || tn == "github.com/sourcegraph/jsonrpc2.Request" || tn == "encoding/json.RawMessage" || tn == "github.com/valyala/fasthttp.RequestCtx" || strings.HasSuffix(tn, "Request") && strings.HasPrefix(tn, "main.") || tn == "main.GetSignaturesForAddressParams" {
				seeds = append(seeds, po)
			}
		}
	}
	if f.Parent != nil {
		pt := requestTaint(p, f.Parent)
		for o := range pt {
			seeds = append(seeds, o) // captured variables keep their taint
		}
		// go func(acc string){...}(account): arguments tainted in the parent taint the parameters
		ast.Inspect(f.Parent.Body, func(n ast.Node) bool {
			if c, ok := n.(*ast.CallExpr); ok && core.Unparen(c.Fun) == ast.Expr(f.Lit) {
				for i, a := range c.Args {
					if mentionsAny(f.Pkg.TypesInfo, a, pt, false) {
						if po := f.ParamObj(i); po != nil {
							seeds = append(seeds, po)
						}
					}
				}
			}
			return true
		})
	}
	if len(seeds) == 0 {
		return map[types.Object]bool{}
	}
	info := f.Pkg.TypesInfo
	cut := func(c *ast.CallExpr) bool {
		fn := core.Callee(info, c)
		if fn == nil || fn.Pkg() == nil {
			return false
		}
		pk := core.ShortPkg(fn.Pkg().Path())
		if strings.HasPrefix(fn.Pkg().Path(), core.ModPath) {
			// repository code: only the request parsers and request-type methods forward request data
			nm := fn.Name()
			if pk == "main" && (strings.HasPrefix(nm, "parse") || nm == "Validate") {
				return false
			}
			if pk == grpcPkg || pk == "slottools" {
				return false // generated getters; pure slot/epoch arithmetic
			}
			if c08JSONPlumbing(fn) {
				return false // decodes or projects untyped JSON: what it returns is still what the client sent
			}
			return true
		}
		return false
	}
	return taintFromPolicy(f, nil, cut, seeds...)
}

// c08JSONPlumbing: a repository function of package main that hands back untyped JSON (any, []any, map[string]any)
// made from the raw params message or from the decoded positional array ([]any) it was given. Told by the signature, not by the name: a
// request parser split into "decode the params array" / "options object at position i" helpers keeps its taint.
func c08JSONPlumbing(fn *types.Func) bool {
	sig, ok := fn.Type().(*types.Signature)
	if !ok || core.ShortPkg(fn.Pkg().Path()) != "main" {
		return false
	}
	untyped := func(t types.Type) bool {
		switch u := t.(type) {
		case *types.Slice:
			t = u.Elem()
		case *types.Map:
			t = u.Elem()
		}
		it, isI := t.Underlying().(*types.Interface)
		_, named := t.(*types.Named)
		return isI && !named && it.NumMethods() == 0
	}
	in := false
	for i := 0; i < sig.Params().Len(); i++ {
		t := sig.Params().At(i).Type()
		if _, isSl := t.(*types.Slice); isSl && untyped(t) || core.NamedTypeName(t) == "encoding/json.RawMessage" {
			in = true // the raw params member or the decoded positional array
		}
	}
	if !in {
		return false
	}
	for i := 0; i < sig.Results().Len(); i++ {
		if untyped(sig.Results().At(i).Type()) {
			return true
		}
	}
	return false
}

// ---- R2 ---------------------------------------------------------------------------------------

func c08Must(r *core.Report, fns []*core.Func, reach map[*core.Func]*core.Func) {
	const rule = "C08.R2"
	n := 0
	for _, f := range fns {
		info := f.Pkg.TypesInfo
		var taint map[types.Object]bool
		for _, cs := range r.Prog.Calls(f) {
			if cs.Callee == nil || !(strings.HasPrefix(cs.Callee.Name(), "Must") || depPanicsOnBadInput(r.Prog, cs.Callee)) {
				continue
			}
			if taint == nil {
				taint = requestTaint(r.Prog, f)
			}
			tainted := false
			for _, a := range cs.Call.Args {
				if mentionsAny(info, a, taint, false) {
					tainted = true
				}
			}
			n++
			key := fmt.Sprintf("%s#%s(%s)", f.Key, cs.Callee.Name(), argList(f, cs.Call))
			r.Check(!tainted, rule, key, pos(r, cs.Call), "Must* helper is not applied to a request-derived value",
				cs.Name+" panics on malformed input and is applied to a request-derived value", core.PathTo(reach, f)...)
		}
	}
	r.Extra["C08_must_calls_in_scope"] = n
}

func argList(f *core.Func, c *ast.CallExpr) string {
	var s []string
	for _, a := range c.Args {
		s = append(s, core.KeyStr(f, a))
	}
	return strings.Join(s, ",")
}

// ---- R3 ---------------------------------------------------------------------------------------

func isReplyCall(nm string) bool {
	return nm == "main.(*requestContext).Reply" || nm == "main.(*requestContext).ReplyRaw" || nm == "main.(*requestContext).ReplyWithError" || nm == "main.replyJSON"
}

func c08ReplyTypestate(r *core.Report, fns []*core.Func) {
	const rule = "C08.R3"
	p := r.Prog
	for _, f := range fns {
		if f.Obj == nil {
			continue
		}
		sig := f.Obj.Type().(*types.Signature)
		if sig.Results().Len() != 2 || core.NamedTypeName(sig.Results().At(0).Type()) != "github.com/sourcegraph/jsonrpc2.Error" || !core.IsErrorType(sig.Results().At(1).Type()) {
			continue
		}
		info := f.Pkg.TypesInfo
		g := p.Graph(f)
		replied := map[*core.GNode]bool{}
		for _, n := range stmtNodes(g) {
			for _, c := range nodeCalls(n) {
				if isReplyCall(core.CalleeName(info, c)) {
					replied[n] = true
				}
			}
		}
		for i, rn := range g.Returns() {
			res := returnResults(rn)
			key := fmt.Sprintf("%s#return@%d", f.Key, i)
			if len(res) == 1 {
				// return otherHandler(...): same contract
				if call, ok := core.Unparen(res[0]).(*ast.CallExpr); ok {
					if fn := core.Callee(info, call); fn != nil {
						if s2, ok := fn.Type().(*types.Signature); ok && s2.Results().Len() == 2 {
							r.OK(rule, key, pos(r, rn.Ast), "forwards the result of "+core.ShortFuncName(fn))
							continue
						}
					}
				}
				r.Undecided(rule, key, pos(r, rn.Ast), "return shape not recognised")
				continue
			}
			if len(res) != 2 {
				r.Undecided(rule, key, pos(r, rn.Ast), "return shape not recognised")
				continue
			}
			if !core.IsNil(info, res[0]) {
				// &jsonrpc2.Error{...} or a variable: non-nil literal is fine; a variable is accepted when it is a composite literal address
				r.OK(rule, key, pos(r, rn.Ast), "returns an error response for the dispatcher to send")
				continue
			}
			// first result nil: must have replied on every path
			path := g.PathAvoiding(g.Entry, func(x *core.GNode) bool { return x == rn }, func(x *core.GNode) bool { return replied[x] })
			if replied[rn] {
				path = nil
			}
			r.Check(path == nil, rule, key, pos(r, rn.Ast), "a Reply call precedes this return on every path",
				"returns (nil, ...) without having replied on some path: the dispatcher sends nothing and the client receives an empty 200 response", g.PathStrings(path)...)
		}
	}
}

// ---- R4 ---------------------------------------------------------------------------------------

func c08UseAfterError(r *core.Report, fns []*core.Func) {
	const rule = "C08.R4"
	p := r.Prog
	n := 0
	for _, f := range fns {
		info := f.Pkg.TypesInfo
		g := p.Graph(f)
		for _, an := range stmtNodes(g) {
			as, ok := an.Ast.(*ast.AssignStmt)
			if !ok || len(as.Rhs) != 1 || len(as.Lhs) < 2 {
				continue
			}
			if _, isCall := core.Unparen(as.Rhs[0]).(*ast.CallExpr); !isCall {
				continue
			}
			errObj := core.ObjOf(info, as.Lhs[len(as.Lhs)-1])
			if errObj == nil || !core.IsErrorType(errObj.Type()) {
				continue
			}
			for _, l := range as.Lhs[:len(as.Lhs)-1] {
				v := core.ObjOf(info, l)
				if v == nil {
					continue
				}
				switch v.Type().Underlying().(type) {
				case *types.Pointer, *types.Interface:
				default:
					continue
				}
				// error-branch edges following the assignment
				for _, e := range g.Nodes {
					if e.Kind != core.KEdge || !e.Live() || !g.Dominates(an, e) {
						continue
					}
					isErrBranch := false
					for _, fct := range e.Facts() {
						x, eq, ok := core.NilCompare(info, fct.Expr)
						if ok && core.ObjOf(info, x) == errObj && eq != fct.Truth && fct.Unless == nil {
							isErrBranch = true
						}
					}
					if !isErrBranch {
						continue
					}
					// err must not be reassigned between an and e
					if reassignedBetween(g, info, an, e, errObj) {
						continue
					}
					stop := func(x *core.GNode) bool {
						return x.Kind == core.KStmt && (core.AssignsObj(info, x.Ast, v) || core.AssignsObj(info, x.Ast, errObj))
					}
					region := g.Reach(e, stop)
					var hit ast.Node
					for x := range region {
						if x.Kind != core.KStmt {
							continue
						}
						if u := nilUnsafeUse(info, x.Ast, v); u != nil && !nonNilKnownObj(g, info, v, x) {
							if hit == nil || u.Pos() < hit.Pos() {
								hit = u
							}
						}
					}
					n++
					key := fmt.Sprintf("%s#%s-after-%s", f.Key, core.LocalToken(f, v), core.Trunc(core.KeyStr(f, as.Rhs[0]), 50))
					if hit != nil {
						r.Violation(rule, key, pos(r, hit), fmt.Sprintf("%s is used at %s on a path that comes from the `%s != nil` branch of the call that produced it (the branch does not leave the block): nil dereference when the call fails", v.Name(), p.Rel(hit.Pos()), errObj.Name()))
					} else {
						r.OK(rule, key, pos(r, as), "the error branch never reaches a use of the value")
					}
				}
			}
		}
	}
	_ = n
}

func nonNilKnownObj(g *core.Graph, info *types.Info, v types.Object, n *core.GNode) bool {
	return g.KnownNonNil(n, v)
}

// nilUnsafeUse: a use of v in n that panics when v is nil: *v, v.field, v.Method() for interfaces and
// for methods that are not generated nil-safe getters.
func nilUnsafeUse(info *types.Info, n ast.Node, v types.Object) ast.Node {
	var hit ast.Node
	ast.Inspect(n, func(m ast.Node) bool {
		if hit != nil {
			return false
		}
		switch x := m.(type) {
		case *ast.FuncLit:
			return false
		case *ast.StarExpr:
			if core.ObjOf(info, x.X) == v {
				hit = x
			}
		case *ast.SelectorExpr:
			if id, ok := core.Unparen(x.X).(*ast.Ident); ok && info.Uses[id] == v {
				s := info.Selections[x]
				if s == nil {
					return true
				}
				if s.Kind() == types.FieldVal {
					hit = x
				} else if s.Kind() == types.MethodVal {
					if _, isIface := v.Type().Underlying().(*types.Interface); isIface {
						hit = x
					} else if fn, ok := s.Obj().(*types.Func); ok && fn.Pkg() != nil {
						if core.ShortPkg(fn.Pkg().Path()) == grpcPkg && strings.HasPrefix(fn.Name(), "Get") {
							return true // generated getter
						}
						hit = x
					}
				}
			}
		}
		return true
	})
	return hit
}

// ---- R5 ---------------------------------------------------------------------------------------

func c08LocalPtrField(r *core.Report, fns []*core.Func) {
	const rule = "C08.R5"
	p := r.Prog
	for _, f := range fns {
		info := f.Pkg.TypesInfo
		g := p.Graph(f)
		cnt := 0
		for _, d := range derefsIn(info, f.Body) {
			if d.kind != "*" {
				continue
			}
			sel, ok := d.ptr.(*ast.SelectorExpr)
			if !ok {
				continue
			}
			root, ok := core.Unparen(sel.X).(*ast.Ident)
			if !ok {
				continue
			}
			ro := info.Uses[root]
			if ro == nil || ro.Pos() < f.Body.Pos() || ro.Pos() >= f.Body.End() {
				continue // only locally built values
			}
			s := info.Selections[sel]
			if s == nil || s.Kind() != types.FieldVal {
				continue
			}
			// definition node of the local
			var defNode *core.GNode
			var assigns []*core.GNode
			for _, n := range stmtNodes(g) {
				if as, ok := n.Ast.(*ast.AssignStmt); ok {
					for i, l := range as.Lhs {
						if id, ok := core.Unparen(l).(*ast.Ident); ok && info.Defs[id] == ro {
							defNode = n
							// only values built here: new(T) / &T{}
							if i < len(as.Rhs) && !isFreshAlloc(info, as.Rhs[i]) {
								defNode = nil
							}
						}
						if ls, ok := core.Unparen(l).(*ast.SelectorExpr); ok && core.ExprStr(ls) == core.ExprStr(sel) {
							assigns = append(assigns, n)
						}
					}
				}
			}
			if defNode == nil {
				continue
			}
			cnt++
			use := g.NodeOf(d.at.Pos())
			key := fmt.Sprintf("%s#deref:%s", f.Key, core.KeyStr(f, d.at))
			if use == nil {
				r.Undecided(rule, key, pos(r, d.at), "use node not found")
				continue
			}
			aset := map[*core.GNode]bool{}
			for _, a := range assigns {
				aset[a] = true
			}
			path := g.PathAvoiding(defNode, func(x *core.GNode) bool { return x == use }, func(x *core.GNode) bool { return aset[x] })
			ok2 := path == nil || nonNilKnown(g, info, sel, d.at)
			r.Check(ok2, rule, key, pos(r, d.at), "the field is assigned on every path from the allocation to this dereference (or nil-tested)",
				fmt.Sprintf("%s is dereferenced although it is assigned only conditionally after %s was allocated: nil dereference on the path that skips the assignment", core.ExprStr(sel), root.Name), g.PathStrings(path)...)
		}
	}
}

func isFreshAlloc(info *types.Info, e ast.Expr) bool {
	e = core.Unparen(e)
	if u, ok := e.(*ast.UnaryExpr); ok && u.Op == token.AND {
		_, isLit := core.Unparen(u.X).(*ast.CompositeLit)
		return isLit
	}
	if c, ok := e.(*ast.CallExpr); ok {
		return core.BuiltinName(info, c) == "new"
	}
	return false
}

// ---- R6 ---------------------------------------------------------------------------------------

func c08Assertions(r *core.Report, fns []*core.Func) {
	const rule = "C08.R6"
	p := r.Prog
	inv := 0
	for _, f := range fns {
		info := f.Pkg.TypesInfo
		taint := requestTaint(p, f)
		if len(taint) == 0 {
			continue
		}
		// comma-ok assertions
		okForm := map[*ast.TypeAssertExpr]bool{}
		ast.Inspect(f.Body, func(n ast.Node) bool {
			switch s := n.(type) {
			case *ast.AssignStmt:
				if len(s.Lhs) == 2 && len(s.Rhs) == 1 {
					if ta, ok := core.Unparen(s.Rhs[0]).(*ast.TypeAssertExpr); ok {
						okForm[ta] = true
					}
				}
			case *ast.ValueSpec:
				if len(s.Names) == 2 && len(s.Values) == 1 {
					if ta, ok := core.Unparen(s.Values[0]).(*ast.TypeAssertExpr); ok {
						okForm[ta] = true
					}
				}
			case *ast.TypeSwitchStmt:
				ast.Inspect(s.Assign, func(m ast.Node) bool {
					if ta, ok := m.(*ast.TypeAssertExpr); ok {
						okForm[ta] = true
					}
					return true
				})
			}
			return true
		})
		cnt := 0
		ast.Inspect(f.Body, func(n ast.Node) bool {
			if _, ok := n.(*ast.FuncLit); ok {
				return false
			}
			switch x := n.(type) {
			case *ast.TypeAssertExpr:
				if x.Type == nil {
					return true
				}
				inv++
				if !mentionsAny(info, x.X, taint, false) {
					return true
				}
				cnt++
				key := fmt.Sprintf("%s#assert:%s", f.Key, core.KeyStr(f, x))
				r.Check(okForm[x], rule, key, pos(r, x), "request-derived type assertion uses the comma-ok / type-switch form",
					"single-value type assertion on a request-derived value: an ill-typed request panics the handler")
			case *ast.CallExpr:
				if core.BuiltinName(info, x) == "panic" {
					// explicit panic guarded by a request-tainted condition
					g := p.Graph(f)
					if nd := g.NodeOf(x.Pos()); nd != nil {
						tainted := false
						for _, fct := range g.FactsAt(nd) {
							if mentionsAny(info, fct.Expr, taint, false) {
								tainted = true
							}
						}
						// not reachable at all in the build that is analysed: the node lies behind a test of a repository
						// function that returns a constant (txstatus.IsEnabled() without the ffi tag) taken the other way
						for _, fct := range g.FactsAt(nd) {
							if c, isCall := core.Unparen(fct.Expr).(*ast.CallExpr); isCall && fct.Tag == nil {
								if fo := core.Callee(info, c); fo != nil {
									if h := p.ByObj[fo.Origin()]; h != nil && h.Body != nil && len(h.Body.List) == 1 {
										if rs, isRet := h.Body.List[0].(*ast.ReturnStmt); isRet && len(rs.Results) == 1 {
											if b, isC := boolConst(h.Pkg.TypesInfo, rs.Results[0]); isC && b != fct.Truth {
												tainted = false
											}
										}
									}
								}
							}
						}
						key := fmt.Sprintf("%s#panic@%s", f.Key, core.Trunc(core.KeyStr(f, x), 40))
						r.Check(!tainted, rule, key, pos(r, x), "explicit panic is not guarded by a request-derived condition", "explicit panic reachable under a request-derived condition")
					}
				}
			}
			return true
		})
	}
	r.Extra["C08_type_assertions_in_scope"] = inv
}

// ---- R7 / R8 ----------------------------------------------------------------------------------

// c08Bounds: (R7) index/slice expressions whose base is request-derived or is a list of the loaded epochs
// (which may be empty: "zero epochs loaded") must be guarded; (R8) make() sized by a request-derived value
// must be bounded (an unsigned difference needs a dominating comparison of its operands).
func c08Bounds(r *core.Report, fns []*core.Func) {
	p := r.Prog
	nIdx, nMake := 0, 0
	for _, f := range fns {
		info := f.Pkg.TypesInfo
		taint := requestTaint(p, f)
		// epoch-set derived slices: results of *MultiEpoch methods
		epochLists := map[types.Object]bool{}
		ast.Inspect(f.Body, func(n ast.Node) bool {
			as, ok := n.(*ast.AssignStmt)
			if !ok || len(as.Rhs) != 1 {
				return true
			}
			c, ok := core.Unparen(as.Rhs[0]).(*ast.CallExpr)
			if !ok || !strings.HasPrefix(core.CalleeName(info, c), "main.(*MultiEpoch).") {
				return true
			}
			for _, l := range as.Lhs {
				if o := core.ObjOf(info, l); o != nil {
					if _, isSl := o.Type().Underlying().(*types.Slice); isSl {
						epochLists[o] = true
					}
				}
			}
			return true
		})
		cnt := map[string]int{}
		for _, s := range analyzeBounds(p, f) {
			bo := core.ObjOf(info, rootIdentExpr(s.Base))
			relevant := mentionsAny(info, s.Expr, taint, false) || (bo != nil && epochLists[bo])
			if !relevant {
				continue
			}
			// a string sliced at len(prefix) after strings.HasPrefix(s, prefix)
			if !s.OK && hasPrefixGuard(p, f, s) {
				s.OK, s.Reason = true, "guarded by strings.HasPrefix on the same string and prefix"
			}
			nIdx++
			key := s.key()
			cnt[key]++
			if cnt[key] > 1 {
				key = fmt.Sprintf("%s#%d", key, cnt[key])
			}
			what := "request-derived"
			if bo != nil && epochLists[bo] {
				what = "a list of the loaded epochs (empty when no epoch is loaded)"
			}
			r.Check(s.OK, "C08.R7", key, pos(r, s.Expr), s.Reason, "index/slice on "+what+" data without a sufficient guard: "+s.Reason)
		}
		g := p.Graph(f)
		ast.Inspect(f.Body, func(n ast.Node) bool {
			if _, ok := n.(*ast.FuncLit); ok {
				return false
			}
			c, ok := n.(*ast.CallExpr)
			if !ok || core.BuiltinName(info, c) != "make" || len(c.Args) < 2 {
				return true
			}
			for _, a := range c.Args[1:] {
				if _, isConst := core.ConstInt(info, a); isConst || !mentionsAny(info, a, taint, false) {
					continue
				}
				nMake++
				ok2, why := sizeBounded(p, f, g, g.NodeOf(c.Pos()), a)
				r.Check(ok2, "C08.R8", fmt.Sprintf("%s#make(%s)", f.Key, core.KeyStr(f, a)), pos(r, c), why,
					"allocation sized by the request-derived expression "+core.ExprStr(a)+" without a dominating bound: a crafted request (e.g. a range whose end precedes its start, making an unsigned difference wrap) panics in makeslice or exhausts memory")
			}
			return true
		})
	}
	r.Extra["C08_request_index_sites"] = nIdx
	r.Extra["C08_request_sized_makes"] = nMake
}

func rootIdentExpr(e ast.Expr) ast.Expr {
	if id := rootIdent(e); id != nil {
		return id
	}
	return e
}

// hasPrefixGuard: s[len(prefix):] dominated by strings.HasPrefix(s, prefix) being true.
func hasPrefixGuard(p *core.Prog, f *core.Func, s boundsSite) bool {
	se, ok := s.Expr.(*ast.SliceExpr)
	if !ok || se.Low == nil || se.High != nil {
		return false
	}
	info := f.Pkg.TypesInfo
	lc, ok := core.Unparen(se.Low).(*ast.CallExpr)
	if !ok || core.BuiltinName(info, lc) != "len" || len(lc.Args) != 1 {
		return false
	}
	g := p.Graph(f)
	n := g.NodeOf(s.Expr.Pos())
	if n == nil {
		return false
	}
	for _, fc := range g.FactsAt(n) {
		c, ok := core.Unparen(fc.Expr).(*ast.CallExpr)
		if !ok || !fc.Truth || core.CalleeName(info, c) != "strings.HasPrefix" || len(c.Args) != 2 {
			continue
		}
		if core.ExprStr(c.Args[0]) == core.ExprStr(se.X) && core.ExprStr(c.Args[1]) == core.ExprStr(lc.Args[0]) {
			return true
		}
	}
	return false
}

// ctorAlwaysSets: the optional request fields (by selector path) that the function assigns a non-nil pointer (&v) on
// every path to each of its returns.
func ctorAlwaysSets(p *core.Prog, ctor *core.Func) []string {
	g := p.Graph(ctor)
	info := ctor.Pkg.TypesInfo
	fields := map[string]map[*core.GNode]bool{}
	for _, n := range stmtNodes(g) {
		as, ok := n.Ast.(*ast.AssignStmt)
		if !ok {
			continue
		}
		for i, l := range as.Lhs {
			sel, ok := core.Unparen(l).(*ast.SelectorExpr)
			if !ok || !isOptionalReqField(info, sel) || i >= len(as.Rhs) {
				continue
			}
			if u, ok := core.Unparen(as.Rhs[i]).(*ast.UnaryExpr); !ok || u.Op != token.AND {
				continue
			}
			path := selectorFieldPath(sel)
			if fields[path] == nil {
				fields[path] = map[*core.GNode]bool{}
			}
			fields[path][n] = true
		}
	}
	var out []string
	for path, set := range fields {
		all := len(g.Returns()) > 0
		for _, rn := range g.Returns() {
			if g.PathAvoiding(g.Entry, func(x *core.GNode) bool { return x == rn }, func(x *core.GNode) bool { return set[x] }) != nil {
				all = false
			}
		}
		if all {
			out = append(out, path)
		}
	}
	sort.Strings(out)
	return out
}

var depPanicCache = map[string]bool{}

// depPanicsOnBadInput: fn is a function of a dependency (not of the repository) whose body, read from the module cache,
// hands one of its own parameters to a Must* helper outside any nested function literal - a short alias such as solana.MPK =
// MustPublicKeyFromBase58. The source file is only parsed, never executed.
func depPanicsOnBadInput(p *core.Prog, fn *types.Func) bool {
	if fn == nil || fn.Pkg() == nil || p.ByObj[fn.Origin()] != nil {
		return false
	}
	key := fn.FullName()
	if v, ok := depPanicCache[key]; ok {
		return v
	}
	res := false
	defer func() { depPanicCache[key] = res }()
	posn := p.Fset.Position(fn.Pos())
	if posn.Filename == "" || !strings.HasSuffix(posn.Filename, ".go") {
		return false
	}
	fs := token.NewFileSet()
	file, err := parser.ParseFile(fs, posn.Filename, nil, parser.SkipObjectResolution)
	if err != nil {
		return false
	}
	for _, d := range file.Decls {
		fd, ok := d.(*ast.FuncDecl)
		if !ok || fd.Body == nil || fd.Name.Name != fn.Name() || fs.Position(fd.Name.Pos()).Line != posn.Line {
			continue
		}
		if len(fd.Body.List) > 6 {
			return false // only short aliases / wrappers: a longer function validates before it panics, or not at all
		}
		ast.Inspect(fd.Body, func(m ast.Node) bool {
			switch x := m.(type) {
			case *ast.FuncLit:
				return false
			case *ast.CallExpr:
				// an alias: the function's own parameter is handed to a Must* helper
				passesParam := false
				for _, a := range x.Args {
					if id, ok := a.(*ast.Ident); ok && fd.Type.Params != nil {
						for _, fl := range fd.Type.Params.List {
							for _, nm := range fl.Names {
								if nm.Name == id.Name {
									passesParam = true
								}
							}
						}
					}
				}
				if !passesParam {
					return true
				}
				switch f := x.Fun.(type) {
				case *ast.Ident:
					if strings.HasPrefix(f.Name, "Must") {
						res = true
					}
				case *ast.SelectorExpr:
					if strings.HasPrefix(f.Sel.Name, "Must") {
						res = true
					}
				}
			}
			return true
		})
	}
	return res
}
