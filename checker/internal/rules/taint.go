package rules

import (
	"go/ast"
	"go/token"
	"go/types"

	"yfverif/checker/internal/core"
)

// taintFrom computes, flow-insensitively over f's body (including nested literals, which share
// variables), the set of variables whose value may be derived from the seed objects:
// assignments whose right-hand side mentions a tainted variable taint the left-hand side;
// range over a tainted expression taints key/value; a call with a tainted argument or receiver
// taints its other pointer/slice/map/interface-typed identifier arguments and its receiver
// (the callee may write through them). Variables of type error are never tainted.
func taintFrom(f *core.Func, seeds ...types.Object) map[types.Object]bool {
	return taintFromExcl(f, nil, seeds...)
}

// taintFromExcl is taintFrom with a set of variables that never become tainted (the key itself, contexts).
func taintFromExcl(f *core.Func, excl map[types.Object]bool, seeds ...types.Object) map[types.Object]bool {
	return taintFromPolicy(f, excl, nil, seeds...)
}

// taintFromPolicy: cut, when non-nil, names calls whose results and written-through arguments do NOT
// carry the taint of their arguments (e.g. archive lookups keyed by a request value return archive data).
func taintFromPolicy(f *core.Func, excl map[types.Object]bool, cut func(call *ast.CallExpr) bool, seeds ...types.Object) map[types.Object]bool {
	info := f.Pkg.TypesInfo
	t := map[types.Object]bool{}
	for _, s := range seeds {
		if s != nil {
			t[s] = true
		}
	}
	projected := map[ast.Expr]bool{}
	var mentionsNode func(n ast.Node) bool
	mentions := func(n ast.Node) bool { return mentionsNode(n) }
	mentionsNode = func(n ast.Node) bool {
		if n == nil {
			return false
		}
		found := false
		ast.Inspect(n, func(m ast.Node) bool {
			if found {
				return false
			}
			if c, ok := m.(*ast.CallExpr); ok && cut != nil && cut(c) {
				return false
			}
			// X.F of a local that is a pure keyed struct literal: only the value given to F counts, not the other fields
			if sel, ok := m.(*ast.SelectorExpr); ok {
				if bid, isId := core.Unparen(sel.X).(*ast.Ident); isId {
					if v, isVar := info.Uses[bid].(*types.Var); isVar && !v.IsField() {
						if val := core.LiteralFieldOf(f, v, sel.Sel.Name); val != nil {
							if projected[val] {
								return false
							}
							projected[val] = true
							sub := mentionsNode(val)
							delete(projected, val)
							if sub {
								found = true
							}
							return false
						}
					}
				}
			}
			if id, ok := m.(*ast.Ident); ok {
				if o := info.Uses[id]; o != nil && t[o] {
					found = true
				}
			}
			return !found
		})
		return found
	}
	add := func(e ast.Expr) bool {
		e = core.Unparen(e)
		if u, ok := e.(*ast.UnaryExpr); ok && u.Op == token.AND {
			e = core.Unparen(u.X)
		}
		// x, x.f, x[i] -> root identifier
		for {
			switch x := e.(type) {
			case *ast.SelectorExpr:
				e = core.Unparen(x.X)
				continue
			case *ast.IndexExpr:
				e = core.Unparen(x.X)
				continue
			case *ast.StarExpr:
				e = core.Unparen(x.X)
				continue
			case *ast.SliceExpr:
				e = core.Unparen(x.X)
				continue
			}
			break
		}
		id, ok := e.(*ast.Ident)
		if !ok || id.Name == "_" {
			return false
		}
		o := info.Uses[id]
		if o == nil {
			o = info.Defs[id]
		}
		v, ok := o.(*types.Var)
		if !ok || core.IsErrorType(v.Type()) || t[v] || excl[v] || core.NamedTypeName(v.Type()) == "context.Context" {
			return false
		}
		t[v] = true
		return true
	}
	isLocal := func(e ast.Expr) bool {
		id := rootIdent(e)
		if u, ok := core.Unparen(e).(*ast.UnaryExpr); ok && u.Op == token.AND {
			id = rootIdent(u.X)
		}
		if id == nil {
			return false
		}
		o := info.Uses[id]
		if o == nil {
			return false
		}
		// declared inside the body (not a parameter, receiver, captured outer variable or global)
		return o.Pos() >= f.Body.Pos() && o.Pos() < f.Body.End()
	}
	refLike := func(e ast.Expr) bool {
		if !isLocal(e) {
			return false
		}
		if u, ok := core.Unparen(e).(*ast.UnaryExpr); ok && u.Op == token.AND {
			return true
		}
		tp := info.TypeOf(e)
		if tp == nil {
			return false
		}
		switch tp.Underlying().(type) {
		case *types.Pointer, *types.Slice, *types.Map, *types.Interface, *types.Chan:
			return true
		}
		return false
	}
	for changed := true; changed; {
		changed = false
		ast.Inspect(f.Body, func(n ast.Node) bool {
			switch s := n.(type) {
			case *ast.AssignStmt:
				any := false
				for _, r := range s.Rhs {
					if mentions(r) {
						any = true
					}
				}
				if any {
					for _, l := range s.Lhs {
						if add(l) {
							changed = true
						}
					}
				}
			case *ast.ValueSpec:
				any := false
				for _, r := range s.Values {
					if mentions(r) {
						any = true
					}
				}
				if any {
					for _, nm := range s.Names {
						if add(nm) {
							changed = true
						}
					}
				}
			case *ast.RangeStmt:
				if mentions(s.X) {
					if s.Key != nil && add(s.Key) {
						changed = true
					}
					if s.Value != nil && add(s.Value) {
						changed = true
					}
				}
			case *ast.CallExpr:
				if tv, ok := info.Types[s.Fun]; ok && tv.IsType() {
					return true
				}
				if core.BuiltinName(info, s) != "" && core.BuiltinName(info, s) != "copy" {
					return true
				}
				if cut != nil && cut(s) {
					return true
				}
				any := false
				for _, a := range s.Args {
					if mentions(a) {
						any = true
					}
				}
				var recv ast.Expr
				if sel, ok := core.Unparen(s.Fun).(*ast.SelectorExpr); ok {
					if _, isPkg := info.Uses[rootIdent(sel.X)].(*types.PkgName); !isPkg {
						recv = sel.X
						if mentions(recv) {
							// a method of a tainted receiver does not taint its arguments by itself
						}
					}
				}
				if any {
					for _, a := range s.Args {
						if refLike(a) && !mentions(a) {
							if add(a) {
								changed = true
							}
						}
					}
					if recv != nil && !mentions(recv) && refLike(recv) {
						if add(recv) {
							changed = true
						}
					}
				}
			}
			return true
		})
	}
	return t
}

func rootIdent(e ast.Expr) *ast.Ident {
	e = core.Unparen(e)
	for {
		switch x := e.(type) {
		case *ast.Ident:
			return x
		case *ast.SelectorExpr:
			e = core.Unparen(x.X)
		case *ast.IndexExpr:
			e = core.Unparen(x.X)
		case *ast.StarExpr:
			e = core.Unparen(x.X)
		case *ast.CallExpr:
			e = core.Unparen(x.Fun)
		default:
			return nil
		}
	}
}

// mentionsAny reports whether n mentions one of the objects (not descending into literals when !deep).
func mentionsAny(info *types.Info, n ast.Node, objs map[types.Object]bool, deep bool) bool {
	if n == nil {
		return false
	}
	found := false
	ast.Inspect(n, func(m ast.Node) bool {
		if found {
			return false
		}
		if _, ok := m.(*ast.FuncLit); ok && !deep {
			return false
		}
		if id, ok := m.(*ast.Ident); ok {
			if o := info.Uses[id]; o != nil && objs[o] {
				found = true
			}
		}
		return !found
	})
	return found
}
