package rules

import (
	"fmt"
	"go/ast"
	"go/token"
	"go/types"
	"strings"

	"yfverif/checker/internal/core"
)

func init() { register("C06", C06) }

// C06 — address index returns every indexed transaction of an address, newest first.
func C06(r *core.Report) {
	r.Explanation = "Decides structural necessary conditions of C06 in packages gsfa and gsfa/linkedlog: " +
		"R0 length-prefix agreement - the writer prefixes each record with uvarint(payload length) and reports the whole record size; the reader must take the prefix width from decoding the stored prefix (and check it against the record size), never from a varint-width function applied to the record size; the fixed-size pointer to the previous record is the last segment of the written record; " +
		"R1 every batch parked by the background writer is flushed before it signals completion (must-pass-through from each park to the done-send), and the parking slice is created empty (a make with non-zero length followed by append/len tests is the pinned-tree defect); " +
		"R2 Close waits for the background writer before the final synchronous flush of the accumulator, and sets the exit flag before waiting; R3 each batch is reversed (newest first) before it is serialised; R4 the batch handed to the background goroutine is a fresh copy. " +
		"R5 the synchronous partial flush in Push is taken only under !popRank.has(key) and every hand-off of a full batch to the background writer ranks its address (popRank.Incr) - the two halves of the mechanism that keeps a short newer batch from overtaking a parked older one. " +
		"R6 LinkedLog.Put orders its batches by address with an unstable sort, so every caller passes one batch per call or a slice that provably never holds two batches of one address (Has(key) test that flushes before parking). " +
		"R7 read re-entrancy - the linked-log and address readers shared by concurrent requests use no storage of the shared object as scratch space. " +
		"R8 end of chain - OffsetAndSize.IsZero holds exactly for {Offset: 0, Size: 0} and every gsfa reader loop that follows the chain of linked-log records stops, as far as the pointer is concerned, exactly when it is nil or zero (decided by the truth table of the test over nil / Offset == 0 / Size == 0, helpers inlined): the record stored first in a log sits at offset 0 and must still be read. " +
		"R9 flag accessors - each setter of OffsetAndSizeAndSlot stores exactly its argument at a constant bit, the getter of the same name returns that bit, no two flags share a bit, and Bitmap.Set sets the bit exactly when its value argument is true. " +
		"R10 the address list of a transaction is de-duplicated in an order-independent way: slices.Compact is only applied to a list sorted before (Dedupe sorts first). R11 no reference-typed object other than a byte buffer is recycled through a sync.Pool in the writer (entries are shared by all addresses of a transaction). R12 an address leaves the rank of addresses that filled a batch only through purge, behind purge's test that the rank holds more distinct counts than its list size: any other deletion (decay, reset, eviction by age) forgets addresses whose older batch may still be parked, and their next partial flush overtakes it. R8 also: a helper that yields the next chain pointer answers nil only for a nil or {0,0} pointer. Not decided: exactly-once for all push histories and timings, zstd round trip, whether purge itself can drop an address that still has a parked batch (it needs more than 10 000 distinct flush counts)."
	r.Assumptions = []string{"channel FIFO and the Go memory model are trusted", "tidwall/hashmap is not safe for concurrent use"}
	c06Prefix(r)
	c06Drain(r)
	c06CloseOrder(r)
	c06Reverse(r)
	c06Handoff(r)
	c06PartialFlushGuard(r)
	c06OneBatchPerKeyPerPut(r)
	for _, k := range []string{"gsfa/linkedlog.(*LinkedLog).ReadWithSize", "gsfa.(*GsfaReader).Get", "gsfa.(*GsfaReader).GetBeforeUntil"} {
		if f := r.Anchor("C06.R7", k); f != nil {
			checkReentrant(r, "C06.R7", f, "reads")
		}
	}
	r.Floor("C06.R0", 4)
	r.Floor("C06.R1", 1)
	r.Floor("C06.R2", 1)
	r.Floor("C06.R3", 1)
	r.Floor("C06.R4", 1)
	r.Floor("C06.R5", 1)
	r.Floor("C06.R6", 2)
	r.Floor("C06.R7", 3)
	chainEndExact(r, "C06.R8")
	c06FlagAccessors(r)
	c06DedupAfterSort(r)
	c06NoEntryPooling(r)
	c06RankForgetsOnlyInPurge(r)
	chainPointerHelpers(r, "C06.R8")
	r.Floor("C06.R12", 1)
	r.Floor("C06.R10", 1)
	r.Floor("C06.R9", 4)
	r.Floor("C06.R8", 2)
}

func isUvarintWidthFunc(nm string) bool {
	switch nm {
	case "gsfa/linkedlog.sizeOfUvarint", "encoding/binary.PutUvarint", "encoding/binary.AppendUvarint",
		"github.com/multiformats/go-varint.UvarintSize", "gsfa/linkedlog.encodeUvarint":
		return true
	}
	return false
}

func c06Prefix(r *core.Report) {
	const rule = "C06.R0"
	p := r.Prog
	// ---- writer
	put := r.Anchor(rule, "gsfa/linkedlog.(*LinkedLog).Put")
	if put != nil && c06AppendLayout(r, put) {
		// decided on the evaluated layout of the record buffer
	} else if put != nil {
		var prefixVar, payloadLenArg, written types.Object
		var wroteBuf ast.Expr
		var firstAppendOK, afterArgOK bool
		for _, fn := range put.AllWithLits() {
			info := fn.Pkg.TypesInfo
			ast.Inspect(fn.Body, func(n ast.Node) bool {
				as, ok := n.(*ast.AssignStmt)
				if !ok || len(as.Rhs) != 1 {
					return true
				}
				call, ok := core.Unparen(as.Rhs[0]).(*ast.CallExpr)
				if !ok {
					return true
				}
				nm := core.CalleeName(info, call)
				if nm == "gsfa/linkedlog.encodeUvarint" && len(call.Args) == 1 {
					prefixVar = core.ObjOf(info, as.Lhs[0])
					payloadLenArg = core.ObjOf(info, call.Args[0])
				}
				if nm == "gsfa/linkedlog.(*LinkedLog).write" && len(call.Args) == 1 && len(as.Lhs) == 3 {
					wroteBuf = call.Args[0]
					written = core.ObjOf(info, as.Lhs[1])
				}
				return true
			})
		}
		goodWidth := checkUvarintLenIdiom(r, rule, "gsfa/linkedlog", "gsfa")
		shape2 := false
		if prefixVar == nil && wroteBuf != nil {
			// second shape: buf := make([]byte, W+...); binary.PutUvarint(buf, L); copy(buf[W:], ...) with W := widthFunc(L)
			for _, fn := range put.AllWithLits() {
				info := fn.Pkg.TypesInfo
				bufObj := core.ObjOf(info, wroteBuf)
				for _, c := range core.CallsIn(fn.Body, false) {
					if core.CalleeName(info, c) == "encoding/binary.PutUvarint" && len(c.Args) == 2 && core.ObjOf(info, c.Args[0]) == bufObj && bufObj != nil {
						payloadLenArg = core.ObjOf(info, c.Args[1])
					}
				}
				ast.Inspect(fn.Body, func(n ast.Node) bool {
					as, ok := n.(*ast.AssignStmt)
					if !ok || len(as.Rhs) != 1 || len(as.Lhs) != 1 {
						return true
					}
					if c, ok := core.Unparen(as.Rhs[0]).(*ast.CallExpr); ok && len(c.Args) == 1 && payloadLenArg != nil && core.ObjOf(info, c.Args[0]) == payloadLenArg {
						if fnObj := core.Callee(info, c); fnObj != nil && (goodWidth[fnObj.Origin()] || isUvarintWidthFunc(core.CalleeName(info, c))) {
							prefixVar = core.ObjOf(info, as.Lhs[0])
						} else if fnObj != nil && p.ByObj[fnObj.Origin()] != nil {
							prefixVar = core.ObjOf(info, as.Lhs[0]) // width function of the repository: judged by the idiom rule
						}
					}
					return true
				})
				// the buffer is allocated with the prefix width in front and the payload is copied behind it
				if prefixVar != nil && bufObj != nil {
					alloc, copied := false, false
					ast.Inspect(fn.Body, func(n ast.Node) bool {
						switch x := n.(type) {
						case *ast.AssignStmt:
							if len(x.Lhs) == 1 && len(x.Rhs) == 1 && core.ObjOf(info, x.Lhs[0]) == bufObj {
								if c, ok := core.Unparen(x.Rhs[0]).(*ast.CallExpr); ok && core.BuiltinName(info, c) == "make" && len(c.Args) >= 2 && core.Mentions(info, c.Args[1], prefixVar) {
									alloc = true
								}
							}
						case *ast.CallExpr:
							if core.BuiltinName(info, x) == "copy" && len(x.Args) == 2 {
								if se, ok := core.Unparen(x.Args[0]).(*ast.SliceExpr); ok && core.ObjOf(info, se.X) == bufObj && se.Low != nil && core.ObjOf(info, se.Low) == prefixVar {
									copied = true
								}
							}
						}
						return true
					})
					shape2 = alloc && copied
				}
			}
		}
		if prefixVar == nil || payloadLenArg == nil || written == nil || wroteBuf == nil {
			r.Undecided(rule, put.Key+"#writer-shape", posP(r, put.Pos()), "prefix encoding / write call of the record not recognised")
		} else {
			for _, fn := range put.AllWithLits() {
				info := fn.Pkg.TypesInfo
				bufObj := core.ObjOf(info, wroteBuf)
				first := true
				ast.Inspect(fn.Body, func(n ast.Node) bool {
					switch s := n.(type) {
					case *ast.AssignStmt:
						// payloadLen := ... must not mention the prefix
						for i, l := range s.Lhs {
							if core.ObjOf(info, l) == payloadLenArg && i < len(s.Rhs) {
								if core.Mentions(info, s.Rhs[i], prefixVar) {
									r.Violation(rule, put.Key+"#payload-length-excludes-prefix", pos(r, s), "the encoded length includes the prefix itself")
								} else {
									r.OK(rule, put.Key+"#payload-length-excludes-prefix", pos(r, s), "uvarint(P) with P = payload length without the prefix: "+core.ExprStr(s.Rhs[i]))
								}
							}
							if bufObj != nil && core.ObjOf(info, l) == bufObj && i < len(s.Rhs) {
								if c, ok := core.Unparen(s.Rhs[i]).(*ast.CallExpr); ok && core.BuiltinName(info, c) == "append" && len(c.Args) == 2 {
									if first {
										firstAppendOK = core.ObjOf(info, c.Args[1]) == prefixVar
										first = false
									}
								}
							}
						}
					case *ast.CallExpr:
						if id, ok := core.Unparen(s.Fun).(*ast.Ident); ok && id.Name == "callbackAfter" && len(s.Args) == 3 {
							afterArgOK = core.ObjOf(info, s.Args[2]) == written
						}
					}
					return true
				})
			}
			firstAppendOK = firstAppendOK || shape2
			r.Check(firstAppendOK, rule, put.Key+"#record-starts-with-prefix", posP(r, put.Pos()), "the written record starts with the encoded prefix", "the record written to the log does not start with the encoded length prefix")
			r.Check(afterArgOK, rule, put.Key+"#reported-size-is-record-size", posP(r, put.Pos()), "callbackAfter receives the byte count of the whole record (prefix included)", "the size reported for the record is not the number of bytes written for it")
		}
	}
	// ---- reader
	rd := r.Anchor(rule, "gsfa/linkedlog.(*LinkedLog).ReadWithSize")
	if rd != nil {
		info := rd.Pkg.TypesInfo
		g := p.Graph(rd)
		size := rd.ParamByName("size")
		if size == nil {
			size = rd.ParamObj(1)
		}
		nWidth := 0
		for _, cs := range p.Calls(rd) {
			if !isUvarintWidthFunc(cs.Name) {
				continue
			}
			nWidth++
			bad := false
			for _, a := range cs.Call.Args {
				if core.Mentions(info, a, size) {
					bad = true
				}
			}
			r.Check(!bad, rule, fmt.Sprintf("%s#width-from-record-size@%d", rd.Key, nWidth), pos(r, cs.Call), "varint width not computed from the record size",
				"the prefix width is computed as the varint width of the record size; the prefix encodes the payload length, which is shorter by the prefix itself, so the widths differ whenever the record size crosses 128 or 16384: the reader skips one byte too many and the batch is unreadable")
		}
		// positive: decode + consistency check dominating every success return. The decode may sit in ReadWithSize or in a
		// helper of the package that ReadWithSize hands the record buffer to.
		type decodeSite struct {
			fn       *core.Func
			node     *core.GNode
			nObj, pl types.Object
			rec      types.Object // the buffer that is decoded
			call     *core.GNode  // helper case: the node in rd that calls the helper
			callErr  types.Object
			recInRd  types.Object
		}
		findDecode := func(fn *core.Func) *decodeSite {
			fi := fn.Pkg.TypesInfo
			var ds *decodeSite
			for _, n := range stmtNodes(p.Graph(fn)) {
				as, ok := n.Ast.(*ast.AssignStmt)
				if !ok || len(as.Rhs) != 1 || len(as.Lhs) != 2 {
					continue
				}
				if c, ok := core.Unparen(as.Rhs[0]).(*ast.CallExpr); ok && core.CalleeName(fi, c) == "encoding/binary.Uvarint" && len(c.Args) == 1 {
					ds = &decodeSite{fn: fn, node: n, pl: core.ObjOf(fi, as.Lhs[0]), nObj: core.ObjOf(fi, as.Lhs[1]), rec: core.ObjOf(fi, c.Args[0])}
				}
			}
			return ds
		}
		ds := findDecode(rd)
		if ds == nil {
			for _, n := range stmtNodes(g) {
				for _, c := range nodeCalls(n) {
					fo := core.Callee(info, c)
					if fo == nil {
						continue
					}
					h := p.ByObj[fo.Origin()]
					if h == nil || h.Body == nil || h.Pkg != rd.Pkg || h == rd {
						continue
					}
					hd := findDecode(h)
					if hd == nil || hd.rec == nil {
						continue
					}
					for ai, a := range c.Args {
						if po := h.ParamObj(ai); po != nil && types.Object(po) == hd.rec {
							hd.recInRd = core.ObjOf(info, a)
						}
					}
					if hd.recInRd == nil {
						continue
					}
					hd.call = n
					if as, ok := n.Ast.(*ast.AssignStmt); ok && len(as.Lhs) > 0 {
						if eo := core.ObjOf(info, as.Lhs[len(as.Lhs)-1]); eo != nil && core.IsErrorType(eo.Type()) {
							hd.callErr = eo
						}
					}
					ds = hd
				}
			}
		}
		if ds == nil || ds.nObj == nil {
			// the decode may sit deeper (ReadWithSize -> decodeRecord -> stripLengthPrefix): follow the record buffer
			var recInRd types.Object
			for _, n := range stmtNodes(g) {
				if as, ok := n.Ast.(*ast.AssignStmt); ok && len(as.Lhs) == 1 && len(as.Rhs) == 1 {
					if c, ok := core.Unparen(as.Rhs[0]).(*ast.CallExpr); ok && core.BuiltinName(info, c) == "make" && len(c.Args) == 2 && core.ObjOf(info, stripConvs(info, c.Args[1])) == types.Object(size) {
						recInRd = core.ObjOf(info, as.Lhs[0])
					}
				}
			}
			okAll, where := false, ""
			if recInRd != nil {
				okAll, where = recordFramingChecked(p, rd, recInRd, 0)
			}
			if where == "" {
				r.Violation(rule, rd.Key+"#prefix-decoded", posP(r, rd.Pos()), "the reader does not decode the stored length prefix (binary.Uvarint) to find where the payload starts")
			} else {
				r.OK(rule, rd.Key+"#prefix-decoded", posP(r, rd.Pos()), "prefix decoded from the stored bytes in "+where)
				r.Check(okAll, rule, rd.Key+"#prefix-consistent@0", posP(r, rd.Pos()), "every success return is reached only after "+where+" checked prefixLen + payloadLen == len(record) = size",
					"a success return is not dominated by a check that the decoded prefix (width + payload length) matches the record size")
				r.Check(okAll, rule, rd.Key+"#payload-starts-after-prefix", posP(r, rd.Pos()), "payload = record[prefixLen:]", "the payload is not sliced at the decoded prefix width")
			}
		} else {
			r.OK(rule, rd.Key+"#prefix-decoded", pos(r, ds.node.Ast), "prefix decoded from the stored bytes")
			di := ds.fn.Pkg.TypesInfo
			dg := p.Graph(ds.fn)
			// what stands for the record size where the decode is: the size parameter, len(record), or a local defined from those
			sizeObjs := map[types.Object]bool{}
			if ds.fn == rd && size != nil {
				sizeObjs[size] = true
			}
			var isSizeRef func(e ast.Expr) bool
			isSizeRef = func(e ast.Expr) bool {
				found := false
				ast.Inspect(e, func(m ast.Node) bool {
					switch x := m.(type) {
					case *ast.Ident:
						if o := di.Uses[x]; o != nil && sizeObjs[o] {
							found = true
						}
					case *ast.CallExpr:
						if core.BuiltinName(di, x) == "len" && len(x.Args) == 1 && ds.rec != nil && core.ObjOf(di, x.Args[0]) == ds.rec && ds.fn != rd {
							found = true
						}
					}
					return true
				})
				return found
			}
			for round := 0; round < 2; round++ {
				ast.Inspect(ds.fn.Body, func(m ast.Node) bool {
					if as, ok := m.(*ast.AssignStmt); ok && len(as.Lhs) == len(as.Rhs) {
						for i, l := range as.Lhs {
							if o := core.ObjOf(di, l); o != nil && !sizeObjs[o] && singleDef(ds.fn, o) != nil && isSizeRef(as.Rhs[i]) {
								if _, plain := stripConvs(di, as.Rhs[i]).(*ast.BinaryExpr); !plain {
									sizeObjs[o] = true
								}
							}
						}
					}
					return true
				})
			}
			recordIsSizeBytes := true
			if ds.fn != rd {
				// the buffer handed to the helper is the whole record: allocated with the record size
				recordIsSizeBytes = false
				if d := singleDef(rd, ds.recInRd); d != nil {
					if c, ok := core.Unparen(d).(*ast.CallExpr); ok && core.BuiltinName(info, c) == "make" && len(c.Args) == 2 && core.ObjOf(info, stripConvs(info, c.Args[1])) == types.Object(size) {
						recordIsSizeBytes = true
					}
				}
			}
			consistentAt := func(gg *core.Graph, rn *core.GNode) bool {
				for _, fc := range gg.FactsAt(rn) {
					be, isB := core.Unparen(fc.Expr).(*ast.BinaryExpr)
					if fc.Tag != nil || !isB {
						continue
					}
					if !((be.Op == token.NEQ && !fc.Truth) || (be.Op == token.EQL && fc.Truth)) {
						continue
					}
					if core.Mentions(di, fc.Expr, ds.nObj) && core.Mentions(di, fc.Expr, ds.pl) && isSizeRef(fc.Expr) {
						return true
					}
				}
				return false
			}
			if ds.fn != rd {
				helperOK := recordIsSizeBytes
				for _, rn := range dg.Returns() {
					if nilErr, dec := isNilErrReturn(ds.fn, rn); dec && !nilErr {
						continue
					}
					if !consistentAt(dg, rn) {
						helperOK = false
					}
				}
				for i, rn := range g.Returns() {
					if nilErr, dec := isNilErrReturn(rd, rn); dec && !nilErr {
						continue
					}
					ok := helperOK && ds.call != nil && ds.callErr != nil && g.Dominates(ds.call, rn)
					if ok {
						ok = false
						for _, fc := range g.FactsAt(rn) {
							if x, eq, isNC := core.NilCompare(info, fc.Expr); isNC && core.ObjOf(info, x) == ds.callErr && eq == fc.Truth && fc.Edge != nil && g.Dominates(ds.call, fc.Edge) {
								// err == nil holds: the edge follows the helper call and no other assignment of err lies between
								fresh := true
								for _, m := range stmtNodes(g) {
									if m != ds.call && g.Dominates(ds.call, m) && g.Dominates(m, fc.Edge) && core.AssignsObj(info, m.Ast, ds.callErr) {
										fresh = false
									}
								}
								if fresh {
									ok = true
								}
							}
						}
					}
					r.Check(ok, rule, fmt.Sprintf("%s#prefix-consistent@%d", rd.Key, i), pos(r, rn.Ast), "success return only after "+ds.fn.Key+" succeeded, which checks prefixLen + payloadLen == len(record) = size",
						"a success return is not dominated by a check that the decoded prefix (width + payload length) matches the record size")
				}
			} else {
				for i, rn := range g.Returns() {
					if nilErr, dec := isNilErrReturn(rd, rn); dec && !nilErr {
						continue
					}
					r.Check(consistentAt(g, rn), rule, fmt.Sprintf("%s#prefix-consistent@%d", rd.Key, i), pos(r, rn.Ast), "success return dominated by the check prefixLen + payloadLen == size",
						"a success return is not dominated by a check that the decoded prefix (width + payload length) matches the record size")
				}
			}
			// the payload slice starts at n
			okSlice := false
			ast.Inspect(ds.fn.Body, func(m ast.Node) bool {
				if se, ok := m.(*ast.SliceExpr); ok && se.Low != nil && core.ObjOf(di, se.Low) == ds.nObj && core.ObjOf(di, se.X) == ds.rec {
					okSlice = true
				}
				return true
			})
			r.Check(okSlice, rule, rd.Key+"#payload-starts-after-prefix", posP(r, rd.Pos()), "payload = record[prefixLen:]", "the payload is not sliced at the decoded prefix width")
		}
	}
	if rd2 := r.Anchor(rule, "gsfa/linkedlog.(*LinkedLog).Read"); rd2 != nil {
		info := rd2.Pkg.TypesInfo
		var nObj, plObj types.Object
		ast.Inspect(rd2.Body, func(m ast.Node) bool {
			if as, ok := m.(*ast.AssignStmt); ok && len(as.Rhs) == 1 && len(as.Lhs) == 2 {
				if c, ok := core.Unparen(as.Rhs[0]).(*ast.CallExpr); ok && core.CalleeName(info, c) == "encoding/binary.Uvarint" {
					plObj, nObj = core.ObjOf(info, as.Lhs[0]), core.ObjOf(info, as.Lhs[1])
				}
			}
			return true
		})
		for _, cs := range p.Calls(rd2) {
			if cs.Name == "gsfa/linkedlog.(*LinkedLog).ReadWithSize" && len(cs.Call.Args) == 2 {
				ok := nObj != nil && core.Mentions(info, cs.Call.Args[1], nObj) && core.Mentions(info, cs.Call.Args[1], plObj)
				r.Check(ok, rule, rd2.Key+"#passes-record-size", pos(r, cs.Call), "Read passes prefix width + payload length (the record size) to ReadWithSize",
					"Read passes the payload length where ReadWithSize expects the record size (prefix included)")
			}
		}
	}
	// the readers in package gsfa pass the stored Size field (record size written by callbackAfter)
	for _, k := range []string{"gsfa.(*GsfaReader).Get", "gsfa.(*GsfaReader).GetBeforeUntil", "gsfa.(*GsfaReaderMultiepoch).iterBeforeUntil", "gsfa.(*GsfaReaderMultiepoch).iterBeforeUntilSlot"} {
		f := r.Anchor(rule, k)
		if f == nil {
			continue
		}
		for _, cs := range p.Calls(f) {
			if cs.Name == "gsfa/linkedlog.(*LinkedLog).ReadWithSize" && len(cs.Call.Args) == 2 {
				a0, a1 := core.ExprStr(cs.Call.Args[0]), core.ExprStr(cs.Call.Args[1])
				ok := strings.HasSuffix(a0, ".Offset") && strings.HasSuffix(a1, ".Size") && strings.TrimSuffix(a0, ".Offset") == strings.TrimSuffix(a1, ".Size")
				r.Check(ok, rule, f.Key+"#reads(offset,size)-of-same-pointer", pos(r, cs.Call), "offset and size come from the same record pointer", "ReadWithSize is called with offset and size that do not come from the same pointer")
			}
		}
	}
}

func c06Drain(r *core.Report) {
	const rule = "C06.R1"
	p := r.Prog
	f := r.Anchor(rule, "gsfa.(*GsfaWriter).fullBufferWriter")
	if f == nil {
		return
	}
	info := f.Pkg.TypesInfo
	g := p.Graph(f)
	// received value and the container it is parked in
	var parks []*core.GNode
	var container types.Object
	var recvObj types.Object
	for _, n := range g.Nodes {
		if n.Kind == core.KStmt {
			if id, ok := n.Ast.(*ast.Ident); ok { // select case `buffer := <-ch`: go/cfg adds the Lhs ident as node
				if o := info.Defs[id]; o != nil {
					recvObj = o
				}
			}
		}
	}
	ast.Inspect(f.Body, func(n ast.Node) bool {
		if cc, ok := n.(*ast.CommClause); ok {
			if as, ok := cc.Comm.(*ast.AssignStmt); ok && len(as.Lhs) == 1 {
				if u, ok := core.Unparen(as.Rhs[0]).(*ast.UnaryExpr); ok && u.Op == token.ARROW && strings.Contains(core.ExprStr(u.X), "fullBufferWriterChan") {
					recvObj = core.ObjOf(info, as.Lhs[0])
				}
			}
		}
		return true
	})
	if recvObj == nil {
		r.Undecided(rule, f.Key+"#receive", posP(r, f.Pos()), "receive from fullBufferWriterChan not found")
		return
	}
	for _, n := range stmtNodes(g) {
		as, ok := n.Ast.(*ast.AssignStmt)
		if !ok || len(as.Rhs) != 1 {
			continue
		}
		if c, ok := core.Unparen(as.Rhs[0]).(*ast.CallExpr); ok && core.BuiltinName(info, c) == "append" && len(c.Args) == 2 && core.ObjOf(info, c.Args[1]) == recvObj {
			parks = append(parks, n)
			container = core.ObjOf(info, as.Lhs[0])
		}
	}
	var done *core.GNode
	for _, n := range stmtNodes(g) {
		if s, ok := n.Ast.(*ast.SendStmt); ok && strings.Contains(core.ExprStr(s.Chan), "fullBufferWriterDone") {
			done = n
		}
	}
	if done == nil {
		r.Undecided(rule, f.Key+"#done-send", posP(r, f.Pos()), "send on fullBufferWriterDone not found")
		return
	}
	if len(parks) == 0 || container == nil {
		// every received batch is flushed directly?
		direct := false
		for _, cs := range p.Calls(f) {
			if cs.Name == "gsfa.(*GsfaWriter).flushKVs" && core.Mentions(info, cs.Call, recvObj) {
				direct = true
			}
		}
		r.Check(direct, rule, f.Key+"#received-batch-flushed", posP(r, f.Pos()), "each received batch is flushed at once", "a received batch is neither flushed nor parked")
		return
	}
	// drain constructs: (a) a call of a local closure / function whose body ranges over the container and flushes,
	// (b) the exit edge of an inline range over the container whose body flushes
	origContainer := container
	var isDrainBodyFor func(body ast.Node, inf *types.Info, container types.Object) bool
	isDrainBody := func(body ast.Node, inf *types.Info) bool { return isDrainBodyFor(body, inf, origContainer) }
	isDrainBodyFor = func(body ast.Node, inf *types.Info, container types.Object) bool {
		ok := false
		// all parked batches handed to the flusher in one call: flushKVs(container...)
		for _, c := range core.CallsIn(body, true) {
			if core.CalleeName(inf, c) == "gsfa.(*GsfaWriter).flushKVs" && c.Ellipsis != token.NoPos && len(c.Args) == 1 && core.ObjOf(inf, c.Args[0]) == container {
				ok = true
			}
		}
		ast.Inspect(body, func(m ast.Node) bool {
			rs, isR := m.(*ast.RangeStmt)
			if !isR || core.ObjOf(inf, rs.X) != container {
				return true
			}
			for _, c := range core.CallsIn(rs.Body, true) {
				if core.CalleeName(inf, c) == "gsfa.(*GsfaWriter).flushKVs" {
					ok = true
				}
			}
			return true
		})
		return ok
	}
	drain := map[*core.GNode]bool{}
	for _, n := range g.Nodes {
		switch n.Kind {
		case core.KStmt:
			for _, c := range nodeCalls(n) {
				if v, ok := core.ObjOf(info, c.Fun).(*types.Var); ok {
					for _, t := range p.FuncValuesOf(v, f) {
						if t.Body != nil && isDrainBody(t.Body, t.Pkg.TypesInfo) {
							drain[n] = true
						}
					}
				}
				// (c) a method / function of the package that is handed the container and flushes every element of it
				if fo := core.Callee(info, c); fo != nil {
					if h := p.ByObj[fo.Origin()]; h != nil && h.Body != nil && h.Pkg == f.Pkg {
						for ai, a := range c.Args {
							if core.ObjOf(info, a) == origContainer && h.ParamObj(ai) != nil && isDrainBodyFor(h.Body, h.Pkg.TypesInfo, h.ParamObj(ai)) {
								drain[n] = true
							}
						}
					}
				}
			}
		case core.KEdge:
			if !n.Truth && n.Loop != nil {
				if rs, ok := n.Loop.(*ast.RangeStmt); ok && core.ObjOf(info, rs.X) == container && isDrainBody(rs, info) {
					drain[n] = true
				}
			}
		}
	}
	for i, pk := range parks {
		path := g.PathAvoiding(pk, func(x *core.GNode) bool { return x == done }, func(x *core.GNode) bool { return drain[x] })
		r.Check(path == nil, rule, fmt.Sprintf("%s#park@%d-drained-before-done", f.Key, i), pos(r, pk.Ast),
			"every path from parking a batch to the completion signal flushes the parked batches",
			"a batch parked in "+container.Name()+" can still be unwritten when the background writer signals completion: the batches parked at exit are dropped and the address loses those transactions", g.PathStrings(path)...)
	}
	// the container must be created empty
	n := 0
	ast.Inspect(f.Body, func(m ast.Node) bool {
		as, ok := m.(*ast.AssignStmt)
		if !ok || len(as.Rhs) != 1 || len(as.Lhs) != 1 || core.ObjOf(info, as.Lhs[0]) != container {
			return true
		}
		c, ok := core.Unparen(as.Rhs[0]).(*ast.CallExpr)
		if ok && core.BuiltinName(info, c) != "make" {
			// a constructor of the package that returns the made slice: newParkedBuffers()
			if fo := core.Callee(info, c); fo != nil {
				if h := p.ByObj[fo.Origin()]; h != nil && h.Body != nil && len(h.Body.List) == 1 {
					if rt, isRet := h.Body.List[0].(*ast.ReturnStmt); isRet && len(rt.Results) == 1 {
						if mc, isC := core.Unparen(rt.Results[0]).(*ast.CallExpr); isC && core.BuiltinName(h.Pkg.TypesInfo, mc) == "make" {
							c = mc
						}
					}
				}
			}
		}
		if !ok || core.BuiltinName(info, c) != "make" || len(c.Args) < 2 {
			return true
		}
		n++
		l, isConst := core.ConstInt(info, c.Args[1])
		r.Check(isConst && l == 0, rule, fmt.Sprintf("%s#container-created-empty@%d", f.Key, n), pos(r, as),
			"the parking slice is created with length 0", "the parking slice is created with a non-zero length and then filled with append: its `len == capacity` flush test is true only for the first batch and later batches stay parked")
		return true
	})
}

func c06CloseOrder(r *core.Report) {
	const rule = "C06.R2"
	p := r.Prog
	f := r.Anchor(rule, "gsfa.(*GsfaWriter).Close")
	if f == nil {
		return
	}
	info := f.Pkg.TypesInfo
	g := p.Graph(f)
	var recv, flush, store *core.GNode
	for _, n := range stmtNodes(g) {
		ast.Inspect(n.Ast, func(m ast.Node) bool {
			switch x := m.(type) {
			case *ast.UnaryExpr:
				if x.Op == token.ARROW && strings.Contains(core.ExprStr(x.X), "fullBufferWriterDone") {
					recv = n
				}
			case *ast.CallExpr:
				nm := core.CalleeName(info, x)
				if nm == "gsfa.(*GsfaWriter).flushAccum" {
					flush = n
				}
				if strings.HasSuffix(nm, ".Store") && strings.Contains(core.ExprStr(x.Fun), "exiting") {
					store = n
				}
			}
			return true
		})
	}
	if recv == nil || flush == nil {
		r.Undecided(rule, f.Key+"#shape", posP(r, f.Pos()), "receive from fullBufferWriterDone or final flushAccum not found")
		return
	}
	r.Check(g.Dominates(recv, flush), rule, f.Key+"#wait-before-final-flush", pos(r, flush.Ast), "the background writer has finished before the accumulator is flushed",
		"Close flushes the accumulator before the background writer has finished: the newest partial batch of an address is linked before its older full batches (wrong order, and the older batches become the head of the list)")
	r.Check(store != nil && g.Dominates(store, recv), rule, f.Key+"#exit-flag-before-wait", pos(r, recv.Ast), "the exit flag is set before waiting for the writer", "Close waits for the background writer without (or before) telling it to exit")
}

func c06Reverse(r *core.Report) {
	const rule = "C06.R3"
	p := r.Prog
	f := r.Anchor(rule, "gsfa/linkedlog.(*LinkedLog).Put")
	if f == nil {
		return
	}
	found := false
	for _, fn := range pkgScope(p, f, 2) {
		info := fn.Pkg.TypesInfo
		for _, cs := range p.Calls(fn) {
			if cs.Name != "gsfa/linkedlog.createIndexesPayload" || len(cs.Call.Args) != 1 {
				continue
			}
			found = true
			arg := core.ExprStr(cs.Call.Args[0])
			// a slices.Reverse of the same expression earlier in the enclosing function chain, in the same loop iteration
			ok := false
			for x := fn; x != nil; x = x.Parent {
				for _, c2 := range p.Calls(x) {
					if strings.HasPrefix(c2.Name, "slices.Reverse") && len(c2.Call.Args) == 1 && core.ExprStr(c2.Call.Args[0]) == arg && c2.Call.Pos() < cs.Call.Pos() {
						gx := p.Graph(x)
						rn := gx.NodeOf(c2.Call.Pos())
						var un *core.GNode
						if x == fn {
							un = gx.NodeOf(cs.Call.Pos())
						} else {
							un = gx.NodeOf(fn.Lit.Pos())
						}
						if rn != nil && un != nil && gx.Dominates(rn, un) {
							ok = true
						}
					}
				}
			}
			// the serialising code sits in a helper that receives the batch as a parameter (s.putRecord(.., val)): the
			// reversal is looked for at the helper's call sites, on the argument
			if rid := rootIdent(cs.Call.Args[0]); !ok && rid != nil && fn.Lit == nil {
				pi := -1
				for i := 0; fn.ParamObj(i) != nil; i++ {
					if types.Object(fn.ParamObj(i)) == info.Uses[rid] {
						pi = i
					}
				}
				suffix := strings.TrimPrefix(arg, rid.Name)
				nSites, nOK := 0, 0
				for _, caller := range pkgScope(p, f, 2) {
					for _, c3 := range p.Calls(caller) {
						if pi < 0 || c3.Callee == nil || p.ByObj[c3.Callee.Origin()] != fn || pi >= len(c3.Call.Args) {
							continue
						}
						nSites++
						want := core.ExprStr(c3.Call.Args[pi]) + suffix
						gx := p.Graph(caller)
						un := gx.NodeOf(c3.Call.Pos())
						for _, c2 := range p.Calls(caller) {
							if strings.HasPrefix(c2.Name, "slices.Reverse") && len(c2.Call.Args) == 1 && core.ExprStr(c2.Call.Args[0]) == want {
								if rn := gx.NodeOf(c2.Call.Pos()); rn != nil && un != nil && gx.Dominates(rn, un) {
									nOK++
									break
								}
							}
						}
					}
				}
				ok = nSites > 0 && nOK == nSites
			}
			r.Check(ok, rule, f.Key+"#reverse-before-serialise", pos(r, cs.Call), "the batch is reversed (newest first) before being serialised",
				"the batch is serialised in push order: entries inside a record come out oldest first")
		}
	}
	if !found {
		r.Undecided(rule, f.Key+"#serialise", posP(r, f.Pos()), "createIndexesPayload call not found")
	}
}

func c06Handoff(r *core.Report) {
	const rule = "C06.R4"
	p := r.Prog
	f := r.Anchor(rule, "gsfa.(*GsfaWriter).Push")
	if f == nil {
		return
	}
	info := f.Pkg.TypesInfo
	n := 0
	// Push, its closures and the helpers of the package it calls (the hand-off may live in a helper)
	for _, fn := range pkgScope(p, f, 2) {
		fn := fn
		if fn.Body == nil {
			continue
		}
		ast.Inspect(fn.Body, func(m ast.Node) bool {
			if _, isLit := m.(*ast.FuncLit); isLit {
				return false
			}
			s, ok := m.(*ast.SendStmt)
			if !ok || !strings.Contains(core.ExprStr(s.Chan), "fullBufferWriterChan") {
				return true
			}
			n++
			val := structFieldExpr(fn, s.Value, "Values")
			if val == nil {
				r.Undecided(rule, fmt.Sprintf("%s#send@%d", f.Key, n), pos(r, s), "sent value is not a composite literal (or a local holding one) with a Values field")
				return true
			}
			fresh := false
			if c, ok := core.Unparen(val).(*ast.CallExpr); ok {
				if fnc := core.Callee(info, c); fnc != nil {
					if t := p.ByObj[fnc]; t != nil && allocatesCopy(t) {
						fresh = true
					}
				}
				if nm := core.CalleeName(info, c); nm == "slices.Clone" || nm == "bytes.Clone" {
					fresh = true
				}
			}
			r.Check(fresh, rule, fmt.Sprintf("%s#send@%d-values-copied", f.Key, n), pos(r, val), "the batch handed to the background writer is a fresh copy",
				"the batch handed to the background goroutine aliases the accumulator slice, which is cleared/reused by Push afterwards")
			return true
		})
	}
	if n == 0 {
		r.Undecided(rule, f.Key+"#send", posP(r, f.Pos()), "send on fullBufferWriterChan not found")
	}
}

// structFieldExpr: the expression given to `field` in a keyed struct literal e, or in the literal a local e was
// assigned exactly once (and never modified field-wise).
func structFieldExpr(fn *core.Func, e ast.Expr, field string) ast.Expr {
	e = core.Unparen(e)
	if cl, ok := e.(*ast.CompositeLit); ok {
		for _, el := range cl.Elts {
			if kv, ok := el.(*ast.KeyValueExpr); ok && core.ExprStr(kv.Key) == field {
				return kv.Value
			}
		}
		return nil
	}
	if id, ok := e.(*ast.Ident); ok {
		if v, isVar := fn.Pkg.TypesInfo.Uses[id].(*types.Var); isVar && !v.IsField() {
			return core.LiteralFieldOf(fn, v, field)
		}
	}
	return nil
}

// allocatesCopy: the function makes a new slice and copies its argument into it (clone helper).
func allocatesCopy(f *core.Func) bool {
	if f.Body == nil {
		return false
	}
	info := f.Pkg.TypesInfo
	mk, cp := false, false
	for _, c := range core.CallsIn(f.Body, false) {
		switch core.BuiltinName(info, c) {
		case "make":
			mk = true
		case "copy", "append":
			cp = true
		}
	}
	return mk && cp
}

// c06PartialFlushGuard (C06.R5): Push's synchronous partial flush writes a short batch straight to the linked log,
// overtaking whatever the background writer still has parked for the same address. The code prevents the overtaking by
// (a) flushing directly only keys that are not in the rank of addresses that ever filled a batch and (b) ranking an
// address every time a full batch of it is handed to the background writer. Both halves are structural.
func c06PartialFlushGuard(r *core.Report) {
	const rule = "C06.R5"
	f := r.Anchor(rule, "gsfa.(*GsfaWriter).Push")
	if f == nil {
		return
	}
	info := f.Pkg.TypesInfo
	var cur *core.Func
	keyOfLit := func(e ast.Expr) types.Object {
		if kx := structFieldExpr(cur, e, "Key"); kx != nil {
			return core.ObjOf(info, kx)
		}
		return nil
	}
	nDirect, nSend := 0, 0
	// Push, its closures and the helpers of the package it calls (the partial flush may live in a helper)
	var scope []*core.Func
	for _, fn := range pkgScope(r.Prog, f, 2) {
		if fn.Root().Key != "gsfa.(*GsfaWriter).flushKVs" {
			scope = append(scope, fn)
		}
	}
	for _, fn := range scope {
		g := r.Prog.Graph(fn)
		cur = fn
		for _, n := range stmtNodes(g) {
			// (a) direct flushes
			ast.Inspect(n.Ast, func(m ast.Node) bool {
				if _, isLit := m.(*ast.FuncLit); isLit {
					return false
				}
				c, ok := m.(*ast.CallExpr)
				if !ok || core.CalleeName(info, c) != "gsfa.(*GsfaWriter).flushKVs" {
					return true
				}
				nDirect++
				k := fmt.Sprintf("%s#direct-flush@%d-guarded-by-rank", f.Key, nDirect)
				var key types.Object
				if len(c.Args) > 0 {
					key = keyOfLit(c.Args[0])
				}
				if key == nil {
					r.Undecided(rule, k, pos(r, c), "key of the directly flushed batch not identified")
					return true
				}
				ok = false
				for _, fc := range g.FactsAt(n) {
					if fc.Tag != nil || fc.Truth {
						continue
					}
					hc, isCall := core.Unparen(fc.Expr).(*ast.CallExpr)
					if isCall && core.CalleeName(info, hc) == "gsfa.(*rollingRankOfTopPerformers).has" && len(hc.Args) == 1 && core.ObjOf(info, hc.Args[0]) == key && g.FactFresh(fc, n) {
						ok = true
					}
				}
				r.Check(ok, rule, k, pos(r, c), "the synchronous partial flush is taken only for addresses that are not ranked (never filled a batch)",
					"the synchronous partial flush is not guarded by !popRank.has(key): a short newer batch can be linked before an older full batch still parked in the background writer, breaking newest-first order")
				return true
			})
			// (b) hand-offs
			s, ok := n.Ast.(*ast.SendStmt)
			if !ok || !strings.Contains(core.ExprStr(s.Chan), "fullBufferWriterChan") {
				continue
			}
			nSend++
			k := fmt.Sprintf("%s#send@%d-ranked-before-handoff", f.Key, nSend)
			key := keyOfLit(s.Value)
			if key == nil {
				r.Undecided(rule, k, pos(r, s), "key of the handed-off batch not identified")
				continue
			}
			incr := map[*core.GNode]bool{}
			for _, m := range stmtNodes(g) {
				es, ok := m.Ast.(*ast.ExprStmt)
				if !ok {
					continue
				}
				if c, ok := es.X.(*ast.CallExpr); ok && core.CalleeName(info, c) == "gsfa.(*rollingRankOfTopPerformers).Incr" && len(c.Args) >= 1 && core.ObjOf(info, c.Args[0]) == key {
					incr[m] = true
				}
			}
			dom := false
			for m := range incr {
				if g.Dominates(m, n) {
					dom = true
				}
			}
			if !dom {
				// or post-dominated within the same iteration: every path from the send to the loop head / exit passes Incr
				dom = len(incr) > 0 && g.PathAvoiding(n, func(x *core.GNode) bool { return x.Kind == core.KExit || x == n }, func(x *core.GNode) bool { return incr[x] }) == nil && !g.Reach(n, func(x *core.GNode) bool { return incr[x] })[n]
			}
			r.Check(dom, rule, k, pos(r, s), "an address is ranked whenever a full batch of it is handed to the background writer",
				"a full batch is handed to the background writer without ranking its address (popRank.Incr): a later partial flush of that address can overtake the parked batch")
		}
	}
	if nDirect == 0 {
		r.Note("C06.R5: Push performs no synchronous flush")
	}
	if nSend == 0 {
		r.Undecided(rule, f.Key+"#send", posP(r, f.Pos()), "send on fullBufferWriterChan not found")
	}
}

// c06OneBatchPerKeyPerPut (C06.R6): LinkedLog.Put orders the batches it is given by address with an unstable sort, so two
// batches of one address in the same call may be linked in either order. Every caller therefore passes batches one at a
// time, or accumulates them in a slice that provably never holds two batches of one address (a Has(key) test that
// flushes before parking), unless Put's sort is stable.
func c06OneBatchPerKeyPerPut(r *core.Report) {
	const rule = "C06.R6"
	p := r.Prog
	put := r.Anchor(rule, "gsfa/linkedlog.(*LinkedLog).Put")
	if put == nil {
		return
	}
	pinfo := put.Pkg.TypesInfo
	stable := true
	for _, c := range core.CallsIn(put.Body, false) {
		switch core.CalleeName(pinfo, c) {
		case "sort.Slice", "sort.Sort", "slices.SortFunc", "slices.Sort":
			stable = false
		}
	}
	if stable {
		r.OK(rule, put.Key+"#keeps-relative-order", posP(r, put.Pos()), "Put keeps the relative order of batches with equal keys (stable or no sort)")
		return
	}
	r.OK(rule, put.Key+"#unstable-sort-noted", posP(r, put.Pos()), "Put sorts its batches by key with an unstable sort: callers are checked for key-uniqueness per call")
	n := 0
	for _, f := range p.FuncsInPkg("gsfa") {
		if f.Body == nil || strings.HasSuffix(p.FileOf(f.Pos()), "_test.go") {
			continue
		}
		for _, w := range f.AllWithLits() {
			info := w.Pkg.TypesInfo
			for _, c := range core.CallsIn(w.Body, false) {
				nm := core.CalleeName(info, c)
				first := 0
				switch nm {
				case "gsfa.(*GsfaWriter).flushKVs":
				case "gsfa/linkedlog.(*LinkedLog).Put":
					first = 2
				default:
					continue
				}
				if w.Key == "gsfa.(*GsfaWriter).flushKVs" && nm == "gsfa/linkedlog.(*LinkedLog).Put" {
					continue // the forwarding wrapper; its callers are checked
				}
				n++
				k := fmt.Sprintf("%s#call:%s@%d", f.Key, nm[strings.LastIndex(nm, ".")+1:], n)
				args := c.Args[first:]
				if c.Ellipsis == token.NoPos {
					r.Check(len(args) <= 1, rule, k, pos(r, c), "one batch per call", "several batches are passed in one call and nothing shows that their addresses differ")
					continue
				}
				s := core.ObjOf(info, args[len(args)-1])
				if s == nil {
					r.Undecided(rule, k, pos(r, c), "spread argument is not a variable")
					continue
				}
				ok, why := keyUniqueAccumulation(p, f.Root(), s)
				r.Check(ok, rule, k, pos(r, c), "the spread slice never holds two batches of one address (a Has(key) test flushes before parking)",
					"all parked batches are handed to one Put call, which sorts them by address with an unstable sort, and "+why+": two full batches of one address can be linked in the wrong order (newest-first order broken)")
			}
		}
	}
	if n == 0 {
		r.Undecided(rule, "gsfa#put-callers", "", "no caller of flushKVs / Put found")
	}
}

// keyUniqueAccumulation: every `s = append(s, b)` in root (and its literals) comes after an if whose condition has
// `s.Has(b.Key)` (or a variable holding it) as a disjunct and whose body empties s (directly or through a local closure).
func keyUniqueAccumulation(p *core.Prog, root *core.Func, s types.Object) (bool, string) {
	nApp := 0
	for _, w := range root.AllWithLits() {
		info := w.Pkg.TypesInfo
		var fail string
		ast.Inspect(w.Body, func(n ast.Node) bool {
			if _, isLit := n.(*ast.FuncLit); isLit && n != ast.Node(w.Lit) {
				return false
			}
			blk, ok := n.(*ast.BlockStmt)
			if !ok {
				return true
			}
			for i, st := range blk.List {
				as, ok := st.(*ast.AssignStmt)
				if !ok || len(as.Lhs) != 1 || len(as.Rhs) != 1 || core.ObjOf(info, as.Lhs[0]) != s {
					continue
				}
				c, ok := core.Unparen(as.Rhs[0]).(*ast.CallExpr)
				if !ok || core.BuiltinName(info, c) != "append" || len(c.Args) != 2 {
					continue
				}
				nApp++
				b := core.ObjOf(info, c.Args[1])
				guarded := false
				for j := i - 1; j >= 0 && !guarded; j-- {
					is, ok := blk.List[j].(*ast.IfStmt)
					if !ok {
						continue
					}
					if hasKeyDisjunct(info, blk, is.Cond, s, b) && emptiesSlice(p, root, is.Body, s) {
						guarded = true
					}
				}
				if !guarded {
					fail = "the batch is parked without testing whether a batch of the same address is already parked"
				}
			}
			return true
		})
		if fail != "" {
			return false, fail
		}
	}
	if nApp == 0 {
		return false, "the accumulation of the spread slice was not found"
	}
	return true, ""
}

func hasKeyDisjunct(info *types.Info, blk *ast.BlockStmt, cond ast.Expr, s, b types.Object) bool {
	var disj func(e ast.Expr) []ast.Expr
	disj = func(e ast.Expr) []ast.Expr {
		e = core.Unparen(e)
		if be, ok := e.(*ast.BinaryExpr); ok && be.Op == token.LOR {
			return append(disj(be.X), disj(be.Y)...)
		}
		return []ast.Expr{e}
	}
	isHas := func(e ast.Expr) bool {
		c, ok := core.Unparen(e).(*ast.CallExpr)
		if !ok || len(c.Args) != 1 {
			return false
		}
		sel, ok := core.Unparen(c.Fun).(*ast.SelectorExpr)
		if !ok || sel.Sel.Name != "Has" || core.ObjOf(info, sel.X) != s {
			return false
		}
		ks, ok := core.Unparen(c.Args[0]).(*ast.SelectorExpr)
		return ok && ks.Sel.Name == "Key" && core.ObjOf(info, ks.X) == b
	}
	for _, d := range disj(cond) {
		if isHas(d) {
			return true
		}
		if id, ok := d.(*ast.Ident); ok {
			o := info.Uses[id]
			for _, st := range blk.List {
				if as, ok := st.(*ast.AssignStmt); ok && len(as.Lhs) == 1 && len(as.Rhs) == 1 {
					if lid, ok := as.Lhs[0].(*ast.Ident); ok && (info.Defs[lid] == o || info.Uses[lid] == o) && isHas(as.Rhs[0]) {
						return true
					}
				}
			}
		}
	}
	return false
}

// emptiesSlice: the block assigns a fresh/empty value to s, or calls a local closure whose body does.
func emptiesSlice(p *core.Prog, root *core.Func, body ast.Node, s types.Object) bool {
	info := root.Pkg.TypesInfo
	direct := func(n ast.Node) bool {
		found := false
		ast.Inspect(n, func(m ast.Node) bool {
			as, ok := m.(*ast.AssignStmt)
			if !ok || len(as.Lhs) != 1 || len(as.Rhs) != 1 || core.ObjOf(info, as.Lhs[0]) != s {
				return true
			}
			switch x := core.Unparen(as.Rhs[0]).(type) {
			case *ast.CallExpr:
				if core.BuiltinName(info, x) == "make" {
					found = true
				}
			case *ast.SliceExpr:
				if x.High != nil {
					if v, ok := core.ConstInt(info, x.High); ok && v == 0 {
						found = true
					}
				}
			case *ast.Ident:
				if x.Name == "nil" {
					found = true
				}
			}
			return true
		})
		return found
	}
	if direct(body) {
		return true
	}
	ok := false
	ast.Inspect(body, func(m ast.Node) bool {
		c, isC := m.(*ast.CallExpr)
		if !isC {
			return true
		}
		id, isId := core.Unparen(c.Fun).(*ast.Ident)
		if !isId {
			return true
		}
		for _, l := range root.AllWithLits() {
			if l.Lit != nil && closureName(root, l) == id.Name && direct(l.Body) {
				ok = true
			}
		}
		return true
	})
	return ok
}

// c06AppendLayout decides the writer half of C06.R0 on the evaluated layout (reclayout.go) of the buffer that is handed
// to (*LinkedLog).write, wherever in Put, its closures or the helpers it calls the record is built. It returns false when
// the record is not built by appending (the positional shape is judged by the caller).
func c06AppendLayout(r *core.Report, put *core.Func) bool {
	const rule = "C06.R0"
	p := r.Prog
	scope := pkgScope(p, put, 2)
	var wfn *core.Func
	var bufObj, written types.Object
	var wcall *ast.CallExpr
	nWrites := 0
	for _, fn := range scope {
		info := fn.Pkg.TypesInfo
		ast.Inspect(fn.Body, func(n ast.Node) bool {
			if _, isLit := n.(*ast.FuncLit); isLit {
				return false
			}
			as, ok := n.(*ast.AssignStmt)
			if !ok || len(as.Rhs) != 1 || len(as.Lhs) != 3 {
				return true
			}
			if c, ok := core.Unparen(as.Rhs[0]).(*ast.CallExpr); ok && core.CalleeName(info, c) == "gsfa/linkedlog.(*LinkedLog).write" && len(c.Args) == 1 {
				nWrites++
				wfn, wcall = fn, c
				bufObj, written = core.ObjOf(info, c.Args[0]), core.ObjOf(info, as.Lhs[1])
			}
			return true
		})
	}
	// the record may be assembled by a helper that returns it: s.write(assembleRecord(payload, pointer))
	lfn := wfn
	if nWrites == 1 && bufObj == nil && wcall != nil {
		if hc, ok := core.Unparen(wcall.Args[0]).(*ast.CallExpr); ok {
			if fo := core.Callee(wfn.Pkg.TypesInfo, hc); fo != nil {
				if h := p.ByObj[fo.Origin()]; h != nil && h.Body != nil && h.Pkg == wfn.Pkg {
					var ret types.Object
					nRet := 0
					ast.Inspect(h.Body, func(n ast.Node) bool {
						if _, isLit := n.(*ast.FuncLit); isLit {
							return false
						}
						if rs, ok := n.(*ast.ReturnStmt); ok {
							nRet++
							if len(rs.Results) == 1 {
								ret = core.ObjOf(h.Pkg.TypesInfo, rs.Results[0])
							}
						}
						return true
					})
					if nRet == 1 && ret != nil {
						lfn, bufObj = h, ret
					}
				}
			}
		}
	}
	if nWrites != 1 || bufObj == nil || written == nil {
		return false
	}
	segs, appendBuilt, why := bufferLayout(p, lfn, bufObj)
	if !appendBuilt {
		return false
	}
	if why != "" {
		r.Undecided(rule, put.Key+"#writer-shape", pos(r, wcall), "the layout of the record handed to write could not be evaluated: "+why)
		return true
	}
	info := wfn.Pkg.TypesInfo
	first := len(segs) > 0 && segs[0].uvar
	r.Check(first, rule, put.Key+"#record-starts-with-prefix", posP(r, put.Pos()), "the written record starts with the encoded prefix: "+segsString(segs), "the record written to the log does not start with the encoded length prefix: "+segsString(segs))
	if first {
		rest := sizePoly{terms: map[types.Object]int64{}}
		onlyBytes := true
		for _, sg := range segs[1:] {
			if sg.uvar {
				onlyBytes = false
			}
			rest = rest.add(sg.val)
		}
		r.Check(onlyBytes && segs[0].val.equal(rest), rule, put.Key+"#payload-length-excludes-prefix", pos(r, wcall),
			"uvarint(P) with P = the number of bytes that follow the prefix ("+rest.String()+")",
			"the length prefix encodes "+segs[0].val.String()+" but "+rest.String()+" bytes follow it ("+segsString(segs)+"): the reader's framing check fails or it mis-frames the record")
	}
	// the reader takes the pointer to the previous record from the last bytes of the record: the fixed-size segment comes last
	if first && len(segs) >= 3 {
		last := segs[len(segs)-1]
		isFixed := func(sg recSeg) bool { return !sg.uvar && len(sg.val.terms) == 0 && sg.val.c > 0 }
		varBefore := false
		for _, sg := range segs[1 : len(segs)-1] {
			if !isFixed(sg) {
				varBefore = true
			}
		}
		r.Check(isFixed(last) && varBefore, rule, put.Key+"#pointer-is-the-last-segment", pos(r, wcall), "the record ends with the fixed-size pointer to the previous record: "+segsString(segs),
			"the record does not end with the fixed-size pointer to the previous record ("+segsString(segs)+"): the reader takes the last bytes of a record as that pointer and follows payload bytes instead")
	}
	// the size handed to the after-callback is the byte count write reported for the whole record
	afterArgOK, nAfter := false, 0
	for _, c := range core.CallsIn(wfn.Body, false) {
		v, isV := core.ObjOf(info, c.Fun).(*types.Var)
		if !isV || len(c.Args) != 3 {
			continue
		}
		if _, isSig := v.Type().Underlying().(*types.Signature); !isSig {
			continue
		}
		nAfter++
		afterArgOK = core.ObjOf(info, stripConvs(info, c.Args[2])) == written
	}
	r.Check(afterArgOK && nAfter == 1, rule, put.Key+"#reported-size-is-record-size", posP(r, put.Pos()), "callbackAfter receives the byte count of the whole record (prefix included)", "the size reported for the record is not the number of bytes written for it")
	return true
}

// pkgScope returns f, its literals and the functions of the same package they call statically (with their literals), up to
// the given call depth: the places a piece of f's work may have been moved to by extracting a helper.
func pkgScope(p *core.Prog, f *core.Func, maxDepth int) []*core.Func {
	var scope []*core.Func
	seen := map[*core.Func]bool{}
	var add func(f *core.Func, depth int)
	add = func(g *core.Func, depth int) {
		for _, fn := range g.AllWithLits() {
			if seen[fn] {
				continue
			}
			seen[fn] = true
			scope = append(scope, fn)
			if depth >= maxDepth {
				continue
			}
			for _, cs := range p.Calls(fn) {
				for _, t := range cs.Targets {
					if t.Pkg == f.Pkg && t.Body != nil && !cs.Dynamic {
						add(t, depth+1)
					}
				}
			}
		}
	}
	add(f, 0)
	return scope
}

// recordFramingChecked: every success return of fn is reached only after the uvarint prefix of the record rec (a local or
// parameter of fn holding the whole record) was decoded and `width + payload length == len(rec)` was checked, with the
// payload taken at rec[width:] - in fn itself, or in a helper that fn hands rec to (checked error, or tail call).
// Returns the key of the function that decodes ("" when none was found).
func recordFramingChecked(p *core.Prog, fn *core.Func, rec types.Object, depth int) (bool, string) {
	if depth > 3 || fn.Body == nil {
		return false, ""
	}
	info := fn.Pkg.TypesInfo
	g := p.Graph(fn)
	// decode in fn itself
	var nObj, plObj types.Object
	for _, n := range stmtNodes(g) {
		as, ok := n.Ast.(*ast.AssignStmt)
		if !ok || len(as.Rhs) != 1 || len(as.Lhs) != 2 {
			continue
		}
		if c, ok := core.Unparen(as.Rhs[0]).(*ast.CallExpr); ok && core.CalleeName(info, c) == "encoding/binary.Uvarint" && len(c.Args) == 1 && core.ObjOf(info, c.Args[0]) == rec {
			plObj, nObj = core.ObjOf(info, as.Lhs[0]), core.ObjOf(info, as.Lhs[1])
		}
	}
	if nObj != nil {
		// size references: len(rec) or locals defined from it
		sizeObjs := map[types.Object]bool{}
		isSizeRef := func(e ast.Expr) bool {
			found := false
			ast.Inspect(e, func(m ast.Node) bool {
				switch x := m.(type) {
				case *ast.Ident:
					if o := info.Uses[x]; o != nil && sizeObjs[o] {
						found = true
					}
				case *ast.CallExpr:
					if core.BuiltinName(info, x) == "len" && len(x.Args) == 1 && core.ObjOf(info, x.Args[0]) == rec {
						found = true
					}
				}
				return true
			})
			return found
		}
		ast.Inspect(fn.Body, func(m ast.Node) bool {
			if as, ok := m.(*ast.AssignStmt); ok && len(as.Lhs) == len(as.Rhs) {
				for i, l := range as.Lhs {
					if o := core.ObjOf(info, l); o != nil && singleDef(fn, o) != nil && isSizeRef(as.Rhs[i]) {
						if _, isBin := stripConvs(info, as.Rhs[i]).(*ast.BinaryExpr); !isBin {
							sizeObjs[o] = true
						}
					}
				}
			}
			return true
		})
		all, nret := true, 0
		for _, rn := range g.Returns() {
			if definitelyErrorReturn(g, fn, rn) {
				continue
			}
			nret++
			okR := false
			for _, fc := range g.FactsAt(rn) {
				be, isB := core.Unparen(fc.Expr).(*ast.BinaryExpr)
				if fc.Tag != nil || !isB || !((be.Op == token.NEQ && !fc.Truth) || (be.Op == token.EQL && fc.Truth)) {
					continue
				}
				if core.Mentions(info, fc.Expr, nObj) && core.Mentions(info, fc.Expr, plObj) && isSizeRef(fc.Expr) {
					okR = true
				}
			}
			all = all && okR
		}
		okSlice := false
		ast.Inspect(fn.Body, func(m ast.Node) bool {
			if se, ok := m.(*ast.SliceExpr); ok && se.Low != nil && core.ObjOf(info, se.Low) == nObj && core.ObjOf(info, se.X) == rec {
				okSlice = true
			}
			return true
		})
		return all && nret > 0 && okSlice, fn.Key
	}
	// delegated: every success return is dominated by the nil error of a helper that gets rec, or is a tail call to one
	where := ""
	checked := func(c *ast.CallExpr) bool {
		fo := core.Callee(info, c)
		if fo == nil {
			return false
		}
		h := p.ByObj[fo.Origin()]
		if h == nil || h.Body == nil {
			return false
		}
		for ai, a := range c.Args {
			if core.ObjOf(info, a) == rec && h.ParamObj(ai) != nil {
				if ok, w := recordFramingChecked(p, h, h.ParamObj(ai), depth+1); w != "" {
					where = w
					return ok
				}
			}
		}
		return false
	}
	all, nret := true, 0
	for _, rn := range g.Returns() {
		if definitelyErrorReturn(g, fn, rn) {
			continue
		}
		nret++
		okR := false
		if res := returnResults(rn); len(res) == 1 {
			if c, isC := core.Unparen(res[0]).(*ast.CallExpr); isC && checked(c) {
				okR = true
			}
		}
		if !okR {
			for _, fc := range g.FactsAt(rn) {
				x, isNil, isCmp := core.NilCompare(info, fc.Expr)
				if !isCmp || isNil != fc.Truth || fc.Edge == nil {
					continue
				}
				eo := core.ObjOf(info, x)
				if eo == nil || !core.IsErrorType(eo.Type()) {
					continue
				}
				for _, dn := range stmtNodes(g) {
					as, isAs := dn.Ast.(*ast.AssignStmt)
					if !isAs || len(as.Rhs) != 1 || core.ObjOf(info, as.Lhs[len(as.Lhs)-1]) != eo || !g.Dominates(dn, fc.Edge) {
						continue
					}
					if c, isC := core.Unparen(as.Rhs[0]).(*ast.CallExpr); isC && checked(c) {
						okR = true
					}
				}
			}
		}
		all = all && okR
	}
	return all && nret > 0, where
}
