package rules

import (
	"go/constant"
	"encoding/json"
	"fmt"
	"go/ast"
	"go/token"
	"go/types"
	"os"
	"path/filepath"
	"regexp"
	"sort"
	"strings"

	"yfverif/checker/internal/core"
)

func init() { register("C13", C13) }

// readCall describes a call that fills a buffer and reports (count, error).
type readCall struct {
	Call   *ast.CallExpr
	Buf    ast.Expr
	Kind   string // Read | ReadAt | ReadFull
	N, Err types.Object
	Node   *core.GNode
}

// findReadCalls lists the buffer-filling read calls of f (own body).
func findReadCalls(p *core.Prog, f *core.Func) []readCall {
	info := f.Pkg.TypesInfo
	g := p.Graph(f)
	var out []readCall
	for _, n := range stmtNodes(g) {
		var lhs []ast.Expr
		var call *ast.CallExpr
		switch s := n.Ast.(type) {
		case *ast.AssignStmt:
			if len(s.Rhs) == 1 {
				call, _ = core.Unparen(s.Rhs[0]).(*ast.CallExpr)
				lhs = s.Lhs
			}
		case *ast.ExprStmt:
			call, _ = core.Unparen(s.X).(*ast.CallExpr)
		case *ast.ReturnStmt:
			if len(s.Results) == 1 {
				call, _ = core.Unparen(s.Results[0]).(*ast.CallExpr)
			}
		}
		if call == nil {
			continue
		}
		nm := core.CalleeName(info, call)
		rc := readCall{Call: call, Node: n}
		switch {
		case nm == "io.ReadFull" && len(call.Args) == 2:
			rc.Kind, rc.Buf = "ReadFull", call.Args[1]
		case nm == "io.ReadAtLeast" && len(call.Args) == 3:
			rc.Kind, rc.Buf = "ReadFull", call.Args[1]
		case strings.HasSuffix(nm, ").ReadAt") && len(call.Args) == 2 && isByteSlice(info.TypeOf(call.Args[0])):
			rc.Kind, rc.Buf = "ReadAt", call.Args[0]
		case strings.HasSuffix(nm, ").Read") && len(call.Args) == 1 && isByteSlice(info.TypeOf(call.Args[0])) && !strings.Contains(nm, "rand"):
			rc.Kind, rc.Buf = "Read", call.Args[0]
		default:
			continue
		}
		if sig, ok := info.TypeOf(call.Fun).(*types.Signature); !ok || sig.Results().Len() != 2 {
			continue
		}
		if len(lhs) == 2 {
			rc.N = core.ObjOf(info, lhs[0])
			rc.Err = core.ObjOf(info, lhs[1])
		}
		if _, isRet := n.Ast.(*ast.ReturnStmt); isRet {
			continue // forwards (n, err) to the caller unchanged
		}
		out = append(out, rc)
	}
	return out
}

func isByteSlice(t types.Type) bool {
	if t == nil {
		return false
	}
	s, ok := t.Underlying().(*types.Slice)
	if !ok {
		return false
	}
	b, ok := s.Elem().Underlying().(*types.Basic)
	return ok && b.Kind() == types.Uint8
}

// allOrErrorReaders: Read methods that either fill the whole buffer or return an error.
var allOrErrorReaders = map[string]string{
	"github.com/gagliardetto/binary.(*Decoder).Read": "gagliardetto/binary v0.8.0 decoder.go: Read returns io.EOF-derived error when fewer than len(buf) bytes remain",
}

// C13 — truncated index or CAR files fail loudly instead of answering 'not found'.
func C13(r *core.Report) {
	r.Explanation = "Decides structural necessary conditions of C13 on the reader code (C12's parser scope plus the request handlers): " +
		"R1 short-read discipline - a plain Read (which may return fewer bytes without error) must have its count checked, or be replaced by io.ReadFull; " +
		"R2 after ReadAt / io.ReadFull / Read the buffer is used (or success is returned for a caller-provided buffer) only where the read is known complete: err == nil is known, or the count is compared with the buffer length, or the buffer is sliced by the count; a check that tolerates io.EOF / io.ErrUnexpectedEOF while the count is discarded is the classic way a truncated file turns into zero bytes and then into 'not found'; " +
		"R3 error downgrade - inside the err != nil branch of a call to storage / index / decoder code, the function must not continue, break or return success unless the branch is guarded by a not-found or end-of-file test (an I/O error must not become 'not found', an empty result or a nil object). " +
		"R5 ErrorSlice has no Unwrap / Is / As method: errors.Is(err, ErrNotFound) on a mixed list (one index failed to read, another epoch said not found) stays false. " +
		"R6 NewManifest writes a fresh header only under a dominating test that the file size is 0, never because parsing what is there ended in io.EOF. R7 the HTTP ReaderAt adapter reports success only when the whole buffer was filled (the check made under C17.R4). R8 no function on the compact-index lookup path ((*Bucket).Lookup, (*DB).Lookup and what they call in the package) calls a loader that ends quietly at io.EOF / ErrUnexpectedEOF and returns data derived from what it read (Bucket.Load): on a truncated index such a lookup searches a short table and answers not-found. Not decided: that every truncation offset lands on a checked read (follows if R1-R3 cover all reads; the site counts are in the evidence)."
	r.Assumptions = []string{"io.ReaderAt contract: n < len(p) implies a non-nil error; io.ReadFull returns an error unless the buffer was filled", "bin.Decoder.Read is all-or-error (table entry)"}
	p := r.Prog
	fns, _, _ := c12Scope(r)
	_, hfns := c08Scope(r)
	seen := map[*core.Func]bool{}
	var scope []*core.Func
	for _, f := range append(fns, hfns...) {
		if !seen[f] {
			seen[f] = true
			scope = append(scope, f)
		}
	}
	// the remote readers and the range cache belong to the read path too
	for _, f := range p.AllFns {
		pk := core.ShortPkg(f.Pkg.PkgPath)
		if f.Body != nil && !seen[f] && (pk == "split-car-fetcher" || pk == "range-cache" || pk == "gsfa" || pk == "readahead") {
			seen[f] = true
			scope = append(scope, f)
		}
	}
	sort.Slice(scope, func(i, j int) bool { return scope[i].Key < scope[j].Key })
	r.Extra["C13_scope_functions"] = len(scope)
	nReads := 0
	for _, f := range scope {
		info := f.Pkg.TypesInfo
		g := p.Graph(f)
		cnt := map[string]int{}
		for _, rc := range findReadCalls(p, f) {
			nReads++
			key := fmt.Sprintf("%s#%s(%s)", f.Key, rc.Kind, core.KeyStr(f, rc.Buf))
			cnt[key]++
			if cnt[key] > 1 {
				key = fmt.Sprintf("%s#%d", key, cnt[key])
			}
			nm := core.CalleeName(info, rc.Call)
			// R1: plain Read with ignored count
			if rc.Kind == "Read" {
				if why, ok := allOrErrorReaders[nm]; ok {
					r.OK("C13.R1", key, pos(r, rc.Call), "all-or-error reader: "+why)
				} else {
					okN := rc.N != nil && countChecked(g, info, rc, nil)
					r.Check(okN, "C13.R1", key, pos(r, rc.Call), "the count returned by Read is checked against the buffer",
						"Read may return fewer bytes than requested without an error and its count is ignored: a file cut inside this field is decoded from a partly filled buffer instead of failing (use io.ReadFull)")
				}
			}
			// R2: uses of the buffer / success returns after the read
			bo := core.ObjOf(info, rootIdentExpr(rc.Buf))
			isParam := false
			for i := 0; bo != nil; i++ {
				po := f.ParamObj(i)
				if po == nil {
					break
				}
				if po == bo {
					isParam = true
				}
			}
			after := g.Reach(rc.Node, func(x *core.GNode) bool {
				// a re-declaration / re-assignment / re-fill of the buffer starts a new obligation
				if x == rc.Node || x.Kind != core.KStmt || bo == nil || isParam {
					return false
				}
				if core.AssignsObj(info, x.Ast, bo) {
					return true
				}
				if as, ok := x.Ast.(*ast.AssignStmt); ok {
					for _, l := range as.Lhs {
						if core.ExprStr(l) == core.ExprStr(rc.Buf) {
							return true
						}
					}
				}
				return false
			})
			var bad *core.GNode
			for u := range after {
				if u.Kind != core.KStmt || u == rc.Node {
					continue
				}
				uses := bo != nil && mentionsBeyondLen(info, u.Ast, bo) && !isLogOnly(info, u.Ast)
				if rs, isRet := u.Ast.(*ast.ReturnStmt); isRet && isParam {
					if nilErr, dec := isNilErrReturn(f, u); !dec || nilErr {
						_ = rs
						uses = true
					}
				}
				if !uses {
					continue
				}
				if readComplete(g, info, rc, u) {
					continue
				}
				if bad == nil || u.Ast.Pos() < bad.Ast.Pos() {
					bad = u
				}
			}
			if bad != nil {
				r.Violation("C13.R2", key, pos(r, rc.Call), fmt.Sprintf("the buffer %s is used at %s (or success is returned) on a path where the read is not known to be complete: neither err == nil nor a comparison of the count with the buffer length dominates that use; a truncated file yields a partly zero buffer that is parsed as data", core.ExprStr(rc.Buf), p.Rel(bad.Ast.Pos())))
			} else {
				r.OK("C13.R2", key, pos(r, rc.Call), "every later use of the buffer is dominated by err == nil or by a count check")
			}
		}
	}
	r.Extra["C13_read_calls"] = nReads
	c13Downgrade(r, scope)
	c13ExhaustionExits(r, scope)
	c13LookupNeverReadsThroughAnEOFTolerantLoader(r)
	r.Floor("C13.R1", 2)
	r.Floor("C13.R2", 15)
	r.Floor("C13.R3", 40)
	c18ErrorSliceIsOpaque(r, "C13.R5")
	c13InitOnlyWhenEmpty(r)
	shortCopyIsError(r, "C13.R7")
}

// mentionsBeyondLen: n mentions obj other than as the argument of len()/cap().
func mentionsBeyondLen(info *types.Info, n ast.Node, obj types.Object) bool {
	found := false
	ast.Inspect(n, func(m ast.Node) bool {
		if found {
			return false
		}
		switch x := m.(type) {
		case *ast.CallExpr:
			// closures defined in the statement capture the buffer: their uses count
			if bn := core.BuiltinName(info, x); bn == "len" || bn == "cap" {
				return false
			}
		case *ast.Ident:
			if info.Uses[x] == obj {
				found = true
			}
		}
		return true
	})
	return found
}

func isLogOnly(info *types.Info, n ast.Node) bool {
	es, ok := n.(*ast.ExprStmt)
	if !ok {
		return false
	}
	c, ok := es.X.(*ast.CallExpr)
	if !ok {
		return false
	}
	nm := core.CalleeName(info, c)
	return strings.HasPrefix(nm, "k8s.io/klog") || strings.HasPrefix(nm, "fmt.Print") || strings.HasPrefix(nm, "log.")
}

// countChecked: a fact comparing the count with the buffer length (or any constant) dominates `at` (or exists after the call when at == nil).
func countChecked(g *core.Graph, info *types.Info, rc readCall, at *core.GNode) bool {
	if rc.N == nil {
		return false
	}
	check := func(fc core.Fact) bool {
		if fc.Tag != nil {
			return false
		}
		if !core.Mentions(info, fc.Expr, rc.N) {
			return false
		}
		be, ok := core.Unparen(fc.Expr).(*ast.BinaryExpr)
		if !ok {
			return false
		}
		switch be.Op {
		case token.EQL, token.NEQ, token.LSS, token.GTR, token.LEQ, token.GEQ:
			// a comparison with the constant 0 only tells "something was read", not "the buffer was filled"
			for _, side := range []ast.Expr{be.X, be.Y} {
				if tv, has := info.Types[side]; has && tv.Value != nil && tv.Value.Kind() == constant.Int {
					if v, exact := constant.Int64Val(tv.Value); exact && v == 0 {
						return false
					}
				}
			}
			return true
		}
		return false
	}
	if at != nil {
		for _, fc := range g.FactsAt(at) {
			if check(fc) && fc.Edge != nil && g.Dominates(rc.Node, fc.Edge) {
				return true
			}
		}
		return false
	}
	for _, e := range g.Nodes {
		if e.Kind == core.KEdge && g.Dominates(rc.Node, e) {
			for _, fc := range e.Facts() {
				if check(fc) {
					return true
				}
			}
		}
	}
	return false
}

// readComplete: at node u the read rc is known to have filled its buffer (or u only touches the filled prefix).
func readComplete(g *core.Graph, info *types.Info, rc readCall, u *core.GNode) bool {
	// err == nil known
	if rc.Err != nil {
		for _, fc := range g.FactsAt(u) {
			if fc.Tag != nil || fc.Unless != nil || fc.Edge == nil || !g.Dominates(rc.Node, fc.Edge) {
				continue
			}
			if x, eq, ok := core.NilCompare(info, fc.Expr); ok && core.ObjOf(info, x) == rc.Err && eq == fc.Truth {
				if !reassignedBetween(g, info, rc.Node, fc.Edge, rc.Err) {
					return true
				}
			}
		}
	}
	if countChecked(g, info, rc, u) {
		return true
	}
	// the use slices the buffer by the count: buf[:n]
	if rc.N != nil {
		found := false
		ast.Inspect(u.Ast, func(m ast.Node) bool {
			if se, ok := m.(*ast.SliceExpr); ok && se.High != nil && core.ObjOf(info, se.High) == rc.N {
				found = true
			}
			return !found
		})
		if found {
			return true
		}
	}
	return false
}

// loadExemptTable reads an exemption table. The result is keyed by the canonical form of the entry keys (core/canon.go):
// the committed `ckey` when the table carries one (written by `yfcheck -canontables` on the pinned tree), otherwise the
// canonical form of `key` on the current tree. Lookups must use p.CanonKey(key).
func loadExemptTable(p *core.Prog, name string) map[string]string {
	exemptProg = p
	out := map[string]string{}
	b, err := os.ReadFile(filepath.Join(VerifDir, "tables", name))
	if err != nil {
		return out
	}
	var list []c12Exempt
	if json.Unmarshal(b, &list) == nil {
		for _, e := range list {
			ck := e.CKey
			if ck == "" {
				ck = p.CanonKey(e.Key)
			}
			out[ck] = e.Reason
			if e.CKey2 != "" && e.CKey2 != ck {
				if _, dup := out["short:"+e.CKey2]; dup {
					out["short:"+e.CKey2] = "" // two entries share the short form: it identifies neither
				} else {
					out["short:"+e.CKey2] = ck
				}
			}
			if len(e.Needs) > 0 {
				cn := e.CNeeds
				if len(cn) != len(e.Needs) {
					cn = nil
					root := rootOfKey(p, e.Key)
					for _, w := range e.Needs {
						cn = append(cn, p.CanonText(root, w))
					}
				}
				exemptNeeds[ck] = cn
				exemptNeedsText[ck] = e.Needs
			}
		}
	}
	return out
}

// exemptKey returns the table key an obligation key matches: itself, or the entry whose short form equals the short form
// of the obligation key.
func exemptKey(table map[string]string, key string) (string, bool) {
	if _, ok := table[key]; ok {
		return key, true
	}
	if ck, ok := table["short:"+core.ShortKey(key)]; ok && ck != "" {
		return ck, true
	}
	// the same construct of the same function with an operand spelled differently: a local (typed token) against the
	// getter call it was assigned from - uint8(HashSize)+uint8(‹int›) and uint8(HashSize)+uint8(‹recv›.getValueSize())
	{
		loose := looseOperands(key)
		var hit string
		n := 0
		for tk := range table {
			if strings.HasPrefix(tk, "short:") || tk == key {
				continue
			}
			if i := strings.Index(tk, "#"); i < 0 || !strings.HasPrefix(key, tk[:i+1]) {
				continue // another function
			}
			if looseOperands(tk) == loose && operandsCompatible(tk, key) {
				hit = tk
				n++
			}
		}
		if n == 1 {
			return hit, true
		}
	}
	// the construct moved, unchanged, into a helper that the exempted function calls (split of a long function): an
	// entry F#construct also covers G#construct when G is a function of the same package that F calls (directly or through
	// one more helper)
	if exemptProg != nil {
		root := exemptProg.RootFuncOfKey(key)
		if root != "" {
			suffix := key[len(root):]
			g := exemptProg.Fn(root)
			for tk := range table {
				if strings.HasPrefix(tk, "short:") {
					continue
				}
				troot := exemptProg.RootFuncOfKey(tk)
				if troot == "" || troot == root {
					continue
				}
				ts := tk[len(troot):]
				if ts != suffix && core.ShortKey(tk)[len(troot):] != core.ShortKey(key)[len(root):] && exemptProg.LooseSuffix(tk) != exemptProg.LooseSuffix(key) {
					continue
				}
				tf := exemptProg.Fn(troot)
				if tf == nil || g == nil || tf.Pkg != g.Pkg {
					continue
				}
				for _, callee := range pkgScope(exemptProg, tf, 2) {
					if callee == g {
						return tk, true
					}
				}
			}
		}
	}
	return "", false
}

// exemptProg is the program the exemption tables are matched against (set by loadExemptTable).
var exemptProg *core.Prog

var exemptNeeds = map[string][]string{}     // canonical key -> canonical texts a dominating guard must mention
var exemptNeedsText = map[string][]string{} // the readable form, for messages

func rootOfKey(p *core.Prog, key string) string { return p.RootFuncOfKey(key) }

// c13Downgrade (R3).
func c13Downgrade(r *core.Report, scope []*core.Func) {
	const rule = "C13.R3"
	p := r.Prog
	table := loadExemptTable(p, "c13_exempt.json")
	used := map[string]bool{}
	for _, f := range scope {
		info := f.Pkg.TypesInfo
		g := p.Graph(f)
		cnt := map[string]int{}
		for _, e := range g.Nodes {
			if e.Kind != core.KEdge || !e.Live() || e.Ast == nil {
				continue
			}
			// edge on which err != nil holds
			var errObj types.Object
			for _, fc := range e.Facts() {
				if x, eq, ok := core.NilCompare(info, fc.Expr); ok && fc.Tag == nil && fc.Unless == nil && eq != fc.Truth {
					if o := core.ObjOf(info, x); o != nil && core.IsErrorType(o.Type()) {
						errObj = o
					}
				}
			}
			if errObj == nil {
				continue
			}
			// the call that produced err: nearest dominating assignment of errObj from a call
			src := errSourceCall(g, info, e, errObj)
			if src == nil || !isDataSource(p, f, src) {
				continue
			}
			// tolerated sentinels: this edge or a nested test mentions not-found / EOF / context cancellation
			region := map[*core.GNode]bool{}
			for x := range g.ReachFromIncl(e, nil) {
				if g.Dominates(e, x) {
					region[x] = true
				}
			}
			// guardedness: under a sentinel test directly, or a join all of whose in-region predecessors are guarded
			guarded := map[*core.GNode]bool{}
			for x := range region {
				if sentinelGuarded(g, info, x, errObj, e) {
					guarded[x] = true
				}
			}
			for changed := true; changed; {
				changed = false
				for x := range region {
					if guarded[x] || x == e {
						continue
					}
					all, any := true, false
					for _, pr := range x.Preds {
						if !region[pr] {
							continue
						}
						any = true
						if !guarded[pr] {
							all = false
						}
					}
					if any && all {
						guarded[x] = true
						changed = true
					}
				}
			}
			bad := ""
			var badNode *core.GNode
			stored := false
			for x := range region {
				if x.Kind != core.KStmt {
					continue
				}
				switch s := x.Ast.(type) {
				case *ast.AssignStmt:
					for _, rhs := range s.Rhs {
						if core.Mentions(info, rhs, errObj) {
							stored = true // the error is recorded in the result (e.g. tws.Error = ...) or sent on
						}
					}
				case *ast.SendStmt:
					if core.Mentions(info, s.Value, errObj) {
						stored = true
					}
				}
			}
			if stored {
				r.OK(rule, fmt.Sprintf("%s#err-of:%s#stored@%d", f.Key, core.Trunc(core.KeyStr(f, src.Fun), 60), e.ID), pos(r, e.Ast), "the error is recorded in the result / sent to the error channel")
				continue
			}
			for x := range region {
				if x.Kind != core.KStmt {
					continue
				}
				if guarded[x] {
					continue
				}
				switch s := x.Ast.(type) {
				case *ast.ReturnStmt:
					if ei := errResultIndex(f); ei >= 0 {
						if nilErr, dec := isNilErrReturn(f, x); dec && nilErr {
							bad, badNode = "returns success (nil error)", x
						} else if len(s.Results) == ei+1 && !core.Mentions(info, s.Results[ei], errObj) && strings.Contains(core.ExprStr(s.Results[ei]), "NotFound") {
							bad, badNode = "answers not-found whatever the error was", x
						}
					} else if len(s.Results) > 0 {
						// functions without an error result: returning a value is a silent answer
						if !returnsErrorish(info, s) {
							bad, badNode = "returns a value although the call failed (the function has no error result)", x
						}
					}
				case *ast.BranchStmt:
					if s.Tok == token.CONTINUE || s.Tok == token.BREAK {
						// leaving the region towards code outside it
						bad, badNode = "skips the item with `"+s.Tok.String()+"`", x
					}
				}
			}
			// falling out of the region without return: some region node flows to a node outside the region that is not an exit
			if bad == "" {
				for x := range region {
					for _, s := range x.Succs {
						if !region[s] && s != g.Exit && s != g.Abort && x.Kind != core.KEdge {
							if _, isRet := x.Ast.(*ast.ReturnStmt); x.Kind == core.KStmt && isRet {
								continue
							}
							if x.Kind == core.KStmt {
								if bs, ok := x.Ast.(*ast.BranchStmt); ok && (bs.Tok == token.CONTINUE || bs.Tok == token.BREAK || bs.Tok == token.GOTO) {
									continue
								}
							}
							if guarded[x] {
								continue
							}
							bad, badNode = "only logs/ignores the error and carries on", x
						}
					}
				}
			}
			key := fmt.Sprintf("%s#err-of:%s", f.Key, core.Trunc(core.KeyStr(f, src.Fun), 60))
			cnt[key]++
			if cnt[key] > 1 {
				key = fmt.Sprintf("%s#%d", key, cnt[key])
			}
			if tk, listed := exemptKey(table, key); listed && bad != "" {
				reason := table[tk]
				used[tk] = true
				r.OK(rule, key, pos(r, e.Ast), "exempt (tables/c13_exempt.json): "+reason)
				continue
			}
			if bad != "" {
				wherePos := pos(r, e.Ast)
				if badNode != nil && badNode.Ast != nil {
					wherePos = pos(r, badNode.Ast)
				}
				r.Violation(rule, key, wherePos, fmt.Sprintf("when %s fails with an error other than not-found / end-of-file, the function %s: an I/O or decoding error (e.g. from a truncated file) is turned into a missing item, an empty result or a nil object instead of an error", core.ExprStr(src.Fun), bad))
			} else {
				r.OK(rule, key, pos(r, e.Ast), "the error branch returns an error (or is guarded by a not-found / EOF test)")
			}
		}
	}
}

func returnsErrorish(info *types.Info, s *ast.ReturnStmt) bool {
	for _, e := range s.Results {
		if t := info.TypeOf(e); t != nil && (core.IsErrorType(t) || strings.Contains(t.String(), "Error")) {
			return true
		}
	}
	return false
}

// errSourceCall: the call whose result was last assigned to errObj before edge e.
func errSourceCall(g *core.Graph, info *types.Info, e *core.GNode, errObj types.Object) *ast.CallExpr {
	for _, d := range g.Dominators(e) {
		if d.Kind != core.KStmt {
			continue
		}
		as, ok := d.Ast.(*ast.AssignStmt)
		if !ok || len(as.Rhs) != 1 {
			continue
		}
		assigns := false
		for _, l := range as.Lhs {
			if core.ObjOf(info, l) == errObj {
				assigns = true
			}
		}
		if !assigns {
			continue
		}
		c, _ := core.Unparen(as.Rhs[0]).(*ast.CallExpr)
		return c
	}
	return nil
}

// isDataSource: the call reads from storage, an index, a decoder or the cache-backed fetchers.
func isDataSource(p *core.Prog, f *core.Func, c *ast.CallExpr) bool {
	info := f.Pkg.TypesInfo
	nm := core.CalleeName(info, c)
	if nm == "" {
		// call through a function value: fetcher / getter callbacks
		s := core.ExprStr(c.Fun)
		return strings.Contains(strings.ToLower(s), "fetch") || strings.Contains(strings.ToLower(s), "getter") || strings.HasSuffix(s, "Getter")
	}
	if strings.HasSuffix(nm, ".Close") || strings.HasSuffix(nm, ".close") || strings.HasPrefix(nm, "gsfa.(*GsfaWriter)") || strings.HasPrefix(nm, "gsfa.isDir") {
		return false // not a read of archive data
	}
	for _, pre := range []string{"main.(*Epoch).", "iplddecoders.", "indexes.", "compactindexsized.", "deprecated/", "bucketteer.", "blocktimeindex.", "gsfa.", "gsfa/", "carreader.",
		"tooling.", "main.parseTransactionAndMetaFromNode", "main.getTransactionAndMetaFromNode", "main.readNode", "main.readSection", "main.parseNode", "split-car-fetcher.", "range-cache.", "huge-cache.",
		"ipld/ipldbindcode.", "solana-tx-meta-parsers.", "main.SigExistsIndex"} {
		if strings.HasPrefix(nm, pre) {
			return true
		}
	}
	if strings.HasSuffix(nm, ".ReadAt") || nm == "io.ReadFull" || strings.HasSuffix(nm, ".Read") || strings.HasSuffix(nm, ".Has") {
		return true
	}
	return false
}

// sentinelGuarded: node x lies under a test that identifies err as not-found / EOF / cancellation.
func sentinelGuarded(g *core.Graph, info *types.Info, x *core.GNode, errObj types.Object, from *core.GNode) bool {
	isSentinelTest := func(e ast.Expr, truth bool) bool {
		if !core.Mentions(info, e, errObj) {
			return false
		}
		s := core.ExprStr(e)
		if !(strings.Contains(s, "NotFound") || strings.Contains(s, "io.EOF") || strings.Contains(s, "ErrUnexpectedEOF") || strings.Contains(s, "Canceled") || strings.Contains(s, "isStop") || strings.Contains(s, "ErrNoProgress") || strings.Contains(s, "ErrNotExist")) {
			return false
		}
		if be, ok := core.Unparen(e).(*ast.BinaryExpr); ok && be.Op == token.NEQ {
			return !truth
		}
		return truth
	}
	for _, fc := range g.FactsAt(x) {
		if fc.Tag == nil && isSentinelTest(fc.Expr, fc.Truth) {
			return true
		}
	}
	// a disjunction of sentinel tests taken on its true edge
	var allSentinel func(e ast.Expr) bool
	allSentinel = func(e ast.Expr) bool {
		if be, ok := core.Unparen(e).(*ast.BinaryExpr); ok && be.Op == token.LOR {
			return allSentinel(be.X) && allSentinel(be.Y)
		}
		return isSentinelTest(e, true)
	}
	doms := g.Dominators(x)
	if x.Kind == core.KEdge {
		doms = append([]*core.GNode{x}, doms...)
	}
	for _, d := range doms {
		if d.Kind == core.KEdge && d.Truth && d.Ast != nil && d.Tag == nil {
			if e, ok := d.Ast.(ast.Expr); ok && allSentinel(e) {
				return true
			}
		}
	}
	return false
}

// c13ExhaustionExits (C13.R4): a decoding loop whose condition has, next to its count bound, a conjunct that lets it stop
// when the input runs out (`len(buf) >= 4`, `r.Len() > 0`) ends silently on a truncated input. The path from that exit to
// a success return must re-test what stopped the loop (the counter against its bound, or the remaining length);
// otherwise the slots that were never decoded keep their zero values and the truncation is not reported.
func c13ExhaustionExits(r *core.Report, scope []*core.Func) {
	const rule = "C13.R4"
	p := r.Prog
	n := 0
	for _, f := range scope {
		info := f.Pkg.TypesInfo
		var loops []*ast.ForStmt
		ast.Inspect(f.Body, func(m ast.Node) bool {
			if l, ok := m.(*ast.FuncLit); ok && l != f.Lit {
				return false
			}
			if fs, ok := m.(*ast.ForStmt); ok && fs.Cond != nil {
				loops = append(loops, fs)
			}
			return true
		})
		for _, fs := range loops {
			cj := conjuncts(fs.Cond)
			if len(cj) < 2 {
				continue
			}
			var exhaust ast.Expr
			var remObj types.Object
			for _, c := range cj {
				be, ok := core.Unparen(c).(*ast.BinaryExpr)
				if !ok || (be.Op != token.GEQ && be.Op != token.GTR) {
					continue
				}
				if _, isConst := core.ConstInt(info, be.Y); !isConst {
					continue
				}
				call, ok := core.Unparen(be.X).(*ast.CallExpr)
				if !ok {
					continue
				}
				if core.BuiltinName(info, call) == "len" && len(call.Args) == 1 && isByteSlice(info.TypeOf(call.Args[0])) {
					exhaust, remObj = c, core.ObjOf(info, call.Args[0])
				} else if sel, ok := core.Unparen(call.Fun).(*ast.SelectorExpr); ok && sel.Sel.Name == "Len" && len(call.Args) == 0 {
					exhaust, remObj = c, core.ObjOf(info, sel.X)
				}
			}
			if exhaust == nil {
				continue
			}
			n++
			k := fmt.Sprintf("%s#loop[%s]-exhaustion-exit-reported", f.Key, core.KeyStr(f, exhaust))
			// objects of the other conjuncts (counter / bound)
			others := map[types.Object]bool{}
			for _, c := range cj {
				if c == exhaust {
					continue
				}
				ast.Inspect(c, func(m ast.Node) bool {
					if id, ok := m.(*ast.Ident); ok {
						if v, ok := info.Uses[id].(*types.Var); ok && !v.IsField() {
							others[v] = true
						}
					}
					return true
				})
			}
			g := p.Graph(f)
			done := g.LoopDone(fs)
			if done == nil {
				r.Undecided(rule, k, pos(r, fs), "loop exit not located in the control-flow graph")
				continue
			}
			// from the exit, a success return reachable without passing a condition that mentions the counter/bound or the remaining input
			retest := func(x *core.GNode) bool {
				if x.Kind != core.KEdge || x.Ast == nil {
					return false
				}
				if x.Ast.Pos() >= fs.Pos() && x.Ast.End() <= fs.End() {
					return false // the loop's own condition
				}
				if remObj != nil && core.Mentions(info, x.Ast, remObj) {
					return true
				}
				for o := range others {
					if core.Mentions(info, x.Ast, o) {
						return true
					}
				}
				return false
			}
			path := g.PathAvoiding(done, func(x *core.GNode) bool {
				if x.Kind != core.KStmt {
					return false
				}
				if _, isRet := x.Ast.(*ast.ReturnStmt); !isRet {
					return false
				}
				nilErr, dec := isNilErrReturn(f, x)
				return !dec || nilErr
			}, retest)
			r.Check(path == nil, rule, k, pos(r, fs), "after the loop stops for lack of input the shortfall is tested before success is returned",
				"the loop stops silently when the input runs out ("+core.ExprStr(exhaust)+") and success is returned without re-testing the count: a truncated file loads with the missing values left at zero", g.PathStrings(path)...)
		}
	}
	r.Extra["C13_exhaustion_loops"] = n
}

var looseOperandRe = regexp.MustCompile(`‹[^›]*›(\.[A-Za-z_][A-Za-z0-9_]*\(\))?`)

// looseOperands replaces every operand token of a canonical key - a typed local ‹T›, the receiver, a parameter - together
// with a directly applied zero-argument getter by one placeholder.
func looseOperands(key string) string {
	return looseOperandRe.ReplaceAllString(key, "‹·›")
}

var plainTypeTokenRe = regexp.MustCompile(`^‹[^›]*›$`)

// operandsCompatible: the two keys (equal up to their operands) differ only where one has a typed local ‹T› and the other a
// zero-argument getter applied to an operand (‹recv›.getValueSize()) - never in a receiver, parameter or type token
// itself: ‹p0›[‹int›:] and ‹[]byte›[‹int›:] name different buffers.
func operandsCompatible(a, b string) bool {
	oa, ob := looseOperandRe.FindAllString(a, -1), looseOperandRe.FindAllString(b, -1)
	if len(oa) != len(ob) {
		return false
	}
	special := func(t string) bool { return t == "‹recv›" || (strings.HasPrefix(t, "‹p") && len(t) <= 8) || strings.HasPrefix(t, "‹res") }
	for i := range oa {
		if oa[i] == ob[i] {
			continue
		}
		x, y := oa[i], ob[i]
		if strings.HasSuffix(x, "()") {
			x, y = y, x
		}
		// now y should be the getter form and x the plain typed local
		if !strings.HasSuffix(y, "()") || !plainTypeTokenRe.MatchString(x) || special(x) {
			return false
		}
	}
	return true
}
