package rules

import (
	"fmt"
	"go/ast"
	"go/token"
	"go/types"
	"strings"

	"yfverif/checker/internal/core"
)

func init() { register("C05", C05) }

// C05 — signature-existence index has no false negatives.
func C05(r *core.Report) {
	r.Explanation = "Decides writer/reader format agreement for both sig-exists formats (bucketteer and deprecated/bucketteer); the eytzinger layout and search for concrete bucket populations are algorithmic and not decided: " +
		"R1 Writer.Put, Writer.Has and Reader.Has hash the whole signature with the same Hash function and select the bucket from bytes 0 and 1 of the signature (through the same prefix mapping); " +
		"R2 size agreement - a bucket is written as a uint32 count followed by uint64 hashes and its recorded size is 4 + 8*count; the reader reads a 4-byte count at the bucket offset, skips 4 bytes and reads 8-byte elements at stride 8; the bucket's offset is recorded before the running offset is advanced; the header size stored excludes its own 4 bytes and the reader adds them back; " +
		"R3 header field order - the sequence of fields written by createHeader equals the sequence read by readHeaderSize + readHeader; R4 the reader reports presence only through equality with the wanted hash, and treats only its own not-found sentinel as absence; " +
		"R5 bucket storage independence - every slice put into the prefix table is freshly made or grown by append on itself (two buckets never share a backing array); R6 orientation - the writer sorts buckets ascending before laying them out and the reader's descent goes right exactly when the probed element is smaller than the target. " +
		"R7 lookup re-entrancy - Reader.Has and what it reaches in the package neither assign fields of the shared Reader nor hand storage of the Reader to a read/copy as a buffer (concurrent getTransaction requests probe one Reader). " +
		"R8 every path through Writer.Put (both formats) appends the hash to its bucket: no conditional skip. " +
		"R9 the de-duplication of a bucket compares neighbours of the sorted list; no comparison uses a remembered value that starts at a constant (a genuine hash equal to it would be dropped). R10 if the reader uses an in-band offset value to mean 'no bucket for this prefix', it is a value the writer can never assign (not the first offset, out of reach of any file size). Not decided: dedupe/sort/eytzinger/search correctness, membership for concrete multisets."
	for _, pk := range []string{"bucketteer", "deprecated/bucketteer"} {
		c05HashAndPrefix(r, pk)
		c05Sizes(r, pk)
		c05HeaderOrder(r, pk)
		c05Presence(r, pk)
		c05Storage(r, pk)
		c05Orientation(r, pk)
		if f := r.Anchor("C05.R7", pk+".(*Reader).Has"); f != nil {
			checkReentrant(r, "C05.R7", f, "lookups")
		}
	}
	r.Floor("C05.R1", 5)
	r.Floor("C05.R2", 4)
	r.Floor("C05.R3", 1)
	r.Floor("C05.R4", 2)
	r.Floor("C05.R5", 1)
	r.Floor("C05.R6", 2)
	r.Floor("C05.R7", 4)
	c05PutAlwaysStores(r)
	c05DedupHasNoSentinel(r)
	c05EmptyBucketSentinelAgrees(r)
	r.Floor("C05.R10", 1)
	r.Floor("C05.R9", 1)
	r.Floor("C05.R8", 1)
}

func c05HashAndPrefix(r *core.Report, pk string) {
	const rule = "C05.R1"
	p := r.Prog
	for _, k := range []string{".(*Writer).Put", ".(*Writer).Has", ".(*Reader).Has"} {
		f := r.Anchor(rule, pk+k)
		if f == nil {
			continue
		}
		// the function itself plus the helpers of the package that receive the signature (bucketIndex(sig), ...)
		type sigBody struct {
			fn  *core.Func
			sig types.Object
		}
		bodies := []sigBody{{f, f.ParamObj(0)}}
		for i := 0; i < len(bodies) && i < 8; i++ {
			b := bodies[i]
			bi := b.fn.Pkg.TypesInfo
			for _, c := range core.CallsIn(b.fn.Body, true) {
				fo := core.Callee(bi, c)
				if fo == nil {
					continue
				}
				h := p.ByObj[fo.Origin()]
				if h == nil || h.Body == nil || h.Pkg != f.Pkg || h.Key == pk+".Hash" {
					continue
				}
				for ai, a := range c.Args {
					if core.ObjOf(bi, a) == b.sig && h.ParamObj(ai) != nil {
						dup := false
						for _, e := range bodies {
							dup = dup || e.fn == h
						}
						if !dup {
							bodies = append(bodies, sigBody{h, h.ParamObj(ai)})
						}
					}
				}
			}
		}
		hashOK, prefixOK, uses := false, false, false
		why := ""
		for _, b := range bodies {
			info := b.fn.Pkg.TypesInfo
			sig := b.sig
			for _, c := range core.CallsIn(b.fn.Body, true) {
				switch core.CalleeName(info, c) {
				case pk + ".Hash":
					if len(c.Args) == 1 {
						if core.ObjOf(info, c.Args[0]) == sig {
							hashOK = true
						} else {
							why = "Hash is applied to " + core.ExprStr(c.Args[0]) + ", not to the whole signature"
						}
					}
				case "bucketteer.prefixToUint16":
					uses = true
				}
			}
			// prefix: a [2]byte built from sig[0], sig[1] / copy(prefix[:], sig[:2])
			ast.Inspect(b.fn.Body, func(n ast.Node) bool {
				switch x := n.(type) {
				case *ast.CompositeLit:
					if at, ok := info.TypeOf(x).Underlying().(*types.Array); ok && at.Len() == 2 && len(x.Elts) == 2 {
						if isSigByte(info, x.Elts[0], sig, 0) && isSigByte(info, x.Elts[1], sig, 1) {
							prefixOK = true
						}
					}
				case *ast.CallExpr:
					if core.BuiltinName(info, x) == "copy" && len(x.Args) == 2 {
						if se, ok := core.Unparen(x.Args[1]).(*ast.SliceExpr); ok && core.ObjOf(info, se.X) == sig && se.Low == nil && se.High != nil {
							if hi, ok := core.ConstInt(info, se.High); ok && hi == 2 {
								if d, ok := core.Unparen(x.Args[0]).(*ast.SliceExpr); ok {
									if at, ok := info.TypeOf(d.X).Underlying().(*types.Array); ok && at.Len() == 2 {
										prefixOK = true
									}
								}
							}
						}
					}
				}
				return true
			})
		}
		r.Check(hashOK, rule, f.Key+"#hash-of-whole-signature", posP(r, f.Pos()), "the element is "+pk+".Hash of the whole signature", "the stored/looked-up element is not "+pk+".Hash(sig): "+why)
		r.Check(prefixOK, rule, f.Key+"#bucket-from-bytes-0-1", posP(r, f.Pos()), "the bucket prefix is bytes 0 and 1 of the signature", "the bucket is not selected from bytes 0 and 1 of the signature: writer and reader look in different buckets")
		// the modern format maps the prefix through prefixToUint16 everywhere
		if pk == "bucketteer" {
			r.Check(uses, rule, f.Key+"#prefix-mapping", posP(r, f.Pos()), "the prefix is mapped to the table index by prefixToUint16", "the table index is not computed with prefixToUint16 (endianness mismatch between writer and reader)")
		}
	}
	_ = p
}

func isSigByte(info *types.Info, e ast.Expr, sig types.Object, i int64) bool {
	ix, ok := core.Unparen(e).(*ast.IndexExpr)
	if !ok || core.ObjOf(info, ix.X) != sig {
		return false
	}
	c, ok := core.ConstInt(info, ix.Index)
	return ok && c == i
}

func c05Sizes(r *core.Report, pk string) {
	const rule = "C05.R2"
	p := r.Prog
	seal := r.Anchor(rule, pk+".seal")
	has := r.Anchor(rule, pk+".(*Reader).Has")
	if seal == nil || has == nil {
		return
	}
	info := seal.Pkg.TypesInfo
	g := p.Graph(seal)
	// writer. The loop that lays out the buckets: it records prefixToOffset[...] = <running offset>, writes the bucket and
	// advances the running offset. Bytes written per iteration and the amount the offset is advanced by are both evaluated
	// to  c + k*len(S)  (emission.go), through whatever helpers and locals they are expressed with.
	var cntW, elW int64 = -1, -1
	var store, adv *core.GNode
	var prev types.Object
	for _, n := range stmtNodes(g) {
		as, ok := n.Ast.(*ast.AssignStmt)
		if !ok || len(as.Lhs) != 1 || len(as.Rhs) != 1 {
			continue
		}
		// table[bucket] = <running offset>: an indexed store of a local unsigned counter that the same loop advances
		if _, ok := core.Unparen(as.Lhs[0]).(*ast.IndexExpr); ok && as.Tok == token.ASSIGN {
			if o, isV := core.ObjOf(info, as.Rhs[0]).(*types.Var); isV && !o.IsField() {
				if _, isC := core.ConstInt(info, as.Rhs[0]); !isC && isIntegerType(o.Type()) && advancedInLoopOf(seal, as, o) {
					store, prev = n, o
				}
			}
		}
	}
	var loop *ast.RangeStmt
	if store != nil {
		ast.Inspect(seal.Body, func(m ast.Node) bool {
			if rs, ok := m.(*ast.RangeStmt); ok && rs.Body.Pos() <= store.Ast.Pos() && store.Ast.End() <= rs.Body.End() {
				loop = rs
			}
			return true
		})
	}
	var advAdd ast.Expr
	if prev != nil && loop != nil {
		for _, n := range stmtNodes(g) {
			as, ok := n.Ast.(*ast.AssignStmt)
			if !ok || len(as.Lhs) != 1 || len(as.Rhs) != 1 || core.ObjOf(info, as.Lhs[0]) != prev || n == store || as.Tok == token.DEFINE {
				continue
			}
			if as.Pos() < loop.Body.Pos() || as.End() > loop.Body.End() {
				continue
			}
			adv = n
			switch as.Tok {
			case token.ADD_ASSIGN:
				advAdd = as.Rhs[0]
			case token.ASSIGN:
				if be, ok := core.Unparen(as.Rhs[0]).(*ast.BinaryExpr); ok && be.Op == token.ADD {
					if core.ObjOf(info, be.X) == prev {
						advAdd = be.Y
					} else if core.ObjOf(info, be.Y) == prev {
						advAdd = be.X
					}
				}
			}
		}
	}
	// the writer variable: the first argument of the binary.Write calls / the helper that receives a writer
	var wObj types.Object
	if loop != nil {
		ast.Inspect(loop.Body, func(m ast.Node) bool {
			c, ok := m.(*ast.CallExpr)
			if !ok || wObj != nil {
				return true
			}
			for _, a := range c.Args {
				if t := info.TypeOf(a); t != nil && (strings.HasSuffix(t.String(), "bufio.Writer") || strings.HasSuffix(t.String(), "io.Writer") || strings.HasSuffix(t.String(), "bytes.Buffer")) {
					wObj = core.ObjOf(info, a)
				}
			}
			return true
		})
	}
	if loop == nil || wObj == nil || advAdd == nil {
		r.Undecided(rule, pk+"#bucket-size=4+8n", posP(r, seal.Pos()), "the loop that lays out the buckets (offset store, writes, offset advance) was not recognised")
	} else {
		em, okE := emitPoly(p, seal, loop.Body.List, wObj, 0)
		rec, okR := polyOfExpr(p, seal, advAdd, 0)
		// the whole bucket (clean set, writes, size) is produced by one helper that returns the size it wrote:
		//   size, err := writeBucket(out, ...);  off += size
		// then what is written and what is reported are compared inside that helper, in its own variables
		if !okE || !okR {
			if h, hw, resIdx := sizeReturningWriter(p, seal, advAdd, wObj); h != nil {
				hg := p.Graph(h)
				em2, ok2 := emitPoly(p, h, h.Body.List, hw, 1)
				var rec2 sizePoly
				okRec, have := true, false
				for _, rn := range hg.Returns() {
					if definitelyErrorReturn(hg, h, rn) {
						continue
					}
					rr := returnResults(rn)
					if resIdx >= len(rr) {
						okRec = false
						continue
					}
					pe, okp := polyOfExpr(p, h, rr[resIdx], 1)
					if !okp || (have && !pe.equal(rec2)) {
						okRec = false
					}
					rec2, have = pe, true
				}
				if ok2 && okRec && have {
					em, okE, rec, okR = em2, true, rec2, true
				}
			}
		}
		cntW, elW = em.countWidth, em.elemWidth
		var term types.Object
		nTerms := 0
		for o, k := range em.poly.terms {
			if k != 0 {
				term = o
				nTerms++
			}
		}
		switch {
		case !okE || !okR:
			r.Undecided(rule, pk+"#bucket-size=4+8n", pos(r, loop), "the bytes written per bucket or the recorded bucket size could not be evaluated to a linear size expression")
		default:
			shape := nTerms == 1 && em.poly.c == em.countWidth && em.poly.terms[term] == em.elemWidth && em.countWidth == 4 && em.elemWidth == 8
			r.Check(shape && em.poly.equal(rec), rule, pk+"#bucket-size=4+8n", pos(r, loop), "a bucket is a uint32 count plus uint64 elements ("+em.poly.String()+" bytes) and the running offset is advanced by exactly that",
				fmt.Sprintf("the bytes written for a bucket (%s) and the amount the running offset is advanced by (%s) differ, or the bucket is not a 4-byte count plus 8-byte elements: every later bucket offset is wrong", em.poly.String(), rec.String()))
			same := nTerms == 1
			for _, o := range em.countLenOf {
				if o != term {
					same = false
				}
			}
			for _, o := range em.rangedOver {
				if o != term {
					same = false
				}
			}
			for o, k := range rec.terms {
				if k != 0 && o != term {
					same = false
				}
			}
			r.Check(same && len(em.countLenOf) == 1, rule, pk+"#size-counts-the-written-slice", pos(r, loop), "the recorded bucket size, the count field and the elements written all refer to the same slice",
				"the bucket size is computed from another slice than the one whose length and elements are written (e.g. before de-duplication): every later bucket offset is off by 8 bytes per dropped element")
		}
	}
	okOrder := store != nil && adv != nil && loop != nil
	if okOrder {
		// the store must not be reachable from the advance within the same iteration
		head := g.LoopHead(loop)
		if g.Reach(adv, func(x *core.GNode) bool { return x == head })[store] {
			okOrder = false
		}
	}
	r.Check(okOrder, rule, pk+"#offset-recorded-before-advance", posP(r, seal.Pos()), "a bucket's offset is recorded before the running offset is advanced by the bucket's size",
		"the bucket offset is recorded after the running offset was advanced: every prefix points at its successor's bucket")
	// reader: 4-byte count at offset, skip 4, stride 8, 8-byte element reads
	hi := has.Pkg.TypesInfo
	var cntBuf, skip, stride int64 = -1, -1, -1
	// the widths are taken from how the bytes are decoded (binary.*.Uint32 / Uint64), which is what fixes the format;
	// where the buffers come from (make, a scratch array, a pool) does not matter
	var decodeWidth func(info *types.Info, body ast.Node, intoLits bool) int64
	decodeWidth = func(info *types.Info, body ast.Node, intoLits bool) int64 {
		w := int64(-1)
		ast.Inspect(body, func(n ast.Node) bool {
			if _, isLit := n.(*ast.FuncLit); isLit && !intoLits {
				return false
			}
			if c, ok := n.(*ast.CallExpr); ok {
				switch nm := core.CalleeName(info, c); {
				case strings.HasSuffix(nm, "ndian).Uint16"):
					w = 2
				case strings.HasSuffix(nm, "ndian).Uint32"):
					w = 4
				case strings.HasSuffix(nm, "ndian).Uint64"):
					w = 8
				default:
					// a small decoding helper of the package (readUint32Le(reader, pos))
					if fo := core.Callee(info, c); fo != nil && w < 0 {
						readsFrom := false
						for _, a := range c.Args {
							if t := info.TypeOf(a); t != nil && strings.Contains(t.String(), "Reader") {
								readsFrom = true
							}
						}
						// ... or a method of the reader itself (r.openBucket(offset))
						if sel, isSel := core.Unparen(c.Fun).(*ast.SelectorExpr); isSel && has.RecvObj() != nil && core.ObjOf(info, sel.X) == types.Object(has.RecvObj()) {
							readsFrom = true
						}
						if h := p.ByObj[fo.Origin()]; readsFrom && h != nil && h.Body != nil && h.Pkg == has.Pkg && len(h.Body.List) <= 8 {
							if hw := decodeWidth(h.Pkg.TypesInfo, h.Body, true); hw > 0 {
								w = hw
							}
						}
					}
				}
			}
			return true
		})
		return w
	}
	cntBuf = decodeWidth(hi, has.Body, false)
	// the functions in which the bucket is addressed: Has, its literals, and the methods of the reader it calls directly
	// (r.openBucket(offset)); a parameter of such a method stands for the argument Has passes
	scope := has.AllWithLits()
	argOf := map[types.Object]ast.Expr{}
	for _, c := range core.CallsIn(has.Body, true) {
		sel, isSel := core.Unparen(c.Fun).(*ast.SelectorExpr)
		if !isSel || has.RecvObj() == nil || core.ObjOf(hi, sel.X) != types.Object(has.RecvObj()) {
			continue
		}
		if fo := core.Callee(hi, c); fo != nil {
			if h := p.ByObj[fo.Origin()]; h != nil && h.Body != nil && h.Pkg == has.Pkg && h != has {
				scope = append(scope, h.AllWithLits()...)
				for ai, a := range c.Args {
					if po := h.ParamObj(ai); po != nil {
						argOf[po] = a
					}
				}
			}
		}
	}
	// the element getter handed to the search: a literal of Has, or a method value / function of the package
	// (bucket.hashAt) - its first parameter is the element index
	getters := map[*core.Func]bool{}
	for _, fnS := range scope {
		for _, c := range core.CallsIn(fnS.Body, true) {
			for _, a := range c.Args {
				var fo *types.Func
				switch x := core.Unparen(a).(type) {
				case *ast.SelectorExpr:
					fo, _ = hi.Uses[x.Sel].(*types.Func)
				case *ast.Ident:
					fo, _ = hi.Uses[x].(*types.Func)
				}
				if fo == nil {
					continue
				}
				if gf := p.ByObj[fo.Origin()]; gf != nil && gf.Body != nil && gf.Pkg == has.Pkg && gf.ParamObj(0) != nil && gf.ParamObj(1) == nil {
					if b, isB := gf.ParamObj(0).Type().Underlying().(*types.Basic); isB && b.Info()&types.IsInteger != 0 {
						getters[gf] = true
						scope = append(scope, gf)
					}
				}
			}
		}
	}
	for _, fn := range scope {
		ast.Inspect(fn.Body, func(n ast.Node) bool {
			switch x := n.(type) {
			case *ast.CallExpr:
				// the element area starts at <bucket offset> + K: K is the constant added to the offset in the position
				// argument of whatever read / section construction addresses the elements
				nm := core.CalleeName(hi, x)
				if nm == "io.NewSectionReader" || strings.HasSuffix(nm, ".ReadAt") {
					for _, a := range x.Args {
						if be, ok := core.Unparen(a).(*ast.BinaryExpr); ok && be.Op == token.ADD {
							// <bucket offset looked up in the prefix table> + K
							if v, isC := core.ConstInt(hi, be.Y); isC {
								if o := core.ObjOf(hi, stripConvs(hi, be.X)); o != nil {
									if a, isParam := argOf[o]; isParam {
										o = core.ObjOf(hi, stripConvs(hi, a))
									}
									if o == nil {
										continue
									}
									// the bucket offset looked up in the prefix table, possibly through a few converted copies
									// (bucketStart := int64(offset))
									for hop := 0; hop < 4 && o != nil; hop++ {
										d := singleDef(has, o)
										if d == nil {
											break
										}
										d = stripConvs(hi, d)
										if _, isIx := core.Unparen(d).(*ast.IndexExpr); isIx {
											skip = v
											break
										}
										o = core.ObjOf(hi, d)
									}
								}
							}
						}
					}
				}
			case *ast.BinaryExpr:
				// <getter's index parameter> * K
				if x.Op == token.MUL && (fn.Lit != nil || getters[fn]) && fn.ParamObj(0) != nil && core.ObjOf(hi, x.X) == types.Object(fn.ParamObj(0)) {
					stride, _ = core.ConstInt(hi, x.Y)
				}
			}
			return true
		})
	}
	elRead := int64(-1)
	for _, l := range has.Lits {
		if w := decodeWidth(hi, l.Body, true); w > 0 {
			elRead = w
		}
	}
	for gf := range getters {
		if w := decodeWidth(hi, gf.Body, true); w > 0 {
			elRead = w
		}
	}
	r.Check(cntBuf == cntW && skip == cntW && stride == elW && elRead == elW, rule, pk+"#reader-widths=writer-widths", posP(r, has.Pos()),
		"the reader uses the writer's widths (count 4, skip 4, stride 8, element 8)",
		fmt.Sprintf("the reader's widths (count buffer %d, skip %d, stride %d, element %d) differ from what the writer emits (count %d, element %d)", cntBuf, skip, stride, elRead, cntW, elW))
	// header size: writer stores headerSize-4, reader returns headerSize+4
	wOK, rOK := false, false
	// writer: <count of bytes the header Write reported> - 4
	definedByCall := func(fn *core.Func, e ast.Expr, isCall func(c *ast.CallExpr) bool) bool {
		o := core.ObjOf(fn.Pkg.TypesInfo, stripConvs(fn.Pkg.TypesInfo, e))
		if o == nil {
			return false
		}
		found := false
		ast.Inspect(fn.Body, func(m ast.Node) bool {
			if as, ok := m.(*ast.AssignStmt); ok && len(as.Rhs) == 1 && len(as.Lhs) >= 1 && core.ObjOf(fn.Pkg.TypesInfo, as.Lhs[0]) == o {
				if c, ok := core.Unparen(stripConvs(fn.Pkg.TypesInfo, as.Rhs[0])).(*ast.CallExpr); ok && isCall(c) {
					found = true
				}
			}
			return true
		})
		return found
	}
	ast.Inspect(seal.Body, func(n ast.Node) bool {
		if be, ok := n.(*ast.BinaryExpr); ok && be.Op == token.SUB {
			if c, ok := core.ConstInt(info, be.Y); ok && c == 4 && definedByCall(seal, be.X, func(c *ast.CallExpr) bool {
				sel, ok := core.Unparen(c.Fun).(*ast.SelectorExpr)
				return ok && sel.Sel.Name == "Write"
			}) {
				wOK = true
			}
		}
		return true
	})
	if rh := r.Anchor(rule, pk+".readHeader"); rh != nil {
		ri := rh.Pkg.TypesInfo
		// <size read by readHeaderSize> + 4, returned directly or as a field of the returned header struct
		ast.Inspect(rh.Body, func(m ast.Node) bool {
			if be, ok := m.(*ast.BinaryExpr); ok && be.Op == token.ADD {
				if c, ok := core.ConstInt(ri, be.Y); ok && c == 4 && definedByCall(rh, be.X, func(c *ast.CallExpr) bool {
					return core.CalleeName(ri, c) == pk+".readHeaderSize"
				}) {
					rOK = true
				}
			}
			return true
		})
	}
	r.Check(wOK && rOK, rule, pk+"#header-size-excludes-own-4-bytes", posP(r, seal.Pos()), "the stored header size excludes its own 4 bytes and the reader adds them back for the content base",
		"writer and reader disagree on whether the stored header size includes its own 4 bytes: the content reader is based 4 bytes off")
}

// fieldSeq extracts the sequence of header fields written/read by f.
func fieldSeq(f *core.Func) []string { return fieldSeqDepth(f, 0) }

func fieldSeqDepth(f *core.Func, depth int) []string {
	info := f.Pkg.TypesInfo
	var out []string
	ast.Inspect(f.Body, func(n ast.Node) bool {
		c, ok := n.(*ast.CallExpr)
		if !ok {
			return true
		}
		nm := core.CalleeName(info, c)
		short := nm[strings.LastIndex(nm, ".")+1:]
		// a helper of the package that is handed the encoder / decoder: its fields come at this point of the sequence
		if fo := core.Callee(info, c); fo != nil && depth < 3 && f.Prog != nil {
			if h := f.Prog.ByObj[fo.Origin()]; h != nil && h.Body != nil && h.Pkg == f.Pkg && h != f {
				passesCodec := false
				for _, a := range c.Args {
					if t := info.TypeOf(a); t != nil && strings.Contains(t.String(), "gagliardetto/binary") {
						passesCodec = true
					}
				}
				if passesCodec {
					out = append(out, fieldSeqDepth(h, depth+1)...)
					return false
				}
			}
		}
		switch {
		case short == "WriteUint32" || short == "ReadUint32":
			out = append(out, "u32")
		case short == "WriteUint64" || short == "ReadUint64":
			out = append(out, "u64")
		case short == "WriteString" || short == "ReadString":
			out = append(out, "string")
		case short == "UnmarshalWithDecoder":
			out = append(out, "meta")
		case (short == "Write" || short == "Read") && strings.Contains(nm, "gagliardetto/binary") && len(c.Args) == 1:
			out = append(out, bytesKind(f, c.Args[0]))
		}
		return true
	})
	return out
}

// bytesKind classifies a byte-slice argument of the header codec by what it is, not by how it is called: a slice of an
// N-byte array (or a buffer made with the length of one) is "bytesN", the marshalled metadata is "meta".
func bytesKind(f *core.Func, arg ast.Expr) string {
	info := f.Pkg.TypesInfo
	arrLen := func(e ast.Expr) int64 {
		if se, ok := core.Unparen(e).(*ast.SliceExpr); ok && se.Low == nil && se.High == nil {
			if t := info.TypeOf(se.X); t != nil {
				if at, ok := t.Underlying().(*types.Array); ok {
					return at.Len()
				}
			}
		}
		return -1
	}
	if n := arrLen(arg); n >= 0 {
		return fmt.Sprintf("bytes%d", n)
	}
	if o := core.ObjOf(info, arg); o != nil {
		d := singleDef(f, o)
		if d == nil {
			d = singleDefOrInit(f, o)
		}
		if c, ok := core.Unparen(d).(*ast.CallExpr); ok && d != nil {
			if core.BuiltinName(info, c) == "make" && len(c.Args) >= 2 {
				if v, ok := core.ConstInt(info, c.Args[1]); ok {
					return fmt.Sprintf("bytes%d", v)
				}
				if lc, ok := core.Unparen(c.Args[1]).(*ast.CallExpr); ok && core.BuiltinName(info, lc) == "len" && len(lc.Args) == 1 {
					if n := arrLen(lc.Args[0]); n >= 0 {
						return fmt.Sprintf("bytes%d", n)
					}
				}
			}
			if sel, ok := core.Unparen(c.Fun).(*ast.SelectorExpr); ok && strings.HasSuffix(core.NamedTypeName(info.TypeOf(sel.X)), "indexmeta.Meta") {
				return "meta"
			}
		}
	}
	return "bytes?"
}

func c05HeaderOrder(r *core.Report, pk string) {
	const rule = "C05.R3"
	w, rd, rs := r.Anchor(rule, pk+".createHeader"), r.Anchor(rule, pk+".readHeader"), r.Anchor(rule, pk+".readHeaderSize")
	if w == nil || rd == nil || rs == nil {
		return
	}
	ws := fieldSeq(w)
	// reader: 4-byte little-endian size first (readHeaderSize), then readHeader's sequence
	ri := rs.Pkg.TypesInfo
	first := ""
	ast.Inspect(rs.Body, func(n ast.Node) bool {
		if c, ok := n.(*ast.CallExpr); ok && strings.HasSuffix(core.CalleeName(ri, c), "littleEndian).Uint32") {
			first = "u32"
		}
		return true
	})
	rseq := append([]string{first}, fieldSeq(rd)...)
	a, b := strings.Join(ws, " "), strings.Join(rseq, " ")
	r.Check(a == b && len(ws) >= 6, rule, pk+"#header-field-order", posP(r, rd.Pos()), "createHeader writes and readHeader reads the same field sequence: "+a,
		"the header fields are written as ["+a+"] but read as ["+b+"]")
}

func c05Presence(r *core.Report, pk string) {
	const rule = "C05.R4"
	p := r.Prog
	f := r.Anchor(rule, pk+".(*Reader).Has")
	if f == nil {
		return
	}
	info := f.Pkg.TypesInfo
	g := p.Graph(f)
	ok := true
	why := ""
	n := 0
	for _, rn := range g.Returns() {
		res := returnResults(rn)
		if len(res) != 2 || !core.IsNil(info, res[1]) {
			continue
		}
		n++
		if v, isC := boolConst(info, res[0]); isC {
			if v {
				ok, why = false, "returns true unconditionally at "+p.Rel(rn.Ast.Pos())
			}
			continue
		}
		// <element the search returned> == <Hash(sig)>
		be, isBin := core.Unparen(res[0]).(*ast.BinaryExpr)
		fromCall := func(e ast.Expr, callee string) bool {
			o := core.ObjOf(info, stripConvs(info, e))
			if o == nil {
				return false
			}
			hit := false
			ast.Inspect(f.Body, func(m ast.Node) bool {
				if as, isA := m.(*ast.AssignStmt); isA && len(as.Rhs) == 1 && len(as.Lhs) >= 1 && core.ObjOf(info, as.Lhs[0]) == o {
					if c, isC := core.Unparen(as.Rhs[0]).(*ast.CallExpr); isC && core.CalleeName(info, c) == callee {
						hit = true
					}
				}
				return true
			})
			return hit
		}
		if !isBin || be.Op != token.EQL || !((fromCall(be.X, pk+".Hash") && fromCall(be.Y, pk+".searchEytzinger")) || (fromCall(be.Y, pk+".Hash") && fromCall(be.X, pk+".searchEytzinger"))) {
			ok, why = false, "presence is decided by "+core.ExprStr(res[0])
		}
	}
	r.Check(ok && n > 0, rule, f.Key+"#present-only-by-hash-equality", posP(r, f.Pos()), "presence is reported only when the found element equals the wanted hash", "Reader.Has can report presence without hash equality: "+why)
	// absence only for the package's own not-found sentinel
	okNF := true
	for _, rn := range g.Returns() {
		res := returnResults(rn)
		if len(res) != 2 || !core.IsNil(info, res[1]) {
			continue
		}
		if v, isC := boolConst(info, res[0]); isC && !v {
			// must be dominated by a not-found test or by the empty-bucket test (no error involved)
			errInvolved := false
			guarded := false
			for _, fc := range g.FactsAt(rn) {
				s := core.ExprStr(fc.Expr)
				if x, isNil, isCmp := core.NilCompare(info, fc.Expr); isCmp && isNil != fc.Truth {
					if o := core.ObjOf(info, x); o != nil && core.IsErrorType(o.Type()) {
						errInvolved = true // an error is known to be non-nil here
					}
				}
				if fc.Truth && strings.Contains(s, "ErrNotFound") {
					guarded = true
				}
			}
			if errInvolved && !guarded {
				okNF = false
			}
		}
	}
	r.Check(okNF, rule, f.Key+"#absent-only-for-not-found", posP(r, f.Pos()), "an error is reported as absence only when it is the search's own not-found sentinel", "a read error is reported as 'signature absent'")
}

func c05Storage(r *core.Report, pk string) {
	const rule = "C05.R5"
	p := r.Prog
	n := 0
	for _, f := range p.FuncsInPkg(pk) {
		if f.Body == nil || strings.HasSuffix(p.FileOf(f.Pos()), "_test.go") {
			continue
		}
		info := f.Pkg.TypesInfo
		ast.Inspect(f.Body, func(m ast.Node) bool {
			as, ok := m.(*ast.AssignStmt)
			if !ok || len(as.Lhs) != 1 || len(as.Rhs) != 1 {
				return true
			}
			ix, ok := core.Unparen(as.Lhs[0]).(*ast.IndexExpr)
			if !ok {
				return true
			}
			// table of hash slices: array/map whose element type is []uint64
			bt := info.TypeOf(ix.X)
			if bt == nil {
				return true
			}
			if pt, isP := bt.Underlying().(*types.Pointer); isP {
				bt = pt.Elem()
			}
			var elem types.Type
			switch u := bt.Underlying().(type) {
			case *types.Array:
				elem = u.Elem()
			case *types.Map:
				elem = u.Elem()
			}
			if elem == nil {
				return true
			}
			sl, isSl := elem.Underlying().(*types.Slice)
			if !isSl {
				return true
			}
			if b, ok := sl.Elem().Underlying().(*types.Basic); !ok || b.Kind() != types.Uint64 {
				return true
			}
			n++
			rhs := core.Unparen(as.Rhs[0])
			ok2 := false
			if c, isC := rhs.(*ast.CallExpr); isC {
				switch core.BuiltinName(info, c) {
				case "make":
					ok2 = true
				case "append":
					ok2 = len(c.Args) >= 1 && core.ExprStr(c.Args[0]) == core.ExprStr(as.Lhs[0])
				}
			}
			if core.IsNil(info, rhs) {
				ok2 = true
			}
			if se, isSe := rhs.(*ast.SliceExpr); isSe && se.Slice3 && se.Max != nil {
				ok2 = core.ExprStr(se.High) == core.ExprStr(se.Max) // cap limited to the bucket's own region
			}
			r.Check(ok2, rule, fmt.Sprintf("%s#bucket-slot=%s", f.Key, core.Trunc(core.KeyStr(f, rhs), 40)), pos(r, as), "the bucket's slice is freshly made or grown by append on itself",
				"a bucket of the prefix table is assigned "+core.ExprStr(rhs)+": buckets may share a backing array, so appending to one bucket overwrites the hashes of its neighbour")
			return true
		})
	}
	if n == 0 {
		r.Undecided(rule, pk+"#bucket-table", "", "no assignment into the prefix table found")
	}
}

func c05Orientation(r *core.Report, pk string) { orientationRule(r, "C05.R6", pk) }

func orientationRule(r *core.Report, rule string, pk string) {
	p := r.Prog
	seal := r.Anchor(rule, pk+".seal")
	se := r.Anchor(rule, pk+".searchEytzinger")
	if seal == nil || se == nil {
		return
	}
	info := seal.Pkg.TypesInfo
	// writer: the comparator returns a negative value exactly where the element at i is smaller than the element at j
	asc := false
	// the function that sorts and lays out a bucket: seal itself, or a helper of the package it calls (writeBucket)
	if !fnCallsNamed(p, seal, pk+".sortWithCompare") {
		for _, h := range pkgScope(p, seal, 1) {
			if h.Lit == nil && h != seal && fnCallsNamed(p, h, pk+".sortWithCompare") {
				seal = h
				info = h.Pkg.TypesInfo
				break
			}
		}
	}
	for _, c := range core.CallsIn(seal.Body, false) {
		if core.CalleeName(info, c) == pk+".sortWithCompare" && len(c.Args) == 2 {
			if lit, ok := core.Unparen(c.Args[1]).(*ast.FuncLit); ok {
				asc = cmpAscending(p, p.ByLit[lit])
			} else if fo, ok := core.ObjOf(info, c.Args[1]).(*types.Func); ok && p.ByObj[fo] != nil {
				asc = cmpAscending(p, p.ByObj[fo])
			}
		}
	}
	// the layout pass is applied to every bucket that is written: the call dominates every later use of the sorted slice
	// in seal (a bypass is accepted only under a guard that lets through buckets of fewer than two hashes)
	{
		g := p.Graph(seal)
		for _, n := range stmtNodes(g) {
			for _, c := range nodeCalls(n) {
				if core.CalleeName(info, c) != pk+".sortWithCompare" || len(c.Args) != 2 {
					continue
				}
				so := core.ObjOf(info, c.Args[0])
				if so == nil {
					continue
				}
				bad := ""
				for _, m := range stmtNodes(g) {
					if m == n || m.Ast.Pos() < c.End() || !core.MentionsOutsideLits(info, m.Ast, so) || g.Dominates(n, m) {
						continue
					}
					// not dominated: acceptable only if the sort sits in `if len(x) > 1 { ... }` / `>= 2`
					trivial := false
					for _, d := range g.Dominators(n) {
						if d.Kind != core.KEdge || !d.Truth || d.Ast == nil {
							continue
						}
						if be, ok := d.Ast.(*ast.BinaryExpr); ok {
							if lc, ok := core.Unparen(be.X).(*ast.CallExpr); ok && core.BuiltinName(info, lc) == "len" && core.ObjOf(info, lc.Args[0]) == so {
								if v, ok := core.ConstInt(info, be.Y); ok && ((be.Op == token.GTR && v <= 1) || (be.Op == token.GEQ && v <= 2)) {
									trivial = true
								}
							}
						}
					}
					if !trivial {
						bad = r.Prog.Rel(m.Ast.Pos())
					}
				}
				r.Check(bad == "", rule, pk+"#layout-applied-to-every-bucket", pos(r, c), "every bucket that is written went through the sort + eytzinger layout pass",
					"the sort + eytzinger layout pass can be skipped for a bucket that is still written (use at "+bad+"): the reader searches it in tree order and misses hashes that are present")
			}
		}
	}
	// sortWithCompare sorts with compare(i,j) < 0 and then calls eytzinger
	swOK := false
	if sw := r.Anchor(rule, pk+".sortWithCompare"); sw != nil {
		si := sw.Pkg.TypesInfo
		g := p.Graph(sw)
		var sortN, eyN *core.GNode
		for _, n := range stmtNodes(g) {
			for _, c := range nodeCalls(n) {
				nm := core.CalleeName(si, c)
				if nm == "sort.Slice" || nm == "sort.SliceStable" {
					sortN = n
				}
				if nm == pk+".eytzinger" {
					eyN = n
				}
			}
		}
		lt := false
		for _, c := range core.CallsIn(sw.Body, false) {
			if nm := core.CalleeName(si, c); (nm == "sort.Slice" || nm == "sort.SliceStable") && len(c.Args) == 2 {
				if lit, ok := core.Unparen(c.Args[1]).(*ast.FuncLit); ok && sw.ParamObj(1) != nil {
					lt = lessFromCompare(si, lit, sw.ParamObj(1))
				}
			}
		}
		swOK = sortN != nil && eyN != nil && g.Dominates(sortN, eyN) && lt
		// the layout is applied on every way out: from the sort, the exit is not reachable without the eytzinger call
		// (and the copy back), except under a test that lets through fewer than two elements
		if swOK {
			trivial := func(x *core.GNode) bool {
				if x.Kind != core.KEdge || x.Ast == nil || !x.Truth {
					return false
				}
				be, ok := x.Ast.(*ast.BinaryExpr)
				if !ok {
					return false
				}
				lc, ok := core.Unparen(be.X).(*ast.CallExpr)
				if !ok || core.BuiltinName(si, lc) != "len" {
					return false
				}
				v, isC := core.ConstInt(si, be.Y)
				return isC && ((be.Op == token.LEQ && v <= 1) || (be.Op == token.LSS && v <= 2))
			}
			if path := g.PathAvoiding(sortN, func(x *core.GNode) bool { return x.Kind == core.KExit }, func(x *core.GNode) bool { return x == eyN || trivial(x) }); path != nil {
				swOK = false
			}
		}
	}
	// reader: on every path around the search loop the index moves to 2i+2 when the probed element is smaller than the
	// target and to 2i+1 when it is larger
	right, why := eytzingerDescent(p, se)
	if why != "" {
		why = "; " + why
	}
	r.Check(asc && swOK && right, rule, pk+"#sort-ascending-search-right-on-less", posP(r, se.Pos()), "buckets are sorted ascending before the eytzinger layout and the search descends right when the probed element is smaller than the target",
		fmt.Sprintf("layout and search orientation disagree (writer ascending: %v, sort-then-layout: %v, reader goes right on k < x: %v%s)", asc, swOK, right, why))
}

// advancedInLoopOf: the innermost range loop around stmt also contains `o += X` or `o = o + X`.
func advancedInLoopOf(f *core.Func, stmt ast.Node, o types.Object) bool {
	info := f.Pkg.TypesInfo
	rs := enclosingRange(f.Body, stmt)
	if rs == nil {
		return false
	}
	found := false
	ast.Inspect(rs.Body, func(m ast.Node) bool {
		as, ok := m.(*ast.AssignStmt)
		if !ok || len(as.Lhs) != 1 || len(as.Rhs) != 1 || core.ObjOf(info, as.Lhs[0]) != o {
			return true
		}
		if as.Tok == token.ADD_ASSIGN {
			found = true
		}
		if be, ok := core.Unparen(as.Rhs[0]).(*ast.BinaryExpr); ok && as.Tok == token.ASSIGN && be.Op == token.ADD && (core.ObjOf(info, be.X) == o || core.ObjOf(info, be.Y) == o) {
			found = true
		}
		return true
	})
	return found
}

// sizeReturningWriter: sizeExpr is a local of fn assigned once from a call `size, err := h(w, ...)` of a repository
// function that receives the writer w; returns h, h's writer parameter and the index of the size among h's results.
func sizeReturningWriter(p *core.Prog, fn *core.Func, sizeExpr ast.Expr, w types.Object) (*core.Func, types.Object, int) {
	info := fn.Pkg.TypesInfo
	o := core.ObjOf(info, stripConvs(info, sizeExpr))
	if o == nil {
		return nil, nil, -1
	}
	var call *ast.CallExpr
	idx, n := -1, 0
	ast.Inspect(fn.Body, func(m ast.Node) bool {
		as, ok := m.(*ast.AssignStmt)
		if !ok || len(as.Rhs) != 1 {
			return true
		}
		for i, l := range as.Lhs {
			if core.ObjOf(info, l) == o {
				n++
				if c, isCall := core.Unparen(as.Rhs[0]).(*ast.CallExpr); isCall && len(as.Lhs) > 1 {
					call, idx = c, i
				}
			}
		}
		return true
	})
	if n != 1 || call == nil {
		return nil, nil, -1
	}
	fo := core.Callee(info, call)
	if fo == nil {
		return nil, nil, -1
	}
	h := p.ByObj[fo.Origin()]
	if h == nil || h.Body == nil {
		return nil, nil, -1
	}
	for ai, a := range call.Args {
		if core.ObjOf(info, a) == w && h.ParamObj(ai) != nil {
			return h, h.ParamObj(ai), idx
		}
	}
	return nil, nil, -1
}

// fnCallsNamed: fn (not its literals' callees' callees) contains a call of the function with that short name.
func fnCallsNamed(p *core.Prog, fn *core.Func, name string) bool {
	for _, cs := range p.Calls(fn) {
		if cs.Name == name {
			return true
		}
	}
	return false
}
