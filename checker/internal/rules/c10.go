package rules

import (
	"fmt"
	"go/ast"
	"go/constant"
	"go/token"
	"go/types"
	"sort"
	"strings"

	"yfverif/checker/internal/core"
)

func init() { register("C10", C10) }

// C10 — an epoch is served only from indexes built for that epoch and CAR.
func C10(r *core.Report) {
	r.Explanation = "Decides structural necessary conditions of C10: " +
		"R1 kind assertion - every typed index opener (new-format branch) passes meta.AssertIndexKind(K) on each success path and K is the very variable the matching writer stores as IndexKind; the magic of each file format is compared before success (tables/c10_invariants.json); " +
		"R2 identity chain in NewEpochFromConfig - for every index opened there, every path from the open to the successful return passes a comparison of the index's epoch with the configured epoch and a comparison of its root CID with the running root CID (or the assignment that starts the chain), each with an error branch, unless the path goes through the explicit old-format test of that index; the Filecoin root is compared with the chain; the function-level root variable must be the one assigned and compared (a shadowed copy does not count); " +
		"R3 the CID of the section read from the CAR is compared with the wanted CID (shared with C03: parseNodeFromSection); R4 metadata key agreement - the keys written by setDefaultMetadata are exactly the keys read by getDefaultMetadata, with inverse codecs, and the loader reads sig-exists / gsfa metadata under the keys their writers use. " +
		"R5 the gsfa version gate - NewEpochFromConfig skips the gsfa identity comparison for manifest versions below a threshold, so NewManifest must install only headers whose version equals the current constant (literal with _Version, or a header that passed the equality test), and that constant lies at or above the threshold. " +
		"R7 each identity value written into an index header is the corresponding field of the Metadata argument passed through an encoder only. Not decided: that stored values survive the round trip byte for byte; files swapped between two roles with identical kind/epoch/root."
	c10KindAssertion(r)
	checkInvariantTable(r, "C10.R1", "c10_invariants.json")
	c10IdentityChain(r)
	c10MetadataKeys(r)
	c10GsfaVersionGate(r)
	c10AssertGates(r)
	r.Floor("C10.R6", 3)
	r.Floor("C10.R5", 1)
	c10MetadataWrittenAsGiven(r)
	r.Floor("C10.R7", 2)
	r.Floor("C10.R1", 5)
	r.Floor("C10.R2", 5)
	r.Floor("C10.R4", 2)
}

func c10KindAssertion(r *core.Report) {
	const rule = "C10.R1"
	p := r.Prog
	for _, k := range []string{"CidToOffsetAndSize", "SlotToCid", "SigToCid", "PubkeyToOffsetAndSize"} {
		op := r.Anchor(rule, "indexes.OpenWithReader_"+k)
		nw := r.Anchor(rule, "indexes.NewWriter_"+k)
		if op == nil || nw == nil {
			continue
		}
		// kind object stored by the writer
		var wkind types.Object
		ast.Inspect(nw.Body, func(n ast.Node) bool {
			if kv, ok := n.(*ast.KeyValueExpr); ok && core.ExprStr(kv.Key) == "IndexKind" {
				wkind = core.ObjOf(nw.Pkg.TypesInfo, kv.Value)
			}
			return true
		})
		_ = op.Pkg.TypesInfo
		g := p.Graph(op)
		ok, n := wkind != nil, 0
		why := ""
		for _, rn := range g.Returns() {
			if definitelyErrorReturn(g, op, rn) {
				continue
			}
			res := returnResults(rn)
			if len(res) == 1 {
				// delegation to the deprecated opener (old format has no metadata): only under the old-format test
				under := false
				for _, fc := range g.FactsAt(rn) {
					if fc.Truth && resultOfCall(op, fc.Expr, "IsFileOldFormat") {
						under = true
					}
				}
				if !under {
					ok, why = false, "delegates to another opener outside the old-format branch"
				}
				continue
			}
			n++
			asserted, w2 := kindAssertedAt(p, op, rn, func(fi *types.Info, e ast.Expr) bool { return core.ObjOf(fi, e) == wkind }, 0)
			if w2 != "" {
				why = w2 + " but the writer stores " + wkind.Name()
			}
			if !asserted {
				ok = false
				if why == "" {
					why = "a success return is not dominated by the AssertIndexKind check"
				}
			}
		}
		r.Check(ok && n > 0, rule, "indexes.OpenWithReader_"+k+"#asserts-kind-of-writer", posP(r, op.Pos()), "the opener requires the kind the matching writer stores",
			"a file of another kind is accepted as a "+k+" index: "+why)
	}
}

// c10IdentityChain (R2).
func c10IdentityChain(r *core.Report) {
	const rule = "C10.R2"
	p := r.Prog
	f := r.Anchor(rule, "main.NewEpochFromConfig")
	if f == nil {
		return
	}
	info := f.Pkg.TypesInfo
	g := p.Graph(f)
	// the function-level running root
	var rootVar types.Object
	ast.Inspect(f.Body, func(n ast.Node) bool {
		// `var lastRootCid cid.Cid`: the one CID-typed variable declared without a value
		if vs, ok := n.(*ast.ValueSpec); ok && rootVar == nil && len(vs.Values) == 0 {
			for _, nm := range vs.Names {
				if o := info.Defs[nm]; o != nil && strings.HasSuffix(core.NamedTypeName(o.Type()), "cid.Cid") {
					rootVar = o
				}
			}
		}
		return true
	})
	if rootVar == nil {
		r.Undecided(rule, f.Key+"#running-root", posP(r, f.Pos()), "function-level running root CID variable not found")
		return
	}
	var success *core.GNode
	for _, rn := range g.Returns() {
		if nilErr, dec := isNilErrReturn(f, rn); dec && nilErr {
			success = rn
		}
	}
	if success == nil {
		r.Undecided(rule, f.Key+"#success-return", posP(r, f.Pos()), "success return not found")
		return
	}
	type idx struct {
		name     string
		obj      types.Object
		node     *core.GNode
		needRoot bool
	}
	var idxs []idx
	for _, n := range stmtNodes(g) {
		as, ok := n.Ast.(*ast.AssignStmt)
		if !ok || len(as.Rhs) != 1 || len(as.Lhs) != 2 {
			continue
		}
		c, ok := core.Unparen(as.Rhs[0]).(*ast.CallExpr)
		if !ok {
			continue
		}
		nm := core.CalleeName(info, c)
		switch {
		case strings.HasPrefix(nm, "indexes.OpenWithReader_"), nm == "gsfa.NewGsfaReader", nm == "bucketteer.NewReader":
			idxs = append(idxs, idx{nm, core.ObjOf(info, as.Lhs[0]), n, true})
		case nm == "blocktimeindex.FromBytes":
			idxs = append(idxs, idx{nm, core.ObjOf(info, as.Lhs[0]), n, false}) // carries no root CID (table fact)
		}
	}
	if len(idxs) < 5 {
		r.Undecided(rule, f.Key+"#opens", posP(r, f.Pos()), fmt.Sprintf("expected at least 5 index opens, found %d", len(idxs)))
	}
	for _, x := range idxs {
		derived := derivedLocals(f, x.obj)
		mentionsX := func(e ast.Node) bool { return mentionsAny(info, e, derived, false) }
		// comparison edges (the non-error side) and old-format edges
		epochEdge, rootEdge, oldEdge := map[*core.GNode]bool{}, map[*core.GNode]bool{}, map[*core.GNode]bool{}
		for _, e := range g.Nodes {
			if e.Kind != core.KEdge || e.Ast == nil {
				continue
			}
			s := core.ExprStr(e.Ast)
			ls := strings.ToLower(s)
			if !mentionsX(e.Ast) {
				continue
			}
			errSide := leadsToErrorOnly(g, f, siblingEdge(e))
			switch {
			case epochGetterValueIn(f, e.Ast) && errSide:
				epochEdge[e] = true
			case core.Mentions(info, e.Ast, rootVar) && errSide:
				rootEdge[e] = true
			case strings.Contains(ls, "deprecated") || strings.Contains(s, "Version()"):
				// the branch on which the index is of the old format (no metadata to compare)
				if (strings.Contains(ls, "deprecated") && ((e.Truth && !strings.HasPrefix(strings.TrimSpace(s), "!")) || (!e.Truth && strings.HasPrefix(strings.TrimSpace(s), "!")))) ||
					(strings.Contains(s, "Version()") && !e.Truth) {
					oldEdge[e] = true
				}
			}
		}
		// comparisons made through the metadata's own Assert helpers (C10.R6 decides that they return nil only on equality):
		// `if err := X.Meta().AssertEpoch(ep.Epoch()); err != nil { return }` - the err == nil side is the compared side
		for _, n := range stmtNodes(g) {
			as, ok := n.Ast.(*ast.AssignStmt)
			if !ok || len(as.Rhs) != 1 || len(as.Lhs) != 1 {
				continue
			}
			c, ok := core.Unparen(as.Rhs[0]).(*ast.CallExpr)
			if !ok {
				continue
			}
			nm := core.CalleeName(info, c)
			isEpoch, isRoot := false, false
			if len(c.Args) == 1 && mentionsX(c.Fun) {
				isEpoch = strings.HasSuffix(nm, "Metadata).AssertEpoch") && epochGetterValueIn(f, c.Args[0])
				isRoot = strings.HasSuffix(nm, "Metadata).AssertRootCid") && core.ObjOf(info, c.Args[0]) == rootVar
			}
			if !isEpoch && !isRoot {
				// a comparing helper of this function / package: checkEpoch(what, X.Meta().Epoch), checkRootCid(what, got)
				for ai, a := range c.Args {
					if !mentionsX(a) {
						continue
					}
					for _, h := range calleesOfCall(p, f, c) {
						e1, r1 := comparingHelper(p, h, ai, rootVar)
						isEpoch, isRoot = isEpoch || e1, isRoot || r1
						// the expected values are handed to the helper as arguments:
						// checkIndexMetaIdentity("gsfa", X.Meta(), ep.Epoch(), lastRootCid)
						e2, r2 := comparingHelperByArgs(p, h, ai, func(j int) (bool, bool) {
							if j >= len(c.Args) {
								return false, false
							}
							return epochGetterValueIn(f, c.Args[j]), core.ObjOf(info, c.Args[j]) == rootVar
						})
						isEpoch, isRoot = isEpoch || e2, isRoot || r2
					}
				}
			}
			if !isEpoch && !isRoot {
				continue
			}
			eo := core.ObjOf(info, as.Lhs[len(as.Lhs)-1])
			for _, e := range g.Nodes {
				if e.Kind != core.KEdge || e.Ast == nil || !g.Dominates(n, e) {
					continue
				}
				if x, isNil, isCmp := core.NilCompare(info, e.Ast.(ast.Expr)); isCmp && core.ObjOf(info, x) == eo && isNil == e.Truth && leadsToErrorOnly(g, f, siblingEdge(e)) {
					if isEpoch {
						epochEdge[e] = true
					}
					if isRoot {
						rootEdge[e] = true
					}
				}
			}
		}
		// the assignment that starts the chain: rootVar = X.Meta().RootCid
		for _, n := range stmtNodes(g) {
			if as, ok := n.Ast.(*ast.AssignStmt); ok && len(as.Lhs) == 1 && len(as.Rhs) == 1 && core.ObjOf(info, as.Lhs[0]) == rootVar && mentionsX(as.Rhs[0]) {
				// counts as the root anchor only when no earlier root is known on this path, i.e. for the first index of the chain
				rootEdge[n] = true
			}
		}
		short := x.name[strings.LastIndex(x.name, ".")+1:]
		pathE := g.PathAvoiding(x.node, func(n *core.GNode) bool { return n == success }, func(n *core.GNode) bool { return epochEdge[n] || oldEdge[n] })
		r.Check(pathE == nil, rule, fmt.Sprintf("%s#%s-epoch-compared", f.Key, short), pos(r, x.node.Ast), "every path from opening this index to the successful return compares its epoch with the configured epoch (or takes the old-format branch)",
			"an index opened by "+x.name+" can be used without its recorded epoch having been compared with the epoch being loaded", g.PathStrings(pathE)...)
		if x.needRoot {
			pathR := g.PathAvoiding(x.node, func(n *core.GNode) bool { return n == success }, func(n *core.GNode) bool { return rootEdge[n] || oldEdge[n] })
			r.Check(pathR == nil, rule, fmt.Sprintf("%s#%s-root-compared", f.Key, short), pos(r, x.node.Ast), "every path from opening this index to the successful return compares its root CID with the running root CID (or starts the chain / takes the old-format branch)",
				"an index opened by "+x.name+" can be used without its root CID having been tied to the other indexes: the function-level root variable is neither compared with nor assigned from it (a shadowed local copy does not count)", g.PathStrings(pathR)...)
		}
	}
	// Filecoin root compared with the chain
	okFil := false
	for _, e := range g.Nodes {
		if e.Kind == core.KEdge && e.Ast != nil && !e.Truth && core.Mentions(info, e.Ast, rootVar) && strings.Contains(core.ExprStr(e.Ast), "Filecoin.RootCID") && leadsToErrorOnly(g, f, siblingEdge(e)) {
			okFil = true
		}
	}
	// ... or through a comparing helper: if err := checkRootCid("lassie", config.Data.Filecoin.RootCID); err != nil { return }
	for _, n := range stmtNodes(g) {
		as, ok := n.Ast.(*ast.AssignStmt)
		if !ok || len(as.Rhs) != 1 || len(as.Lhs) != 1 {
			continue
		}
		c, ok := core.Unparen(as.Rhs[0]).(*ast.CallExpr)
		if !ok {
			continue
		}
		for ai, a := range c.Args {
			if !strings.Contains(core.ExprStr(a), "Filecoin.RootCID") {
				continue
			}
			for _, h := range calleesOfCall(p, f, c) {
				if _, isRoot := comparingHelper(p, h, ai, rootVar); isRoot {
					eo := core.ObjOf(info, as.Lhs[0])
					for _, e := range g.Nodes {
						if e.Kind != core.KEdge || e.Ast == nil || !g.Dominates(n, e) {
							continue
						}
						if x, isNil, isCmp := core.NilCompare(info, e.Ast.(ast.Expr)); isCmp && core.ObjOf(info, x) == eo && isNil == e.Truth && leadsToErrorOnly(g, f, siblingEdge(e)) {
							okFil = true
						}
					}
				}
			}
		}
	}
	r.Check(okFil, rule, f.Key+"#filecoin-root-compared", posP(r, f.Pos()), "the configured Filecoin root CID is compared with the indexes' root CID", "the configured Filecoin root CID is not compared with the root CID recorded in the indexes")
	// the epoch object records the chain's root
	okStore := false
	for _, n := range stmtNodes(g) {
		if as, ok := n.Ast.(*ast.AssignStmt); ok && len(as.Lhs) == 1 && len(as.Rhs) == 1 && strings.HasSuffix(core.ExprStr(as.Lhs[0]), ".rootCid") && core.ObjOf(info, as.Rhs[0]) == rootVar {
			okStore = true
		}
	}
	r.Check(okStore, rule, f.Key+"#root-recorded", posP(r, f.Pos()), "the loaded epoch records the root CID of the chain", "the loaded epoch does not record the root CID established by the chain")
}

func siblingEdge(e *core.GNode) *core.GNode {
	for _, pr := range e.Preds {
		for _, s := range pr.Succs {
			if s != e && s.Kind == core.KEdge {
				return s
			}
		}
	}
	return nil
}

// leadsToErrorOnly: every return in the region dominated by edge e is an error return, and there is at least one.
func leadsToErrorOnly(g *core.Graph, f *core.Func, e *core.GNode) bool {
	if e == nil {
		return false
	}
	n := 0
	for x := range g.ReachFromIncl(e, nil) {
		if x.Kind != core.KStmt || !g.Dominates(e, x) {
			continue
		}
		if _, ok := x.Ast.(*ast.ReturnStmt); ok {
			if !definitelyErrorReturn(g, f, x) {
				return false
			}
			n++
		}
	}
	return n > 0
}

// c10MetadataKeys (R4).
func c10MetadataKeys(r *core.Report) {
	const rule = "C10.R4"
	p := r.Prog
	keysIn := func(f *core.Func) []string {
		set := map[string]bool{}
		ast.Inspect(f.Body, func(n ast.Node) bool {
			if sel, ok := n.(*ast.SelectorExpr); ok && strings.HasPrefix(sel.Sel.Name, "MetadataKey_") {
				set[sel.Sel.Name] = true
			}
			// one level of repository accessors (db.GetKind() reads MetadataKey_Kind)
			if c, ok := n.(*ast.CallExpr); ok {
				if fn := core.Callee(f.Pkg.TypesInfo, c); fn != nil {
					if cal := p.ByObj[fn.Origin()]; cal != nil && cal.Body != nil && len(cal.Body.List) <= 3 {
						ast.Inspect(cal.Body, func(m ast.Node) bool {
							if sel, ok := m.(*ast.SelectorExpr); ok && strings.HasPrefix(sel.Sel.Name, "MetadataKey_") {
								set[sel.Sel.Name] = true
							}
							return true
						})
					}
				}
			}
			return true
		})
		var out []string
		for k := range set {
			out = append(out, k)
		}
		sort.Strings(out)
		return out
	}
	w, rd := r.Anchor(rule, "indexes.setDefaultMetadata"), r.Anchor(rule, "indexes.getDefaultMetadata")
	if w != nil && rd != nil {
		a, b := strings.Join(keysIn(w), ","), strings.Join(keysIn(rd), ",")
		r.Check(a == b && a != "", rule, "indexes#default-metadata-keys", posP(r, rd.Pos()), "setDefaultMetadata and getDefaultMetadata use the same keys: "+a, "setDefaultMetadata writes keys ["+a+"] but getDefaultMetadata reads ["+b+"]")
		// codecs: epoch Uint64tob <-> BtoUint64, root Bytes <-> Cast
		// (decided on the resolved callees and the selected fields, not on how the parameters are spelled)
		wEpoch, wRoot, rEpoch, rRoot := false, false, false, false
		for _, c := range core.CallsIn(w.Body, true) {
			nm := core.CalleeName(w.Pkg.TypesInfo, c)
			if strings.HasSuffix(nm, "Uint64tob") && len(c.Args) == 1 {
				if sel, ok := core.Unparen(c.Args[0]).(*ast.SelectorExpr); ok && sel.Sel.Name == "Epoch" {
					wEpoch = true
				}
			}
			if sel, ok := core.Unparen(c.Fun).(*ast.SelectorExpr); ok && sel.Sel.Name == "Bytes" {
				if in, ok := core.Unparen(sel.X).(*ast.SelectorExpr); ok && in.Sel.Name == "RootCid" {
					wRoot = true
				}
			}
		}
		for _, c := range core.CallsIn(rd.Body, true) {
			nm := core.CalleeName(rd.Pkg.TypesInfo, c)
			if strings.HasSuffix(nm, "BtoUint64") {
				rEpoch = true
			}
			if strings.HasSuffix(nm, "go-cid.Cast") || strings.HasSuffix(nm, "cid.Cast") {
				rRoot = true
			}
		}
		okCodec := wEpoch && wRoot && rEpoch && rRoot
		r.Check(okCodec, rule, "indexes#default-metadata-codecs", posP(r, rd.Pos()), "epoch and root CID are decoded with the inverse of the encoders used by the writer", "the metadata decoders are not the inverses of the encoders (epoch: Uint64tob/BtoUint64, root: Bytes/Cast)")
	}
	// sig-exists: writer keys (createAllIndexes + the standalone command) vs loader keys
	ld := r.Anchor(rule, "main.NewEpochFromConfig")
	ca := r.Anchor(rule, "main.createAllIndexes")
	if ld != nil && ca != nil {
		wk := map[string]bool{}
		for _, fn := range ca.AllWithLits() {
			for _, k := range keysIn(fn) {
				wk[k] = true
			}
		}
		missing := []string{}
		for _, k := range keysIn(ld) {
			if !wk[k] {
				missing = append(missing, k)
			}
		}
		r.Check(len(missing) == 0, rule, "main#sig-exists-metadata-keys", posP(r, ld.Pos()), "every metadata key the loader requires from the sig-exists index is written by `index all`", "the loader requires metadata keys that `index all` does not write: "+strings.Join(missing, ","))
	}
	// gsfa: the manifest is created with the meta given to NewGsfaWriter; the indexer command fills Epoch/RootCid/Network
	if gw := p.Fn("main.newCmd_Index_gsfa"); gw != nil {
		set := map[string]bool{}
		for _, fn := range gw.AllWithLits() {
			for _, k := range keysIn(fn) {
				set[k] = true
			}
		}
		ok := set["MetadataKey_Epoch"] && set["MetadataKey_RootCid"]
		r.Check(ok, rule, "main#gsfa-metadata-keys", posP(r, gw.Pos()), "the gsfa indexer writes the epoch and root CID keys the loader checks", "the gsfa indexer does not write the epoch / root CID metadata the loader checks")
	}
}

// derivedLocals: obj plus the local variables assigned (plain identifiers on the left-hand side only)
// from expressions that mention an already derived variable.
func derivedLocals(f *core.Func, obj types.Object) map[types.Object]bool {
	info := f.Pkg.TypesInfo
	d := map[types.Object]bool{obj: true}
	for changed := true; changed; {
		changed = false
		ast.Inspect(f.Body, func(n ast.Node) bool {
			as, ok := n.(*ast.AssignStmt)
			if !ok {
				return true
			}
			any := false
			for _, rhs := range as.Rhs {
				if mentionsAny(info, rhs, d, false) {
					any = true
				}
			}
			if !any {
				return true
			}
			for _, l := range as.Lhs {
				if id, ok := core.Unparen(l).(*ast.Ident); ok && id.Name != "_" {
					o := info.Defs[id]
					if o == nil {
						o = info.Uses[id]
					}
					if v, ok := o.(*types.Var); ok && !d[v] && !core.IsErrorType(v.Type()) && v.Type().String() != "bool" {
						d[v] = true
						changed = true
					}
				}
			}
			return true
		})
	}
	return d
}

// c10GsfaVersionGate (C10.R5): NewEpochFromConfig compares the gsfa index's epoch and root CID only for manifest versions
// at or above a threshold (older manifests carry no metadata). That bypass is harmless only as long as the manifest opener
// refuses every version but the current one: each header NewManifest installs is either built with the current version
// constant or passed an equality test against it, and the current version lies above the threshold.
func c10GsfaVersionGate(r *core.Report) {
	const rule = "C10.R5"
	p := r.Prog
	nm := r.Anchor(rule, "gsfa/manifest.NewManifest")
	ne := r.Anchor(rule, "main.NewEpochFromConfig")
	if nm == nil || ne == nil {
		return
	}
	info := nm.Pkg.TypesInfo
	g := p.Graph(nm)
	// the current version: a package-level variable (or constant) with a constant initializer that is never reassigned
	var curObj types.Object
	curV := int64(-1)
	if mp := p.Pkg("gsfa/manifest"); mp != nil {
		curObj = mp.Types.Scope().Lookup("_Version")
		for _, file := range mp.Syntax {
			ast.Inspect(file, func(m ast.Node) bool {
				switch x := m.(type) {
				case *ast.ValueSpec:
					for i, nmid := range x.Names {
						if mp.TypesInfo.Defs[nmid] == curObj && i < len(x.Values) {
							if tv, ok := mp.TypesInfo.Types[x.Values[i]]; ok && tv.Value != nil {
								curV, _ = constant.Int64Val(tv.Value)
							}
						}
					}
				case *ast.AssignStmt:
					for _, l := range x.Lhs {
						if id, ok := l.(*ast.Ident); ok && mp.TypesInfo.Uses[id] == curObj {
							curV = -1 // reassigned somewhere: not a fixed version
						}
					}
				}
				return true
			})
		}
	}
	if curObj == nil || curV < 0 {
		r.Undecided(rule, "gsfa/manifest._Version", "", "the current manifest version is not a package-level name with a constant initializer")
		return
	}
	isCurConst := func(e ast.Expr) bool {
		return core.ObjOf(info, core.Unparen(e)) == curObj
	}
	n := 0
	for _, node := range stmtNodes(g) {
		as, ok := node.Ast.(*ast.AssignStmt)
		if !ok || len(as.Lhs) != 1 || len(as.Rhs) != 1 {
			continue
		}
		sel, ok := core.Unparen(as.Lhs[0]).(*ast.SelectorExpr)
		if !ok || sel.Sel.Name != "header" {
			continue
		}
		n++
		k := fmt.Sprintf("%s#header-installed@%d", nm.Key, n)
		okv := false
		rhs := core.Unparen(as.Rhs[0])
		if u, isU := rhs.(*ast.UnaryExpr); isU && u.Op == token.AND {
			rhs = core.Unparen(u.X)
		}
		if cl, isCL := rhs.(*ast.CompositeLit); isCL {
			for _, el := range cl.Elts {
				if kv, ok := el.(*ast.KeyValueExpr); ok && core.ExprStr(kv.Key) == "version" && isCurConst(kv.Value) {
					okv = true
				}
			}
		} else if ho := core.ObjOf(info, rhs); ho != nil {
			for _, fc := range g.FactsAt(node) {
				if fc.Tag != nil || !g.FactFresh(fc, node) {
					continue
				}
				be, ok := core.Unparen(fc.Expr).(*ast.BinaryExpr)
				if !ok || !((be.Op == token.NEQ && !fc.Truth) || (be.Op == token.EQL && fc.Truth)) {
					continue
				}
				for _, pair := range [][2]ast.Expr{{be.X, be.Y}, {be.Y, be.X}} {
					c, isC := core.Unparen(pair[0]).(*ast.CallExpr)
					if !isC || !isCurConst(pair[1]) {
						continue
					}
					if s2, ok := core.Unparen(c.Fun).(*ast.SelectorExpr); ok && s2.Sel.Name == "Version" && core.ObjOf(info, s2.X) == ho {
						okv = true
					}
				}
			}
		}
		r.Check(okv, rule, k, pos(r, as), "the installed header carries exactly the current manifest version",
			"a manifest header whose version is not known to equal the current one is accepted: an old-format gsfa manifest opens, and NewEpochFromConfig then skips the epoch / root CID comparison for it")
	}
	if n == 0 {
		r.Undecided(rule, nm.Key+"#header-installed", posP(r, nm.Pos()), "no assignment of the manifest header found")
	}
	// threshold of the bypass in NewEpochFromConfig
	einfo := ne.Pkg.TypesInfo
	found := false
	ast.Inspect(ne.Body, func(m ast.Node) bool {
		be, ok := m.(*ast.BinaryExpr)
		if !ok || (be.Op != token.GEQ && be.Op != token.GTR) {
			return true
		}
		c, ok := core.Unparen(be.X).(*ast.CallExpr)
		if !ok || !strings.HasSuffix(core.CalleeName(einfo, c), "GsfaReader).Version") {
			return true
		}
		thr, isC := core.ConstInt(einfo, be.Y)
		if !isC {
			return true
		}
		if be.Op == token.GTR {
			thr++
		}
		found = true
		r.Check(curV >= thr, rule, ne.Key+"#gsfa-identity-gate<=current-version", pos(r, be),
			fmt.Sprintf("the identity comparison applies from manifest version %d on and the only accepted version is %d", thr, curV),
			fmt.Sprintf("the gsfa identity comparison applies only from manifest version %d on but the accepted version is %d: the comparison is never made", thr, curV))
		return true
	})
	if !found {
		r.OK(rule, ne.Key+"#gsfa-identity-unconditional", posP(r, ne.Pos()), "no version gate in front of the gsfa identity comparison")
	}
}

// c10AssertGates (C10.R6): the identity chain rests on Metadata.AssertIndexKind / AssertEpoch / AssertRootCid /
// AssertNetwork. Each returns nil only when the recorded value equals the expected one - an equality that is known on
// the nil return, with no disjunct that lets an empty or absent recorded value through - and getDefaultMetadata fails
// when the kind, epoch or root CID entry is missing from the header.
func c10AssertGates(r *core.Report) {
	const rule = "C10.R6"
	p := r.Prog
	for _, name := range []string{"AssertIndexKind", "AssertEpoch", "AssertRootCid", "AssertNetwork"} {
		f := r.Anchor(rule, "indexes.(*Metadata)."+name)
		if f == nil {
			continue
		}
		info := f.Pkg.TypesInfo
		g := p.Graph(f)
		x := f.ParamObj(0)
		bad := ""
		n := 0
		for _, rn := range g.Returns() {
			if nilErr, dec := isNilErrReturn(f, rn); !dec || !nilErr {
				continue
			}
			n++
			ok := false
			for _, fc := range g.FactsAt(rn) {
				if fc.Tag != nil || x == nil || !core.Mentions(info, fc.Expr, x) {
					continue
				}
				if isEqualityTest(info, fc.Expr) && assertsEqual(info, fc.Expr, fc.Truth) {
					ok = true
				}
			}
			if !ok {
				bad = p.Rel(rn.Ast.Pos())
			}
		}
		r.Check(n > 0 && bad == "", rule, f.Key+"#nil-only-on-equality", posP(r, f.Pos()), "returns nil only when the recorded value equals the expected one",
			"returns nil at "+bad+" without the recorded value being known equal to the expected one (e.g. when it is empty): an index without that identity entry passes the check")
	}
	if gd := r.Anchor(rule, "indexes.getDefaultMetadata"); gd != nil {
		info := gd.Pkg.TypesInfo
		g := p.Graph(gd)
		for _, key := range []string{"MetadataKey_Kind", "MetadataKey_Epoch", "MetadataKey_RootCid"} {
			// the ok flag of the read of this key; its false outcome must lead to error returns only
			var okObj types.Object
			var at *core.GNode
			for _, node := range stmtNodes(g) {
				as, isA := node.Ast.(*ast.AssignStmt)
				if !isA || len(as.Rhs) != 1 || len(as.Lhs) != 2 {
					continue
				}
				reads := strings.Contains(core.ExprStr(as.Rhs[0]), key)
				if c, isC := core.Unparen(as.Rhs[0]).(*ast.CallExpr); isC && !reads {
					if fn := core.Callee(info, c); fn != nil {
						if cal := p.ByObj[fn.Origin()]; cal != nil && cal.Body != nil && len(cal.Body.List) <= 3 && strings.Contains(core.ExprStr(cal.Body), key) {
							reads = true
						}
					}
				}
				if reads {
					okObj, at = core.ObjOf(info, as.Lhs[1]), node
				}
			}
			k := fmt.Sprintf("%s#missing-%s-is-an-error", gd.Key, key)
			if okObj == nil {
				r.Violation(rule, k, posP(r, gd.Pos()), "the "+key+" entry of the header is not read with a presence flag")
				continue
			}
			required := false
			for _, e := range g.Nodes {
				if e.Kind != core.KEdge || e.Ast == nil || !g.Dominates(at, e) {
					continue
				}
				ex := core.Unparen(e.Ast.(ast.Expr))
				absent := false
				if id, isId := ex.(*ast.Ident); isId && info.Uses[id] == okObj && !e.Truth {
					absent = true
				}
				if u, isU := ex.(*ast.UnaryExpr); isU && u.Op == token.NOT && core.ObjOf(info, u.X) == okObj && e.Truth {
					absent = true
				}
				if absent && leadsToErrorOnly(g, gd, e) {
					required = true
				}
			}
			r.Check(required, rule, k, pos(r, at.Ast), "a header without the "+key+" entry is refused",
				"a header without the "+key+" entry is accepted: the index then carries no such identity and every comparison against it is vacuous")
		}
	}
}

// callsEpochGetter: the expression contains a call of (*Epoch).Epoch() - the number of the epoch being loaded.
func callsEpochGetter(info *types.Info, n ast.Node) bool {
	found := false
	ast.Inspect(n, func(m ast.Node) bool {
		if c, ok := m.(*ast.CallExpr); ok && core.CalleeName(info, c) == "main.(*Epoch).Epoch" {
			found = true
		}
		return true
	})
	return found
}

// epochGetterValueIn: n calls the epoch getter, or mentions a local of f whose only definition is a call of it
// (`wantEpoch := ep.Epoch()`).
func epochGetterValueIn(f *core.Func, n ast.Node) bool {
	info := f.Pkg.TypesInfo
	if callsEpochGetter(info, n) {
		return true
	}
	found := false
	ast.Inspect(n, func(m ast.Node) bool {
		if id, ok := m.(*ast.Ident); ok && !found {
			if v, isVar := info.Uses[id].(*types.Var); isVar && !v.IsField() && !isParamOf(f.Root(), v) {
				if d := singleDef(f.Root(), v); d != nil && callsEpochGetter(info, d) {
					found = true
				}
			}
		}
		return !found
	})
	return found
}

// resultOfCall: e is a call of a function whose name ends in suffix, or a local assigned (once) from such a call.
func resultOfCall(f *core.Func, e ast.Expr, suffix string) bool {
	info := f.Pkg.TypesInfo
	isCall := func(x ast.Expr) bool {
		c, ok := core.Unparen(x).(*ast.CallExpr)
		return ok && strings.HasSuffix(core.CalleeName(info, c), suffix)
	}
	if isCall(e) {
		return true
	}
	if o := core.ObjOf(info, e); o != nil {
		if d := singleDef(f, o); d != nil && isCall(d) {
			return true
		}
	}
	return false
}

// kindAssertedAt: the return rn of fn is only reached after meta.AssertIndexKind(K) succeeded, with K satisfying isKind -
// directly, or inside a helper that fn calls with K as an argument and whose own success returns are all reached only
// after the assertion on that parameter (getMetadataOfKind(index, K)).
func kindAssertedAt(p *core.Prog, fn *core.Func, rn *core.GNode, isKind func(*types.Info, ast.Expr) bool, depth int) (bool, string) {
	info := fn.Pkg.TypesInfo
	g := p.Graph(fn)
	why := ""
	// `return ..., meta.AssertIndexKind(kind)`: the error handed back is the assertion's own verdict
	if res := returnResults(rn); len(res) > 0 {
		if c, isCall := core.Unparen(res[len(res)-1]).(*ast.CallExpr); isCall && len(c.Args) == 1 && core.CalleeName(info, c) == "indexes.(*Metadata).AssertIndexKind" {
			if isKind(info, c.Args[0]) {
				return true, ""
			}
			why = "asserts kind " + core.ExprStr(c.Args[0])
		}
	}
	for _, d := range g.Dominators(rn) {
		if d.Kind != core.KEdge || d.Ast == nil {
			continue
		}
		// the surviving side of `if err := ...; err != nil { return }`: err is known nil on d
		x, isNil, isCmp := core.NilCompare(info, d.Ast.(ast.Expr))
		if !isCmp || isNil != d.Truth {
			continue
		}
		eo := core.ObjOf(info, x)
		if eo == nil || !core.IsErrorType(eo.Type()) {
			continue
		}
		for _, dd := range g.Dominators(d) {
			as, isAs := dd.Ast.(*ast.AssignStmt)
			if dd.Kind != core.KStmt || !isAs || len(as.Rhs) != 1 || core.ObjOf(info, as.Lhs[len(as.Lhs)-1]) != eo {
				continue
			}
			// no other assignment of err between the call and the test
			stale := false
			for _, m := range stmtNodes(g) {
				if m != dd && g.Dominates(dd, m) && g.Dominates(m, d) && core.AssignsObj(info, m.Ast, eo) {
					stale = true
				}
			}
			c, isCall := core.Unparen(as.Rhs[0]).(*ast.CallExpr)
			if stale || !isCall {
				continue
			}
			if core.CalleeName(info, c) == "indexes.(*Metadata).AssertIndexKind" && len(c.Args) == 1 {
				if isKind(info, c.Args[0]) {
					return true, ""
				}
				why = "asserts kind " + core.ExprStr(c.Args[0])
				continue
			}
			if depth >= 2 {
				continue
			}
			fo := core.Callee(info, c)
			if fo == nil {
				continue
			}
			h := p.ByObj[fo.Origin()]
			if h == nil || h.Body == nil {
				continue
			}
			for ai, a := range c.Args {
				po := h.ParamObj(ai)
				if po == nil || !isKind(info, a) {
					continue
				}
				hg := p.Graph(h)
				all, nret := true, 0
				for _, hr := range hg.Returns() {
					if definitelyErrorReturn(hg, h, hr) {
						continue
					}
					nret++
					if ok, _ := kindAssertedAt(p, h, hr, func(hi *types.Info, e ast.Expr) bool { return core.ObjOf(hi, e) == types.Object(po) }, depth+1); !ok {
						all = false
					}
				}
				if all && nret > 0 {
					return true, ""
				}
			}
		}
	}
	return false, why
}

// calleesOfCall: the repository functions a call may run when its callee is a declared function or a local closure
// variable of f.
func calleesOfCall(p *core.Prog, f *core.Func, c *ast.CallExpr) []*core.Func {
	info := f.Pkg.TypesInfo
	if fo := core.Callee(info, c); fo != nil {
		if h := p.ByObj[fo.Origin()]; h != nil && h.Body != nil {
			return []*core.Func{h}
		}
		return nil
	}
	if v, ok := core.ObjOf(info, c.Fun).(*types.Var); ok && !v.IsField() {
		return p.FuncValuesOf(v, f)
	}
	return nil
}

// comparingHelper: every success return of h is reached only after its parameter #idx was found equal to the number of
// the epoch being loaded ((*Epoch).Epoch(): isEpoch) or to the running root CID variable (isRoot), the other outcome of
// the comparison returning an error.
func comparingHelper(p *core.Prog, h *core.Func, idx int, rootVar types.Object) (isEpoch, isRoot bool) {
	po := h.ParamObj(idx)
	if po == nil || h.Body == nil {
		return false, false
	}
	info := h.Pkg.TypesInfo
	g := p.Graph(h)
	epochAll, rootAll, nret := true, true, 0
	for _, rn := range g.Returns() {
		if definitelyErrorReturn(g, h, rn) {
			continue
		}
		nret++
		e1, r1 := false, false
		for _, fc := range g.FactsAt(rn) {
			if fc.Tag != nil || fc.Edge == nil || !core.Mentions(info, fc.Expr, po) || !isEqualityTest(info, fc.Expr) || !assertsEqual(info, fc.Expr, fc.Truth) {
				continue
			}
			if !leadsToErrorOnly(g, h, siblingEdge(fc.Edge)) {
				continue
			}
			if callsEpochGetter(info, fc.Expr) {
				e1 = true
			}
			if rootVar != nil && core.Mentions(info, fc.Expr, rootVar) {
				r1 = true
			}
		}
		epochAll, rootAll = epochAll && e1, rootAll && r1
	}
	if nret == 0 {
		return false, false
	}
	return epochAll, rootAll
}

// comparingHelperByArgs: every non-error return of h is reached only after a value derived from parameter idx was found
// equal to another parameter j (the mismatch side leading to errors only); role(j) tells whether the caller passes the
// epoch being loaded / the root variable there.
func comparingHelperByArgs(p *core.Prog, h *core.Func, idx int, role func(j int) (isEpoch, isRoot bool)) (bool, bool) {
	po := h.ParamObj(idx)
	if po == nil || h.Body == nil {
		return false, false
	}
	info := h.Pkg.TypesInfo
	g := p.Graph(h)
	derived := derivedLocals(h, po)
	epochAll, rootAll, nret := true, true, 0
	for _, rn := range g.Returns() {
		if definitelyErrorReturn(g, h, rn) {
			continue
		}
		nret++
		e1, r1 := false, false
		for _, fc := range g.FactsAt(rn) {
			if fc.Tag != nil || fc.Edge == nil || !mentionsAny(info, fc.Expr, derived, false) || !isEqualityTest(info, fc.Expr) || !assertsEqual(info, fc.Expr, fc.Truth) {
				continue
			}
			if !leadsToErrorOnly(g, h, siblingEdge(fc.Edge)) {
				continue
			}
			for j := 0; h.ParamObj(j) != nil; j++ {
				if j == idx || !core.Mentions(info, fc.Expr, h.ParamObj(j)) {
					continue
				}
				ie, ir := role(j)
				e1, r1 = e1 || ie, r1 || ir
			}
		}
		epochAll, rootAll = epochAll && e1, rootAll && r1
	}
	if nret == 0 {
		return false, false
	}
	return epochAll, rootAll
}
