package rules

import (
	"fmt"
	"go/ast"
	"go/token"
	"go/types"
	"sort"
	"strings"

	"yfverif/checker/internal/core"
)

// c19ResponsesFilledAlike (C19.R18): sibling agreement of the two ways StreamTransactions builds a message. Every
// *TransactionResponse that the handler allocates and fills field by field gets the same set of fields assigned, whichever
// path (block scan or address index) builds it, and the slot is assigned on every path from the allocation to the point
// where the message is handed on (Send, the ordering buffer). A path that leaves Slot or Index at its zero value streams
// every transaction "of slot 0".
func c19ResponsesFilledAlike(r *core.Report) {
	const rule = "C19.R18"
	f := r.Anchor(rule, "main.(*MultiEpoch).processSlotTransactions")
	if f == nil {
		return
	}
	p := r.Prog
	type resp struct {
		fn     *core.Func
		obj    types.Object
		def    ast.Node
		fields map[string]bool
	}
	var all []*resp
	fns := append([]*core.Func{f}, allLits(f)...)
	for _, fn := range fns {
		info := fn.Pkg.TypesInfo
		ast.Inspect(fn.Body, func(m ast.Node) bool {
			if l, isLit := m.(*ast.FuncLit); isLit && l != fn.Lit {
				return false
			}
			as, ok := m.(*ast.AssignStmt)
			if !ok || len(as.Lhs) != 1 || len(as.Rhs) != 1 || as.Tok != token.DEFINE {
				return true
			}
			o := core.ObjOf(info, as.Lhs[0])
			if o == nil || !strings.HasSuffix(core.NamedTypeName(derefType(o.Type())), "old-faithful-grpc.TransactionResponse") {
				return true
			}
			// new(T) or &T{}
			fresh := false
			switch x := core.Unparen(as.Rhs[0]).(type) {
			case *ast.CallExpr:
				fresh = core.BuiltinName(info, x) == "new"
			case *ast.UnaryExpr:
				if cl, isCl := core.Unparen(x.X).(*ast.CompositeLit); isCl && x.Op == token.AND && len(cl.Elts) == 0 {
					fresh = true
				}
			}
			if fresh {
				all = append(all, &resp{fn: fn, obj: o, def: as, fields: map[string]bool{}})
			}
			return true
		})
	}
	for _, rs := range all {
		info := rs.fn.Pkg.TypesInfo
		ast.Inspect(rs.fn.Body, func(m ast.Node) bool {
			as, ok := m.(*ast.AssignStmt)
			if !ok {
				return true
			}
			for _, l := range as.Lhs {
				path := ""
				e := core.Unparen(l)
				for {
					sel, isSel := e.(*ast.SelectorExpr)
					if !isSel {
						break
					}
					path = "." + sel.Sel.Name + path
					e = core.Unparen(sel.X)
				}
				if path != "" && core.ObjOf(info, e) == rs.obj {
					rs.fields[path] = true
				}
			}
			return true
		})
	}
	if len(all) < 2 {
		r.Undecided(rule, f.Key+"#responses", posP(r, f.Pos()), fmt.Sprintf("%d field-wise filled TransactionResponse found, expected one per path", len(all)))
		return
	}
	union := map[string]bool{}
	for _, rs := range all {
		for k := range rs.fields {
			union[k] = true
		}
	}
	for i, rs := range all {
		var missing []string
		for k := range union {
			if !rs.fields[k] {
				missing = append(missing, k)
			}
		}
		sort.Strings(missing)
		key := fmt.Sprintf("%s#response@%d-fills-the-fields-its-siblings-fill", f.Key, i+1)
		r.Check(len(missing) == 0, rule, key, pos(r, rs.def), fmt.Sprintf("the message is given the same %d fields as on the other path", len(union)),
			"this path never assigns "+strings.Join(missing, ", ")+" of the message, the other path does: the same transaction is streamed with another slot / position depending on whether an address index is loaded")
		// the slot is assigned on every path to the hand-over
		g := p.Graph(rs.fn)
		info := rs.fn.Pkg.TypesInfo
		defNode := g.NodeOf(rs.def.Pos())
		assignsSlot := func(n *core.GNode) bool {
			as, ok := n.Ast.(*ast.AssignStmt)
			if n.Kind != core.KStmt || !ok {
				return false
			}
			for _, l := range as.Lhs {
				if sel, isSel := core.Unparen(l).(*ast.SelectorExpr); isSel && sel.Sel.Name == "Slot" && core.ObjOf(info, sel.X) == rs.obj {
					return true
				}
			}
			return false
		}
		handsOn := func(n *core.GNode) bool {
			if n.Kind != core.KStmt {
				return false
			}
			for _, c := range nodeCalls(n) {
				for _, a := range c.Args {
					if core.ObjOf(info, a) == rs.obj {
						return true
					}
				}
			}
			return false
		}
		if defNode == nil {
			continue
		}
		path := g.PathAvoiding(defNode, handsOn, assignsSlot)
		r.Check(path == nil, rule, fmt.Sprintf("%s#response@%d-slot-assigned-before-it-is-handed-on", f.Key, i+1), pos(r, rs.def), "every path from the allocation to Send / the ordering buffer assigns the slot",
			"a path hands the message on without having assigned its slot: the transaction is streamed as one of slot 0")
	}
}

func derefType(t types.Type) types.Type {
	if p, ok := t.Underlying().(*types.Pointer); ok {
		return p.Elem()
	}
	return t
}

// c19FailedFilterSeesTheSameMeta (C19.R19): the failed=false test classifies a transaction stored WITHOUT metadata the same
// way on both paths. The block path parses the (empty) metadata bytes and hands the predicate a non-nil status; the
// address-index path parses the node and may hand it no metadata at all. So wherever the predicate is called with a value
// that can be the untyped nil (the producing helper has a success return that leaves the result unassigned or nil), the
// classification by getErr is guarded by a nil test of that value - or getErr itself maps nil to "no error".
func c19FailedFilterSeesTheSameMeta(r *core.Report) {
	const rule = "C19.R19"
	f := r.Anchor(rule, "main.(*MultiEpoch).processSlotTransactions")
	ge := r.Anchor(rule, "main.getErr")
	if f == nil || ge == nil {
		return
	}
	p := r.Prog
	info := f.Pkg.TypesInfo
	// does getErr map nil to nil?
	nilIsNoError := false
	ast.Inspect(ge.Body, func(m ast.Node) bool {
		switch x := m.(type) {
		case *ast.TypeSwitchStmt:
			for _, cl := range x.Body.List {
				cc := cl.(*ast.CaseClause)
				if len(cc.List) == 1 && core.IsNil(ge.Pkg.TypesInfo, cc.List[0]) && len(cc.Body) > 0 {
					if rs, ok := cc.Body[0].(*ast.ReturnStmt); ok && len(rs.Results) == 1 && core.IsNil(ge.Pkg.TypesInfo, rs.Results[0]) {
						nilIsNoError = true
					}
				}
			}
		case *ast.IfStmt:
			if y, eq, ok := core.NilCompare(ge.Pkg.TypesInfo, x.Cond); ok && eq && core.ObjOf(ge.Pkg.TypesInfo, y) == types.Object(ge.ParamObj(0)) && len(x.Body.List) > 0 {
				if rs, ok := x.Body.List[0].(*ast.ReturnStmt); ok && len(rs.Results) == 1 && core.IsNil(ge.Pkg.TypesInfo, rs.Results[0]) {
					nilIsNoError = true
				}
			}
		}
		return true
	})
	// the predicate: the literal that calls getErr on one of its own parameters
	var pred *core.Func
	var metaParam types.Object
	var geCalls []*ast.CallExpr
	for _, l := range allLits(f) {
		for _, c := range core.CallsIn(l.Body, false) {
			if core.Callee(info, c) == ge.Obj && len(c.Args) == 1 {
				if o := core.ObjOf(info, c.Args[0]); o != nil && isParamOf(l, o) {
					pred, metaParam = l, o
					geCalls = append(geCalls, c)
				}
			}
		}
	}
	key := f.Key + "#failed-filter-tolerates-absent-metadata"
	if pred == nil {
		r.Undecided(rule, key, posP(r, f.Pos()), "the predicate that classifies failed transactions with getErr not found")
		return
	}
	mi := -1
	for i := 0; pred.ParamObj(i) != nil; i++ {
		if types.Object(pred.ParamObj(i)) == metaParam {
			mi = i
		}
	}
	// call sites of the predicate: can the metadata argument be the untyped nil?
	var predVar types.Object
	ast.Inspect(f.Body, func(m ast.Node) bool {
		if as, ok := m.(*ast.AssignStmt); ok && len(as.Rhs) == 1 && len(as.Lhs) == 1 {
			if fl, isLit := core.Unparen(as.Rhs[0]).(*ast.FuncLit); isLit && fl == pred.Lit {
				predVar = core.ObjOf(info, as.Lhs[0])
			}
		}
		return true
	})
	mayBeNil := ""
	nsites := 0
	for _, fn := range append([]*core.Func{f}, allLits(f)...) {
		for _, c := range core.CallsIn(fn.Body, false) {
			if predVar == nil || core.ObjOf(info, c.Fun) != predVar || mi >= len(c.Args) {
				continue
			}
			nsites++
			ao := core.ObjOf(info, c.Args[mi])
			if ao == nil {
				continue
			}
			// the definition of the argument: result k of a call of h
			ast.Inspect(fn.Body, func(m ast.Node) bool {
				as, ok := m.(*ast.AssignStmt)
				if !ok || len(as.Rhs) != 1 {
					return true
				}
				hc, isCall := core.Unparen(as.Rhs[0]).(*ast.CallExpr)
				if !isCall {
					return true
				}
				for k, l := range as.Lhs {
					if core.ObjOf(info, l) != ao {
						continue
					}
					if fo := core.Callee(info, hc); fo != nil {
						if h := p.ByObj[fo.Origin()]; h != nil && h.Body != nil && resultMayBeNilOnSuccess(p, h, k) {
							mayBeNil = h.Key
						}
					}
				}
				return true
			})
		}
	}
	if nsites == 0 {
		r.Undecided(rule, key, posP(r, f.Pos()), "no call of the predicate found")
		return
	}
	guarded := true
	g := p.Graph(pred)
	for _, c := range geCalls {
		n := g.NodeOf(c.Pos())
		ok := false
		if n != nil {
			for _, fc := range g.FactsAt(n) {
				if x, eq, isNil := core.NilCompare(info, fc.Expr); isNil && eq != fc.Truth && core.ObjOf(info, x) == metaParam {
					ok = true
				}
			}
		}
		// `meta != nil && getErr(meta) != nil` in one condition
		ast.Inspect(pred.Body, func(m ast.Node) bool {
			if be, isBin := m.(*ast.BinaryExpr); isBin && be.Op == token.LAND && be.Y.Pos() <= c.Pos() && c.End() <= be.Y.End() {
				for _, cj := range conjuncts(be.X) {
					if x, eq, isNil := core.NilCompare(info, cj); isNil && !eq && core.ObjOf(info, x) == metaParam {
						ok = true
					}
				}
			}
			return true
		})
		guarded = guarded && ok
	}
	r.Check(mayBeNil == "" || nilIsNoError || guarded, rule, key, pos(r, geCalls[0]), "a transaction stored without metadata is classified alike on both paths (nil metadata is not classified as failed)",
		"the predicate classifies the metadata with getErr although "+mayBeNil+" can hand it no metadata at all (a success return that leaves the result nil) and getErr maps nil to an error: with failed=false a transaction stored without metadata is dropped on the address-index path and streamed on the block path")
}

// resultMayBeNilOnSuccess: h has a return whose last result is nil (success) and whose k-th result is nil, or is the named
// result k which some path from the entry to that return never assigns.
func resultMayBeNilOnSuccess(p *core.Prog, h *core.Func, k int) bool {
	info := h.Pkg.TypesInfo
	g := p.Graph(h)
	sig, _ := h.Obj.Type().(*types.Signature)
	if sig == nil || k >= sig.Results().Len() {
		return false
	}
	if _, isIface := sig.Results().At(k).Type().Underlying().(*types.Interface); !isIface {
		return false
	}
	named := types.Object(nil)
	if sig.Results().At(k).Name() != "" && sig.Results().At(k).Name() != "_" {
		named = sig.Results().At(k)
	}
	for _, rn := range g.Returns() {
		if definitelyErrorReturn(g, h, rn) {
			continue
		}
		res := returnResults(rn)
		var e ast.Expr
		if len(res) == sig.Results().Len() {
			e = core.Unparen(res[k])
			if core.IsNil(info, e) {
				return true
			}
			if named == nil || core.ObjOf(info, e) != named {
				// a local: unassigned on some path?
				if o := core.ObjOf(info, e); o != nil && !isParamOf(h, o) {
					named = o
				} else {
					continue
				}
			}
		} else if len(res) != 0 || named == nil {
			continue
		}
		obj := named
		assigns := func(n *core.GNode) bool {
			return n.Kind == core.KStmt && n.Ast != nil && core.AssignsObj(info, n.Ast, obj)
		}
		if path := g.PathAvoiding(g.Entry, func(n *core.GNode) bool { return n == rn }, assigns); path != nil {
			return true
		}
	}
	return false
}
