package rules

import (
	"go/ast"
	"go/token"
	"go/types"
	"strings"

	"yfverif/checker/internal/core"
)

// c19BlockFilterSeesLoadedAccounts (C19.R12): StreamBlocks with an account filter must send every block with a transaction
// that mentions one of the accounts - among its static keys or among the addresses it loads from lookup tables (writable
// AND readonly). In blockContainsAccounts, every way through one transaction that moves on to the next one without
// having consulted the loaded addresses is one of: the transaction / its metadata could not be decoded, or the
// transaction has no table lookups at all (NumLookups() == 0, not versioned). Any other shortcut drops matching blocks.
func c19BlockFilterSeesLoadedAccounts(r *core.Report) {
	const rule = "C19.R12"
	p := r.Prog
	f := r.Anchor(rule, "main.blockContainsAccounts")
	if f == nil {
		return
	}
	// unitOK: in h - the function that handles ONE transaction - every path to the exit that is not a `return true` passes
	// the comparison of the loaded addresses, or one of the accepted reasons (undecodable, no table lookups).
	var unitOK func(h *core.Func, depth int) (bool, []string)
	// loadedAndAllowed computes, for function h, the nodes where the loaded addresses are consulted and the accepted skips.
	analyse := func(h *core.Func, depth int) (loaded map[*core.GNode]bool, allowed func(*core.GNode) bool, g *core.Graph) {
		info := h.Pkg.TypesInfo
		g = p.Graph(h)
		loaded = map[*core.GNode]bool{}
		for _, nd := range stmtNodes(g) {
			for _, c := range nodeCalls(nd) {
				nm := core.CalleeName(info, c)
				if strings.HasSuffix(nm, ".GetLoadedAccounts") || strings.HasSuffix(nm, ".GetLoadedAddresses") {
					loaded[nd] = true
				}
				// a same-package helper that handles the transaction and itself reaches the loaded addresses
				if depth > 0 {
					if fo := core.Callee(info, c); fo != nil {
						if hh := p.ByObj[fo.Origin()]; hh != nil && hh.Body != nil && hh.Pkg == h.Pkg && hh != h {
							if ok, _ := unitOK(hh, depth-1); ok {
								loaded[nd] = true
							}
						}
					}
				}
			}
		}
		errVars := map[types.Object]bool{}
		ast.Inspect(h.Body, func(m ast.Node) bool {
			if as, ok := m.(*ast.AssignStmt); ok && len(as.Rhs) == 1 {
				if _, isC := core.Unparen(as.Rhs[0]).(*ast.CallExpr); isC && len(as.Lhs) >= 1 {
					if o := core.ObjOf(info, as.Lhs[len(as.Lhs)-1]); o != nil && core.IsErrorType(o.Type()) {
						errVars[o] = true
					}
				}
			}
			return true
		})
		allowed = func(e *core.GNode) bool {
			if e.Kind != core.KEdge || e.Ast == nil {
				return false
			}
			for _, fc := range e.Facts() {
				if fc.Tag != nil {
					continue
				}
				if x, eq, isNil := core.NilCompare(info, fc.Expr); isNil && errVars[core.ObjOf(info, x)] && eq != fc.Truth {
					return true
				}
				if be, ok := core.Unparen(fc.Expr).(*ast.BinaryExpr); ok {
					if x, c, isC := orientConst(info, be); isC && c == 0 && ((be.Op == token.EQL && fc.Truth) || (be.Op == token.NEQ && !fc.Truth) || (be.Op == token.GTR && !fc.Truth)) {
						s := core.ExprStr(x)
						if strings.HasSuffix(s, ".NumLookups()") || (strings.HasPrefix(s, "len(") && strings.Contains(s, "AddressTableLookups")) {
							return true
						}
					}
				}
				if c, ok := core.Unparen(fc.Expr).(*ast.CallExpr); ok && !fc.Truth && strings.HasSuffix(core.CalleeName(info, c), ".IsVersioned") {
					return true
				}
			}
			return false
		}
		return loaded, allowed, g
	}
	unitOK = func(h *core.Func, depth int) (bool, []string) {
		loaded, allowed, g := analyse(h, depth)
		if len(loaded) == 0 {
			return false, nil
		}
		info := h.Pkg.TypesInfo
		retTrue := func(x *core.GNode) bool {
			if rs, ok := x.Ast.(*ast.ReturnStmt); ok && len(rs.Results) == 1 {
				if b, isC := boolConst(info, rs.Results[0]); isC && b {
					return true
				}
			}
			return false
		}
		path := g.PathAvoiding(g.Entry, func(x *core.GNode) bool { return x == g.Exit }, func(x *core.GNode) bool { return loaded[x] || allowed(x) || retTrue(x) })
		return path == nil, g.PathStrings(path)
	}
	info := f.Pkg.TypesInfo
	const key = "#every-transaction-reaches-its-loaded-addresses"
	const okMsg = "a transaction is passed over only after its loaded addresses were compared (or it could not be decoded / has no table lookups)"
	const badMsg = "a transaction can be passed over without its loaded addresses having been compared with the filter accounts: a block whose only matching transaction loads the account from a lookup table (e.g. readonly) is not streamed"
	// form 1: slices.ContainsFunc(block.Transactions, perTransaction)
	for _, c := range core.CallsIn(f.Body, false) {
		if !strings.HasSuffix(core.CalleeName(info, c), "slices.ContainsFunc") || len(c.Args) != 2 {
			continue
		}
		if sel, ok := core.Unparen(c.Args[0]).(*ast.SelectorExpr); !ok || sel.Sel.Name != "Transactions" {
			continue
		}
		var h *core.Func
		switch x := core.Unparen(c.Args[1]).(type) {
		case *ast.FuncLit:
			h = p.ByLit[x]
		default:
			if fo, ok := core.ObjOf(info, x).(*types.Func); ok {
				h = p.ByObj[fo.Origin()]
			}
		}
		if h == nil || h.Body == nil {
			r.Undecided(rule, f.Key+"#transaction-loop", pos(r, c), "the per-transaction predicate handed to slices.ContainsFunc is not a function of the repository")
			return
		}
		ok, path := unitOK(h, 1)
		r.Check(ok, rule, f.Key+key, pos(r, c), okMsg, badMsg, path...)
		return
	}
	// form 2: a loop over the block's transactions
	var loop *ast.RangeStmt
	ast.Inspect(f.Body, func(m ast.Node) bool {
		if rs, ok := m.(*ast.RangeStmt); ok && loop == nil {
			if sel, ok := core.Unparen(rs.X).(*ast.SelectorExpr); ok && sel.Sel.Name == "Transactions" {
				loop = rs
			}
		}
		return true
	})
	if loop == nil {
		r.Undecided(rule, f.Key+"#transaction-loop", posP(r, f.Pos()), "loop over the block's transactions not found")
		return
	}
	loaded, allowed, g := analyse(f, 1)
	if len(loaded) == 0 {
		r.Violation(rule, f.Key+"#loaded-addresses-consulted", posP(r, f.Pos()), "the block filter never looks at the addresses a transaction loads from lookup tables: a block whose only matching transaction loads the account is not sent")
		return
	}
	var entry *core.GNode
	for _, e := range g.Nodes {
		if e.Kind == core.KEdge && e.Loop == ast.Stmt(loop) && e.Truth {
			entry = e
		}
	}
	if entry == nil {
		r.Undecided(rule, f.Key+"#transaction-loop-entry", pos(r, loop), "body entry of the transaction loop not found")
		return
	}
	path := g.PathAvoiding(entry, func(x *core.GNode) bool { return x.Kind == core.KEdge && x.Loop == ast.Stmt(loop) && x != entry },
		func(x *core.GNode) bool { return loaded[x] || allowed(x) })
	r.Check(path == nil, rule, f.Key+key, pos(r, loop), okMsg, badMsg, g.PathStrings(path)...)
}
