package rules

import (
	"go/ast"
	"go/token"
	"go/types"
	"strings"

	"yfverif/checker/internal/core"
)

// c19BlockFilterSeesLoadedAccounts (C19.R12): StreamBlocks with an account filter must send every block with a transaction
// that mentions one of the accounts - among its static keys or among the addresses it loads from lookup tables (writable
// AND readonly). In blockContainsAccounts, every way through one transaction that moves on to the next one without
// having consulted the loaded addresses is one of: the transaction / its metadata could not be decoded, or the
// transaction has no table lookups at all (NumLookups() == 0, not versioned). Any other shortcut drops matching blocks.
func c19BlockFilterSeesLoadedAccounts(r *core.Report) {
	const rule = "C19.R12"
	p := r.Prog
	f := r.Anchor(rule, "main.blockContainsAccounts")
	if f == nil {
		return
	}
	info := f.Pkg.TypesInfo
	g := p.Graph(f)
	// the loop over the block's transactions
	var loop *ast.RangeStmt
	ast.Inspect(f.Body, func(m ast.Node) bool {
		if rs, ok := m.(*ast.RangeStmt); ok && loop == nil {
			if sel, ok := core.Unparen(rs.X).(*ast.SelectorExpr); ok && sel.Sel.Name == "Transactions" {
				loop = rs
			}
		}
		return true
	})
	if loop == nil {
		r.Undecided(rule, f.Key+"#transaction-loop", posP(r, f.Pos()), "loop over the block's transactions not found")
		return
	}
	// where the loaded addresses are consulted
	loaded := map[*core.GNode]bool{}
	for _, nd := range stmtNodes(g) {
		for _, c := range nodeCalls(nd) {
			nm := core.CalleeName(info, c)
			if strings.HasSuffix(nm, ".GetLoadedAccounts") || strings.HasSuffix(nm, ".GetLoadedAddresses") {
				loaded[nd] = true
			}
		}
	}
	if len(loaded) == 0 {
		r.Violation(rule, f.Key+"#loaded-addresses-consulted", posP(r, f.Pos()), "the block filter never looks at the addresses a transaction loads from lookup tables: a block whose only matching transaction loads the account is not sent")
		return
	}
	// error variables of decode / parse calls
	errVars := map[types.Object]bool{}
	ast.Inspect(loop.Body, func(m ast.Node) bool {
		if as, ok := m.(*ast.AssignStmt); ok && len(as.Rhs) == 1 {
			if _, isC := core.Unparen(as.Rhs[0]).(*ast.CallExpr); isC && len(as.Lhs) >= 1 {
				if o := core.ObjOf(info, as.Lhs[len(as.Lhs)-1]); o != nil && core.IsErrorType(o.Type()) {
					errVars[o] = true
				}
			}
		}
		return true
	})
	allowed := func(e *core.GNode) bool {
		if e.Kind != core.KEdge || e.Ast == nil {
			return false
		}
		for _, fc := range e.Facts() {
			if fc.Tag != nil {
				continue
			}
			// a failed decode / parse
			if x, eq, isNil := core.NilCompare(info, fc.Expr); isNil && errVars[core.ObjOf(info, x)] && eq != fc.Truth {
				return true
			}
			// no lookups at all
			if be, ok := core.Unparen(fc.Expr).(*ast.BinaryExpr); ok {
				if x, c, isC := orientConst(info, be); isC && c == 0 && ((be.Op == token.EQL && fc.Truth) || (be.Op == token.NEQ && !fc.Truth) || (be.Op == token.GTR && !fc.Truth)) {
					s := core.ExprStr(x)
					if strings.HasSuffix(s, ".NumLookups()") || (strings.HasPrefix(s, "len(") && strings.Contains(s, "AddressTableLookups")) {
						return true
					}
				}
			}
			if c, ok := core.Unparen(fc.Expr).(*ast.CallExpr); ok && !fc.Truth && strings.HasSuffix(core.CalleeName(info, c), ".IsVersioned") {
				return true
			}
		}
		return false
	}
	var entry *core.GNode
	for _, e := range g.Nodes {
		if e.Kind == core.KEdge && e.Loop == ast.Stmt(loop) && e.Truth {
			entry = e
		}
	}
	if entry == nil {
		r.Undecided(rule, f.Key+"#transaction-loop-entry", pos(r, loop), "body entry of the transaction loop not found")
		return
	}
	path := g.PathAvoiding(entry, func(x *core.GNode) bool { return x.Kind == core.KEdge && x.Loop == ast.Stmt(loop) && x != entry },
		func(x *core.GNode) bool { return loaded[x] || allowed(x) })
	r.Check(path == nil, rule, f.Key+"#every-transaction-reaches-its-loaded-addresses", pos(r, loop), "a transaction is passed over only after its loaded addresses were compared (or it could not be decoded / has no table lookups)",
		"a transaction can be passed over without its loaded addresses having been compared with the filter accounts: a block whose only matching transaction loads the account from a lookup table (e.g. readonly) is not streamed", g.PathStrings(path)...)
}
