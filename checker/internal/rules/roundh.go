package rules

import (
	"fmt"
	"go/ast"
	"go/constant"
	"go/token"
	"go/types"
	"strings"

	"yfverif/checker/internal/core"
)

// c05EmptyBucketSentinelAgrees (C05.R10): the writer lays the buckets out from offset 0 upwards (every prefix gets one, also
// an empty one). If the reader uses an in-band offset value to mean "no bucket for this prefix", that value must be one the
// writer can never assign: not the first offset (0), and out of reach of any file size.
func c05EmptyBucketSentinelAgrees(r *core.Report) { emptyBucketSentinel(r, "C05.R10") }

func emptyBucketSentinel(r *core.Report, rule string) {
	p := r.Prog
	for _, pk := range []string{"bucketteer", "deprecated/bucketteer"} {
		w := r.Anchor(rule, pk+".seal")
		h := r.Anchor(rule, pk+".(*Reader).Has")
		if w == nil || h == nil {
			continue
		}
		// writer: the first offset a real bucket can get - the initial constant of the running offset variable that is stored
		// into the table (prefixToOffset[prefix] = previousOffset)
		var wconst constant.Value
		winfo := w.Pkg.TypesInfo
		ast.Inspect(w.Body, func(m ast.Node) bool {
			if as, ok := m.(*ast.AssignStmt); ok && len(as.Lhs) == 1 && len(as.Rhs) == 1 {
				if _, isIx := core.Unparen(as.Lhs[0]).(*ast.IndexExpr); isIx {
					if o := core.ObjOf(winfo, as.Rhs[0]); o != nil {
						// the variable's defining constant
						ast.Inspect(w.Body, func(k ast.Node) bool {
							if d, ok := k.(*ast.AssignStmt); ok && d.Tok == token.DEFINE && len(d.Lhs) == 1 && len(d.Rhs) == 1 && core.ObjOf(winfo, d.Lhs[0]) == o {
								if tv, ok := winfo.Types[d.Rhs[0]]; ok && tv.Value != nil && tv.Value.Kind() == constant.Int {
									wconst = tv.Value
								}
							}
							return true
						})
					}
				}
			}
			return true
		})
		// reader: the constant whose equality with the looked-up offset leads to `return false, nil`
		var rconst constant.Value
		hinfo := h.Pkg.TypesInfo
		g := p.Graph(h)
		for _, e := range g.Nodes {
			if e.Kind != core.KEdge || e.Ast == nil || e.Tag != nil {
				continue
			}
			for _, fc := range e.Facts() {
				be, ok := core.Unparen(fc.Expr).(*ast.BinaryExpr)
				if !ok || !((be.Op == token.EQL && fc.Truth) || (be.Op == token.NEQ && !fc.Truth)) {
					continue
				}
				var cv constant.Value
				var other ast.Expr
				if tv, ok := hinfo.Types[be.Y]; ok && tv.Value != nil && tv.Value.Kind() == constant.Int {
					cv, other = tv.Value, be.X
				} else if tv, ok := hinfo.Types[be.X]; ok && tv.Value != nil && tv.Value.Kind() == constant.Int {
					cv, other = tv.Value, be.Y
				}
				if cv == nil || other == nil {
					continue
				}
				if bt, isB := hinfo.TypeOf(other).Underlying().(*types.Basic); !isB || bt.Kind() != types.Uint64 {
					continue
				}
				// the branch answers "absent": a return (false, nil) dominated by this edge
				for x := range g.ReachFromIncl(e, nil) {
					if rs, ok := x.Ast.(*ast.ReturnStmt); ok && g.Dominates(e, x) && len(rs.Results) == 2 {
						if b, isC := boolConst(hinfo, rs.Results[0]); isC && !b && core.IsNil(hinfo, rs.Results[1]) {
							rconst = cv
						}
					}
				}
			}
		}
		key := pk + "#empty-bucket-sentinel-agrees"
		switch {
		case rconst == nil:
			// the reader has no in-band sentinel (a map with comma-ok, or every prefix is looked up): nothing can collide
			r.OK(rule, key, posP(r, h.Pos()), "the reader does not use an offset value to mean 'no bucket'")
		case wconst == nil:
			r.Undecided(rule, key, posP(r, h.Pos()), "first bucket offset assigned by the writer not found")
		default:
			big := constant.Compare(rconst, token.GEQ, constant.Shift(constant.MakeInt64(1), token.SHL, 62))
			r.Check(!constant.Compare(wconst, token.EQL, rconst) && big, rule, key, posP(r, h.Pos()), "the reader's 'no bucket' offset ("+rconst.ExactString()+") is not an offset the writer can assign (the first bucket gets "+wconst.ExactString()+")",
				"the reader answers 'not present' for offset "+rconst.ExactString()+", an offset the writer assigns to a real bucket (offsets start at "+wconst.ExactString()+" and grow by the bucket sizes): the signatures of that bucket are reported absent although they were added")
		}
	}
}

// c14EveryFrameFollowedOnce (C14.R10): the collector of a payload's frames fetches every link of `next`, follows the fetched
// frame's own links, and adds each frame once. In the loop over the links every path from the fetch to the next link passes
// the recursive collection of the fetched frame (whose result starts with that frame), and the fetched frame is not also
// appended on its own.
func c14EveryFrameFollowedOnce(r *core.Report) { everyFrameFollowedOnce(r, "C14.R10") }

func everyFrameFollowedOnce(r *core.Report, rule string) {
	p := r.Prog
	a := r.Anchor(rule, "tooling.getAllFramesFromDataFrame")
	if a == nil {
		return
	}
	n := 0
	for _, f := range pkgScope(p, a, 2) {
		if f.Body == nil {
			continue
		}
		info := f.Pkg.TypesInfo
		g := p.Graph(f)
		for _, nd := range stmtNodes(g) {
			as, ok := nd.Ast.(*ast.AssignStmt)
			if !ok || len(as.Rhs) != 1 || len(as.Lhs) != 2 {
				continue
			}
			c, ok := core.Unparen(as.Rhs[0]).(*ast.CallExpr)
			if !ok {
				continue
			}
			// the fetch: a call of a function-typed parameter / field (the frame getter) yielding (*DataFrame, error)
			if core.Callee(info, c) != nil {
				continue
			}
			fr := core.ObjOf(info, as.Lhs[0])
			eo := core.ObjOf(info, as.Lhs[1])
			if fr == nil || eo == nil || !strings.HasSuffix(fr.Type().String(), "ipldbindcode.DataFrame") || !core.IsErrorType(eo.Type()) {
				continue
			}
			n++
			// recursion nodes: a call of a function of the collector's scope that receives the fetched frame
			rec := map[*core.GNode]bool{}
			direct := ""
			for _, x := range stmtNodes(g) {
				for _, cc := range nodeCalls(x) {
					if fo := core.Callee(info, cc); fo != nil {
						if h := p.ByObj[fo.Origin()]; h != nil && h.Pkg == f.Pkg {
							for _, arg := range cc.Args {
								if core.ObjOf(info, arg) == fr {
									rec[x] = true
								}
							}
						}
					}
					if core.BuiltinName(info, cc) == "append" {
						for _, arg := range cc.Args[1:] {
							if core.ObjOf(info, arg) == fr && !cc.Ellipsis.IsValid() {
								direct = p.Rel(cc.Pos())
							}
						}
					}
				}
			}
			errEdge := func(x *core.GNode) bool {
				if x.Kind != core.KEdge || x.Ast == nil {
					return false
				}
				for _, fc := range x.Facts() {
					if v, eq, isNil := core.NilCompare(info, fc.Expr); isNil && core.ObjOf(info, v) == eo && eq != fc.Truth {
						return true
					}
				}
				return false
			}
			back := func(x *core.GNode) bool {
				for _, s := range x.Succs {
					if s == nd {
						return true
					}
				}
				return x == g.Exit
			}
			path := g.PathAvoiding(nd, back, func(x *core.GNode) bool { return rec[x] || errEdge(x) })
			r.Check(path == nil && len(rec) > 0, rule, fmt.Sprintf("%s#fetched-frame@%d-is-followed", f.Key, n), pos(r, c), "every fetched frame is handed to the recursive collection before the next link is taken",
				"a fetched frame can be passed over without its own `next` links being followed: the frames behind it are never collected and a valid payload with that link shape is refused (or reassembled short)", g.PathStrings(path)...)
			r.Check(direct == "", rule, fmt.Sprintf("%s#fetched-frame@%d-is-added-once", f.Key, n), pos(r, c), "the fetched frame enters the result through the recursive collection only",
				"the fetched frame is appended on its own (at "+direct+") although the recursive collection of that frame returns it as well: a frame that links further frames is counted twice and the payload is refused")
		}
	}
	if n == 0 {
		r.Undecided(rule, a.Key+"#fetch", posP(r, a.Pos()), "fetch of a linked frame not found")
	}
}

// c04SpillFileFlags (C04.R12): a bucket's spill file is written from offset 0 and read back from offset 0 when the bucket is
// mined. It is never opened in append mode: with O_APPEND the tuples of this build land behind whatever an earlier,
// interrupted build left in the same directory, and the index is mined from those.
func c04SpillFileFlags(r *core.Report) {
	const rule = "C04.R12"
	p := r.Prog
	n := 0
	for _, pk := range c04Pkgs {
		for _, top := range p.FuncsInPkg(pk) {
			for _, f := range top.AllWithLits() {
				if f.Body == nil || strings.HasSuffix(p.FileOf(f.Pos()), "_test.go") {
					continue
				}
				info := f.Pkg.TypesInfo
				i := 0
				for _, c := range core.CallsIn(f.Body, false) {
					if core.CalleeName(info, c) != "os.OpenFile" || len(c.Args) != 3 {
						continue
					}
					i++
					n++
					flags, isC := core.ConstInt(info, c.Args[1])
					const oAppend = 0x400
					r.Check(isC && flags&oAppend == 0, rule, fmt.Sprintf("%s#open@%d-not-in-append-mode", f.Key, i), pos(r, c), "the file is opened without O_APPEND",
						"a builder file is opened with O_APPEND (or with flags that are not a constant): tuples written now land behind the remains of an earlier build in the same directory, and Seal reads those")
				}
			}
		}
	}
	if n == 0 {
		r.OK(rule, "compactindex#spill-file-open-sites", "", "no os.OpenFile in the builders")
	}
}

// c06NoEntryPooling (C06.R11): one entry object is shared by all addresses of a transaction until each address's batch has
// been written. Entries are therefore never recycled through a sync.Pool in the writer: putting the entries of one
// address's batch back lets later pushes overwrite what other addresses still hold.
func c06NoEntryPooling(r *core.Report) {
	const rule = "C06.R11"
	p := r.Prog
	bad := ""
	var badAt ast.Node
	n := 0
	for _, top := range p.FuncsInPkg("gsfa") {
		for _, f := range top.AllWithLits() {
			if f.Body == nil || strings.HasSuffix(p.FileOf(f.Pos()), "_test.go") {
				continue
			}
			info := f.Pkg.TypesInfo
			for _, c := range core.CallsIn(f.Body, false) {
				nm := core.CalleeName(info, c)
				if nm != "sync.(*Pool).Put" && nm != "sync.(*Pool).Get" {
					continue
				}
				n++
				// what is pooled: the argument of Put / the asserted type of Get
				var t types.Type
				if nm == "sync.(*Pool).Put" && len(c.Args) == 1 {
					t = info.TypeOf(c.Args[0])
				}
				refType := false
				if t != nil {
					switch t.Underlying().(type) {
					case *types.Pointer, *types.Slice, *types.Map, *types.Chan, *types.Interface:
						refType = true
					}
				}
				if refType && !isByteSlice(t) && !strings.Contains(t.String(), "bytes.Buffer") {
					bad, badAt = f.Key+": Put("+t.String()+")", c
				}
			}
		}
	}
	if bad == "" {
		r.OK(rule, "gsfa#no-entry-pooling", "", fmt.Sprintf("%d sync.Pool uses in the package, all of byte buffers", n))
	} else {
		r.Violation(rule, "gsfa#no-entry-pooling", pos(r, badAt), "an object other than a byte buffer is recycled through a sync.Pool in the address-index writer ["+bad+"]: entries are shared by every address of a transaction, and recycling them after one address's batch was written lets later pushes overwrite entries other addresses still hold")
	}
}

// c07EveryEpochConsidered (C07.R14): the list of per-epoch readers handed to the history walk is built by a loop over the
// loaded epochs that looks at every one of them: an epoch without an address index is skipped (continue / an if around the
// append), it does not end the loop - older epochs behind it still contribute their part of the history.
func c07EveryEpochConsidered(r *core.Report) {
	const rule = "C07.R14"
	n := 0
	for _, k := range []string{"main.(*MultiEpoch).getGsfaReadersInEpochDescendingOrder", "main.(*MultiEpoch).getGsfaReadersInEpochDescendingOrderForSlotRange"} {
		a := r.Anchor(rule, k)
		if a == nil {
			continue
		}
		li := 0
		for _, sf := range pkgScope(r.Prog, a, 2) {
			if sf.Body == nil {
				continue
			}
			info := sf.Pkg.TypesInfo
			ast.Inspect(sf.Body, func(m ast.Node) bool {
				rs, ok := m.(*ast.RangeStmt)
				if !ok {
					return true
				}
				// the loop that appends readers
				appends := false
				for _, c := range core.CallsIn(rs.Body, false) {
					if core.BuiltinName(info, c) == "append" {
						appends = true
					}
				}
				if !appends {
					return true
				}
				li++
				n++
				bad := ""
				var badAt ast.Node
				ast.Inspect(rs.Body, func(k ast.Node) bool {
					switch x := k.(type) {
					case *ast.FuncLit, *ast.ForStmt, *ast.RangeStmt, *ast.SwitchStmt, *ast.SelectStmt, *ast.TypeSwitchStmt:
						return k == ast.Node(rs.Body) // a break inside a nested construct belongs to that construct
					case *ast.BranchStmt:
						if x.Tok == token.BREAK || x.Tok == token.GOTO {
							bad, badAt = x.Tok.String(), x
						}
					case *ast.ReturnStmt:
						bad, badAt = "return", x
					}
					return true
				})
				key := fmt.Sprintf("%s#epoch-loop@%d-visits-every-epoch", a.Key, li)
				if bad == "" {
					r.OK(rule, key, pos(r, rs), "the loop over the loaded epochs has no early exit")
				} else {
					r.Violation(rule, key, pos(r, badAt), "the loop that collects the per-epoch address-index readers is left early ("+bad+"): epochs after that point - older ones - no longer contribute, and the history returned is silently cut")
				}
				return true
			})
		}
	}
	if n == 0 {
		r.Undecided(rule, "main#reader-collection-loops", "", "no loop collecting per-epoch readers found")
	}
}

// c10MetadataWrittenAsGiven (C10.R7): the identity an index is built with is what its header records: each value handed to
// the header for the epoch / root CID / network / kind keys is the corresponding field of the Metadata argument, passed
// through an encoder only ([]byte(x), x.Bytes(), Uint64tob(x)) - not through a function that maps it to something else.
func c10MetadataWrittenAsGiven(r *core.Report) {
	const rule = "C10.R7"
	f := r.Anchor(rule, "indexes.setDefaultMetadata")
	if f == nil {
		return
	}
	info := f.Pkg.TypesInfo
	md := f.ParamObj(1)
	n := 0
	var fromField func(e ast.Expr, d int) (string, bool)
	fromField = func(e ast.Expr, d int) (string, bool) {
		e = core.Unparen(e)
		if d > 4 {
			return "", false
		}
		switch x := e.(type) {
		case *ast.SelectorExpr:
			if md != nil && core.ObjOf(info, x.X) == types.Object(md) {
				return x.Sel.Name, true
			}
		case *ast.CallExpr:
			// conversion
			if tv, ok := info.Types[x.Fun]; ok && tv.IsType() && len(x.Args) == 1 {
				return fromField(x.Args[0], d+1)
			}
			// encoder: method Bytes() on the field, or a pure width encoder of the package (UintNNtob)
			if sel, ok := core.Unparen(x.Fun).(*ast.SelectorExpr); ok && len(x.Args) == 0 && (sel.Sel.Name == "Bytes" || sel.Sel.Name == "String") {
				return fromField(sel.X, d+1)
			}
			nm := core.CalleeName(info, x)
			if len(x.Args) == 1 && (strings.Contains(nm, "tob") || strings.Contains(nm, "ToLEBytes") || strings.HasPrefix(nm, "encoding/binary.")) {
				return fromField(x.Args[0], d+1)
			}
		case *ast.Ident:
			if o := info.Uses[x]; o != nil {
				if dd := singleDef(f, o); dd != nil {
					return fromField(dd, d+1)
				}
			}
		}
		return "", false
	}
	for _, c := range core.CallsIn(f.Body, false) {
		sel, ok := core.Unparen(c.Fun).(*ast.SelectorExpr)
		if !ok || sel.Sel.Name != "Add" || len(c.Args) != 2 {
			continue
		}
		ks := core.ExprStr(c.Args[0])
		if !strings.Contains(ks, "MetadataKey_") {
			continue
		}
		n++
		fld, ok2 := fromField(c.Args[1], 0)
		r.Check(ok2, rule, fmt.Sprintf("%s#%s-written-as-given", f.Key, ks[strings.LastIndex(ks, "MetadataKey_"):]), pos(r, c), "the header value is the Metadata field "+fld+", only encoded",
			"the value written under "+ks+" ("+core.ExprStr(c.Args[1])+") is not the corresponding Metadata field passed through an encoder: what is read back from the header differs from what the index was built with")
	}
	if n < 4 {
		r.Undecided(rule, f.Key+"#identity-keys", posP(r, f.Pos()), fmt.Sprintf("only %d identity keys written", n))
	}
}

// c11FastDecodersGoThroughUnmarshal (C11.R8): the _Decode*Fast entry points of iplddecoders produce their result by
// UnmarshalCBOR of the whole input - the hand-written positional decoder that R1-R5 describe. A second decoding path in
// front of it (fixed byte offsets for a "typical" encoding) is not covered by any of those rules and silently accepts other
// encodings of the same length.
func c11FastDecodersGoThroughUnmarshal(r *core.Report) {
	const rule = "C11.R8"
	p := r.Prog
	n := 0
	for _, f := range p.FuncsInPkg("iplddecoders") {
		if f.Obj == nil || f.Body == nil || !strings.HasPrefix(f.Obj.Name(), "_Decode") || !strings.HasSuffix(f.Obj.Name(), "Fast") {
			continue
		}
		info := f.Pkg.TypesInfo
		g := p.Graph(f)
		// locals that receive UnmarshalCBOR(<param 0>)
		decoded := map[types.Object]*core.GNode{}
		for _, nd := range stmtNodes(g) {
			for _, c := range nodeCalls(nd) {
				if sel, ok := core.Unparen(c.Fun).(*ast.SelectorExpr); ok && sel.Sel.Name == "UnmarshalCBOR" && len(c.Args) == 1 && f.ParamObj(0) != nil && core.ObjOf(info, c.Args[0]) == types.Object(f.ParamObj(0)) {
					if o := core.ObjOf(info, sel.X); o != nil {
						decoded[o] = nd
					}
				}
			}
		}
		i := 0
		for _, rn := range g.Returns() {
			if nilErr, dec := isNilErrReturn(f, rn); !(dec && nilErr) {
				continue
			}
			i++
			n++
			res := returnResults(rn)
			good := false
			if len(res) >= 1 {
				e := core.Unparen(res[0])
				if u, ok := e.(*ast.UnaryExpr); ok && u.Op == token.AND {
					e = core.Unparen(u.X)
				}
				if o := core.ObjOf(info, e); o != nil {
					if dn := decoded[o]; dn != nil && g.Dominates(dn, rn) {
						good = true
					}
				}
			}
			r.Check(good, rule, fmt.Sprintf("%s#success@%d-is-the-unmarshalled-node", f.Key, i), pos(r, rn.Ast), "the node returned was filled by UnmarshalCBOR of the input",
				"a node is returned that was not produced by UnmarshalCBOR of the whole input: a second, unchecked decoding path sits in front of the positional decoder")
		}
	}
	if n == 0 {
		r.Undecided(rule, "iplddecoders#fast-decoders", "", "no _Decode*Fast function found")
	}
}

// c15HeaderKeptAsParsed (C15.R9): the first object's offset is the size of the CAR header, which CarReader.HeaderSize
// computes by re-encoding the parsed header. That equals the bytes consumed only while the parsed header is kept exactly
// as read: no function of the carreader package assigns to a field of a CarHeader.
func c15HeaderKeptAsParsed(r *core.Report, rule string) {
	p := r.Prog
	bad := ""
	var badAt ast.Node
	for _, top := range p.FuncsInPkg("carreader") {
		for _, f := range top.AllWithLits() {
			if f.Body == nil || strings.HasSuffix(p.FileOf(f.Pos()), "_test.go") {
				continue
			}
			info := f.Pkg.TypesInfo
			ast.Inspect(f.Body, func(m ast.Node) bool {
				as, ok := m.(*ast.AssignStmt)
				if !ok {
					return true
				}
				for _, l := range as.Lhs {
					e := core.Unparen(l)
					if ix, ok := e.(*ast.IndexExpr); ok {
						e = core.Unparen(ix.X)
					}
					sel, ok := e.(*ast.SelectorExpr)
					if !ok {
						continue
					}
					if s := info.Selections[sel]; s != nil && s.Kind() == types.FieldVal && strings.HasSuffix(strings.TrimPrefix(s.Recv().String(), "*"), "CarHeader") {
						bad, badAt = f.Key+": "+core.ExprStr(as), as
					}
				}
				return true
			})
		}
	}
	if bad == "" {
		r.OK(rule, "carreader#parsed-header-is-not-modified", "", "no assignment to a field of the parsed CAR header")
	} else {
		r.Violation(rule, "carreader#parsed-header-is-not-modified", pos(r, badAt), "the parsed CAR header is modified ["+bad+"]: HeaderSize re-encodes the header, so the size it reports is no longer the number of bytes the header occupies in the file and every offset derived from it is shifted")
	}
}

// c16PieceFilesStartEmpty (C16.R9): each piece is written into a file that starts empty: os.Create, or os.OpenFile with
// O_TRUNC (or O_EXCL). Without truncation a re-run into the same directory keeps the tail of an older, larger piece behind
// the new content, and the sizes recorded for the piece no longer describe the file.
func c16PieceFilesStartEmpty(r *core.Report) {
	const rule = "C16.R9"
	p := r.Prog
	root := r.Anchor(rule, "main.newCmd_SplitCar")
	if root == nil {
		return
	}
	n := 0
	for _, f := range root.AllWithLits() {
		if f.Body == nil {
			continue
		}
		info := f.Pkg.TypesInfo
		for _, c := range core.CallsIn(f.Body, false) {
			nm := core.CalleeName(info, c)
			switch nm {
			case "os.Create":
				n++
				r.OK(rule, fmt.Sprintf("%s#piece-file@%d-starts-empty", f.Key, n), pos(r, c), "os.Create truncates")
			case "os.OpenFile":
				if len(c.Args) != 3 {
					continue
				}
				n++
				flags, isC := core.ConstInt(info, c.Args[1])
				const oTrunc, oExcl, oWronly, oRdwr = 0x200, 0x80, 0x1, 0x2
				writes := isC && flags&(oWronly|oRdwr) != 0
				if isC && !writes {
					r.OK(rule, fmt.Sprintf("%s#piece-file@%d-starts-empty", f.Key, n), pos(r, c), "opened for reading")
					continue
				}
				r.Check(isC && flags&(oTrunc|oExcl) != 0, rule, fmt.Sprintf("%s#piece-file@%d-starts-empty", f.Key, n), pos(r, c), "the file is opened with O_TRUNC / O_EXCL",
					"an output file of the split is opened for writing without O_TRUNC: a re-run into a directory that already holds a larger file of that name keeps its tail, and the recorded sizes (and the piece commitment) no longer describe the file on disk")
			}
		}
	}
	_ = p
	if n == 0 {
		r.Undecided(rule, root.Key+"#piece-files", posP(r, root.Pos()), "creation of the piece files not found")
	}
}

// shortCopyIsError (C13.R7 = the check made under C17.R4): the HTTP ReaderAt adapter reports success only when the whole
// buffer was filled.
func shortCopyIsError(r *core.Report, rule string) {
	p := r.Prog
	f := r.Anchor(rule, "split-car-fetcher.(*HTTPSingleFileRemoteReaderAt).ReadAt")
	if f == nil {
		return
	}
	_ = f.Pkg.TypesInfo
	g := p.Graph(f)
	okAll, n := true, 0
	for _, rn := range g.Returns() {
		if nilErr, dec := isNilErrReturn(f, rn); !(dec && nilErr) {
			continue
		}
		n++
		ok := false
		for _, fc := range g.FactsAt(rn) {
			be, isBin := core.Unparen(fc.Expr).(*ast.BinaryExpr)
			if isBin && fc.Tag == nil && mentionsLenOfVia(f, fc.Expr, f.ParamObj(0)) && ((be.Op == token.LSS && !fc.Truth) || (be.Op == token.GEQ && fc.Truth) || (be.Op == token.EQL && fc.Truth) || (be.Op == token.NEQ && !fc.Truth)) {
				ok = true
			}
		}
		if !ok {
			okAll = false
		}
	}
	r.Check(okAll && n > 0, rule, f.Key+"#short-copy-is-error", posP(r, f.Pos()), "success is returned only when the whole buffer was filled",
		"the remote ReaderAt can return nil although fewer bytes than requested were copied: the index and CAR readers behind it treat the zero-filled rest of their buffer as file content (a truncated remote file answers 'not found' instead of failing)")
}

// c17NoSwallowedFetchError (C17.R9, second part): inside the range cache and the remote readers, a function literal whose
// only result is an error and which binds the error of a fetch (a call returning a count and an error) returns nil only
// where that error is known to be nil. Returning nil "to stop retrying" hands the caller a success.
func c17NoSwallowedFetchError(r *core.Report) {
	const rule = "C17.R9"
	p := r.Prog
	n := 0
	for _, pk := range []string{"range-cache", "split-car-fetcher"} {
		for _, top := range p.FuncsInPkg(pk) {
			for _, f := range top.AllWithLits() {
				if f.Body == nil || f.Lit == nil || strings.HasSuffix(p.FileOf(f.Pos()), "_test.go") {
					continue
				}
				if f.Type.Results == nil || len(f.Type.Results.List) != 1 || errResultIndex(f) != 0 {
					continue
				}
				info := f.Pkg.TypesInfo
				g := p.Graph(f)
				for _, nd := range stmtNodes(g) {
					as, ok := nd.Ast.(*ast.AssignStmt)
					if !ok || len(as.Rhs) != 1 || len(as.Lhs) != 2 {
						continue
					}
					if _, isC := core.Unparen(as.Rhs[0]).(*ast.CallExpr); !isC {
						continue
					}
					eo := core.ObjOf(info, as.Lhs[1])
					co := core.ObjOf(info, as.Lhs[0])
					if eo == nil || co == nil || !core.IsErrorType(eo.Type()) {
						continue
					}
					if bt, isB := co.Type().Underlying().(*types.Basic); !isB || bt.Info()&types.IsInteger == 0 {
						continue
					}
					n++
					bad := ""
					for x := range g.Reach(nd, nil) {
						rs, isR := x.Ast.(*ast.ReturnStmt)
						if !isR || len(rs.Results) != 1 || !core.IsNil(info, rs.Results[0]) {
							continue
						}
						known := false
						for _, fc := range g.FactsAt(x) {
							if v, eq, isNil := core.NilCompare(info, fc.Expr); isNil && fc.Tag == nil && core.ObjOf(info, v) == eo && eq == fc.Truth && g.FactFresh(fc, x) {
								known = true
							}
						}
						if !known {
							bad = p.Rel(rs.Pos())
						}
					}
					r.Check(bad == "", rule, fmt.Sprintf("%s#fetch-error@%d-not-answered-with-nil", f.Key, n), pos(r, as), "nil is returned only where the fetch error is known to be nil",
						"the callback returns nil (at "+bad+") on a path where the error of the fetch it just made may be non-nil: the caller sees a success, hands out the unfilled buffer and caches it")
				}
			}
		}
	}
	_ = n
}

// c19EveryParsedKeyIsKept (C19.R14, second part): in the parser of a filter's account lists every key that was parsed
// successfully is appended: no path from the parse to the next input bypasses the append except the error return. A skip
// that depends on the key's value (the zero key is the System Program id) removes a listed account from the filter.
func c19EveryParsedKeyIsKept(r *core.Report) {
	const rule = "C19.R14"
	p := r.Prog
	f := r.Anchor(rule, "main.publicKeysFromBase58")
	if f == nil {
		return
	}
	info := f.Pkg.TypesInfo
	g := p.Graph(f)
	n := 0
	for _, nd := range stmtNodes(g) {
		as, ok := nd.Ast.(*ast.AssignStmt)
		if !ok || len(as.Rhs) != 1 || len(as.Lhs) != 2 {
			continue
		}
		c, ok := core.Unparen(as.Rhs[0]).(*ast.CallExpr)
		if !ok || !strings.Contains(core.CalleeName(info, c), "PublicKeyFromBase58") {
			continue
		}
		key := core.ObjOf(info, as.Lhs[0])
		eo := core.ObjOf(info, as.Lhs[1])
		n++
		stores := map[*core.GNode]bool{}
		for _, x := range stmtNodes(g) {
			if xa, ok := x.Ast.(*ast.AssignStmt); ok && len(xa.Rhs) == 1 {
				if cc, ok := core.Unparen(xa.Rhs[0]).(*ast.CallExpr); ok && core.BuiltinName(info, cc) == "append" {
					for _, a := range cc.Args[1:] {
						if core.ObjOf(info, a) == key {
							stores[x] = true
						}
					}
				}
				// keys[n] = key
				if _, isIx := core.Unparen(xa.Lhs[0]).(*ast.IndexExpr); isIx && core.ObjOf(info, xa.Rhs[0]) == key {
					stores[x] = true
				}
			}
		}
		errEdge := func(x *core.GNode) bool {
			if x.Kind != core.KEdge || x.Ast == nil || eo == nil {
				return false
			}
			for _, fc := range x.Facts() {
				if v, eq, isNil := core.NilCompare(info, fc.Expr); isNil && core.ObjOf(info, v) == eo && eq != fc.Truth {
					return true
				}
			}
			return false
		}
		back := func(x *core.GNode) bool {
			for _, s := range x.Succs {
				if s == nd {
					return true
				}
			}
			return x == g.Exit
		}
		path := g.PathAvoiding(nd, back, func(x *core.GNode) bool { return stores[x] || errEdge(x) })
		r.Check(path == nil && len(stores) > 0, rule, fmt.Sprintf("%s#parsed-key@%d-is-kept", f.Key, n), pos(r, c), "every successfully parsed key is stored in the result",
			"a successfully parsed key can be dropped before it is stored (a test on the key's value): an account the client listed - the all-zero key is the System Program - silently falls out of the filter", g.PathStrings(path)...)
	}
	if n == 0 {
		r.Undecided(rule, f.Key+"#parse", posP(r, f.Pos()), "parse of an account string not found")
	}
}
