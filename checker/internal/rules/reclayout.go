package rules

import (
	"fmt"
	"go/ast"
	"go/types"
	"strings"

	"yfverif/checker/internal/core"
)

// Layout of a byte record that is built by appending to one buffer.
//
// bufferLayout evaluates the straight-line statements of a function that build a []byte (make(..., 0, cap) / nil, then
// append(buf, X...), binary.AppendUvarint(buf, E)) to the sequence of segments the buffer consists of when it is handed on:
// a uvarint that encodes the value E (as c + Σ k·len(S), emission.go) or raw bytes of a length of the same form. A rule can
// then state "the first segment is a uvarint whose value is the total length of the segments behind it" without depending
// on which helper, local or idiom produced any of them.

type recSeg struct {
	uvar bool
	val  sizePoly // the value encoded (uvar) or the number of bytes
	desc string
}

func segsString(segs []recSeg) string {
	var parts []string
	for _, s := range segs {
		if s.uvar {
			parts = append(parts, "uvarint("+s.val.String()+")")
		} else {
			parts = append(parts, "bytes["+s.val.String()+"]")
		}
	}
	return strings.Join(parts, " ++ ")
}

// isUvarintEncoder: func(n uint64) []byte whose result is exactly the uvarint encoding of n:
//   buf := make([]byte, K); w := binary.PutUvarint(buf, n); return buf[:w]      or      return binary.AppendUvarint(nil, n)
func isUvarintEncoder(p *core.Prog, callee *core.Func) bool {
	if callee == nil || callee.Body == nil || callee.ParamObj(0) == nil || callee.ParamObj(1) != nil {
		return false
	}
	info := callee.Pkg.TypesInfo
	param := types.Object(callee.ParamObj(0))
	var rets []*ast.ReturnStmt
	ast.Inspect(callee.Body, func(n ast.Node) bool {
		if rs, ok := n.(*ast.ReturnStmt); ok {
			rets = append(rets, rs)
		}
		return true
	})
	if len(rets) != 1 || len(rets[0].Results) != 1 {
		return false
	}
	res := core.Unparen(rets[0].Results[0])
	if c, ok := res.(*ast.CallExpr); ok && core.CalleeName(info, c) == "encoding/binary.AppendUvarint" && len(c.Args) == 2 {
		return core.ObjOf(info, stripConvs(info, c.Args[1])) == param && emptyBytes(callee, c.Args[0])
	}
	se, ok := res.(*ast.SliceExpr)
	if !ok || se.Low != nil || se.High == nil || se.Max != nil {
		return false
	}
	bufObj, wObj := core.ObjOf(info, se.X), core.ObjOf(info, se.High)
	if bufObj == nil || wObj == nil {
		return false
	}
	d := singleDef(callee, wObj)
	if d == nil {
		return false
	}
	c, ok := core.Unparen(d).(*ast.CallExpr)
	if !ok || core.CalleeName(info, c) != "encoding/binary.PutUvarint" || len(c.Args) != 2 {
		return false
	}
	return core.ObjOf(info, c.Args[0]) == bufObj && core.ObjOf(info, stripConvs(info, c.Args[1])) == param
}

// emptyBytes: nil, []byte{}, make([]byte, 0[, cap]) or a local assigned once from one of those.
func emptyBytes(fn *core.Func, e ast.Expr) bool {
	info := fn.Pkg.TypesInfo
	e = core.Unparen(e)
	if core.IsNil(info, e) {
		return true
	}
	switch x := e.(type) {
	case *ast.CompositeLit:
		return len(x.Elts) == 0
	case *ast.CallExpr:
		if core.BuiltinName(info, x) == "make" && len(x.Args) >= 2 {
			v, ok := core.ConstInt(info, x.Args[1])
			return ok && v == 0
		}
		if tv, ok := info.Types[x.Fun]; ok && tv.IsType() && len(x.Args) == 1 {
			return emptyBytes(fn, x.Args[0])
		}
	}
	return false
}

// fixedResultLen: the number of bytes a parameterless method returns, when the bit-level evaluation of its body
// (bitlayout.go) yields a byte string of a fixed length for symbolic integer fields.
func fixedResultLen(p *core.Prog, callee *core.Func) (int64, bool) {
	if callee == nil || callee.Body == nil || callee.ParamObj(0) != nil {
		return 0, false
	}
	rv := callee.RecvObj()
	if rv == nil {
		return 0, false
	}
	t := rv.Type()
	if pt, ok := t.Underlying().(*types.Pointer); ok {
		t = pt.Elem()
	}
	st, ok := t.Underlying().(*types.Struct)
	if !ok {
		return 0, false
	}
	flds := map[string]bval{}
	for i := 0; i < st.NumFields(); i++ {
		if w := intWidth(st.Field(i).Type()); w > 0 {
			flds[st.Field(i).Name()] = symInt(st.Field(i).Name(), w)
		}
	}
	res, _ := evalBitFunc(p, callee, flds, nil, 0)
	if len(res) < 1 || !res[0].ok || !res[0].slice || len(res[0].bits)%8 != 0 {
		return 0, false
	}
	return int64(len(res[0].bits) / 8), true
}

// bufferLayout: see the file comment. why is set when the layout could not be evaluated.
func bufferLayout(p *core.Prog, fn *core.Func, buf types.Object) (segs []recSeg, appendBuilt bool, why string) {
	info := fn.Pkg.TypesInfo
	fail := func(format string, a ...any) {
		if why == "" {
			why = fmt.Sprintf(format, a...)
		}
	}
	segOf := func(x ast.Expr) (recSeg, bool) {
		x = core.Unparen(x)
		callSeg := func(c *ast.CallExpr) (recSeg, bool, bool) {
			fo := core.Callee(info, c)
			if fo == nil {
				return recSeg{}, false, false
			}
			callee := p.ByObj[fo.Origin()]
			if callee != nil && len(c.Args) == 1 && isUvarintEncoder(p, callee) {
				v, ok := polyOfExpr(p, fn, c.Args[0], 0)
				if !ok {
					fail("the value encoded by %s is not a linear size expression", core.ExprStr(c))
					return recSeg{}, true, false
				}
				return recSeg{uvar: true, val: v, desc: core.ExprStr(c)}, true, true
			}
			if callee != nil && len(c.Args) == 0 {
				if n, ok := fixedResultLen(p, callee); ok {
					return recSeg{val: sizePoly{c: n, terms: map[types.Object]int64{}}, desc: core.ExprStr(c)}, true, true
				}
			}
			return recSeg{}, false, false
		}
		if c, ok := x.(*ast.CallExpr); ok {
			if s, rec, ok2 := callSeg(c); rec {
				return s, ok2
			}
			fail("the length of %s is not known", core.ExprStr(c))
			return recSeg{}, false
		}
		if o := core.ObjOf(info, x); o != nil {
			if d := singleDef(fn, o); d != nil {
				if c, ok := core.Unparen(d).(*ast.CallExpr); ok {
					if s, rec, ok2 := callSeg(c); rec {
						return s, ok2
					}
				}
			} else if _, isParam := o.(*types.Var); !isParam {
				fail("%s is not a variable", core.ExprStr(x))
				return recSeg{}, false
			} else if n := countAssignments(fn, o); n > 1 {
				fail("%s is assigned more than once", core.ExprStr(x))
				return recSeg{}, false
			}
			return recSeg{val: sizePoly{terms: map[types.Object]int64{o: 1}}, desc: core.ExprStr(x)}, true
		}
		fail("segment %s not understood", core.ExprStr(x))
		return recSeg{}, false
	}
	started := false
	var walk func(list []ast.Stmt) bool
	walk = func(list []ast.Stmt) bool {
		for _, st := range list {
			switch s := st.(type) {
			case *ast.BlockStmt:
				if !walk(s.List) {
					return false
				}
				continue
			case *ast.AssignStmt:
				for i, l := range s.Lhs {
					if core.ObjOf(info, l) != buf {
						continue
					}
					if len(s.Rhs) != len(s.Lhs) {
						fail("the buffer is assigned from a multi-value call")
						return false
					}
					rhs := core.Unparen(s.Rhs[i])
					if emptyBytes(fn, rhs) {
						segs, started, appendBuilt = nil, true, true
						continue
					}
					c, ok := rhs.(*ast.CallExpr)
					if !ok {
						fail("buffer assignment %s not understood", core.ExprStr(s))
						return false
					}
					switch {
					case core.BuiltinName(info, c) == "append" && len(c.Args) >= 1 && core.ObjOf(info, c.Args[0]) == buf:
						appendBuilt = true
						if !started {
							fail("append before the buffer is initialised")
							return false
						}
						if c.Ellipsis.IsValid() && len(c.Args) == 2 {
							sg, ok := segOf(c.Args[1])
							if !ok {
								return false
							}
							segs = append(segs, sg)
						} else {
							segs = append(segs, recSeg{val: sizePoly{c: int64(len(c.Args) - 1), terms: map[types.Object]int64{}}, desc: "bytes"})
						}
					case core.CalleeName(info, c) == "encoding/binary.AppendUvarint" && len(c.Args) == 2 && core.ObjOf(info, c.Args[0]) == buf:
						appendBuilt = true
						if !started {
							fail("append before the buffer is initialised")
							return false
						}
						v, ok := polyOfExpr(p, fn, c.Args[1], 0)
						if !ok {
							fail("the value encoded by %s is not a linear size expression", core.ExprStr(c))
							return false
						}
						segs = append(segs, recSeg{uvar: true, val: v, desc: core.ExprStr(c)})
					case core.BuiltinName(info, c) == "make":
						// make([]byte, n) with n != 0: filled by position, not by appending
						segs, started = nil, false
						fail("the buffer is allocated with a non-zero length and filled by position")
						return false
					default:
						fail("buffer assignment %s not understood", core.ExprStr(s))
						return false
					}
				}
				continue
			}
			// any other statement must not assign the buffer (conditionally built records are not evaluated)
			if core.AssignsObj(info, st, buf) {
				fail("the buffer is assigned under a condition or in a loop: %s", core.Trunc(core.ExprStr(st), 60))
				return false
			}
		}
		return true
	}
	if !walk(fn.Body.List) {
		return nil, appendBuilt, why
	}
	if !started {
		return nil, appendBuilt, "the buffer is not initialised empty in this function"
	}
	return segs, appendBuilt, ""
}

func countAssignments(fn *core.Func, o types.Object) int {
	info := fn.Pkg.TypesInfo
	n := 0
	ast.Inspect(fn.Root().Body, func(m ast.Node) bool {
		if as, ok := m.(*ast.AssignStmt); ok {
			for _, l := range as.Lhs {
				if core.ObjOf(info, l) == o {
					n++
				}
			}
		}
		return true
	})
	return n
}
