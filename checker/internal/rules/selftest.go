package rules

import (
	"encoding/json"
	"fmt"
	"os"
	"os/exec"
	"path/filepath"
	"sort"
	"strings"
	"sync"

	"yfverif/checker/internal/core"
)

// Mutant self-test (thorough tier): every patch under /verif/mutants/<prop>/*.diff and every
// seeded change under /verif/seeded/*/ (meta.json naming this property and the rules expected to
// fire) is applied to an in-memory overlay of /repo's current sources (scratch copies of the touched
// files only, in a temp dir that is removed at once) and the property's rules are re-run in a
// subprocess. The mutant is killed when a violated/undecided obligation of an expected rule
// appears that is not present on the unmutated tree. Patches that no longer apply to the current
// tree are reported as not applicable.

type mutantResult struct {
	Name     string   `json:"mutant"`
	Applied  bool     `json:"applied"`
	Killed   bool     `json:"killed"`
	Expect   []string `json:"expect_rules"`
	FiredNew []string `json:"new_findings,omitempty"`
	Note     string   `json:"note,omitempty"`
	Benign   bool     `json:"benign_variant,omitempty"`
}

type seededMeta struct {
	Property   string   `json:"property"`
	DetectedBy []string `json:"detected_by"`
	Also       []struct {
		Property   string   `json:"property"`
		DetectedBy []string `json:"detected_by"`
	} `json:"also_detected_under"`
}

func parseMutantHeader(path string) (expect []string, desc string) {
	b, err := os.ReadFile(path)
	if err != nil {
		return nil, ""
	}
	for _, l := range strings.Split(string(b), "\n") {
		if strings.HasPrefix(l, "diff --git") {
			break
		}
		if strings.HasPrefix(l, "# expect:") {
			for _, f := range strings.Fields(strings.TrimPrefix(l, "# expect:")) {
				expect = append(expect, strings.Trim(f, ","))
			}
		}
		if strings.HasPrefix(l, "# desc:") {
			desc = strings.TrimSpace(strings.TrimPrefix(l, "# desc:"))
		}
	}
	return
}

func patchFiles(path string) []string {
	b, _ := os.ReadFile(path)
	seen := map[string]bool{}
	var out []string
	for _, l := range strings.Split(string(b), "\n") {
		for _, pre := range []string{"--- a/", "+++ b/"} {
			if strings.HasPrefix(l, pre) {
				f := strings.TrimSpace(strings.TrimPrefix(l, pre))
				if i := strings.IndexByte(f, '\t'); i >= 0 {
					f = f[:i]
				}
				if !seen[f] {
					seen[f] = true
					out = append(out, f)
				}
			}
		}
	}
	return out
}

// violationKeys runs `yfcheck -prop id -findings` (optionally with overlay) and returns rule|key of every
// non-discharged obligation.
func violationKeys(self, repo, verif, prop, overlay string) (map[string]bool, error) {
	args := []string{"-prop", prop, "-repo", repo, "-verif", verif, "-findings"}
	if overlay != "" {
		args = append(args, "-overlay", overlay)
	}
	cmd := exec.Command(self, args...)
	out, err := cmd.Output()
	if err != nil {
		if _, ok := err.(*exec.ExitError); !ok {
			return nil, err
		}
	}
	res := map[string]bool{}
	for _, l := range strings.Split(string(out), "\n") {
		if strings.HasPrefix(l, "FINDING ") {
			res[strings.TrimPrefix(l, "FINDING ")] = true
		}
	}
	if len(res) == 0 && !strings.Contains(string(out), "FINDINGS-END") {
		return nil, fmt.Errorf("no findings trailer in output: %s", core.Trunc(string(out), 300))
	}
	return res, nil
}

func runSelfTest(r *core.Report, repo, verif string) {
	self, err := os.Executable()
	if err != nil {
		r.Note("selftest: cannot locate own executable: %v", err)
		return
	}
	type job struct {
		name, patch string
		expect      []string
		benign      bool // behaviour-preserving refactor: must produce no new finding
	}
	var jobs []job
	dir := filepath.Join(verif, "mutants", r.Property)
	ents, _ := os.ReadDir(dir)
	for _, e := range ents {
		if strings.HasSuffix(e.Name(), ".diff") {
			p := filepath.Join(dir, e.Name())
			exp, _ := parseMutantHeader(p)
			jobs = append(jobs, job{"mutants/" + r.Property + "/" + e.Name(), p, exp, false})
		}
	}
	bdir := filepath.Join(verif, "benign", r.Property)
	bents, _ := os.ReadDir(bdir)
	for _, e := range bents {
		if strings.HasSuffix(e.Name(), ".diff") {
			jobs = append(jobs, job{"benign/" + r.Property + "/" + e.Name(), filepath.Join(bdir, e.Name()), nil, true})
		}
	}
	sd, _ := os.ReadDir(filepath.Join(verif, "seeded"))
	for _, e := range sd {
		if !e.IsDir() {
			continue
		}
		mb, err := os.ReadFile(filepath.Join(verif, "seeded", e.Name(), "meta.json"))
		if err != nil {
			continue
		}
		var m seededMeta
		if json.Unmarshal(mb, &m) != nil {
			continue
		}
		var exp []string
		if m.Property == r.Property {
			exp = m.DetectedBy
		}
		for _, a := range m.Also {
			if a.Property == r.Property {
				exp = append(exp, a.DetectedBy...)
			}
		}
		if len(exp) == 0 {
			continue
		}
		jobs = append(jobs, job{"seeded/" + e.Name(), filepath.Join(verif, "seeded", e.Name(), "patch.diff"), exp, false})
	}
	if len(jobs) == 0 {
		r.Extra["selftest"] = "no mutants registered for this property"
		return
	}
	base, err := violationKeys(self, repo, verif, r.Property, "")
	if err != nil {
		r.Note("selftest: baseline run failed: %v", err)
		return
	}
	results := make([]mutantResult, len(jobs))
	var wg sync.WaitGroup
	sem := make(chan struct{}, 6)
	for i, j := range jobs {
		wg.Add(1)
		go func(i int, j job) {
			defer wg.Done()
			sem <- struct{}{}
			defer func() { <-sem }()
			res := mutantResult{Name: j.name, Expect: j.expect, Benign: j.benign}
			defer func() { results[i] = res }()
			tmp, err := os.MkdirTemp("", "yfmut")
			if err != nil {
				res.Note = err.Error()
				return
			}
			defer os.RemoveAll(tmp)
			files := patchFiles(j.patch)
			for _, f := range files {
				src, err := os.ReadFile(filepath.Join(repo, f))
				if err != nil {
					continue // file created by the patch
				}
				os.MkdirAll(filepath.Dir(filepath.Join(tmp, "t", f)), 0o755)
				os.WriteFile(filepath.Join(tmp, "t", f), src, 0o644)
			}
			os.MkdirAll(filepath.Join(tmp, "t"), 0o755)
			cmd := exec.Command("git", "apply", "--whitespace=nowarn", j.patch)
			cmd.Dir = filepath.Join(tmp, "t")
			cmd.Env = append(os.Environ(), "GIT_DIR=/nonexistent", "GIT_CEILING_DIRECTORIES=/")
			if out, err := cmd.CombinedOutput(); err != nil {
				res.Note = "patch does not apply to the current tree (not applicable): " + core.Trunc(strings.TrimSpace(string(out)), 160)
				return
			}
			res.Applied = true
			ov := map[string]string{}
			for _, f := range files {
				if !strings.HasSuffix(f, ".go") && !strings.HasSuffix(f, ".ipldsch") {
					continue
				}
				if _, err := os.Stat(filepath.Join(tmp, "t", f)); err == nil {
					ov[f] = filepath.Join(tmp, "t", f)
				}
			}
			ob, _ := json.Marshal(ov)
			ovPath := filepath.Join(tmp, "overlay.json")
			os.WriteFile(ovPath, ob, 0o644)
			got, err := violationKeys(self, repo, verif, r.Property, ovPath)
			if err != nil {
				res.Note = "mutant run failed: " + err.Error()
				return
			}
			for k := range got {
				if base[k] {
					continue
				}
				res.FiredNew = append(res.FiredNew, k)
				rule := k[:strings.Index(k, "|")]
				for _, e := range j.expect {
					if rule == e || e == "*" {
						res.Killed = true
					}
				}
			}
			sort.Strings(res.FiredNew)
			if len(res.FiredNew) > 6 {
				res.FiredNew = append(res.FiredNew[:6], fmt.Sprintf("... %d more", len(res.FiredNew)-6))
			}
		}(i, j)
	}
	wg.Wait()
	killed, applied, nMut, nBenign, quiet := 0, 0, 0, 0, 0
	for _, m := range results {
		if m.Benign {
			nBenign++
			if m.Applied && len(m.FiredNew) == 0 {
				quiet++
			} else if m.Applied {
				fmt.Printf("SELFTEST-FALSE-ALARM %s (behaviour-preserving variant; new findings %v)\n", m.Name, m.FiredNew)
			} else {
				fmt.Printf("SELFTEST-NOT-APPLICABLE %s %s\n", m.Name, m.Note)
			}
			continue
		}
		nMut++
		if m.Applied {
			applied++
		}
		if m.Killed {
			killed++
		}
		if m.Applied && !m.Killed {
			fmt.Printf("SELFTEST-SURVIVOR %s (expected %v; new findings %v) %s\n", m.Name, m.Expect, m.FiredNew, m.Note)
		}
	}
	// alpha-renaming invariance: every local, parameter, result and receiver of the repository renamed (bin/alpharename)
	// must leave the findings of this property exactly as they are on the unchanged tree
	alpha := "skipped (bin/alpharename not built)"
	if ar := filepath.Join(filepath.Dir(self), "alpharename"); fileExists(ar) {
		tmp, err := os.MkdirTemp("", "yfalpha")
		if err == nil {
			defer os.RemoveAll(tmp)
			if out, err := exec.Command(ar, "-repo", repo, "-out", tmp).CombinedOutput(); err != nil {
				alpha = "alpharename failed: " + core.Trunc(string(out), 200)
			} else if got, err := violationKeys(self, repo, verif, r.Property, filepath.Join(tmp, "overlay.json")); err != nil {
				alpha = "run on the renamed program failed: " + err.Error()
			} else {
				var diff []string
				for k := range got {
					if !base[k] {
						diff = append(diff, "+"+k)
					}
				}
				for k := range base {
					if !got[k] {
						diff = append(diff, "-"+k)
					}
				}
				sort.Strings(diff)
				if len(diff) == 0 {
					alpha = "invariant"
				} else {
					alpha = fmt.Sprintf("DEPENDS ON NAMES: %v", diff)
					fmt.Printf("SELFTEST-FALSE-ALARM alpha-renaming (behaviour-preserving by construction; findings differ: %v)\n", diff)
				}
			}
		}
	}
	r.Extra["selftest_alpha_renaming"] = alpha
	// the same for purely syntactic rewrites applied to the whole repository (bin/synrewrite): compound assignments
	// expanded, `a && b` split into nested ifs, comparison operands swapped, if/else inverted, conditions held in locals
	syn := map[string]string{}
	if sr := filepath.Join(filepath.Dir(self), "synrewrite"); fileExists(sr) {
		modes := []string{"compound", "splitand", "swapcmp", "ifnot", "explain"}
		var mu sync.Mutex
		var wg2 sync.WaitGroup
		for _, mode := range modes {
			wg2.Add(1)
			go func(mode string) {
				defer wg2.Done()
				res := "invariant"
				tmp, err := os.MkdirTemp("", "yfsyn")
				if err != nil {
					return
				}
				defer os.RemoveAll(tmp)
				if out, err := exec.Command(sr, "-repo", repo, "-mode", mode, "-out", tmp).CombinedOutput(); err != nil {
					res = "synrewrite failed: " + core.Trunc(string(out), 200)
				} else if got, err := violationKeys(self, repo, verif, r.Property, filepath.Join(tmp, "overlay.json")); err != nil {
					res = "run on the rewritten program failed: " + err.Error()
				} else {
					var diff []string
					for k := range got {
						if !base[k] {
							diff = append(diff, "+"+k)
						}
					}
					for k := range base {
						if !got[k] {
							diff = append(diff, "-"+k)
						}
					}
					sort.Strings(diff)
					if len(diff) > 0 {
						res = fmt.Sprintf("DEPENDS ON SPELLING: %v", diff)
						fmt.Printf("SELFTEST-FALSE-ALARM syntactic rewrite %q (behaviour-preserving by construction; findings differ: %v)\n", mode, diff)
					}
				}
				mu.Lock()
				syn[mode] = res
				mu.Unlock()
			}(mode)
		}
		wg2.Wait()
	}
	r.Extra["selftest_syntactic_rewrites"] = syn
	nInv := 0
	for _, v := range syn {
		if v == "invariant" {
			nInv++
		}
	}
	alpha = fmt.Sprintf("%s; syntactic rewrites: %d/%d invariant", alpha, nInv, len(syn))
	fmt.Printf("selftest: %d mutants, %d applied, %d killed; %d behaviour-preserving variants, %d quiet; alpha-renaming: %s\n", nMut, applied, killed, nBenign, quiet, core.Trunc(alpha, 90))
	r.Extra["selftest_benign"] = nBenign
	r.Extra["selftest_benign_quiet"] = quiet
	r.Extra["selftest"] = results
	r.Extra["selftest_mutants"] = nMut
	r.Extra["selftest_applied"] = applied
	r.Extra["selftest_killed"] = killed
}

func init() { SelfTest = runSelfTest }

// SelfTest runs the mutant kill matrix (thorough tier).
var SelfTest func(r *core.Report, repo, verif string)

func fileExists(p string) bool {
	st, err := os.Stat(p)
	return err == nil && !st.IsDir()
}
