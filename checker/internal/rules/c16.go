package rules

import (
	"fmt"
	"go/ast"
	"go/token"
	"go/types"
	"strings"

	"yfverif/checker/internal/core"
)

func init() { register("C16", C16) }

// C16 — split CARs read back as the exact concatenation of their pieces.
func C16(r *core.Report) {
	r.Explanation = "Decides structural necessary conditions of C16 (the bytes returned by MultiReaderAt.ReadAt for every size vector / offset / length are arithmetic over runtime values and are not decided): " +
		"R1 size-accounting ownership in the split-car action - bytes reach the current piece file only through the accounting closure (a write whose length is added to currentFileSize) or the header write that is followed by the reset of currentFileSize; " +
		"R2 pairing in NewSplitCarReader - readers and sizes are appended in lock-step, the size appended next to a section reader is the very length the section reader was built with, the section starts at the piece's own HeaderSize, and the header segment is appended before any piece; " +
		"R3 completion-order independence - results of the concurrently started piece openers are stored in slots addressed by the piece's index (a per-iteration copy of the range key), never appended in completion order, and are consumed by ranging over the same piece list; " +
		"R4 NewMultiReaderAt computes offsets as exclusive prefix sums (offsets[i] is stored before the size is added, starting from 0); " +
		"R5 in MultiReaderAt.ReadAt io.EOF is returned only when the reached-end flag is known true, that flag is set only for the last segment's io.EOF, every other error is returned, and each segment is read at off minus that segment's own start; " +
		"R6 in the split-car callback the decision to start a new piece is taken before the block's objects are written, the writing closures cannot reach it (a block with its objects lands in one piece), and the objects are written in the order children-then-block that they were collected in. " +
		"R8 the header bytes the split command records are copied from the input stream (io.CopyN / ReadFull from the reader parameter), never produced by an encoder. R9 the output files of the split are created empty (os.Create, or OpenFile with O_TRUNC / O_EXCL). R10 every block reaches the split callback, also one with no objects in front of it: the wrapper that invokes the callback skips it only when the group has no parent (same rule as C15.R7). Not decided: concrete byte equality, size arithmetic, what carlet metadata from other tools contains."
	c16Accounting(r)
	checkUvarintLenIdiom(r, "C16.R1", "accum", "main")
	c16Pairing(r)
	c16CompletionOrder(r)
	c16PrefixSums(r)
	c16ReadAtEOF(r)
	c16OnePiecePerBlock(r)
	// the split callback appends the block to the children slice it is handed (family := append(children, *parent)): that is
	// only safe because the accumulator gives each group a buffer it never touches again (same rule as C15.R2)
	if run := r.Anchor("C16.R7", "accum.(*ObjectAccumulator).Run"); run != nil {
		bufferOwnership(r, "C16.R7", run)
	}
	// every block reaches the split callback, also one that has no objects in front of it (same rule as C15.R7)
	parentAlwaysDelivered(r, "C16.R10")
	r.Floor("C16.R7", 2)
	r.Floor("C16.R1", 2)
	r.Floor("C16.R2", 2)
	r.Floor("C16.R3", 1)
	r.Floor("C16.R4", 1)
	r.Floor("C16.R5", 2)
	c16HeaderBytesComeFromTheStream(r)
	c16PieceFilesStartEmpty(r)
	r.Floor("C16.R6", 1)
}

// closureName names a literal by the variable it is assigned to ("" when anonymous).
func closureName(root *core.Func, lit *core.Func) string {
	name := ""
	ast.Inspect(root.Body, func(n ast.Node) bool {
		switch s := n.(type) {
		case *ast.AssignStmt:
			for i, rhs := range s.Rhs {
				if core.Unparen(rhs) == ast.Expr(lit.Lit) && i < len(s.Lhs) {
					if id, ok := s.Lhs[i].(*ast.Ident); ok {
						name = id.Name
					}
				}
			}
		case *ast.KeyValueExpr:
			if core.Unparen(s.Value) == ast.Expr(lit.Lit) {
				if id, ok := s.Key.(*ast.Ident); ok {
					name = id.Name
				}
			}
		}
		return true
	})
	return name
}

func allLits(f *core.Func) []*core.Func {
	var out []*core.Func
	for _, l := range f.Lits {
		out = append(out, l)
		out = append(out, allLits(l)...)
	}
	return out
}

func c16Accounting(r *core.Report) {
	const rule = "C16.R1"
	root := r.Anchor(rule, "main.newCmd_SplitCar")
	if root == nil {
		return
	}
	info := root.Pkg.TypesInfo
	// the writer variable and the size counter of the current piece
	var writerObj, sizeObj types.Object
	ast.Inspect(root.Body, func(n ast.Node) bool {
		if vs, ok := n.(*ast.ValueSpec); ok {
			for _, nm := range vs.Names {
				o := info.Defs[nm]
				if o == nil {
					continue
				}
				if strings.HasSuffix(o.Type().String(), "bufio.Writer") {
					writerObj = o
				}
			}
		}
		return true
	})
	// the size counter of the current piece: the local that the recorded ContentSize is computed from and that is advanced
	// with += (identified by its role, not by its name)
	{
		cands := map[types.Object]bool{}
		ast.Inspect(root.Body, func(n ast.Node) bool {
			if kv, ok := n.(*ast.KeyValueExpr); ok {
				if id, ok := kv.Key.(*ast.Ident); ok && id.Name == "ContentSize" {
					ast.Inspect(kv.Value, func(m ast.Node) bool {
						if vid, ok := m.(*ast.Ident); ok {
							if v, isV := info.Uses[vid].(*types.Var); isV && !v.IsField() {
								cands[v] = true
							}
						}
						return true
					})
				}
			}
			return true
		})
		ast.Inspect(root.Body, func(n ast.Node) bool {
			if place, _, isAdd := addStep(info, n); isAdd {
				if o := core.ObjOf(info, place); o != nil && cands[o] {
					sizeObj = o
				}
			}
			return true
		})
	}
	if writerObj == nil || sizeObj == nil {
		r.Undecided(rule, root.Key+"#vars", posP(r, root.Pos()), "piece writer / currentFileSize variables not found")
		return
	}
	fns := append([]*core.Func{root}, allLits(root)...)
	seen := map[string]int{}
	for _, f := range fns {
		// the closure is named by its role in the key of the literal (field it is stored in, or its signature when it is
		// bound to a local), never by the spelling of a local
		where := "literal"
		if i := strings.LastIndex(f.Key, "$"); i >= 0 {
			where = f.Key[i+1:]
		}
		if f == root {
			continue
		}
		g := r.Prog.Graph(f)
		for _, n := range stmtNodes(g) {
			for _, c := range nodeCalls(n) {
				// a call that hands the piece writer to a callee, or a Write on it
				isWrite, what := false, ""
				if sel, ok := core.Unparen(c.Fun).(*ast.SelectorExpr); ok && core.ObjOf(info, sel.X) == writerObj {
					switch sel.Sel.Name {
					case "Write", "WriteString", "WriteByte", "ReadFrom":
						isWrite, what = true, "bufferedWriter."+sel.Sel.Name
					}
				}
				for _, a := range c.Args {
					if core.ObjOf(info, a) == writerObj {
						nm := core.CalleeName(info, c)
						if nm == "main.closeFile" || nm == "bufio.NewWriter" {
							continue
						}
						isWrite, what = true, nm
					}
				}
				if !isWrite {
					continue
				}
				short := what[strings.LastIndex(what, ".")+1:]
				base := fmt.Sprintf("%s#write:%s@%s", root.Key, short, where)
				seen[base]++
				k := base
				if seen[base] > 1 {
					k = fmt.Sprintf("%s#%d", base, seen[base])
				}
				// accepted forms: (a) on every path from the write to a success return the counter is advanced by
				// len(<written data>); (b) the write is followed on every success path by a plain reset `size = X`
				adv := map[*core.GNode]bool{}
				for _, m := range stmtNodes(g) {
					as, ok := m.Ast.(*ast.AssignStmt)
					if !ok || len(as.Lhs) != 1 || core.ObjOf(info, as.Lhs[0]) != sizeObj {
						continue
					}
					_, addend, isAdd := addStep(info, as)
					switch {
					case isAdd && addend != nil:
						okLen := false
						ast.Inspect(addend, func(x ast.Node) bool {
							if lc, ok := x.(*ast.CallExpr); ok && core.BuiltinName(info, lc) == "len" && len(lc.Args) == 1 && len(c.Args) > 0 && core.ObjOf(info, lc.Args[0]) != nil && core.ObjOf(info, lc.Args[0]) == core.ObjOf(info, c.Args[0]) {
								okLen = true
							}
							return true
						})
						if okLen {
							adv[m] = true
						}
					case as.Tok == token.ASSIGN:
						if short == "WriteHeader" {
							adv[m] = true
						}
					}
				}
				bad := g.PathAvoiding(n, func(x *core.GNode) bool {
					if x.Kind != core.KStmt {
						return false
					}
					if _, isRet := x.Ast.(*ast.ReturnStmt); !isRet {
						return false
					}
					nilErr, dec := isNilErrReturn(f, x)
					return !dec || nilErr
				}, func(x *core.GNode) bool { return adv[x] })
				if len(adv) > 0 && bad == nil {
					r.OK(rule, k, pos(r, c), "the bytes written to the piece are added to currentFileSize (or the counter is reset after the header) on every success path")
				} else {
					r.Violation(rule, k, pos(r, c), what+" writes to the current piece file without its length being added to currentFileSize: the sizes recorded in the metadata (ContentSize, csv file size) are short of the file written", g.PathStrings(bad)...)
				}
			}
		}
	}
}

func c16Pairing(r *core.Report) {
	const rule = "C16.R2"
	f := r.Anchor(rule, "split-car-fetcher.NewSplitCarReader")
	if f == nil {
		return
	}
	info := f.Pkg.TypesInfo
	g := r.Prog.Graph(f)
	// the two slices handed to NewMultiReaderAt
	var readersObj, sizesObj types.Object
	for _, c := range callsNamed(info, f.Body, false, "split-car-fetcher.NewMultiReaderAt") {
		if len(c.Args) == 2 {
			readersObj, sizesObj = core.ObjOf(info, c.Args[0]), core.ObjOf(info, c.Args[1])
		}
	}
	if readersObj == nil || sizesObj == nil {
		r.Undecided(rule, f.Key+"#multireader", posP(r, f.Pos()), "NewMultiReaderAt(readers, sizes) call not found")
		return
	}
	type app struct {
		n   *core.GNode
		arg ast.Expr
	}
	var ra, sa []app
	for _, n := range stmtNodes(g) {
		as, ok := n.Ast.(*ast.AssignStmt)
		if !ok || len(as.Lhs) != 1 || len(as.Rhs) != 1 {
			continue
		}
		c, ok := core.Unparen(as.Rhs[0]).(*ast.CallExpr)
		if !ok || core.BuiltinName(info, c) != "append" || len(c.Args) != 2 {
			continue
		}
		switch core.ObjOf(info, as.Lhs[0]) {
		case readersObj:
			ra = append(ra, app{n, c.Args[1]})
		case sizesObj:
			sa = append(sa, app{n, c.Args[1]})
		}
	}
	if len(ra) != len(sa) || len(ra) == 0 {
		r.Violation(rule, f.Key+"#lock-step", posP(r, f.Pos()), fmt.Sprintf("%d appends to readers but %d appends to sizes", len(ra), len(sa)))
		return
	}
	stripConv := func(e ast.Expr) ast.Expr {
		for {
			e = core.Unparen(e)
			c, ok := e.(*ast.CallExpr)
			if !ok || len(c.Args) != 1 {
				return e
			}
			if tv, ok := info.Types[c.Fun]; !ok || !tv.IsType() {
				return e
			}
			e = c.Args[0]
		}
	}
	for i := range ra {
		k := fmt.Sprintf("%s#pair%d", f.Key, i)
		// lock-step: the size append is reached from the reader append with no branching away (dominates and nothing else appended in between)
		lock := g.Dominates(ra[i].n, sa[i].n) && g.PathAvoiding(ra[i].n, func(x *core.GNode) bool { return x.Kind == core.KExit }, func(x *core.GNode) bool { return x == sa[i].n }) == nil
		if !lock {
			// a return between the two appends is fine only if it is an error return; accept when every path from the reader append to Exit avoiding the size append is impossible
			r.Violation(rule, k+"-lock-step", pos(r, ra[i].n.Ast), "a reader is appended on a path that does not append its size: readers and sizes get out of step")
			continue
		}
		r.OK(rule, k+"-lock-step", pos(r, ra[i].n.Ast), "reader and size are appended together")
		// the size is the section length
		rd := core.ObjOf(info, ra[i].arg)
		var def *ast.CallExpr
		var defLhs []ast.Expr
		if rd != nil {
			ast.Inspect(f.Body, func(x ast.Node) bool {
				if as, ok := x.(*ast.AssignStmt); ok && len(as.Rhs) == 1 {
					for _, l := range as.Lhs {
						if id, ok := l.(*ast.Ident); ok && info.Defs[id] == rd {
							if c, ok := core.Unparen(as.Rhs[0]).(*ast.CallExpr); ok {
								def, defLhs = c, as.Lhs
							}
						}
					}
				}
				return true
			})
		}
		if c, ok := core.Unparen(ra[i].arg).(*ast.CallExpr); ok && def == nil {
			def = c // the reader is constructed in the append itself
		}
		if def == nil {
			r.Undecided(rule, k+"-size-matches", pos(r, ra[i].n.Ast), "definition of the appended reader not found")
			continue
		}
		switch core.CalleeName(info, def) {
		case "io.NewSectionReader":
			same := core.ExprStr(stripConv(def.Args[2])) == core.ExprStr(stripConv(sa[i].arg))
			r.Check(same, rule, k+"-size-matches", pos(r, sa[i].n.Ast), "the size appended is the length the section reader was built with",
				fmt.Sprintf("the section reader is %s bytes long but %s is appended to sizes: every later segment is addressed at the wrong offset", core.ExprStr(def.Args[2]), core.ExprStr(sa[i].arg)))
			// the section skips the piece's own header
			// (through locals assigned once: contentStart, contentLen := int64(cf.HeaderSize), int64(cf.ContentSize))
			viaLocal := func(e ast.Expr) ast.Expr {
				e = stripConv(e)
				for hop := 0; hop < 3; hop++ {
					o := core.ObjOf(info, e)
					if o == nil {
						break
					}
					d := singleDef(f, o)
					if d == nil {
						break
					}
					e = stripConv(d)
				}
				return e
			}
			off := core.ExprStr(viaLocal(def.Args[1]))
			ln := core.ExprStr(viaLocal(def.Args[2]))
			okHdr := strings.HasSuffix(off, ".HeaderSize") && strings.HasSuffix(ln, ".ContentSize") && strings.TrimSuffix(off, ".HeaderSize") == strings.TrimSuffix(ln, ".ContentSize")
			r.Check(okHdr, rule, k+"-skips-own-header", pos(r, def), "the section starts at the piece's HeaderSize and is ContentSize long",
				"the section reader does not start at the same piece's HeaderSize / span its ContentSize")
		default:
			// the header segment: a function returning (reader, size, err) - the size appended is the second result
			ok := false
			if len(defLhs) >= 2 {
				if so := core.ObjOf(info, stripConv(sa[i].arg)); so != nil && so == core.ObjOf(info, defLhs[1]) {
					ok = true
				}
			}
			r.Check(ok, rule, k+"-size-matches", pos(r, sa[i].n.Ast), "the size appended was returned together with the reader",
				"the size appended next to the header reader does not come from the call that produced the reader")
		}
	}
	// header first: the first reader append is outside every loop and dominates the others
	first := ra[0].n
	okFirst := enclosingLoop(f.Body, first.Ast) == nil
	for _, o := range ra[1:] {
		if !g.Dominates(first, o.n) {
			okFirst = false
		}
	}
	r.Check(okFirst, rule, f.Key+"#header-first", pos(r, first.Ast), "the original header is the first segment", "the original header is not appended before every piece")
}

func enclosingLoop(body ast.Node, target ast.Node) ast.Stmt {
	var found ast.Stmt
	var stack []ast.Node
	ast.Inspect(body, func(n ast.Node) bool {
		if n == nil {
			stack = stack[:len(stack)-1]
			return true
		}
		stack = append(stack, n)
		if n == target {
			for i := len(stack) - 1; i >= 0; i-- {
				switch s := stack[i].(type) {
				case *ast.ForStmt:
					found = s
				case *ast.RangeStmt:
					found = s
				case *ast.FuncLit:
					i = -1
				}
				if found != nil {
					break
				}
			}
		}
		return true
	})
	return found
}

// concurrentStore describes a store into a captured variable from a literal started concurrently inside a loop.
type concurrentStore struct {
	Loop    *ast.RangeStmt
	Lit     *ast.FuncLit
	Target  types.Object
	Stmt    ast.Stmt
	Indexed bool   // X[i] = v with i a per-iteration copy of the loop key
	Why     string // when not indexed
}

// concurrentStores finds, in f, the stores performed by literals launched with `go` or `<group>.Go(...)` from inside a
// range loop into variables declared outside that loop.
func concurrentStores(f *core.Func) []concurrentStore {
	info := f.Pkg.TypesInfo
	var out []concurrentStore
	ast.Inspect(f.Body, func(n ast.Node) bool {
		rs, ok := n.(*ast.RangeStmt)
		if !ok {
			return true
		}
		keyObj := types.Object(nil)
		if rs.Key != nil {
			keyObj = core.ObjOf(info, rs.Key)
		}
		// per-iteration copies of the key: `i := i` or `i, cf := i, cf` in the loop body
		keyCopies := map[types.Object]bool{}
		if keyObj != nil {
			keyCopies[keyObj] = true // Go >= 1.22 per-iteration loop variables
			for _, st := range rs.Body.List {
				if as, ok := st.(*ast.AssignStmt); ok && as.Tok == token.DEFINE && len(as.Lhs) == len(as.Rhs) {
					for i := range as.Lhs {
						if core.ObjOf(info, as.Rhs[i]) == keyObj {
							if id, ok := as.Lhs[i].(*ast.Ident); ok {
								keyCopies[info.Defs[id]] = true
							}
						}
					}
				}
			}
		}
		var lits []*ast.FuncLit
		ast.Inspect(rs.Body, func(x ast.Node) bool {
			switch s := x.(type) {
			case *ast.RangeStmt, *ast.ForStmt:
				if s != ast.Node(rs) {
					// nested loops are handled by their own visit; literals launched there still run concurrently
					return true
				}
			case *ast.GoStmt:
				if l, ok := core.Unparen(s.Call.Fun).(*ast.FuncLit); ok {
					lits = append(lits, l)
				}
			case *ast.CallExpr:
				if sel, ok := core.Unparen(s.Fun).(*ast.SelectorExpr); ok && sel.Sel.Name == "Go" && len(s.Args) == 1 {
					if l, ok := core.Unparen(s.Args[0]).(*ast.FuncLit); ok {
						lits = append(lits, l)
					}
				}
			}
			return true
		})
		for _, lit := range lits {
			ast.Inspect(lit.Body, func(x ast.Node) bool {
				as, ok := x.(*ast.AssignStmt)
				if !ok {
					return true
				}
				for i, l := range as.Lhs {
					l = core.Unparen(l)
					var base ast.Expr
					var idx ast.Expr
					if ix, ok := l.(*ast.IndexExpr); ok {
						base, idx = ix.X, ix.Index
					} else {
						base = l
					}
					o := core.ObjOf(info, base)
					v, isVar := o.(*types.Var)
					if !isVar || !declaredOutside(o, rs) || core.IsErrorType(v.Type()) {
						continue
					}
					if as.Tok == token.DEFINE {
						continue
					}
					cs := concurrentStore{Loop: rs, Lit: lit, Target: o, Stmt: as}
					switch {
					case idx != nil:
						if _, isMap := info.TypeOf(base).Underlying().(*types.Map); isMap {
							cs.Indexed = true // keyed store: independent of completion order
						} else if keyCopies[core.ObjOf(info, idx)] {
							cs.Indexed = true
						} else {
							cs.Why = "stored at index " + core.ExprStr(idx) + ", which is not the loop's own index"
						}
					default:
						if i < len(as.Rhs) || len(as.Rhs) == 1 {
							rhs := as.Rhs[0]
							if i < len(as.Rhs) {
								rhs = as.Rhs[i]
							}
							if c, ok := core.Unparen(rhs).(*ast.CallExpr); ok && core.BuiltinName(info, c) == "append" {
								cs.Why = "appended in completion order"
							} else {
								// scalar overwrite (last writer wins) - order dependent unless every writer stores the same thing; only slices matter here
								if _, isSlice := v.Type().Underlying().(*types.Slice); !isSlice {
									continue
								}
								cs.Why = "overwritten by whichever worker finishes last"
							}
						}
					}
					out = append(out, cs)
				}
				return true
			})
		}
		return true
	})
	return out
}

func c16CompletionOrder(r *core.Report) {
	const rule = "C16.R3"
	f := r.Anchor(rule, "split-car-fetcher.NewSplitCarReader")
	if f == nil {
		return
	}
	info := f.Pkg.TypesInfo
	stores := concurrentStores(f)
	n := 0
	var slotObj types.Object
	var launchLoop *ast.RangeStmt
	for _, cs := range stores {
		if _, isSlice := cs.Target.Type().Underlying().(*types.Slice); !isSlice {
			continue
		}
		n++
		k := fmt.Sprintf("%s#concurrent-store:%s", f.Key, tokenOrName(f, cs.Target))
		if cs.Indexed {
			slotObj, launchLoop = cs.Target, cs.Loop
			r.OK(rule, k, pos(r, cs.Stmt), "each concurrently opened piece is stored in the slot of its own index")
		} else if sortedAfter(r.Prog, f, cs.Loop, cs.Target) {
			r.OK(rule, k, pos(r, cs.Stmt), "collected in completion order but sorted afterwards")
		} else {
			r.Violation(rule, k, pos(r, cs.Stmt), "the piece readers opened concurrently are "+cs.Why+": the order of the pieces in the reassembled CAR depends on which opener finishes first")
		}
	}
	if n == 0 {
		r.Undecided(rule, f.Key+"#concurrent-store", posP(r, f.Pos()), "no store from the concurrent openers found")
		return
	}
	if slotObj == nil {
		return
	}
	// consumption: a range over the same piece list reads the slot at its own key
	ok := false
	ast.Inspect(f.Body, func(x ast.Node) bool {
		rs, isR := x.(*ast.RangeStmt)
		if !isR || rs == launchLoop || rs.Key == nil || core.ExprStr(rs.X) != core.ExprStr(launchLoop.X) {
			return true
		}
		key := core.ObjOf(info, rs.Key)
		ast.Inspect(rs.Body, func(y ast.Node) bool {
			if ix, isIx := y.(*ast.IndexExpr); isIx && core.ObjOf(info, ix.X) == slotObj && core.ObjOf(info, ix.Index) == key {
				ok = true
			}
			return true
		})
		return true
	})
	r.Check(ok, rule, f.Key+"#slots-consumed-by-index", posP(r, f.Pos()), "the slots are read back by ranging over the same piece list with the same index",
		"the opened pieces are not read back at the index of the piece they belong to")
}

func c16PrefixSums(r *core.Report) {
	const rule = "C16.R4"
	f := r.Anchor(rule, "split-car-fetcher.NewMultiReaderAt")
	if f == nil {
		return
	}
	info := f.Pkg.TypesInfo
	g := r.Prog.Graph(f)
	sizes := f.ParamByName("sizes")
	var store, add *core.GNode
	var total types.Object
	var rsFound *ast.RangeStmt
	ast.Inspect(f.Body, func(n ast.Node) bool {
		rs, ok := n.(*ast.RangeStmt)
		if !ok || core.ObjOf(info, rs.X) != types.Object(sizes) || (rs.Value == nil && rs.Key == nil) {
			return true
		}
		rsFound = rs
		var key, val types.Object
		if rs.Key != nil {
			key = core.ObjOf(info, rs.Key)
		}
		if rs.Value != nil {
			val = core.ObjOf(info, rs.Value)
		}
		// the size of the current segment: the range value, or sizes[key]
		isElem := func(e ast.Expr) bool {
			e = core.Unparen(e)
			if o := core.ObjOf(info, e); o != nil && val != nil && o == val {
				return true
			}
			if ix, ok := e.(*ast.IndexExpr); ok && key != nil && core.ObjOf(info, ix.X) == types.Object(sizes) && core.ObjOf(info, ix.Index) == key {
				return true
			}
			return false
		}
		for _, st := range rs.Body.List {
			as, ok := st.(*ast.AssignStmt)
			if !ok || len(as.Lhs) != 1 || len(as.Rhs) != 1 {
				continue
			}
			if ix, ok := core.Unparen(as.Lhs[0]).(*ast.IndexExpr); ok && as.Tok == token.ASSIGN && key != nil && core.ObjOf(info, ix.Index) == key {
				if o := core.ObjOf(info, as.Rhs[0]); o != nil {
					total = o
					store = g.NodeOf(as.Pos())
				}
			}
			// offsets = append(offsets, total): the i-th append is the i-th offset
			if c, ok := core.Unparen(as.Rhs[0]).(*ast.CallExpr); ok && core.BuiltinName(info, c) == "append" && len(c.Args) == 2 && core.ObjOf(info, c.Args[0]) == core.ObjOf(info, as.Lhs[0]) {
				if o := core.ObjOf(info, c.Args[1]); o != nil {
					total = o
					store = g.NodeOf(as.Pos())
				}
			}
			if _, addend, isAdd := addStep(info, as); isAdd && addend != nil && isElem(addend) {
				if total == nil || core.ObjOf(info, as.Lhs[0]) == total {
					add = g.NodeOf(as.Pos())
					if total == nil {
						total = core.ObjOf(info, as.Lhs[0])
					}
				}
			}
		}
		return true
	})
	if rsFound == nil && c16PrefixRecurrence(r, rule, f, sizes) {
		return
	}
	if rsFound == nil || store == nil || add == nil {
		r.Undecided(rule, f.Key+"#prefix-sum", posP(r, f.Pos()), "the offsets[i] = total; total += size loop over sizes was not recognised")
		return
	}
	r.Check(store.Ast.Pos() < add.Ast.Pos() && g.Dominates(store, add), rule, f.Key+"#store-before-add", pos(r, store.Ast),
		"offsets[i] is the sum of the sizes before segment i (stored before the size is added)",
		"offsets[i] is stored after the segment's own size was added: every segment is addressed one segment too late")
	// total starts from zero
	zero := false
	ast.Inspect(f.Body, func(n ast.Node) bool {
		if vs, ok := n.(*ast.ValueSpec); ok {
			for i, nm := range vs.Names {
				if info.Defs[nm] == total {
					if len(vs.Values) == 0 {
						zero = true
					} else if v, ok := core.ConstInt(info, vs.Values[i]); ok && v == 0 {
						zero = true
					}
				}
			}
		}
		if as, ok := n.(*ast.AssignStmt); ok && as.Tok == token.DEFINE {
			for i, l := range as.Lhs {
				if id, ok := l.(*ast.Ident); ok && info.Defs[id] == total && i < len(as.Rhs) {
					if v, ok := core.ConstInt(info, as.Rhs[i]); ok && v == 0 {
						zero = true
					}
				}
			}
		}
		return true
	})
	r.Check(zero, rule, f.Key+"#starts-at-zero", posP(r, f.Pos()), "the running total starts at 0", "the running total does not start at 0")
}

// c16PrefixRecurrence recognises the other way of writing the prefix sums:
//   offsets := make([]T, len(sizes));  for i := 1; i < len(sizes); i++ { offsets[i] = offsets[i-1] + sizes[i-1] }
// offsets[0] keeps the zero value make gave it, every later offset adds the size of the segment before it.
func c16PrefixRecurrence(r *core.Report, rule string, f *core.Func, sizes *types.Var) bool {
	info := f.Pkg.TypesInfo
	var loop *ast.ForStmt
	ast.Inspect(f.Body, func(n ast.Node) bool {
		if fs, ok := n.(*ast.ForStmt); ok && loop == nil {
			loop = fs
		}
		return true
	})
	if loop == nil || loop.Init == nil || loop.Cond == nil || loop.Post == nil || len(loop.Body.List) != 1 {
		return false
	}
	init, ok := loop.Init.(*ast.AssignStmt)
	if !ok || len(init.Lhs) != 1 || len(init.Rhs) != 1 {
		return false
	}
	iv := core.ObjOf(info, init.Lhs[0])
	start, okS := core.ConstInt(info, init.Rhs[0])
	post, okP := loop.Post.(*ast.IncDecStmt)
	as, okA := loop.Body.List[0].(*ast.AssignStmt)
	if iv == nil || !okS || !okP || post.Tok != token.INC || core.ObjOf(info, post.X) != iv || !okA || as.Tok != token.ASSIGN || len(as.Lhs) != 1 || len(as.Rhs) != 1 {
		return false
	}
	lhs, ok := core.Unparen(as.Lhs[0]).(*ast.IndexExpr)
	if !ok || core.ObjOf(info, lhs.Index) != iv {
		return false
	}
	offs := core.ObjOf(info, lhs.X)
	sum, ok := core.Unparen(as.Rhs[0]).(*ast.BinaryExpr)
	if !ok || sum.Op != token.ADD || offs == nil {
		return false
	}
	// operands: offsets[i-1] and sizes[i-1]
	prevOf := func(e ast.Expr, base types.Object) bool {
		ix, ok := stripConvs(info, e).(*ast.IndexExpr)
		if !ok || core.ObjOf(info, ix.X) != base {
			return false
		}
		be, ok := core.Unparen(ix.Index).(*ast.BinaryExpr)
		if !ok || be.Op != token.SUB || core.ObjOf(info, be.X) != iv {
			return false
		}
		v, ok := core.ConstInt(info, be.Y)
		return ok && v == 1
	}
	rec := (prevOf(sum.X, offs) && prevOf(sum.Y, sizes)) || (prevOf(sum.Y, offs) && prevOf(sum.X, sizes))
	// bound: i < len(sizes) or i < len(offsets)
	bound := false
	if be, ok := core.Unparen(loop.Cond).(*ast.BinaryExpr); ok && be.Op == token.LSS && core.ObjOf(info, be.X) == iv {
		if lc, ok := core.Unparen(be.Y).(*ast.CallExpr); ok && core.BuiltinName(info, lc) == "len" && len(lc.Args) == 1 {
			if o := core.ObjOf(info, lc.Args[0]); o == types.Object(sizes) || o == offs {
				bound = true
			}
		}
	}
	// offsets := make([]T, len(sizes)): zero-initialised, as long as sizes
	zeroInit := false
	if d := singleDef(f, offs); d != nil {
		if mc, ok := core.Unparen(d).(*ast.CallExpr); ok && core.BuiltinName(info, mc) == "make" && len(mc.Args) == 2 {
			if lc, ok := core.Unparen(mc.Args[1]).(*ast.CallExpr); ok && core.BuiltinName(info, lc) == "len" && len(lc.Args) == 1 && core.ObjOf(info, lc.Args[0]) == types.Object(sizes) {
				zeroInit = true
			}
		}
	}
	if !rec {
		return false
	}
	r.Check(bound && start == 1, rule, f.Key+"#store-before-add", pos(r, as), "offsets[i] = offsets[i-1] + sizes[i-1] for every i from 1 to the last segment: the sum of the sizes before segment i",
		"the recurrence offsets[i] = offsets[i-1] + sizes[i-1] does not run over every segment from the second to the last")
	r.Check(zeroInit, rule, f.Key+"#starts-at-zero", posP(r, f.Pos()), "offsets[0] keeps the zero value of make([]T, len(sizes))", "offsets[0] is not known to be 0")
	return true
}

func c16ReadAtEOF(r *core.Report) {
	const rule = "C16.R5"
	f := r.Anchor(rule, "split-car-fetcher.(*MultiReaderAt).ReadAt")
	if f == nil {
		return
	}
	info := f.Pkg.TypesInfo
	g := r.Prog.Graph(f)
	isEOF := func(e ast.Expr) bool {
		return core.ExprStr(core.Unparen(e)) == "io.EOF"
	}
	// (a) returns of io.EOF
	var flag types.Object
	nEOF := 0
	for _, rn := range g.Returns() {
		res := returnResults(rn)
		if len(res) != 2 || !isEOF(res[1]) {
			continue
		}
		nEOF++
		k := fmt.Sprintf("%s#eof-return@%d", f.Key, nEOF)
		hasRemaining, hasFlag := false, false
		for _, fc := range g.FactsAt(rn) {
			if fc.Tag != nil {
				continue
			}
			if be, ok := core.Unparen(fc.Expr).(*ast.BinaryExpr); ok && fc.Truth && be.Op == token.GTR && core.ExprStr(be.X) == "remaining" {
				if v, ok := core.ConstInt(info, be.Y); ok && v == 0 {
					hasRemaining = true
				}
			}
			if id, ok := core.Unparen(fc.Expr).(*ast.Ident); ok && fc.Truth {
				if o := info.Uses[id]; o != nil && types.Identical(o.Type(), types.Typ[types.Bool]) {
					hasFlag, flag = true, o
				}
			}
		}
		_ = hasRemaining // a full read that ends exactly at the true end may also report io.EOF (io.ReaderAt allows both)
		r.Check(hasFlag, rule, k, pos(r, rn.Ast), "io.EOF is returned only when the last segment reported its end",
			"io.EOF is returned without the reached-end flag being known true: end-of-file can be reported before the true end")
	}
	if nEOF == 0 {
		r.Violation(rule, f.Key+"#eof-return", posP(r, f.Pos()), "ReadAt never returns io.EOF: a read past the true end is not reported")
	}
	// (b) the flag is set only for the last segment's io.EOF
	if flag != nil {
		nSet := 0
		for _, n := range stmtNodes(g) {
			as, ok := n.Ast.(*ast.AssignStmt)
			if !ok || len(as.Lhs) != 1 || core.ObjOf(info, as.Lhs[0]) != flag || as.Tok == token.DEFINE {
				continue
			}
			if b, isB := boolConst(info, as.Rhs[0]); !isB || !b {
				continue
			}
			nSet++
			last, eof := false, false
			for _, fc := range g.FactsAt(n) {
				if fc.Tag != nil {
					continue
				}
				be, ok := core.Unparen(fc.Expr).(*ast.BinaryExpr)
				if !ok || !((be.Op == token.EQL && fc.Truth) || (be.Op == token.NEQ && !fc.Truth)) {
					continue // the equality is known to hold: `a == b` taken, or `a != b` refused
				}
				if isEOF(be.X) || isEOF(be.Y) {
					eof = true
				}
				// i == len(<receiver>.<slice field>) - 1
				for _, side := range []ast.Expr{be.X, be.Y} {
					// the last index may be held in a local that is assigned once (`lastReader := len(m.readers) - 1`)
					if id, isId := core.Unparen(side).(*ast.Ident); isId {
						if o := info.Uses[id]; o != nil {
							if d := singleDef(f, o); d != nil {
								side = d
							}
						}
					}
					sub, ok := core.Unparen(side).(*ast.BinaryExpr)
					if !ok || sub.Op != token.SUB {
						continue
					}
					if v, ok := core.ConstInt(info, sub.Y); !ok || v != 1 {
						continue
					}
					if lc, ok := core.Unparen(sub.X).(*ast.CallExpr); ok && core.BuiltinName(info, lc) == "len" && len(lc.Args) == 1 {
						if sel, ok := core.Unparen(lc.Args[0]).(*ast.SelectorExpr); ok {
							if recv := f.Decl.Recv.List[0].Names; len(recv) == 1 && core.ObjOf(info, sel.X) == info.Defs[recv[0]] {
								last = true
							}
						}
					}
				}
			}
			r.Check(last && eof, rule, fmt.Sprintf("%s#flag-set@%d", f.Key, nSet), pos(r, n.Ast), "the reached-end flag is set only when the last segment returns io.EOF",
				"the reached-end flag is set for a segment that is not known to be the last one (or for an error other than io.EOF): an inner piece boundary is reported as end-of-file")
		}
		if nSet == 0 {
			r.Undecided(rule, f.Key+"#flag-set", posP(r, f.Pos()), "assignment of the reached-end flag not found")
		}
	}
	// (c) an error other than io.EOF is returned
	nErr := 0
	for _, rn := range g.Returns() {
		res := returnResults(rn)
		if len(res) != 2 {
			continue
		}
		if id, ok := core.Unparen(res[1]).(*ast.Ident); ok && info.Uses[id] != nil && core.IsErrorType(info.Uses[id].Type()) {
			if _, isVar := info.Uses[id].(*types.Var); !isVar {
				continue
			}
			for _, fc := range g.FactsAt(rn) {
				if be, ok := core.Unparen(fc.Expr).(*ast.BinaryExpr); ok && fc.Tag == nil && fc.Truth && be.Op == token.NEQ && (isEOF(be.X) || isEOF(be.Y)) {
					nErr++
				}
			}
		}
	}
	r.Check(nErr > 0, rule, f.Key+"#other-errors-returned", posP(r, f.Pos()), "a segment error other than io.EOF ends the read with that error",
		"no path returns a segment's non-EOF error")
	// (d) each segment is read at off - its own start
	okRel := false
	ast.Inspect(f.Body, func(n ast.Node) bool {
		rs, ok := n.(*ast.RangeStmt)
		if !ok || rs.Key == nil || !strings.HasSuffix(core.ExprStr(rs.X), ".offsets") {
			return true
		}
		key := core.ObjOf(info, rs.Key)
		var val types.Object
		if rs.Value != nil {
			val = core.ObjOf(info, rs.Value)
		}
		// the start of segment i: the range value, offsets[key], or a local assigned once from either
		var isStart func(e ast.Expr, depth int) bool
		isStart = func(e ast.Expr, depth int) bool {
			e = core.Unparen(e)
			if o := core.ObjOf(info, e); o != nil && val != nil && o == val {
				return true
			}
			if ix, ok := e.(*ast.IndexExpr); ok && core.ExprStr(ix.X) == core.ExprStr(rs.X) && core.ObjOf(info, ix.Index) == key {
				return true
			}
			if o := core.ObjOf(info, e); o != nil && depth < 2 {
				if d := singleDef(f, o); d != nil && d.Pos() >= rs.Body.Pos() && d.End() <= rs.Body.End() {
					return isStart(d, depth+1)
				}
			}
			return false
		}
		ast.Inspect(rs.Body, func(x ast.Node) bool {
			c, ok := x.(*ast.CallExpr)
			if !ok || len(c.Args) != 2 {
				return true
			}
			sel, ok := core.Unparen(c.Fun).(*ast.SelectorExpr)
			if !ok || sel.Sel.Name != "ReadAt" {
				return true
			}
			ix, ok := core.Unparen(sel.X).(*ast.IndexExpr)
			if !ok || core.ObjOf(info, ix.Index) != key {
				return true
			}
			if be, ok := core.Unparen(c.Args[1]).(*ast.BinaryExpr); ok && be.Op == token.SUB && isStart(be.Y, 0) && f.ParamObj(1) != nil && core.ObjOf(info, be.X) == types.Object(f.ParamObj(1)) {
				okRel = true
			}
			return true
		})
		return true
	})
	r.Check(okRel, rule, f.Key+"#relative-offset", posP(r, f.Pos()), "segment i is read through readers[i] at off minus offsets[i]",
		"the segment read does not use readers[i] at off - offsets[i]")
	c16WrapperForwards(r, f)
}

// c16WrapperForwards (C16.R5, e): the reader handed to the server, SplitCarReader.ReadAt, takes no end-of-stream decision
// of its own: every return that reports success or io.EOF is the result of the segment reader's ReadAt called with the
// caller's buffer and offset unchanged. (The segment table - original header plus every piece - lives in MultiReaderAt; a
// private size computed from the piece list alone reports end-of-file one header length early.)
func c16WrapperForwards(r *core.Report, multi *core.Func) {
	const rule = "C16.R5"
	p := r.Prog
	w := r.Anchor(rule, "split-car-fetcher.(*SplitCarReader).ReadAt")
	if w == nil {
		return
	}
	info := w.Pkg.TypesInfo
	g := p.Graph(w)
	isFwdCall := func(e ast.Expr) bool {
		c, ok := core.Unparen(e).(*ast.CallExpr)
		if !ok || len(c.Args) != 2 {
			return false
		}
		fo := core.Callee(info, c)
		if fo == nil || multi.Obj == nil {
			return false
		}
		if fo.Origin() != multi.Obj.Origin() {
			// through a field typed io.ReaderAt that only ever holds the segment reader
			sel, isSel := core.Unparen(c.Fun).(*ast.SelectorExpr)
			if !isSel || fo.Name() != "ReadAt" {
				return false
			}
			fs, isFS := core.Unparen(sel.X).(*ast.SelectorExpr)
			if !isFS {
				return false
			}
			fld, isVar := info.Uses[fs.Sel].(*types.Var)
			if !isVar || !fld.IsField() || !fieldOnlyHolds(p, w, fld, multi) {
				return false
			}
		}
		return w.ParamObj(0) != nil && core.ObjOf(info, c.Args[0]) == types.Object(w.ParamObj(0)) && core.ObjOf(info, c.Args[1]) == types.Object(w.ParamObj(1))
	}
	// locals bound to the forwarded call's results
	fwdN, fwdErr := map[types.Object]bool{}, map[types.Object]bool{}
	for _, nd := range stmtNodes(g) {
		if as, ok := nd.Ast.(*ast.AssignStmt); ok && len(as.Rhs) == 1 && len(as.Lhs) == 2 && isFwdCall(as.Rhs[0]) {
			if o := core.ObjOf(info, as.Lhs[0]); o != nil {
				fwdN[o] = true
			}
			if o := core.ObjOf(info, as.Lhs[1]); o != nil {
				fwdErr[o] = true
			}
		}
	}
	nRet, nFwd := 0, 0
	for _, rn := range g.Returns() {
		nRet++
		res := returnResults(rn)
		key := fmt.Sprintf("%s#return@%d-forwards-the-segment-reader", w.Key, nRet)
		if len(res) == 1 && isFwdCall(res[0]) {
			nFwd++
			r.OK(rule, key, pos(r, rn.Ast), "the segment reader's result is returned as is")
			continue
		}
		if len(res) == 2 {
			if fwdErr[core.ObjOf(info, res[1])] && (fwdN[core.ObjOf(info, res[0])]) {
				nFwd++
				r.OK(rule, key, pos(r, rn.Ast), "the segment reader's result is returned")
				continue
			}
			// a failure of its own (not end-of-file, not success) is not an end-of-stream decision
			if c, ok := core.Unparen(res[1]).(*ast.CallExpr); ok && isErrorConstructor(info, c) {
				r.OK(rule, key, pos(r, rn.Ast), "an error of the wrapper's own (not io.EOF)")
				continue
			}
		}
		if len(res) == 0 {
			r.Undecided(rule, key, pos(r, rn.Ast), "bare return: results not identified")
			continue
		}
		r.Violation(rule, key, pos(r, rn.Ast), "SplitCarReader.ReadAt decides the outcome of a read itself ("+core.ExprStr(rn.Ast.(*ast.ReturnStmt).Results[len(res)-1])+") instead of forwarding the segment reader's result: end-of-file (or success) can be reported for an offset the segment table - original header plus every piece - still covers")
	}
	if nFwd == 0 {
		r.Violation(rule, w.Key+"#forwards", posP(r, w.Pos()), "SplitCarReader.ReadAt never forwards to the segment reader with the caller's buffer and offset")
	}
}

func c16OnePiecePerBlock(r *core.Report) {
	const rule = "C16.R6"
	root := r.Anchor(rule, "main.newCmd_SplitCar")
	if root == nil {
		return
	}
	info := root.Pkg.TypesInfo
	p := r.Prog
	// the three closures, identified by what they do (not by the names they are bound to):
	//   writeObject   - calls Write on the piece's bufio.Writer with its own []byte parameter
	//   createNewFile - creates the piece file (os.Create) / re-binds the buffered writer
	//   writeBlockDag - ranges over its slice parameter and calls writeObject
	boundTo := map[*core.Func]types.Object{}
	ast.Inspect(root.Body, func(n ast.Node) bool {
		if as, ok := n.(*ast.AssignStmt); ok {
			for i, rhs := range as.Rhs {
				if lit, ok := core.Unparen(rhs).(*ast.FuncLit); ok && i < len(as.Lhs) {
					if lf := p.ByLit[lit]; lf != nil {
						boundTo[lf] = core.ObjOf(info, as.Lhs[i])
					}
				}
			}
		}
		return true
	})
	callsVar := func(f *core.Func, target *core.Func) []*ast.CallExpr {
		var out []*ast.CallExpr
		if f == nil || target == nil || boundTo[target] == nil {
			return nil
		}
		for _, c := range core.CallsIn(f.Body, false) {
			if core.ObjOf(info, c.Fun) == boundTo[target] {
				out = append(out, c)
			}
		}
		return out
	}
	var create, wdag, wobj *core.Func
	for _, l := range allLits(root) {
		if boundTo[l] == nil {
			continue
		}
		for _, c := range core.CallsIn(l.Body, false) {
			if sel, ok := core.Unparen(c.Fun).(*ast.SelectorExpr); ok && sel.Sel.Name == "Write" && len(c.Args) == 1 {
				if t := info.TypeOf(sel.X); t != nil && strings.HasSuffix(t.String(), "bufio.Writer") && l.ParamObj(0) != nil && core.ObjOf(info, c.Args[0]) == types.Object(l.ParamObj(0)) {
					wobj = l
				}
			}
			if nm := core.CalleeName(info, c); nm == "os.Create" || nm == "os.OpenFile" {
				create = l
			}
		}
	}
	for _, l := range allLits(root) {
		if boundTo[l] == nil || l == wobj || l.ParamObj(0) == nil {
			continue
		}
		ast.Inspect(l.Body, func(n ast.Node) bool {
			if rs, ok := n.(*ast.RangeStmt); ok && core.ObjOf(info, rs.X) == types.Object(l.ParamObj(0)) && len(callsVar(&core.Func{Body: rs.Body}, wobj)) > 0 {
				wdag = l
			}
			return true
		})
	}
	if create == nil || wdag == nil || wobj == nil {
		r.Undecided(rule, root.Key+"#closures", posP(r, root.Pos()), "closures createNewFile / writeBlockDag / writeObject not found")
		return
	}
	// the accumulator callback: the literal that calls both createNewFile and writeBlockDag
	var cb *core.Func
	for _, l := range allLits(root) {
		if len(callsVar(l, create)) > 0 && len(callsVar(l, wdag)) > 0 {
			cb = l
		}
	}
	if cb == nil {
		r.Undecided(rule, root.Key+"#callback", posP(r, root.Pos()), "accumulator callback calling createNewFile and writeBlockDag not found")
		return
	}
	g := p.Graph(cb)
	// (a) every createNewFile call in the callback precedes the write of the family (no path from the write to a create)
	wcall := callsVar(cb, wdag)[0]
	wn := g.NodeOf(wcall.Pos())
	okOrder := wn != nil
	if wn != nil {
		reach := g.Reach(wn, nil)
		for _, c := range callsVar(cb, create) {
			if cn := g.NodeOf(c.Pos()); cn != nil && reach[cn] {
				okOrder = false
			}
		}
	}
	r.Check(okOrder, rule, root.Key+"#new-piece-decided-before-write", pos(r, wcall), "a new piece is started only before the block's objects are written",
		"a new piece can be started after (part of) the block's objects were written")
	// (b) the writing closures never start a new piece
	okNoCreate := len(callsVar(wdag, create)) == 0 && len(callsVar(wobj, create)) == 0
	r.Check(okNoCreate, rule, root.Key+"#writers-do-not-switch-piece", posP(r, wdag.Pos()), "writeBlockDag / writeObject cannot switch to a new piece in the middle of a block",
		"writeBlockDag / writeObject can start a new piece in the middle of a block: a block and its objects are spread over two pieces")
	// (c) the family handed to the writer is children followed by the block, written in range order, every member written
	okFamily := false
	var fam types.Object
	if len(wcall.Args) == 1 {
		fam = core.ObjOf(info, wcall.Args[0])
	}
	ast.Inspect(cb.Body, func(n ast.Node) bool {
		as, ok := n.(*ast.AssignStmt)
		if !ok || len(as.Lhs) != 1 || len(as.Rhs) != 1 || fam == nil {
			return true
		}
		if id, ok := as.Lhs[0].(*ast.Ident); !ok || info.Defs[id] != fam {
			return true
		}
		if c, ok := core.Unparen(as.Rhs[0]).(*ast.CallExpr); ok && core.BuiltinName(info, c) == "append" && len(c.Args) == 2 {
			// append(<the callback's slice parameter: the children>, <its pointer parameter: the block>)
			var slicePar, ptrPar types.Object
			for i := 0; cb.ParamObj(i) != nil; i++ {
				switch cb.ParamObj(i).Type().Underlying().(type) {
				case *types.Slice:
					slicePar = cb.ParamObj(i)
				case *types.Pointer:
					ptrPar = cb.ParamObj(i)
				}
			}
			if slicePar != nil && ptrPar != nil && core.ObjOf(info, c.Args[0]) == slicePar && core.Mentions(info, c.Args[1], ptrPar) && c.Ellipsis == token.NoPos {
				okFamily = true
			}
		}
		return true
	})
	okLoop := false
	ast.Inspect(wdag.Body, func(n ast.Node) bool {
		rs, ok := n.(*ast.RangeStmt)
		if !ok {
			return true
		}
		if len(wdag.Type.Params.List) == 1 && len(wdag.Type.Params.List[0].Names) == 1 && core.ObjOf(info, rs.X) == info.Defs[wdag.Type.Params.List[0].Names[0]] {
			// every iteration writes (the only ways out of the body before writeObject are error returns)
			hasWrite := len(callsVar(&core.Func{Body: rs.Body}, wobj)) > 0
			skips := false
			ast.Inspect(rs.Body, func(x ast.Node) bool {
				if b, ok := x.(*ast.BranchStmt); ok && (b.Tok == token.CONTINUE || b.Tok == token.BREAK) {
					skips = true
				}
				return true
			})
			okLoop = hasWrite && !skips
		}
		return true
	})
	r.Check(okFamily && okLoop, rule, root.Key+"#family-written-in-order", pos(r, wcall), "the block's objects are written children first, block last, each member once, in range order",
		"the family handed to the writer is not children-then-block written member by member in order")
}

// fieldOnlyHolds: every assignment to the field fld in w's package stores a value whose static type is the receiver type
// of impl (here: *MultiReaderAt), and there is at least one.
func fieldOnlyHolds(p *core.Prog, w *core.Func, fld *types.Var, impl *core.Func) bool {
	sig, ok := impl.Obj.Type().(*types.Signature)
	if !ok || sig.Recv() == nil {
		return false
	}
	want := sig.Recv().Type()
	n, bad := 0, false
	for _, f := range p.AllFns {
		if f.Pkg != w.Pkg || f.Body == nil {
			continue
		}
		info := f.Pkg.TypesInfo
		ast.Inspect(f.Body, func(m ast.Node) bool {
			switch x := m.(type) {
			case *ast.FuncLit:
				return false
			case *ast.AssignStmt:
				for i, l := range x.Lhs {
					sel, ok := core.Unparen(l).(*ast.SelectorExpr)
					if !ok || info.Uses[sel.Sel] != types.Object(fld) || len(x.Lhs) != len(x.Rhs) {
						continue
					}
					n++
					if t := info.TypeOf(x.Rhs[i]); t == nil || !types.Identical(t, want) {
						bad = true
					}
				}
			case *ast.KeyValueExpr:
				if id, ok := x.Key.(*ast.Ident); ok && info.Uses[id] == types.Object(fld) {
					n++
					if t := info.TypeOf(x.Value); t == nil || !types.Identical(t, want) {
						bad = true
					}
				}
			}
			return true
		})
	}
	return n > 0 && !bad
}
