package rules

import (
	"fmt"
	"go/ast"
	"go/types"
	"strings"

	"yfverif/checker/internal/core"
)

// c15ParentAlwaysDelivered (C15.R7): a group that has a parent object (the block) reaches the callback whatever its
// children are - a block without (non-ignored) children is still a block. In every function of the accumulator that
// invokes the user callback with a parent taken from one of its pointer parameters, each path that returns without
// invoking the callback passes a test establishing that the parent is nil.
func c15ParentAlwaysDelivered(r *core.Report) {
	const rule = "C15.R7"
	p := r.Prog
	run := r.Anchor(rule, "accum.(*ObjectAccumulator).Run")
	if run == nil {
		return
	}
	n := 0
	for _, f := range p.AllFns {
		if f.Pkg != run.Pkg || f.Body == nil || strings.HasSuffix(p.FileOf(f.Pos()), "_test.go") {
			continue
		}
		info := f.Pkg.TypesInfo
		g := p.Graph(f)
		calls := map[*core.GNode]bool{}
		var parent types.Object
		for _, nd := range stmtNodes(g) {
			for _, c := range nodeCalls(nd) {
				sel, ok := core.Unparen(c.Fun).(*ast.SelectorExpr)
				if !ok || len(c.Args) < 1 {
					continue
				}
				fld, isVar := info.Uses[sel.Sel].(*types.Var)
				if !isVar || !fld.IsField() {
					continue
				}
				if _, isSig := fld.Type().Underlying().(*types.Signature); !isSig {
					continue
				}
				// the field belongs to the accumulator (the receiver type of Run)
				if rt := info.TypeOf(sel.X); rt == nil || !strings.HasSuffix(strings.TrimPrefix(rt.String(), "*"), "ObjectAccumulator") {
					continue
				}
				o := core.ObjOf(info, c.Args[0])
				if o == nil || !isParamOf(f, o) {
					continue
				}
				if _, isPtr := o.Type().Underlying().(*types.Pointer); !isPtr {
					continue
				}
				calls[nd] = true
				parent = o
			}
		}
		if len(calls) == 0 || parent == nil {
			continue
		}
		n++
		nilEdge := map[*core.GNode]bool{}
		for _, e := range g.Nodes {
			if e.Kind != core.KEdge || e.Ast == nil {
				continue
			}
			for _, fc := range e.Facts() {
				if x, eq, isNil := core.NilCompare(info, fc.Expr); isNil && fc.Tag == nil && fc.Unless == nil && core.ObjOf(info, x) == parent && eq == fc.Truth {
					nilEdge[e] = true
				}
			}
		}
		path := g.PathAvoiding(g.Entry, func(x *core.GNode) bool { return x == g.Exit }, func(x *core.GNode) bool { return calls[x] || nilEdge[x] })
		r.Check(path == nil, rule, fmt.Sprintf("%s#parent-reaches-callback", f.Key), posP(r, f.Pos()), "the callback is skipped only when the group has no parent",
			"a group whose parent ("+parent.Name()+") is present can be dropped without reaching the callback (e.g. a block with no non-ignored children): that block is never delivered", g.PathStrings(path)...)
	}
	if n == 0 {
		r.Undecided(rule, run.Key+"#callback-site", posP(r, run.Pos()), "no invocation of the accumulator's callback with a parent parameter found")
	}
}
