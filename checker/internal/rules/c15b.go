package rules

import (
	"fmt"
	"go/ast"
	"go/types"
	"strings"

	"yfverif/checker/internal/core"
)

// c15ParentAlwaysDelivered (C15.R7): a group that has a parent object (the block) reaches the callback whatever its
// children are - a block without (non-ignored) children is still a block. In every function of the accumulator that
// invokes the user callback with a parent taken from one of its pointer parameters, each path that returns without
// invoking the callback passes a test establishing that the parent is nil.
func c15ParentAlwaysDelivered(r *core.Report) { parentAlwaysDelivered(r, "C15.R7") }

func parentAlwaysDelivered(r *core.Report, rule string) {
	p := r.Prog
	run := r.Anchor(rule, "accum.(*ObjectAccumulator).Run")
	if run == nil {
		return
	}
	n := 0
	for _, f := range p.AllFns {
		if f.Pkg != run.Pkg || f.Body == nil || strings.HasSuffix(p.FileOf(f.Pos()), "_test.go") {
			continue
		}
		info := f.Pkg.TypesInfo
		g := p.Graph(f)
		calls := map[*core.GNode]bool{}
		parentText := ""
		var start *core.GNode // where the group comes into being: the entry for a parameter, the receive for a queued group
		var base types.Object
		for _, nd := range stmtNodes(g) {
			for _, c := range nodeCalls(nd) {
				if !isAccumulatorCallback(info, c) || len(c.Args) < 1 {
					continue
				}
				a0 := core.Unparen(c.Args[0])
				if t := info.TypeOf(a0); t == nil {
					continue
				} else if _, isPtr := t.Underlying().(*types.Pointer); !isPtr {
					continue
				}
				if o := core.ObjOf(info, a0); o != nil && isParamOf(f, o) {
					calls[nd] = true
					parentText, start = core.ExprStr(a0), g.Entry
					continue
				}
				// a field of a group taken from a queue in this function: `fb := <-q; ... cb(fb.parent, ...)`
				if sel, ok := a0.(*ast.SelectorExpr); ok {
					if bo := core.ObjOf(info, sel.X); bo != nil {
						if at, taken := queueTake(g, f, ""); at != nil && taken == bo {
							calls[nd] = true
							parentText, start, base = core.ExprStr(a0), at, bo
						}
					}
				}
			}
		}
		if len(calls) == 0 || parentText == "" || start == nil {
			continue
		}
		n++
		nilEdge := map[*core.GNode]bool{}
		for _, e := range g.Nodes {
			if e.Kind != core.KEdge || e.Ast == nil {
				continue
			}
			for _, fc := range e.Facts() {
				if x, eq, isNil := core.NilCompare(info, fc.Expr); isNil && fc.Tag == nil && fc.Unless == nil && eq == fc.Truth {
					// no parent - or no group at all (the queue was closed / a nil group was sent)
					if core.ExprStr(x) == parentText || (base != nil && core.ObjOf(info, x) == base) {
						nilEdge[e] = true
					}
				}
			}
		}
		avoid := func(x *core.GNode) bool { return calls[x] || nilEdge[x] }
		path := g.PathAvoiding(start, func(x *core.GNode) bool { return x == g.Exit }, avoid)
		if path == nil && start != g.Entry && cycleAvoiding(g, start, avoid) {
			path = []*core.GNode{start} // the next group is taken without this one having been delivered
		}
		r.Check(path == nil, rule, fmt.Sprintf("%s#parent-reaches-callback", f.Key), posP(r, f.Pos()), "the callback is skipped only when the group has no parent",
			"a group whose parent ("+parentText+") is present can be dropped without reaching the callback (e.g. a block with no non-ignored children): that block is never delivered", g.PathStrings(path)...)
	}
	if n == 0 {
		r.Undecided(rule, run.Key+"#callback-site", posP(r, run.Pos()), "no invocation of the accumulator's callback with a parent parameter found")
	}
}
