package rules

import (
	"fmt"
	"go/ast"
	"go/token"
	"go/types"
	"strings"

	"yfverif/checker/internal/core"
)

// c12VarintCountUsedOnlyWhenPositive (C12.R11): binary.Uvarint / binary.Varint report a failure through their byte count:
// 0 when the buffer ends inside a value, NEGATIVE when the value overflows 64 bits. A parser may use the count - add it
// to a cursor, slice with it, return it as a length - only where it is known to be positive; a test that excludes 0 only
// lets an overlong varint move the cursor backwards (panic on the next slice, or an endless loop).
func c12VarintCountUsedOnlyWhenPositive(r *core.Report, fns []*core.Func) {
	const rule = "C12.R11"
	p := r.Prog
	n := 0
	for _, f := range fns {
		if f.Body == nil {
			continue
		}
		info := f.Pkg.TypesInfo
		g := p.Graph(f)
		ast.Inspect(f.Body, func(m ast.Node) bool {
			if l, isLit := m.(*ast.FuncLit); isLit && l != f.Lit {
				return false
			}
			as, ok := m.(*ast.AssignStmt)
			if !ok || len(as.Rhs) != 1 || len(as.Lhs) != 2 {
				return true
			}
			c, ok := core.Unparen(as.Rhs[0]).(*ast.CallExpr)
			if !ok {
				return true
			}
			if nm := core.CalleeName(info, c); nm != "encoding/binary.Uvarint" && nm != "encoding/binary.Varint" {
				return true
			}
			cnt := core.ObjOf(info, as.Lhs[1])
			if cnt == nil || cnt.Name() == "_" {
				return true
			}
			n++
			bad := ""
			var badAt ast.Node
			for _, nd := range stmtNodes(g) {
				if nd.Ast.Pos() <= as.Pos() {
					continue
				}
				// uses in statements (not in the conditions that test the count)
				uses := false
				switch st := nd.Ast.(type) {
				case *ast.AssignStmt:
					for _, rh := range st.Rhs {
						if core.Mentions(info, rh, cnt) {
							uses = true
						}
					}
					for _, lh := range st.Lhs {
						if _, isId := core.Unparen(lh).(*ast.Ident); !isId && core.Mentions(info, lh, cnt) {
							uses = true
						}
					}
				case *ast.ReturnStmt:
					for _, e := range st.Results {
						if core.Mentions(info, e, cnt) {
							uses = true
						}
					}
				case *ast.ExprStmt:
					uses = core.Mentions(info, st.X, cnt)
				case *ast.IncDecStmt:
					uses = core.Mentions(info, st.X, cnt)
				}
				if !uses || reassignedBetween(g, info, g.NodeOf(as.Pos()), nd, cnt) {
					continue
				}
				if dn := g.NodeOf(as.Pos()); dn == nil || !g.Reach(dn, nil)[nd] {
					continue
				}
				if !knownPositive(g, info, nd, ast.NewIdent(cnt.Name())) && !knownPositiveObj(g, info, nd, cnt) {
					// an error return that only reports the count is fine
					if rs, isRet := nd.Ast.(*ast.ReturnStmt); isRet && definitelyErrorReturn(g, f, nd) && len(rs.Results) > 0 {
						continue
					}
					// the count, converted to an unsigned type, is added to a length that is compared with an upper limit
					// before every successful return: a count <= 0 comes with the value 0 (that is what Uvarint returns on
					// failure), so the sum is 0 (empty buffer) or wraps to something far above any limit and is rejected
					if place, addend, isStep := addStep(info, nd.Ast); isStep && addend != nil {
						if cv, isConv := core.Unparen(addend).(*ast.CallExpr); isConv && len(cv.Args) == 1 && core.ObjOf(info, cv.Args[0]) == cnt {
							if tv, isT := info.Types[cv.Fun]; isT && tv.IsType() {
								if bt, isB := tv.Type.Underlying().(*types.Basic); isB && bt.Info()&types.IsUnsigned != 0 {
									po := core.ObjOf(info, place)
									limited, nsucc := po != nil, 0
									for _, rn := range g.Returns() {
										if definitelyErrorReturn(g, f, rn) || !g.Reach(nd, nil)[rn] {
											continue
										}
										nsucc++
										okUp := false
										for _, fc := range g.FactsAt(rn) {
											cb, isCmp := core.Unparen(fc.Expr).(*ast.BinaryExpr)
											if !isCmp || fc.Tag != nil || core.ObjOf(info, cb.X) != po || !g.FactFresh(fc, rn) {
												continue
											}
											if (cb.Op == token.GTR && !fc.Truth) || (cb.Op == token.GEQ && !fc.Truth) || (cb.Op == token.LEQ && fc.Truth) || (cb.Op == token.LSS && fc.Truth) {
												okUp = true
											}
										}
										if !okUp {
											limited = false
										}
									}
									if limited && nsucc > 0 {
										continue
									}
								}
							}
						}
					}
					if bad == "" {
						bad, badAt = core.ExprStr(nd.Ast), nd.Ast
					}
				}
			}
			key := fmt.Sprintf("%s#varint-count:%s-used-only-when-positive", f.Key, core.KeyStr(f, as.Lhs[1]))
			if bad == "" {
				r.OK(rule, key, pos(r, as), "the byte count is used only where it is known to be positive")
			} else {
				r.Violation(rule, key, pos(r, badAt), "the byte count of "+core.ExprStr(c.Fun)+" is used in ["+core.Trunc(bad, 60)+"] without being known positive: an overlong varint (count < 0) moves the cursor backwards - a slice out of range or an endless loop on a crafted record")
			}
			return true
		})
	}
	if n == 0 {
		r.OK(rule, "C12#varint-counts", "", "no varint byte count in the parsers in scope")
	}
}

// knownPositiveObj is knownPositive for an object (the identifier handed to knownPositive must resolve through Uses).
func knownPositiveObj(g *core.Graph, info *types.Info, n *core.GNode, o types.Object) bool {
	for _, fc := range g.FactsAt(n) {
		be, ok := core.Unparen(fc.Expr).(*ast.BinaryExpr)
		if !ok || fc.Tag != nil || core.ObjOf(info, be.X) != o || !g.FactFresh(fc, n) {
			continue
		}
		c, isC := core.ConstInt(info, be.Y)
		if !isC {
			continue
		}
		op := be.Op
		if !fc.Truth {
			op = map[token.Token]token.Token{token.LSS: token.GEQ, token.GEQ: token.LSS, token.GTR: token.LEQ, token.LEQ: token.GTR, token.EQL: token.NEQ, token.NEQ: token.EQL}[be.Op]
		}
		if (op == token.GTR && c >= 0) || (op == token.GEQ && c >= 1) {
			return true
		}
	}
	return false
}

// c08NoDivisionByRequestValue (C08.R9): in the request handlers no integer division or modulo has a divisor derived from
// the request unless the divisor is known not to be zero there (a comparison of the divisor - or, for a difference a-b, of
// its operands - dominates the division). `elapsed / (end - start)` with an inclusive range divides by zero for a
// single-slot request, and grpc-go does not recover a handler panic.
func c08NoDivisionByRequestValue(r *core.Report, fns []*core.Func) {
	const rule = "C08.R9"
	p := r.Prog
	n := 0
	for _, f := range fns {
		if f.Body == nil {
			continue
		}
		info := f.Pkg.TypesInfo
		taint := requestTaint(p, f)
		g := p.Graph(f)
		ast.Inspect(f.Body, func(m ast.Node) bool {
			if l, isLit := m.(*ast.FuncLit); isLit && l != f.Lit {
				return false
			}
			be, ok := m.(*ast.BinaryExpr)
			if !ok || (be.Op != token.QUO && be.Op != token.REM) || !isIntegerType(info.TypeOf(be.Y)) {
				return true
			}
			if _, isC := core.ConstInt(info, be.Y); isC {
				return true
			}
			if !mentionsAny(info, be.Y, taint, false) {
				return true
			}
			n++
			nd := g.NodeOf(be.Pos())
			ok2 := false
			div := core.Unparen(stripConvs(info, be.Y))
			if nd != nil {
				for _, fc := range g.FactsAt(nd) {
					if fc.Tag != nil || !g.FactFresh(fc, nd) {
						continue
					}
					cmp, isCmp := core.Unparen(fc.Expr).(*ast.BinaryExpr)
					if !isCmp {
						continue
					}
					s := core.ExprStr(cmp)
					// the divisor itself compared with a constant so that 0 is excluded
					if strings.Contains(s, core.ExprStr(div)) {
						if c, isC := core.ConstInt(info, cmp.Y); isC {
							op := cmp.Op
							if !fc.Truth {
								op = map[token.Token]token.Token{token.LSS: token.GEQ, token.GEQ: token.LSS, token.GTR: token.LEQ, token.LEQ: token.GTR, token.EQL: token.NEQ, token.NEQ: token.EQL}[cmp.Op]
							}
							if (op == token.GTR && c >= 0) || (op == token.GEQ && c >= 1) || (op == token.NEQ && c == 0) {
								ok2 = true
							}
						}
					}
					// a - b: a > b (or a != b) known
					if sub, isSub := div.(*ast.BinaryExpr); isSub && sub.Op == token.SUB {
						a, b := core.ExprStr(core.Unparen(sub.X)), core.ExprStr(core.Unparen(sub.Y))
						x, y := core.ExprStr(core.Unparen(cmp.X)), core.ExprStr(core.Unparen(cmp.Y))
						op := cmp.Op
						if !fc.Truth {
							op = map[token.Token]token.Token{token.LSS: token.GEQ, token.GEQ: token.LSS, token.GTR: token.LEQ, token.LEQ: token.GTR, token.EQL: token.NEQ, token.NEQ: token.EQL}[cmp.Op]
						}
						if x == b && y == a {
							x, y = y, x
							op = map[token.Token]token.Token{token.LSS: token.GTR, token.GTR: token.LSS, token.LEQ: token.GEQ, token.GEQ: token.LEQ, token.EQL: token.EQL, token.NEQ: token.NEQ}[op]
						}
						if x == a && y == b && (op == token.GTR || op == token.NEQ) {
							ok2 = true
						}
					}
				}
			}
			r.Check(ok2, rule, fmt.Sprintf("%s#div-by:%s", f.Key, core.KeyStr(f, be.Y)), pos(r, be), "the request-derived divisor is known not to be zero",
				"integer division by "+core.ExprStr(be.Y)+", which is derived from the request and not known to be non-zero here: a request that makes it zero panics the handler")
			return true
		})
	}
	if n == 0 {
		r.OK(rule, "C08#request-derived-divisors", "", "no integer division by a request-derived value in the request handlers")
	}
}

// c07MarkerStateOutlivesTheEpochs (C07.R15): whether the `before` marker has been passed is a fact about the whole walk -
// the flag that records it (set to true under the comparison with `before`) is initialised outside every loop; initialised
// inside the loop over the epochs it forgets the marker at each epoch boundary, and every epoch older than the one that holds
// `before` contributes nothing.
func c07MarkerStateOutlivesTheEpochs(r *core.Report) {
	const rule = "C07.R15"
	p := r.Prog
	for _, key := range []string{"gsfa.(*GsfaReaderMultiepoch).iterBeforeUntil", "gsfa.(*GsfaReader).GetBeforeUntil"} {
		f := r.Anchor(rule, key)
		if f == nil {
			continue
		}
		info := f.Pkg.TypesInfo
		before := f.ParamByName("before")
		if before == nil {
			r.Undecided(rule, f.Key+"#before", posP(r, f.Pos()), "parameter before not found")
			continue
		}
		g := p.Graph(f)
		// flags set to true under a test that mentions before
		flags := map[types.Object]bool{}
		for _, nd := range stmtNodes(g) {
			as, ok := nd.Ast.(*ast.AssignStmt)
			if !ok || len(as.Lhs) != 1 || len(as.Rhs) != 1 || as.Tok != token.ASSIGN {
				continue
			}
			if b, isC := boolConst(info, as.Rhs[0]); !isC || !b {
				continue
			}
			o := core.ObjOf(info, as.Lhs[0])
			if o == nil {
				continue
			}
			for _, fc := range g.FactsAt(nd) {
				if core.Mentions(info, fc.Expr, before) && isEqualityTest(info, fc.Expr) {
					flags[o] = true
				}
			}
		}
		if len(flags) == 0 {
			r.OK(rule, f.Key+"#marker-state", posP(r, f.Pos()), "no flag records the passing of the `before` marker (the walk does not need one)")
			continue
		}
		for o := range flags {
			bad := ""
			carried := taintFrom(f, o) // values computed from the flag itself: threading the state through a helper is not a reset
			ast.Inspect(f.Body, func(m ast.Node) bool {
				var loopBody *ast.BlockStmt
				switch l := m.(type) {
				case *ast.ForStmt:
					loopBody = l.Body
				case *ast.RangeStmt:
					loopBody = l.Body
				}
				if loopBody == nil {
					return true
				}
				ast.Inspect(loopBody, func(k ast.Node) bool {
					switch s := k.(type) {
					case *ast.AssignStmt:
						for i, l := range s.Lhs {
							if core.ObjOf(info, l) != o || i >= len(s.Rhs) {
								continue
							}
							if b, isC := boolConst(info, s.Rhs[i]); isC && b && s.Tok == token.ASSIGN {
								continue // the store that records the marker
							}
							if s.Tok == token.ASSIGN && mentionsAny(info, s.Rhs[i], carried, false) {
								continue // the state handed back by a helper that received it
							}
							bad = p.Rel(s.Pos())
						}
					case *ast.ValueSpec:
						for _, nm := range s.Names {
							if info.Defs[nm] == o {
								bad = p.Rel(s.Pos())
							}
						}
					}
					return true
				})
				return true
			})
			r.Check(bad == "", rule, fmt.Sprintf("%s#marker-flag:%s-initialised-outside-the-loops", f.Key, tokenOrName(f, o)), posP(r, o.Pos()), "the flag that records the `before` marker is initialised once, before the walk",
				"the flag "+o.Name()+" that records that `before` was passed is (re)initialised inside a loop ("+bad+"): the marker is forgotten at the next epoch, and the epochs older than the one holding `before` contribute nothing - a page that crosses an epoch boundary is cut short")
		}
	}
}

// c19UnsetFlagIsNotFalse (C19.R20): an optional filter flag that is absent does not filter. The generated getters
// (GetVote / GetFailed) answer false for an absent field; the predicate may consult them only together with a test that
// the field is present.
func c19UnsetFlagIsNotFalse(r *core.Report) {
	const rule = "C19.R20"
	p := r.Prog
	f := r.Anchor(rule, "main.(*MultiEpoch).processSlotTransactions")
	if f == nil {
		return
	}
	info := f.Pkg.TypesInfo
	n := 0
	for _, fn := range append([]*core.Func{f}, allLits(f)...) {
		g := p.Graph(fn)
		for _, c := range core.CallsIn(fn.Body, false) {
			nm := core.CalleeName(info, c)
			field := ""
			switch {
			case strings.HasSuffix(nm, "StreamTransactionsFilter).GetVote"):
				field = "Vote"
			case strings.HasSuffix(nm, "StreamTransactionsFilter).GetFailed"):
				field = "Failed"
			}
			if field == "" {
				continue
			}
			n++
			present := false
			isPresenceTest := func(e ast.Expr, truth bool) bool {
				x, eq, ok := core.NilCompare(info, e)
				if !ok || eq == truth {
					return false
				}
				sel, isSel := core.Unparen(x).(*ast.SelectorExpr)
				return isSel && sel.Sel.Name == field
			}
			if nd := g.NodeOf(c.Pos()); nd != nil {
				for _, fc := range g.FactsAt(nd) {
					if fc.Tag == nil && isPresenceTest(fc.Expr, fc.Truth) {
						present = true
					}
				}
			}
			// filter.Vote != nil && !filter.GetVote() in one condition
			ast.Inspect(fn.Body, func(m ast.Node) bool {
				if be, isBin := m.(*ast.BinaryExpr); isBin && be.Op == token.LAND && be.Y.Pos() <= c.Pos() && c.End() <= be.Y.End() {
					for _, cj := range conjuncts(be.X) {
						if isPresenceTest(cj, true) {
							present = true
						}
					}
				}
				return true
			})
			r.Check(present, rule, fmt.Sprintf("%s#%s-getter@%d-under-a-presence-test", fn.Key, field, n), pos(r, c), "the flag's value is consulted only where the flag is known to be present",
				"the filter's "+field+" flag is read through its generated getter without a test that it is present: the getter answers false for an absent flag, so a filter that leaves it unset drops every "+map[string]string{"Vote": "vote", "Failed": "failed"}[field]+" transaction")
		}
	}
	if n == 0 {
		r.OK(rule, f.Key+"#flag-getters", posP(r, f.Pos()), "the optional flags are read through the fields (nil means absent), not through the conflating getters")
	}
}

// c13LookupNeverReadsThroughAnEOFTolerantLoader (C13.R8): a loader that ends quietly at io.EOF / io.ErrUnexpectedEOF and
// hands back what it got (Bucket.Load, made for iterating a bucket) must not feed a key lookup: on a truncated index it
// returns a short table, and the lookup answers "not found" for keys the complete file holds. No function reachable from
// (*Bucket).Lookup / (*DB).Lookup within the package calls a function of the package whose success return is reachable from
// the edge on which a read error was classified as end-of-file.
func c13LookupNeverReadsThroughAnEOFTolerantLoader(r *core.Report) {
	const rule = "C13.R8"
	p := r.Prog
	eofTolerant := func(h *core.Func) bool {
		if h.Body == nil {
			return false
		}
		info := h.Pkg.TypesInfo
		g := p.Graph(h)
		for _, e := range g.Nodes {
			if e.Kind != core.KEdge || e.Ast == nil {
				continue
			}
			isEOF := false
			for _, fc := range e.Facts() {
				s := core.ExprStr(fc.Expr)
				if !strings.Contains(s, "io.EOF") && !strings.Contains(s, "io.ErrUnexpectedEOF") {
					continue
				}
				if c, isCall := core.Unparen(fc.Expr).(*ast.CallExpr); isCall && core.CalleeName(info, c) == "errors.Is" && fc.Truth {
					isEOF = true
				}
				if be, isBin := core.Unparen(fc.Expr).(*ast.BinaryExpr); isBin && ((be.Op == token.EQL && fc.Truth) || (be.Op == token.NEQ && !fc.Truth)) {
					isEOF = true
				}
			}
			// errors.Is(err, io.EOF) || errors.Is(err, io.ErrUnexpectedEOF): every disjunct is an end-of-file test
			if cond, isExpr := e.Ast.(ast.Expr); isExpr && e.Truth && !isEOF {
				var disj []ast.Expr
				var split func(x ast.Expr)
				split = func(x ast.Expr) {
					if be, ok := core.Unparen(x).(*ast.BinaryExpr); ok && be.Op == token.LOR {
						split(be.X)
						split(be.Y)
						return
					}
					disj = append(disj, core.Unparen(x))
				}
				split(cond)
				all := len(disj) > 1
				for _, d := range disj {
					s := core.ExprStr(d)
					isTest := false
					if c, isCall := d.(*ast.CallExpr); isCall && core.CalleeName(info, c) == "errors.Is" {
						isTest = true
					}
					if be, isBin := d.(*ast.BinaryExpr); isBin && be.Op == token.EQL {
						isTest = true
					}
					if !isTest || (!strings.Contains(s, "io.EOF") && !strings.Contains(s, "io.ErrUnexpectedEOF")) {
						all = false
					}
				}
				if all {
					isEOF = true
				}
			}
			if !isEOF {
				continue
			}
			// the bytes read: the buffers handed to ReadAt / ReadFull / Read in h; the loader is a problem only when what
			// it returns on success is derived from them (a prefetch that discards its buffer is not)
			var bufs []types.Object
			for _, c := range core.CallsIn(h.Body, false) {
				nm := core.CalleeName(info, c)
				switch {
				case strings.HasSuffix(nm, ".ReadAt") && len(c.Args) == 2, strings.HasSuffix(nm, ".Read") && len(c.Args) == 1:
					if o := core.ObjOf(info, rootIdentExpr(c.Args[0])); o != nil {
						bufs = append(bufs, o)
					}
				case nm == "io.ReadFull" && len(c.Args) == 2:
					if o := core.ObjOf(info, rootIdentExpr(c.Args[1])); o != nil {
						bufs = append(bufs, o)
					}
				}
			}
			// plain forward closure over assignments and range statements (a call that receives the buffer does not make
			// its receiver or its error "derived from the bytes")
			derived := map[types.Object]bool{}
			for _, o := range bufs {
				derived[o] = true
			}
			for changed := true; changed; {
				changed = false
				ast.Inspect(h.Body, func(m ast.Node) bool {
					mark := func(l ast.Expr) {
						if id := rootIdent(l); id != nil {
							if o := info.ObjectOf(id); o != nil && !derived[o] && !core.IsErrorType(o.Type()) {
								derived[o] = true
								changed = true
							}
						}
					}
					switch x := m.(type) {
					case *ast.AssignStmt:
						for i, l := range x.Lhs {
							var rhs ast.Expr
							if len(x.Rhs) == len(x.Lhs) {
								rhs = x.Rhs[i]
							}
							if rhs == nil {
								continue // multi-value call: counts and errors, not the bytes
							}
							if mentionsAny(info, rhs, derived, false) {
								mark(l)
							}
						}
					case *ast.RangeStmt:
						if x.Value != nil && mentionsAny(info, x.X, derived, false) {
							mark(x.Value)
						}
					}
					return true
				})
			}
			for x := range g.ReachFromIncl(e, nil) {
				if x.Kind == core.KStmt {
					if _, isRet := x.Ast.(*ast.ReturnStmt); isRet {
						if nilErr, dec := isNilErrReturn(h, x); dec && nilErr {
							for _, res := range returnResults(x) {
								if mentionsAny(info, res, derived, false) {
									return true
								}
							}
						}
					}
				}
			}
		}
		return false
	}
	n := 0
	for _, pk := range []string{"compactindexsized", "deprecated/compactindex", "deprecated/compactindex36"} {
		for _, rootKey := range []string{pk + ".(*Bucket).Lookup", pk + ".(*DB).Lookup"} {
			root := p.Fn(rootKey)
			if root == nil {
				continue
			}
			n++
			bad := ""
			var badAt ast.Node
			for _, fn := range append([]*core.Func{root}, pkgScope(p, root, 2)...) {
				for _, cs := range p.Calls(fn) {
					if cs.Callee == nil {
						continue
					}
					h := p.ByObj[cs.Callee.Origin()]
					if h == nil || h.Pkg != root.Pkg || h == fn {
						continue
					}
					if eofTolerant(h) && bad == "" {
						bad, badAt = h.Key, cs.Call
					}
				}
			}
			if bad == "" {
				r.OK(rule, root.Key+"#no-eof-tolerant-loader-on-the-lookup-path", posP(r, root.Pos()), "every read on the lookup path reports a short read as an error")
			} else {
				r.Violation(rule, root.Key+"#no-eof-tolerant-loader-on-the-lookup-path", pos(r, badAt), "the lookup path reads through "+bad+", which ends quietly at io.EOF and returns what it got: on a truncated index the lookup searches a short table and answers not-found for keys the complete file holds")
			}
		}
	}
	if n == 0 {
		r.Undecided(rule, "compactindex#lookup-roots", "", "no Lookup entry point found")
	}
}

// epochRoutedOnlyAfterTheFilter (C02.R12 / C18.R12): which epoch holds a signature is decided by the per-epoch sig-to-cid
// index, which keeps 24 bits of hash per key and so answers for signatures it never stored. The epoch search may take its
// answer only after the epoch's sig-exists filter (64-bit hashes) said the signature is there: every call of
// (*Epoch).FindCidFromSignature under findEpochNumberFromSignature is dominated by a true outcome of <filter>.Has(sig) - in
// the same function, or established (directly, or as the nil outcome of a checking helper) before every call of the helper
// the lookup sits in. A "fast path" that probes the newest epoch first routes transactions of older epochs to it and the
// request ends as not-found.
func epochRoutedOnlyAfterTheFilter(r *core.Report, rule string) {
	p := r.Prog
	f := r.Anchor(rule, "main.(*MultiEpoch).findEpochNumberFromSignature")
	if f == nil {
		return
	}
	scope := append([]*core.Func{f}, allLits(f)...)
	for _, h := range pkgScope(p, f, 2) {
		if h.Lit == nil && h != f {
			scope = append(scope, h)
			scope = append(scope, allLits(h)...)
		}
	}
	// jobs handed on as method values or function references (jobGroup.Add(search.run))
	{
		seen := map[*core.Func]bool{}
		for _, fn := range scope {
			seen[fn] = true
		}
		for _, fn := range append([]*core.Func{}, scope...) {
			if fn.Body == nil {
				continue
			}
			info := fn.Pkg.TypesInfo
			for _, c := range core.CallsIn(fn.Body, false) {
				for _, a := range c.Args {
					var fo *types.Func
					switch x := core.Unparen(a).(type) {
					case *ast.SelectorExpr:
						fo, _ = info.Uses[x.Sel].(*types.Func)
					case *ast.Ident:
						fo, _ = info.Uses[x].(*types.Func)
					}
					if fo == nil {
						continue
					}
					if h := p.ByObj[fo.Origin()]; h != nil && h.Body != nil && h.Pkg == f.Pkg && !seen[h] {
						seen[h] = true
						scope = append(scope, h)
						scope = append(scope, allLits(h)...)
					}
				}
			}
		}
	}
	// hasTrueAt: a fact at n says that the first result of a .Has(...) call is true
	hasTrueAt := func(fn *core.Func, n *core.GNode) bool {
		if n == nil {
			return false
		}
		info := fn.Pkg.TypesInfo
		g := p.Graph(fn)
		for _, fc := range g.FactsAt(n) {
			id, ok := core.Unparen(fc.Expr).(*ast.Ident)
			if !ok || fc.Tag != nil || !fc.Truth {
				continue
			}
			o := info.Uses[id]
			if o == nil {
				continue
			}
			isHas := false
			ast.Inspect(fn.Root().Body, func(m ast.Node) bool {
				if as, isAs := m.(*ast.AssignStmt); isAs && len(as.Rhs) == 1 && len(as.Lhs) >= 1 && core.ObjOf(info, as.Lhs[0]) == o {
					if c, isCall := core.Unparen(as.Rhs[0]).(*ast.CallExpr); isCall && strings.HasSuffix(core.CalleeName(info, c), ".Has") {
						isHas = true
					}
				}
				return true
			})
			if isHas {
				return true
			}
		}
		return false
	}
	// checkerNilAt: a fact at n says err == nil for the error of a helper all of whose nil returns are under has == true
	checkerNilAt := func(fn *core.Func, n *core.GNode) bool {
		if n == nil {
			return false
		}
		info := fn.Pkg.TypesInfo
		g := p.Graph(fn)
		for _, fc := range g.FactsAt(n) {
			x, isNil, ok := core.NilCompare(info, fc.Expr)
			if !ok || isNil != fc.Truth || fc.Edge == nil {
				continue
			}
			eo := core.ObjOf(info, x)
			if eo == nil || !core.IsErrorType(eo.Type()) {
				continue
			}
			for _, dn := range stmtNodes(g) {
				as, isAs := dn.Ast.(*ast.AssignStmt)
				if !isAs || len(as.Rhs) != 1 || core.ObjOf(info, as.Lhs[len(as.Lhs)-1]) != eo || !g.Dominates(dn, fc.Edge) {
					continue
				}
				c, isCall := core.Unparen(as.Rhs[0]).(*ast.CallExpr)
				if !isCall {
					continue
				}
				fo := core.Callee(info, c)
				if fo == nil {
					continue
				}
				h := p.ByObj[fo.Origin()]
				if h == nil || h.Body == nil {
					continue
				}
				hg := p.Graph(h)
				all, cnt := true, 0
				for _, rn := range hg.Returns() {
					if nilErr, dec := isNilErrReturn(h, rn); dec && nilErr {
						cnt++
						if !hasTrueAt(h, rn) {
							all = false
						}
					}
				}
				if all && cnt > 0 {
					return true
				}
			}
		}
		return false
	}
	n := 0
	for _, fn := range scope {
		if fn.Body == nil {
			continue
		}
		info := fn.Pkg.TypesInfo
		g := p.Graph(fn)
		for _, c := range core.CallsIn(fn.Body, false) {
			if !strings.HasSuffix(core.CalleeName(info, c), "(*Epoch).FindCidFromSignature") {
				continue
			}
			n++
			nd := g.NodeOf(c.Pos())
			ok := hasTrueAt(fn, nd) || checkerNilAt(fn, nd)
			if !ok && fn.Lit == nil && fn != f {
				// the lookup sits in a helper: the filter's answer is established before every call of the helper
				sites, good := 0, 0
				for _, caller := range scope {
					for _, cs := range p.Calls(caller) {
						if cs.Callee == nil || p.ByObj[cs.Callee.Origin()] != fn || cs.In != caller {
							continue
						}
						sites++
						cn := p.Graph(caller).NodeOf(cs.Call.Pos())
						if hasTrueAt(caller, cn) || checkerNilAt(caller, cn) {
							good++
						}
					}
				}
				ok = sites > 0 && good == sites
			}
			r.Check(ok, rule, fmt.Sprintf("%s#epoch-lookup@%d-after-the-sig-exists-filter", fn.Key, n), pos(r, c), "the lossy per-epoch lookup is consulted only after the epoch's sig-exists filter answered yes",
				"the per-epoch sig-to-cid lookup decides the epoch without the sig-exists filter having said yes: the index keeps 24 bits of hash per key, so a signature of an older epoch can be answered by this one, and the transaction is then reported as not found")
		}
	}
	if n == 0 {
		r.Undecided(rule, f.Key+"#epoch-lookups", posP(r, f.Pos()), "no per-epoch signature lookup found under the epoch search")
	}
}
