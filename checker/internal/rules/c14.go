package rules

import (
	"fmt"
	"go/ast"
	"go/token"
	"go/types"
	"strings"

	"yfverif/checker/internal/core"
)

func init() { register("C14", C14) }

// C14 — multi-frame payloads reassemble to the original bytes or are rejected.
func C14(r *core.Report) {
	r.Explanation = "Decides the gate structure of frame reassembly (equality of the reassembled bytes for concrete payloads is not decidable statically): " +
		"R1 in tooling.LoadDataFromDataFrames every path to a success return passes the frame-count comparison when the first frame records a total, and passes a successful VerifyHash when it records a checksum (must-pass-through with the 'field absent' branches as the only bypass); every other consumer of a frame's bytes that verifies a present checksum does so before using them; " +
		"R2 getAllFramesFromDataFrame orders the collected frames by their index with a strict ascending comparator before returning more than one frame, and the concatenation iterates that slice in order; R3 VerifyHash returns nil only when one of the two checksums equals the recorded one; the presence accessors HasHash/HasTotal/HasIndex depend only on nil-ness (a recorded value of 0 is still present); " +
		"R4 in the indexer's transaction collector the per-transaction frame map is cleared on every path from one transaction to the next, so frames of two payloads cannot mix; R5 reassembled bytes are not handed out while aliasing a pooled or reused buffer. " +
		"R7 no function of the reassembly rejects a payload because a count (frames, links, nesting depth) exceeds a constant: any frame count and fan-out reassembles. R8 every local of the node decoders that receives a fromCBORArray / UnmarshalCBOR call receives exactly one per declaration (or is zeroed in between): optional fields of one frame cannot leak into the next. R9 VerifyHash and the checksum functions read and write no package-level variable that the package writes: the verdict depends on the bytes and the recorded checksum only. R10 in the collector's loop over the links every path from the fetch of a frame to the next link passes the recursive collection of that frame, and the frame is not also appended on its own. Not decided: the bytes themselves, fan-out shapes, faults a checksum-less payload cannot reveal. R11 the comparator of every sort of a frame list reads the positions it is given from the very slice being sorted (sort.Slice(frames[1:], ... frames[i] ...) compares elements one place off)."
	c14Gates(r)
	c14Order(r)
	c14VerifyHash(r)
	c14FrameMap(r)
	c14NoPooledAlias(r)
	c14SingleReassemblyPath(r)
	c14NoConstantCap(r)
	decodeTargetsAreFresh(r, "C14.R8")
	c14VerifyHashIsAFunctionOfItsArguments(r)
	c14EveryFrameFollowedOnce(r)
	c14ComparatorsIndexTheSortedSlice(r)
	r.Floor("C14.R10", 1)
	r.Floor("C14.R9", 1)
	r.Floor("C14.R8", 1)
	r.Floor("C14.R7", 1)
	r.Floor("C14.R6", 2)
	r.Floor("C14.R1", 4)
	r.Floor("C14.R2", 1)
	r.Floor("C14.R3", 3)
	r.Floor("C14.R4", 1)
}

// c14GateRes is the outcome of the gate analysis of one function: whether the field accessor is consulted in it
// and, per success return (nil error), the path that bypasses the gate (nil when gated).
type c14GateRes struct {
	consulted bool
	successes []*core.GNode
	bypass    map[*core.GNode][]string
	verified  ast.Expr // hash gate: the expression handed to VerifyHash
}

func (x *c14GateRes) gated() bool {
	if x == nil || !x.consulted {
		return false
	}
	for _, b := range x.bypass {
		if b != nil {
			return false
		}
	}
	return true
}

func c14Successes(g *core.Graph, f *core.Func) []*core.GNode {
	var out []*core.GNode
	for _, rn := range g.Returns() {
		if nilErr, dec := isNilErrReturn(f, rn); dec && nilErr {
			out = append(out, rn)
		}
	}
	return out
}

// c14CountGateIn: in f, every nil-error return after GetTotal passes `ok` false or the comparison of the frame
// count with the recorded total. argOf maps a parameter of f to the argument of the call under analysis (helpers).
func c14CountGateIn(p *core.Prog, f *core.Func, argOf map[types.Object]ast.Expr) *c14GateRes {
	info := f.Pkg.TypesInfo
	g := p.Graph(f)
	res := &c14GateRes{bypass: map[*core.GNode][]string{}, successes: c14Successes(g, f)}
	var totalNode *core.GNode
	var totalOk, totalVal types.Object
	for _, n := range stmtNodes(g) {
		as, ok := n.Ast.(*ast.AssignStmt)
		if !ok || len(as.Rhs) != 1 || len(as.Lhs) != 2 {
			continue
		}
		if c, ok := core.Unparen(as.Rhs[0]).(*ast.CallExpr); ok && core.CalleeName(info, c) == "ipld/ipldbindcode.(DataFrame).GetTotal" {
			totalNode, totalVal, totalOk = n, core.ObjOf(info, as.Lhs[0]), core.ObjOf(info, as.Lhs[1])
		}
	}
	if totalNode == nil {
		return res
	}
	res.consulted = true
	// the comparison is with a number of frames: len(...) in place, or a parameter bound to len(...) by the caller
	isCount := func(be *ast.BinaryExpr) bool {
		if strings.Contains(core.ExprStr(be), "len(") {
			return true
		}
		for po, a := range argOf {
			if core.Mentions(info, be, po) && strings.Contains(core.ExprStr(a), "len(") {
				return true
			}
		}
		return false
	}
	gate := map[*core.GNode]bool{}
	for _, e := range g.Nodes {
		if e.Kind != core.KEdge || e.Ast == nil {
			continue
		}
		ex := core.Unparen(e.Ast.(ast.Expr))
		// `ok` false / `!ok` true (no total recorded): legitimate bypass, tied to the very ok of this GetTotal
		for _, fc := range e.Facts() {
			if id, isId := core.Unparen(fc.Expr).(*ast.Ident); isId && fc.Tag == nil && info.Uses[id] == totalOk && !fc.Truth && len(e.Facts()) == 1 && !reassignedBetween(g, info, totalNode, e, totalOk) {
				gate[e] = true
			}
		}
		// len(allFrames) != expectedTotal false
		if be, isBin := ex.(*ast.BinaryExpr); isBin && core.Mentions(info, be, totalVal) {
			if isCount(be) && ((be.Op == token.NEQ && !e.Truth) || (be.Op == token.EQL && e.Truth)) && leadsToErrorOnly(g, f, siblingEdge(e)) {
				gate[e] = true
			}
			// `ok && len(frames) != total` false: either no total recorded or the counts agree
			if be.Op == token.LAND && !e.Truth && leadsToErrorOnly(g, f, siblingEdge(e)) {
				okOnly, hasCmp := true, false
				for _, c := range conjuncts(be) {
					if id, isId := core.Unparen(c).(*ast.Ident); isId && info.Uses[id] == totalOk {
						continue
					}
					if cb, isB := core.Unparen(c).(*ast.BinaryExpr); isB && cb.Op == token.NEQ && core.Mentions(info, cb, totalVal) && isCount(cb) {
						hasCmp = true
						continue
					}
					okOnly = false
				}
				if okOnly && hasCmp && !reassignedBetween(g, info, totalNode, e, totalOk) {
					gate[e] = true
				}
			}
		}
	}
	for _, rn := range res.successes {
		rn := rn
		path := g.PathAvoiding(totalNode, func(x *core.GNode) bool { return x == rn }, func(x *core.GNode) bool { return gate[x] })
		if path != nil {
			res.bypass[rn] = g.PathStrings(path)
			if res.bypass[rn] == nil {
				res.bypass[rn] = []string{}
			}
		} else {
			res.bypass[rn] = nil
		}
	}
	return res
}

// c14HashGateIn: in f, every nil-error return after GetHash passes `ok` false or a successful VerifyHash
// (a return that forwards VerifyHash's own result is nil only when the verification succeeded).
func c14HashGateIn(p *core.Prog, f *core.Func) *c14GateRes {
	info := f.Pkg.TypesInfo
	g := p.Graph(f)
	res := &c14GateRes{bypass: map[*core.GNode][]string{}, successes: c14Successes(g, f)}
	var hashNode, verifyNode *core.GNode
	var hashOk, verifyErr types.Object
	for _, n := range stmtNodes(g) {
		if as, ok := n.Ast.(*ast.AssignStmt); ok && len(as.Rhs) == 1 {
			if c, ok := core.Unparen(as.Rhs[0]).(*ast.CallExpr); ok {
				switch core.CalleeName(info, c) {
				case "ipld/ipldbindcode.(DataFrame).GetHash":
					if len(as.Lhs) == 2 {
						hashNode, hashOk = n, core.ObjOf(info, as.Lhs[1])
					}
				case "ipld/ipldbindcode.VerifyHash":
					verifyNode, verifyErr = n, core.ObjOf(info, as.Lhs[0])
					if len(c.Args) == 2 {
						res.verified = c.Args[0]
					}
				}
			}
		}
		// return VerifyHash(data, hash)
		if rs, ok := n.Ast.(*ast.ReturnStmt); ok && len(rs.Results) == 1 {
			if c, ok := core.Unparen(rs.Results[0]).(*ast.CallExpr); ok && core.CalleeName(info, c) == "ipld/ipldbindcode.VerifyHash" && len(c.Args) == 2 && res.verified == nil {
				res.verified = c.Args[0]
			}
		}
	}
	if hashNode == nil {
		return res
	}
	res.consulted = true
	gate := map[*core.GNode]bool{}
	for _, e := range g.Nodes {
		if e.Kind != core.KEdge || e.Ast == nil {
			continue
		}
		ex := core.Unparen(e.Ast.(ast.Expr))
		// !ok true / ok false: no checksum recorded
		if fs := e.Facts(); len(fs) == 1 && fs[0].Tag == nil {
			if id, ok := core.Unparen(fs[0].Expr).(*ast.Ident); ok && info.Uses[id] == hashOk && !fs[0].Truth && !reassignedBetween(g, info, hashNode, e, hashOk) {
				gate[e] = true
			}
		}
		// err of VerifyHash == nil
		if verifyNode != nil && g.Dominates(verifyNode, e) {
			if x, eq, isNil := core.NilCompare(info, ex); isNil && core.ObjOf(info, x) == verifyErr && eq == e.Truth && !reassignedBetween(g, info, verifyNode, e, verifyErr) {
				gate[e] = true
			}
		}
	}
	for _, rn := range res.successes {
		rn := rn
		path := g.PathAvoiding(hashNode, func(x *core.GNode) bool { return x == rn }, func(x *core.GNode) bool { return gate[x] })
		if path != nil {
			res.bypass[rn] = g.PathStrings(path)
			if res.bypass[rn] == nil {
				res.bypass[rn] = []string{}
			}
		} else {
			res.bypass[rn] = nil
		}
	}
	return res
}

// c14HelperGate finds, in f, calls of same-package helpers whose nil error result implies the gate (the helper itself
// consults the field and every nil return of it is gated), and returns the edges of f on which such a result is nil.
// verified receives, for the hash gate, the caller-side expression the helper verifies.
func c14HelperGate(p *core.Prog, f *core.Func, count bool, verified *ast.Expr) (edges map[*core.GNode]bool, broken *c14GateRes, brokenIn *core.Func) {
	info := f.Pkg.TypesInfo
	g := p.Graph(f)
	edges = map[*core.GNode]bool{}
	for _, n := range stmtNodes(g) {
		as, ok := n.Ast.(*ast.AssignStmt)
		if !ok || len(as.Rhs) != 1 || len(as.Lhs) != 1 {
			continue
		}
		c, ok := core.Unparen(as.Rhs[0]).(*ast.CallExpr)
		if !ok {
			continue
		}
		fo := core.Callee(info, c)
		if fo == nil {
			continue
		}
		h := p.ByObj[fo.Origin()]
		// the count gate is looked for in helpers of the same package; the checksum gate also in a method of the frame
		// itself (frame.VerifyDataHash(payload) in ipldbindcode)
		if h == nil || h.Body == nil || (h.Pkg != f.Pkg && count) || errResultIndex(h) != 0 {
			continue
		}
		argOf := map[types.Object]ast.Expr{}
		for i, a := range c.Args {
			if po := h.ParamObj(i); po != nil {
				argOf[po] = a
			}
		}
		var hr *c14GateRes
		if count {
			hr = c14CountGateIn(p, h, argOf)
		} else {
			hr = c14HashGateIn(p, h)
		}
		if !hr.consulted || (!count && hr.verified == nil) {
			continue
		}
		if !hr.gated() {
			broken, brokenIn = hr, h
			continue
		}
		if !count && verified != nil && hr.verified != nil {
			if po := core.ObjOf(h.Pkg.TypesInfo, hr.verified); po != nil && argOf[po] != nil {
				*verified = argOf[po]
			}
		}
		eo := core.ObjOf(info, as.Lhs[0])
		for _, e := range g.Nodes {
			if e.Kind != core.KEdge || e.Ast == nil || !g.Dominates(n, e) {
				continue
			}
			if x, eq, isNil := core.NilCompare(info, core.Unparen(e.Ast.(ast.Expr))); isNil && core.ObjOf(info, x) == eo && eq == e.Truth && !reassignedBetween(g, info, n, e, eo) {
				edges[e] = true
			}
		}
	}
	return edges, broken, brokenIn
}

func c14Gates(r *core.Report) {
	const rule = "C14.R1"
	p := r.Prog
	f := r.Anchor(rule, "tooling.LoadDataFromDataFrames")
	if f == nil {
		return
	}
	g := p.Graph(f)
	successes := c14Successes(g, f)
	if len(successes) == 0 {
		r.Undecided(rule, f.Key+"#success", posP(r, f.Pos()), "no success return found")
		return
	}
	// gateVia: the gate is established by a helper whose nil result dominates every success of f
	gateVia := func(count bool, verified *ast.Expr) (found bool, paths map[*core.GNode][]string) {
		edges, broken, brokenIn := c14HelperGate(p, f, count, verified)
		if len(edges) == 0 && broken == nil {
			return false, nil
		}
		paths = map[*core.GNode][]string{}
		for _, rn := range successes {
			rn := rn
			if broken != nil {
				for _, b := range broken.bypass {
					if b != nil {
						paths[rn] = append([]string{"in " + brokenIn.Key + ":"}, b...)
					}
				}
				continue
			}
			if path := g.PathAvoiding(g.Entry, func(x *core.GNode) bool { return x == rn }, func(x *core.GNode) bool { return edges[x] }); path != nil {
				paths[rn] = g.PathStrings(path)
				if paths[rn] == nil {
					paths[rn] = []string{}
				}
			}
		}
		return true, paths
	}
	// count gate
	cr := c14CountGateIn(p, f, nil)
	paths, found := cr.bypass, cr.consulted
	if !found {
		found, paths = gateVia(true, nil)
	}
	if !found {
		r.Violation(rule, f.Key+"#count-gate", posP(r, f.Pos()), "the recorded frame count (GetTotal) is never consulted: a missing or duplicated frame goes unnoticed")
	} else {
		for i, rn := range successes {
			r.Check(paths[rn] == nil, rule, fmt.Sprintf("%s#count-gate@%d", f.Key, i), pos(r, rn.Ast), "when a total is recorded the number of collected frames is compared with it before success",
				"bytes can be returned without the number of collected frames having been compared with the recorded total: a dropped or duplicated frame yields different bytes instead of an error", paths[rn]...)
		}
	}
	// hash gate
	hr := c14HashGateIn(p, f)
	paths, found = hr.bypass, hr.consulted
	verified := hr.verified
	if !found {
		found, paths = gateVia(false, &verified)
	}
	if !found {
		r.Violation(rule, f.Key+"#hash-gate", posP(r, f.Pos()), "the recorded checksum (GetHash) is never consulted")
	} else {
		for i, rn := range successes {
			r.Check(paths[rn] == nil, rule, fmt.Sprintf("%s#hash-gate@%d", f.Key, i), pos(r, rn.Ast), "when a checksum is recorded the concatenated bytes are verified against it before success",
				"bytes can be returned although a checksum is recorded and was not verified successfully: an altered or foreign frame yields different bytes instead of an error", paths[rn]...)
		}
		// the bytes verified are the bytes returned
		if verified != nil {
			vs := core.ExprStr(verified)
			for i, rn := range successes {
				res := returnResults(rn)
				r.Check(len(res) > 0 && core.ExprStr(res[0]) == vs, rule, fmt.Sprintf("%s#verified-bytes-are-returned@%d", f.Key, i), pos(r, rn.Ast), "the expression verified is the expression returned: "+vs,
					"the bytes returned ("+core.ExprStr(res[0])+") are not the bytes that were verified ("+vs+")")
			}
		}
	}
	// other consumers: single-frame fast paths verify a present hash before using the bytes
	for _, k := range []string{"ipld/ipldbindcode.(Transaction).GetSolanaTransaction", "accum.ObjectsToTransactionsAndMetadata"} {
		cf := r.Anchor(rule, k)
		if cf == nil {
			continue
		}
		ci := cf.Pkg.TypesInfo
		cg := p.Graph(cf)
		n := 0
		for _, nd := range stmtNodes(cg) {
			as, ok := nd.Ast.(*ast.AssignStmt)
			if !ok || len(as.Rhs) != 1 {
				continue
			}
			c, ok := core.Unparen(as.Rhs[0]).(*ast.CallExpr)
			if !ok {
				continue
			}
			// the verification itself, or a same-package helper that verifies a present checksum (nil only when the
			// field is absent or the verification succeeded)
			vg, vn, vi, vc := cg, nd, ci, c
			if core.CalleeName(ci, c) != "ipld/ipldbindcode.VerifyHash" {
				fo := core.Callee(ci, c)
				if fo == nil || len(as.Lhs) != 1 {
					continue
				}
				h := p.ByObj[fo.Origin()]
				if h == nil || h.Body == nil || errResultIndex(h) != 0 {
					continue
				}
				if hr := c14HashGateIn(p, h); !hr.gated() || hr.verified == nil {
					continue
				}
				vg, vi, vn, vc = p.Graph(h), h.Pkg.TypesInfo, nil, nil
				for _, hn := range stmtNodes(vg) {
					for _, hc := range nodeCalls(hn) {
						if core.CalleeName(vi, hc) == "ipld/ipldbindcode.VerifyHash" {
							vn, vc = hn, hc
						}
					}
				}
				if vn == nil {
					continue
				}
			}
			n++
			eo := core.ObjOf(ci, as.Lhs[0])
			// the error branch must return an error
			okErr := false
			for _, e := range cg.Nodes {
				if e.Kind == core.KEdge && cg.Dominates(nd, e) {
					for _, fc := range e.Facts() {
						if x, eq, isNil := core.NilCompare(ci, fc.Expr); isNil && core.ObjOf(ci, x) == eo && eq != fc.Truth && leadsToErrorOnly(cg, cf, e) {
							okErr = true
						}
					}
				}
			}
			r.Check(okErr, rule, fmt.Sprintf("%s#single-frame-hash-mismatch-fails@%d", cf.Key, n), pos(r, c), "a checksum mismatch on the single-frame path returns an error", "a checksum mismatch on the single-frame path does not fail")
			// the verification is skipped only when no checksum is recorded: no condition on the checksum's VALUE guards it
			if len(vc.Args) == 2 {
				if ho := core.ObjOf(vi, vc.Args[1]); ho != nil {
					badCond := ""
					for _, fc := range vg.FactsAt(vn) {
						if fc.Tag == nil && core.Mentions(vi, fc.Expr, ho) {
							badCond = core.ExprStr(fc.Expr)
						}
					}
					for _, d := range vg.Dominators(vn) {
						if d.Kind == core.KEdge && d.Ast != nil && core.Mentions(vi, d.Ast, ho) {
							badCond = core.ExprStr(d.Ast)
						}
					}
					r.Check(badCond == "", rule, fmt.Sprintf("%s#verification-depends-on-presence-only@%d", cf.Key, n), pos(r, c), "the checksum is verified whenever one is recorded, whatever its value",
						"the verification is skipped depending on the checksum's value ["+badCond+"]: a payload whose recorded checksum is 0 (e.g. the empty payload) is accepted without verification")
				}
			}
		}
		if n == 0 {
			r.Violation(rule, cf.Key+"#single-frame-hash", posP(r, cf.Pos()), "the single-frame fast path uses the payload bytes without verifying a recorded checksum")
		}
	}
}

func c14Order(r *core.Report) {
	const rule = "C14.R2"
	p := r.Prog
	f := r.Anchor(rule, "tooling.getAllFramesFromDataFrame")
	if f == nil {
		return
	}
	af := f
	// the collector may only forward to a same-package worker (return collect(first, getter, 0)): analyse the worker
	for d := 0; d < 3; d++ {
		if len(f.Body.List) != 1 {
			break
		}
		rs, ok := f.Body.List[0].(*ast.ReturnStmt)
		if !ok || len(rs.Results) != 1 {
			break
		}
		c, ok := core.Unparen(rs.Results[0]).(*ast.CallExpr)
		if !ok {
			break
		}
		fo := core.Callee(f.Pkg.TypesInfo, c)
		if fo == nil {
			break
		}
		h := p.ByObj[fo.Origin()]
		if h == nil || h.Body == nil || h.Pkg != f.Pkg {
			break
		}
		f = h
	}
	info := f.Pkg.TypesInfo
	g := p.Graph(f)
	// the sort: sort.Slice(frames, func(i,j) bool {...; return iIndex < jIndex}) with iIndex from frames[i].GetIndex()
	var sortNode *core.GNode
	var sorted types.Object
	okCmp := false
	// where the sort call is looked for: in the collector, and in helpers of the package that receive the collected slice
	// as their only slice argument and sort it in place (sortFramesByIndex(frames)); for those the call of the helper is
	// the point at which the slice becomes sorted
	type sortScan struct {
		fn     *core.Func
		node   *core.GNode  // the node of the collector that stands for the sort (nil: the sort call's own node)
		sorted types.Object // the collector's slice (nil: the sort call's own argument)
	}
	scans := []sortScan{{fn: f}}
	for _, n := range stmtNodes(g) {
		for _, c := range nodeCalls(n) {
			fo := core.Callee(info, c)
			if fo == nil || len(c.Args) != 1 {
				continue
			}
			h := p.ByObj[fo.Origin()]
			ao := core.ObjOf(info, c.Args[0])
			if h == nil || h.Body == nil || h.Pkg != f.Pkg || h == f || ao == nil || h.ParamObj(0) == nil {
				continue
			}
			if _, isSl := ao.Type().Underlying().(*types.Slice); isSl {
				scans = append(scans, sortScan{fn: h, node: n, sorted: ao})
			}
		}
	}
	for _, sc := range scans {
		info := sc.fn.Pkg.TypesInfo
		for _, n := range stmtNodes(p.Graph(sc.fn)) {
			if sortNode != nil && okCmp {
				break
			}
			for _, c := range nodeCalls(n) {
				nm := core.CalleeName(info, c)
				var lf *core.Func
				var lit *ast.FuncLit
				if sc.node != nil && len(c.Args) >= 1 && core.ObjOf(info, c.Args[0]) != types.Object(sc.fn.ParamObj(0)) {
					continue // in a helper only the sort of its own parameter counts
				}
				if (nm == "sort.Slice" || nm == "sort.SliceStable") && len(c.Args) == 2 {
					l, ok := core.Unparen(c.Args[1]).(*ast.FuncLit)
					if !ok {
						continue
					}
					lit, lf = l, p.ByLit[l]
					sortNode = n
					sorted = core.ObjOf(info, c.Args[0])
				} else if (nm == "sort.Sort" || nm == "sort.Stable") && len(c.Args) == 1 {
					// sort.Sort(byIndex(frames)): the order is the Less method of the named slice type
					conv, ok := core.Unparen(c.Args[0]).(*ast.CallExpr)
					if !ok || len(conv.Args) != 1 {
						continue
					}
					tv, isT := info.Types[conv.Fun]
					if !isT || !tv.IsType() {
						continue
					}
					if _, isSl := tv.Type.Underlying().(*types.Slice); !isSl {
						continue
					}
					if sel := types.NewMethodSet(tv.Type).Lookup(f.Pkg.Types, "Less"); sel != nil {
						if mo, ok := sel.Obj().(*types.Func); ok {
							lf = p.ByObj[mo.Origin()]
						}
					}
					if lf == nil || lf.Body == nil || lf.ParamObj(1) == nil {
						continue
					}
					sortNode = n
					sorted = core.ObjOf(info, conv.Args[0])
				}
				if lf != nil {
					var iP, jP types.Object = lf.ParamObj(0), lf.ParamObj(1)
					// a comparator that only forwards to a helper:  return less(frames[i], frames[j])
					if lit != nil && len(lit.Body.List) == 1 {
						if rs, ok := lit.Body.List[0].(*ast.ReturnStmt); ok && len(rs.Results) == 1 {
							if hc, ok := core.Unparen(rs.Results[0]).(*ast.CallExpr); ok && len(hc.Args) == 2 {
								if fo := core.Callee(info, hc); fo != nil {
									if h := p.ByObj[fo.Origin()]; h != nil && h.Body != nil && h.ParamObj(1) != nil &&
										core.Mentions(info, hc.Args[0], iP) && !core.Mentions(info, hc.Args[0], jP) &&
										core.Mentions(info, hc.Args[1], jP) && !core.Mentions(info, hc.Args[1], iP) &&
										core.Mentions(info, hc.Args[0], sorted) && core.Mentions(info, hc.Args[1], sorted) {
										lf, iP, jP = h, h.ParamObj(0), h.ParamObj(1)
									}
								}
							}
						}
					}
					li := lf.Pkg.TypesInfo
					lg := p.Graph(lf)
					// variables bound to GetIndex() of element i / j
					fromI, fromJ := map[types.Object]bool{}, map[types.Object]bool{}
					ast.Inspect(lf.Body, func(m ast.Node) bool {
						if as, ok := m.(*ast.AssignStmt); ok && len(as.Rhs) == 1 {
							if cc, ok := core.Unparen(as.Rhs[0]).(*ast.CallExpr); ok && strings.HasSuffix(core.CalleeName(li, cc), ".GetIndex") {
								if core.Mentions(li, cc.Fun, iP) {
									fromI[core.ObjOf(li, as.Lhs[0])] = true
								}
								if core.Mentions(li, cc.Fun, jP) {
									fromJ[core.ObjOf(li, as.Lhs[0])] = true
								}
							}
						}
						return true
					})
					// some return compares index(i) < index(j) (in either spelling) and none compares them the other way round
					asc, desc := false, false
					for _, rn := range lg.Returns() {
						rs := rn.Ast.(*ast.ReturnStmt)
						if len(rs.Results) != 1 {
							continue
						}
						be, ok := core.Unparen(rs.Results[0]).(*ast.BinaryExpr)
						if !ok {
							continue
						}
						xI, xJ := fromI[core.ObjOf(li, be.X)], fromJ[core.ObjOf(li, be.X)]
						yI, yJ := fromI[core.ObjOf(li, be.Y)], fromJ[core.ObjOf(li, be.Y)]
						switch {
						case (be.Op == token.LSS && xI && yJ) || (be.Op == token.GTR && xJ && yI):
							asc = true
						case (be.Op == token.GTR && xI && yJ) || (be.Op == token.LSS && xJ && yI),
							(be.Op == token.LEQ || be.Op == token.GEQ) && ((xI && yJ) || (xJ && yI)):
							desc = true
						}
					}
					if asc && !desc {
						okCmp = true
					}
					if sc.node != nil && sortNode != nil {
						sortNode, sorted = sc.node, sc.sorted
					}
				}
			}
		}
	}
	r.Check(sortNode != nil && okCmp, rule, af.Key+"#sorted-by-index-ascending", posP(r, f.Pos()), "frames are sorted by their recorded index with a strict ascending comparator",
		"the collected frames are not sorted by frame index with `index(i) < index(j)`: frames fetched in another order are concatenated in that order")
	// every return of more than the first frame is dominated by the sort
	if sortNode != nil {
		n := 0
		for i, rn := range g.Returns() {
			if definitelyErrorReturn(g, f, rn) {
				continue
			}
			res := returnResults(rn)
			if len(res) == 0 || core.ObjOf(info, res[0]) != sorted {
				continue
			}
			// returns before any frame was appended (single frame) are fine
			appended := false
			for _, d := range stmtNodes(g) {
				if as, ok := d.Ast.(*ast.AssignStmt); ok && len(as.Rhs) == 1 && core.ObjOf(info, as.Lhs[0]) == sorted {
					if c, ok := core.Unparen(as.Rhs[0]).(*ast.CallExpr); ok && core.BuiltinName(info, c) == "append" && g.Reach(d, nil)[rn] {
						appended = true
					}
				}
			}
			if !appended {
				continue
			}
			n++
			r.Check(g.Dominates(sortNode, rn), rule, fmt.Sprintf("%s#multi-frame-return@%d-sorted", af.Key, i), pos(r, rn.Ast), "the multi-frame result is sorted before being returned", "frames can be returned without having been sorted by index")
		}
		if n == 0 {
			r.Undecided(rule, af.Key+"#multi-frame-return", posP(r, f.Pos()), "multi-frame return not found")
		}
	}
	// the concatenation in LoadDataFromDataFrames iterates the slice in order
	if lf := r.Anchor(rule, "tooling.LoadDataFromDataFrames"); lf != nil {
		li := lf.Pkg.TypesInfo
		ok := false
		// the frames slice: the local bound to the result of getAllFramesFromDataFrame, or the parameter of a
		// same-package helper that receives that local
		framesObj := map[types.Object]bool{}
		scan := []*core.Func{lf}
		ast.Inspect(lf.Body, func(m ast.Node) bool {
			if as, isA := m.(*ast.AssignStmt); isA && len(as.Rhs) == 1 && len(as.Lhs) >= 1 {
				if c, isC := core.Unparen(as.Rhs[0]).(*ast.CallExpr); isC && strings.HasSuffix(core.CalleeName(li, c), "getAllFramesFromDataFrame") {
					if o := core.ObjOf(li, as.Lhs[0]); o != nil && singleDef(lf, o) != nil {
						framesObj[o] = true
					}
				}
			}
			return true
		})
		for _, c := range core.CallsIn(lf.Body, false) {
			fo := core.Callee(li, c)
			if fo == nil {
				continue
			}
			h := p.ByObj[fo.Origin()]
			if h == nil || h.Body == nil || h.Pkg != lf.Pkg {
				continue
			}
			for i, a := range c.Args {
				if o := core.ObjOf(li, a); o != nil && framesObj[o] && h.ParamObj(i) != nil && !assignedIn(h, h.ParamObj(i)) {
					framesObj[h.ParamObj(i)] = true
					scan = append(scan, h)
				}
			}
		}
		for _, sf := range scan {
			sf := sf
			li := sf.Pkg.TypesInfo
			ast.Inspect(sf.Body, func(m ast.Node) bool {
				rs, isR := m.(*ast.RangeStmt)
				if !isR {
					return true
				}
				if _, isSl := li.TypeOf(rs.X).Underlying().(*types.Slice); !isSl {
					return true
				}
				if o := core.ObjOf(li, rs.X); o == nil || !framesObj[o] {
					return true
				}
				// each iteration adds the current element's bytes at the end of the payload: Buffer.Write(x.Bytes()) or
				// data = append(data, x.Bytes()...), with x the range value or slice[i] for the range key
				elem := func(e ast.Expr) bool {
					c, isC := core.Unparen(e).(*ast.CallExpr)
					if !isC {
						return false
					}
					sel, isS := core.Unparen(c.Fun).(*ast.SelectorExpr)
					if !isS || sel.Sel.Name != "Bytes" {
						return false
					}
					if rs.Value != nil && core.ObjOf(li, sel.X) == core.ObjOf(li, rs.Value) {
						return true
					}
					if ix, isIx := core.Unparen(sel.X).(*ast.IndexExpr); isIx && rs.Key != nil && core.ObjOf(li, ix.X) == core.ObjOf(li, rs.X) && core.ObjOf(li, ix.Index) == core.ObjOf(li, rs.Key) {
						return true
					}
					return false
				}
				for _, c := range core.CallsIn(rs.Body, false) {
					if strings.HasSuffix(core.CalleeName(li, c), "Buffer).Write") && len(c.Args) == 1 && elem(c.Args[0]) {
						ok = true
					}
					if core.BuiltinName(li, c) == "append" && len(c.Args) == 2 && c.Ellipsis.IsValid() && elem(c.Args[1]) {
						ok = true
					}
				}
				return true
			})
		}
		r.Check(ok, rule, lf.Key+"#concatenates-in-slice-order", posP(r, lf.Pos()), "the frames are concatenated by ranging over the sorted slice", "the frames are not concatenated in the order of the sorted slice")
	}
}

func c14VerifyHash(r *core.Report) {
	const rule = "C14.R3"
	p := r.Prog
	f := r.Anchor(rule, "ipld/ipldbindcode.VerifyHash")
	if f == nil {
		return
	}
	info := f.Pkg.TypesInfo
	g := p.Graph(f)
	hashP := f.ParamObj(1)
	// edges on which a checksum equals the recorded hash
	match := map[*core.GNode]bool{}
	for _, e := range g.Nodes {
		if e.Kind != core.KEdge || e.Ast == nil {
			continue
		}
		// switch hash { case checksumCrc64(data): ... }: the case edge is the equality of tag and case expression
		if e.Tag != nil && e.Truth {
			both := core.ExprStr(e.Tag) + " " + core.ExprStr(e.Ast)
			if (core.Mentions(info, e.Tag, hashP) || core.Mentions(info, e.Ast, hashP)) && strings.Contains(both, "checksum") {
				match[e] = true
			}
			continue
		}
		be, ok := core.Unparen(e.Ast.(ast.Expr)).(*ast.BinaryExpr)
		if !ok || !core.Mentions(info, be, hashP) || !strings.Contains(core.ExprStr(be), "checksum") {
			continue
		}
		if (be.Op == token.NEQ && !e.Truth) || (be.Op == token.EQL && e.Truth) {
			match[e] = true
		}
	}
	n := 0
	okAll := true
	for _, rn := range g.Returns() {
		res := returnResults(rn)
		if len(res) != 1 || !core.IsNil(info, res[0]) {
			continue
		}
		n++
		if path := g.PathAvoiding(g.Entry, func(x *core.GNode) bool { return x == rn }, func(x *core.GNode) bool { return match[x] }); path != nil {
			okAll = false
		}
	}
	r.Check(okAll && n > 0 && len(match) >= 2, rule, f.Key+"#nil-only-on-checksum-match", posP(r, f.Pos()), "VerifyHash returns nil only on a path where the CRC64 or the legacy FNV checksum equals the recorded hash",
		"VerifyHash can return nil without either checksum matching the recorded hash")
	c11PresenceAccessorsAs(r, rule)
}

// c11PresenceAccessorsAs runs the presence-accessor rule of C11 under another rule id (shared by C14).
func c11PresenceAccessorsAs(r *core.Report, rule string) {
	before := len(r.Obls)
	c11PresenceAccessors(r)
	for _, o := range r.Obls[before:] {
		o.Rule = rule
	}
}

func c14FrameMap(r *core.Report) {
	const rule = "C14.R4"
	p := r.Prog
	f := r.Anchor(rule, "accum.ObjectsToTransactionsAndMetadata")
	if f == nil {
		return
	}
	info := f.Pkg.TypesInfo
	g := p.Graph(f)
	// the append of a finished transaction and the loop head; clear calls
	var appendNode *core.GNode
	clear := map[*core.GNode]bool{}
	var loop ast.Stmt
	// the result list: what the function returns on success
	resultObjs := map[types.Object]bool{}
	for _, rn := range g.Returns() {
		if res := returnResults(rn); len(res) >= 1 {
			if o := core.ObjOf(info, res[0]); o != nil {
				resultObjs[o] = true
			}
		}
	}
	for _, n := range stmtNodes(g) {
		if as, ok := n.Ast.(*ast.AssignStmt); ok && len(as.Rhs) == 1 && len(as.Lhs) == 1 {
			if c, ok := core.Unparen(as.Rhs[0]).(*ast.CallExpr); ok && core.BuiltinName(info, c) == "append" && resultObjs[core.ObjOf(info, as.Lhs[0])] {
				appendNode = n
			}
		}
		for _, c := range nodeCalls(n) {
			if core.CalleeName(info, c) == "accum.clearDataBlocksMap" {
				clear[n] = true
			}
		}
	}
	if appendNode == nil {
		r.Undecided(rule, f.Key+"#append", posP(r, f.Pos()), "append of the finished transaction not found")
		return
	}
	ast.Inspect(f.Body, func(m ast.Node) bool {
		if rs, ok := m.(*ast.RangeStmt); ok && rs.Body.Pos() <= appendNode.Ast.Pos() && appendNode.Ast.End() <= rs.Body.End() {
			loop = rs
		}
		return true
	})
	// the transaction-decoding node: start of a transaction's processing
	var txStart *core.GNode
	for _, n := range stmtNodes(g) {
		for _, c := range nodeCalls(n) {
			if core.CalleeName(info, c) == "iplddecoders.DecodeTransaction" {
				txStart = n
			}
		}
	}
	if txStart == nil || loop == nil {
		r.Undecided(rule, f.Key+"#shape", posP(r, f.Pos()), "transaction decode / object loop not found")
		return
	}
	path := g.PathAvoiding(txStart, func(x *core.GNode) bool { return x == appendNode }, func(x *core.GNode) bool { return clear[x] })
	r.Check(path == nil, rule, f.Key+"#frame-map-cleared-per-transaction", pos(r, appendNode.Ast), "the map of preceding data frames is cleared on every path from decoding a transaction to appending it",
		"a transaction can be appended without the per-transaction frame map having been cleared: frames of this payload stay visible to the next transaction's reassembly", g.PathStrings(path)...)
}

// c14NoPooledAlias (R5): in any function of the repository that takes a value from a sync.Pool or puts one back,
// no []byte result may be derived (through Bytes(), slicing or plain assignment) from that pooled value
// unless it is copied first: the pool hands the same buffer to the next caller.
func c14NoPooledAlias(r *core.Report) { c14NoPooledAliasAs(r, "C14.R5") }

func c14NoPooledAliasAs(r *core.Report, rule string) {
	p := r.Prog
	n := 0
	for _, f := range p.AllFns {
		if f.Body == nil || strings.HasSuffix(p.FileOf(f.Pos()), "_test.go") {
			continue
		}
		info := f.Pkg.TypesInfo
		var pooled []types.Object
		ast.Inspect(f.Body, func(m ast.Node) bool {
			switch x := m.(type) {
			case *ast.FuncLit:
				return false
			case *ast.AssignStmt:
				if len(x.Rhs) == 1 {
					hasGet := false
					ast.Inspect(x.Rhs[0], func(k ast.Node) bool {
						if c, ok := k.(*ast.CallExpr); ok && core.CalleeName(info, c) == "sync.(*Pool).Get" {
							hasGet = true
						}
						return true
					})
					if hasGet {
						for _, l := range x.Lhs {
							if o := core.ObjOf(info, l); o != nil {
								pooled = append(pooled, o)
							}
						}
					}
				}
			case *ast.CallExpr:
				if core.CalleeName(info, x) == "sync.(*Pool).Put" && len(x.Args) == 1 {
					if o := core.ObjOf(info, x.Args[0]); o != nil {
						pooled = append(pooled, o)
					}
				}
			}
			return true
		})
		if len(pooled) == 0 {
			continue
		}
		// only functions that return byte slices / strings built from buffers matter
		sig, _ := info.TypeOf(f.Type).(*types.Signature)
		if f.Obj != nil {
			sig = f.Obj.Type().(*types.Signature)
		}
		if sig == nil {
			continue
		}
		returnsBytes := false
		for i := 0; i < sig.Results().Len(); i++ {
			if isByteSlice(sig.Results().At(i).Type()) {
				returnsBytes = true
			}
		}
		if !returnsBytes {
			continue
		}
		n++
		taint := taintFrom(f, pooled...)
		bad := ""
		g := p.Graph(f)
		for _, rn := range g.Returns() {
			for _, e := range returnResults(rn) {
				if !mentionsAny(info, e, taint, false) {
					continue
				}
				// `return helper(pooledSlice, ...)`: the helper may hand back a sub-slice of its argument
				if c, isCall := core.Unparen(e).(*ast.CallExpr); isCall && !isByteSlice(info.TypeOf(e)) {
					if fn := core.Callee(info, c); fn != nil {
						if callee := p.ByObj[fn.Origin()]; callee != nil && callee.Body != nil {
							for ai, a := range c.Args {
								if mentionsAny(info, a, taint, false) && returnsAliasOfParam(p, callee, ai, 0) {
									bad = "the result returned at " + p.Rel(rn.Ast.Pos()) + " comes from " + callee.Key + ", which returns a sub-slice of its argument " + core.ExprStr(a) + " - a buffer that goes back to a sync.Pool"
								}
							}
						}
					}
					continue
				}
				if !isByteSlice(info.TypeOf(e)) {
					continue
				}
				if isCopyingExpr(p, info, e) {
					continue
				}
				bad = "the result returned at " + p.Rel(rn.Ast.Pos()) + " (" + core.ExprStr(e) + ") aliases a buffer that goes back to a sync.Pool"
			}
		}
		r.Check(bad == "", rule, f.Key+"#result-does-not-alias-pooled-buffer", posP(r, f.Pos()), "no returned byte slice aliases a pooled buffer",
			"returned bytes can be overwritten by the next user of the pooled buffer: "+bad)
	}
	r.Extra["C14_pool_functions_returning_bytes"] = n
	r.OK(rule, "tooling.LoadDataFromDataFrames#no-pool", "", "reassembly allocates its own buffer (checked above for every pool-using function returning bytes)")
}

// isCopyingExpr: the expression produces a fresh copy (clone helpers, append to a nil/empty slice, bytes.Clone, string conversion).
func isCopyingExpr(p *core.Prog, info *types.Info, e ast.Expr) bool {
	c, ok := core.Unparen(e).(*ast.CallExpr)
	if !ok {
		return false
	}
	if core.BuiltinName(info, c) == "append" && len(c.Args) == 2 && c.Ellipsis.IsValid() {
		a := core.ExprStr(c.Args[0])
		return a == "[]byte(nil)" || a == "[]byte{}" || a == "nil"
	}
	nm := core.CalleeName(info, c)
	if nm == "bytes.Clone" || nm == "slices.Clone" {
		return true
	}
	if fn := core.Callee(info, c); fn != nil {
		if t := p.ByObj[fn]; t != nil && allocatesCopy(t) {
			return true
		}
	}
	return false
}

// returnsAliasOfParam: some byte-slice result of callee is (a reslice of, or a local derived without copying from) its
// parameter number idx, possibly through one more helper.
func returnsAliasOfParam(p *core.Prog, callee *core.Func, idx int, depth int) bool {
	po := callee.ParamObj(idx)
	if po == nil || depth > 3 || !isByteSlice(po.Type()) {
		return false
	}
	info := callee.Pkg.TypesInfo
	taint := taintFrom(callee, po)
	taint[po] = true
	g := p.Graph(callee)
	for _, rn := range g.Returns() {
		for _, e := range returnResults(rn) {
			if !mentionsAny(info, e, taint, false) {
				continue
			}
			if c, isCall := core.Unparen(e).(*ast.CallExpr); isCall {
				if isCopyingExpr(p, info, e) {
					continue
				}
				if fn := core.Callee(info, c); fn != nil {
					if cc := p.ByObj[fn.Origin()]; cc != nil && cc.Body != nil {
						for ai, a := range c.Args {
							if mentionsAny(info, a, taint, false) && returnsAliasOfParam(p, cc, ai, depth+1) {
								return true
							}
						}
					}
				}
				continue
			}
			if isByteSlice(info.TypeOf(e)) {
				return true
			}
		}
	}
	return false
}

// c14SingleReassemblyPath (C14.R6): on the serving side every payload (transaction, metadata, rewards) is obtained from
// its first dataframe through tooling.LoadDataFromDataFrames - the one function whose count / checksum gates R1 decides -
// or through a wrapper every byte result of which is such a call. A wrapper that answers some payloads from
// frame.Bytes() directly skips the gates (and the `next` links) for them.
func c14SingleReassemblyPath(r *core.Report) {
	const rule = "C14.R6"
	p := r.Prog
	isFrame := func(t types.Type) bool {
		if t == nil {
			return false
		}
		if pt, ok := t.(*types.Pointer); ok {
			t = pt.Elem()
		}
		n, ok := t.(*types.Named)
		return ok && n.Obj().Name() == "DataFrame" && strings.HasSuffix(n.Obj().Pkg().Path(), "ipld/ipldbindcode")
	}
	var forwards func(f *core.Func, depth int) (bool, string)
	forwards = func(f *core.Func, depth int) (bool, string) {
		// every []byte result of f comes from LoadDataFromDataFrames (directly, via a local assigned once from it, or via
		// another forwarding wrapper); error returns are ignored
		if depth > 3 || f.Body == nil {
			return false, "wrapper too deep or without body"
		}
		info := f.Pkg.TypesInfo
		g := p.Graph(f)
		fromLoad := func(e ast.Expr) bool {
			e = core.Unparen(e)
			if o := core.ObjOf(info, e); o != nil {
				// every assignment to the local is a load
				okAll, n := true, 0
				ast.Inspect(f.Body, func(m ast.Node) bool {
					as, isA := m.(*ast.AssignStmt)
					if !isA || len(as.Rhs) != 1 {
						return true
					}
					for _, l := range as.Lhs {
						if core.ObjOf(info, l) == o {
							n++
							c, isC := core.Unparen(as.Rhs[0]).(*ast.CallExpr)
							if !isC {
								okAll = false
								continue
							}
							nm := core.CalleeName(info, c)
							if nm == "tooling.LoadDataFromDataFrames" {
								continue
							}
							if fn := core.Callee(info, c); fn != nil {
								if cal := p.ByObj[fn.Origin()]; cal != nil {
									if ok, _ := forwards(cal, depth+1); ok {
										continue
									}
								}
							}
							okAll = false
						}
					}
					return true
				})
				return n > 0 && okAll
			}
			if c, isC := e.(*ast.CallExpr); isC {
				if core.CalleeName(info, c) == "tooling.LoadDataFromDataFrames" {
					return true
				}
				if fn := core.Callee(info, c); fn != nil {
					if cal := p.ByObj[fn.Origin()]; cal != nil {
						ok, _ := forwards(cal, depth+1)
						return ok
					}
				}
			}
			return false
		}
		for _, rn := range g.Returns() {
			if definitelyErrorReturn(g, f, rn) {
				continue
			}
			res := returnResults(rn)
			if len(res) == 1 {
				if c, isC := core.Unparen(res[0]).(*ast.CallExpr); isC && fromLoad(c) {
					continue
				}
			}
			for _, e := range res {
				if t := info.TypeOf(e); t != nil && isByteSlice(t) && !fromLoad(e) {
					if id, isId := core.Unparen(e).(*ast.Ident); isId && id.Name == "nil" {
						continue
					}
					return false, "returns " + core.ExprStr(e) + " at " + p.Rel(rn.Ast.Pos()) + ", which does not come from LoadDataFromDataFrames"
				}
			}
		}
		return true, ""
	}
	n := 0
	for _, key := range []string{"main.parseTransactionAndMetaFromNode", "main.getTransactionAndMetaFromNode", "main.(*MultiEpoch).handleGetBlock", "main.(*MultiEpoch).GetBlock"} {
		f := r.Anchor(rule, key)
		if f == nil {
			continue
		}
		info := f.Pkg.TypesInfo
		for _, c := range core.CallsIn(f.Body, true) {
			// calls that take a dataframe (or its address) as an argument
			takes := false
			for _, a := range c.Args {
				if isFrame(info.TypeOf(a)) {
					takes = true
				}
			}
			// method calls on a dataframe that yield bytes
			if sel, ok := core.Unparen(c.Fun).(*ast.SelectorExpr); ok && isFrame(info.TypeOf(sel.X)) && sel.Sel.Name == "Bytes" {
				n++
				r.Violation(rule, fmt.Sprintf("%s#frame-bytes-used-directly@%d", f.Key, n), pos(r, c), "the bytes of a dataframe are used directly: a payload continued in further frames is truncated and a recorded checksum is not verified")
				continue
			}
			if !takes {
				continue
			}
			n++
			nm := core.CalleeName(info, c)
			k := fmt.Sprintf("%s#payload-loaded-through:%s@%d", f.Key, nm[strings.LastIndex(nm, ".")+1:], n)
			if nm == "tooling.LoadDataFromDataFrames" {
				r.OK(rule, k, pos(r, c), "payload obtained through LoadDataFromDataFrames")
				continue
			}
			fn := core.Callee(info, c)
			var cal *core.Func
			if fn != nil {
				cal = p.ByObj[fn.Origin()]
			}
			if cal == nil {
				r.Undecided(rule, k, pos(r, c), "a dataframe is handed to a function that could not be resolved")
				continue
			}
			ok, why := forwards(cal, 0)
			r.Check(ok, rule, k, pos(r, c), "payload obtained through a wrapper that always forwards LoadDataFromDataFrames",
				"the payload is obtained through "+cal.Key+", which "+why+": for those payloads the frame-count and checksum gates (and the continuation frames) are skipped")
		}
	}
	if n == 0 {
		r.Undecided(rule, "main#payload-loads", "", "no payload load found on the serving side")
	}
}

// assignedIn reports whether o is assigned (or has its address taken) anywhere in f's body.
func assignedIn(f *core.Func, o types.Object) bool {
	info := f.Pkg.TypesInfo
	found := false
	ast.Inspect(f.Body, func(m ast.Node) bool {
		switch x := m.(type) {
		case *ast.AssignStmt:
			for _, l := range x.Lhs {
				if id, ok := core.Unparen(l).(*ast.Ident); ok && (info.Uses[id] == o || info.Defs[id] == o) {
					found = true
				}
			}
		case *ast.UnaryExpr:
			if x.Op == token.AND && core.ObjOf(info, x.X) == o {
				found = true
			}
		case *ast.IncDecStmt:
			if core.ObjOf(info, x.X) == o {
				found = true
			}
		}
		return !found
	})
	return found
}

// c14NoConstantCap (C14.R7): in the reassembly (LoadDataFromDataFrames, getAllFramesFromDataFrame and their same-package
// callees) no branch that ends in an error only is taken because an integer quantity exceeds (or falls below) a constant
// greater than one: a valid payload of any frame count, fan-out and nesting depth has to reassemble.
func c14NoConstantCap(r *core.Report) {
	const rule = "C14.R7"
	p := r.Prog
	seen := map[*core.Func]bool{}
	for _, k := range []string{"tooling.LoadDataFromDataFrames", "tooling.getAllFramesFromDataFrame"} {
		a := r.Anchor(rule, k)
		if a == nil {
			continue
		}
		for _, f := range pkgScope(p, a, 2) {
			if seen[f] || f.Body == nil {
				continue
			}
			seen[f] = true
			info := f.Pkg.TypesInfo
			g := p.Graph(f)
			bad := ""
			for _, e := range g.Nodes {
				if e.Kind != core.KEdge || e.Ast == nil || e.Tag != nil {
					continue
				}
				be, ok := core.Unparen(e.Ast.(ast.Expr)).(*ast.BinaryExpr)
				if !ok {
					continue
				}
				switch be.Op {
				case token.LSS, token.GTR, token.LEQ, token.GEQ:
				default:
					continue
				}
				x, c, isC := orientConst(info, be)
				if !isC || (c >= -1 && c <= 1) {
					continue
				}
				if _, xc := core.ConstInt(info, x); xc {
					continue
				}
				if bt, isB := info.TypeOf(x).Underlying().(*types.Basic); !isB || bt.Info()&types.IsInteger == 0 {
					continue
				}
				if onlyErrorsReachable(g, f, e) {
					bad = core.ExprStr(be)
					if !e.Truth {
						bad = "!(" + bad + ")"
					}
				}
			}
			r.Check(bad == "", rule, f.Key+"#no-constant-cap-on-counts", posP(r, f.Pos()), "no count is compared with a constant limit on the way to an error",
				"a payload is rejected because a count exceeds a constant ["+bad+"]: a valid payload with more frames / deeper nesting than that is refused instead of reassembled")
		}
	}
}
