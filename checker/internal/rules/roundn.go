package rules

import (
	"fmt"
	"go/ast"
	"go/token"
	"go/types"
	"strings"

	"yfverif/checker/internal/core"
)

// Rules added after control seeding round l.

// c06RankForgetsOnlyInPurge (C06.R12): the rank of addresses that ever filled a batch is what keeps Push's synchronous
// partial flush from overtaking a batch parked in the background writer (C06.R5). An address may therefore leave the rank
// only through purge, whose deletions are bounded by the size of the rank list (10 000 distinct counts); any other
// deletion from the rank's set - a decay, a reset, an eviction by age - forgets addresses whose older batch may still be
// parked. Who-may-delete rule over the methods of the rank type, plus: purge deletes only behind its size test.
func c06RankForgetsOnlyInPurge(r *core.Report) {
	const rule = "C06.R12"
	p := r.Prog
	purge := r.Anchor(rule, "gsfa.(*rollingRankOfTopPerformers).purge")
	if purge == nil {
		return
	}
	n := 0
	for _, f := range p.FuncsInPkg("gsfa") {
		if f.Body == nil || strings.HasSuffix(p.FileOf(f.Pos()), "_test.go") {
			continue
		}
		info := f.Pkg.TypesInfo
		for _, c := range core.CallsIn(f.Body, false) {
			sel, ok := core.Unparen(c.Fun).(*ast.SelectorExpr)
			if !ok {
				continue
			}
			// a method of the set field of the rank that removes entries, or a re-initialisation of that field
			fs, ok := core.Unparen(sel.X).(*ast.SelectorExpr)
			if !ok || fs.Sel.Name != "set" {
				continue
			}
			if rt := info.TypeOf(fs.X); rt == nil || !strings.HasSuffix(strings.TrimPrefix(rt.String(), "*"), "rollingRankOfTopPerformers") {
				continue
			}
			switch sel.Sel.Name {
			case "Delete", "Clear", "DeleteAll", "Pop", "PopRandom":
			default:
				continue
			}
			n++
			root := f.Root()
			key := fmt.Sprintf("%s#forgets-ranked-address:%s", root.Key, sel.Sel.Name)
			// a helper that only purge calls, behind purge's size test, is part of purge
			if root != purge {
				callers := p.Callers(root)
				all := len(callers) > 0
				for _, cs := range callers {
					if cs.In.Root() != purge || !rankSizeTestHolds(p, cs.In, cs.Call) {
						all = false
					}
				}
				if all {
					r.OK(rule, key, pos(r, c), "the deletion sits in a helper that only purge calls, behind purge's size test")
					continue
				}
			}
			if root != purge {
				r.Violation(rule, key, pos(r, c), "an address is removed from the rank of addresses that filled a batch outside purge: its older full batch may still be parked in the background writer, and the next partial flush of that address is then written (and linked) before it - newest-first order is lost for that address")
				continue
			}
			// inside purge: only behind the test that the rank holds more distinct counts than its list size
			guarded := rankSizeTestHolds(p, f, c)
			r.Check(guarded, rule, key, pos(r, c), "purge removes addresses only when the rank holds more distinct counts than its list size",
				"purge removes addresses from the rank without the size test: addresses with a parked batch are forgotten")
		}
		// the set replaced wholesale
		ast.Inspect(f.Body, func(m ast.Node) bool {
			as, ok := m.(*ast.AssignStmt)
			if !ok {
				return true
			}
			for _, l := range as.Lhs {
				if fs, ok := core.Unparen(l).(*ast.SelectorExpr); ok && fs.Sel.Name == "set" {
					if rt := info.TypeOf(fs.X); rt != nil && strings.HasSuffix(strings.TrimPrefix(rt.String(), "*"), "rollingRankOfTopPerformers") {
						n++
						r.Violation(rule, f.Root().Key+"#rank-set-replaced", pos(r, as), "the rank's set is replaced: every address that filled a batch is forgotten while its batch may still be parked")
					}
				}
			}
			return true
		})
	}
	if n == 0 {
		r.Undecided(rule, purge.Key+"#deletions", posP(r, purge.Pos()), "no deletion from the rank's set found (purge no longer bounds the rank?)")
	}
}

// c04ReadsJudgedByCount (C04.R13): io.ReaderAt may answer a read that filled the whole buffer with io.EOF when the buffer
// ends at the end of the source (range readers and HTTP-backed readers do). The three compact-index readers judge every
// positional read of the lookup path by its byte count; a site that fails the lookup on `err != nil` alone loses exactly the
// key stored in the physically last slot of the file. Sibling rule over every ReadAt in the reader packages: an error
// outcome may lead to a failing return only where the count is known short, or the error is known not to be io.EOF.
func c04ReadsJudgedByCount(r *core.Report) {
	const rule = "C04.R13"
	p := r.Prog
	n := 0
	for _, pk := range []string{"compactindexsized", "deprecated/compactindex", "deprecated/compactindex36"} {
		for _, f := range p.FuncsInPkg(pk) {
			if f.Body == nil || strings.HasSuffix(p.FileOf(f.Pos()), "_test.go") {
				continue
			}
			info := f.Pkg.TypesInfo
			g := p.Graph(f)
			for _, nd := range stmtNodes(g) {
				as, ok := nd.Ast.(*ast.AssignStmt)
				if !ok || len(as.Rhs) != 1 || len(as.Lhs) != 2 {
					continue
				}
				c, ok := core.Unparen(as.Rhs[0]).(*ast.CallExpr)
				if !ok || len(c.Args) != 2 {
					continue
				}
				if sel, ok := core.Unparen(c.Fun).(*ast.SelectorExpr); !ok || sel.Sel.Name != "ReadAt" {
					continue
				}
				errObj := core.ObjOf(info, as.Lhs[1])
				nObj := core.ObjOf(info, as.Lhs[0])
				if errObj == nil || !core.IsErrorType(errObj.Type()) {
					continue
				}
				n++
				key := fmt.Sprintf("%s#read@%s-judged-by-count", f.Key, core.KeyStr(f, c.Args[1]))
				bad := ""
				for _, rn := range g.Returns() {
					if !g.Dominates(nd, rn) || !returnsFailure(f, rn) {
						continue
					}
					errSet, short, notEOF := false, false, false
					for _, fc := range g.FactsAt(rn) {
						if fc.Tag != nil || !g.FactFresh(fc, rn) {
							continue
						}
						if x, eq, isNil := core.NilCompare(info, fc.Expr); isNil && core.ObjOf(info, x) == errObj && eq != fc.Truth {
							errSet = true
						}
						if nObj != nil && core.Mentions(info, fc.Expr, nObj) {
							if be, ok := core.Unparen(fc.Expr).(*ast.BinaryExpr); ok {
								switch {
								case be.Op == token.NEQ && fc.Truth, be.Op == token.EQL && !fc.Truth, be.Op == token.LSS && fc.Truth, be.Op == token.GEQ && !fc.Truth:
									short = true
								}
							}
						}
						s := core.ExprStr(fc.Expr)
						if strings.Contains(s, "io.EOF") && core.Mentions(info, fc.Expr, errObj) {
							if be, ok := core.Unparen(fc.Expr).(*ast.BinaryExpr); ok {
								if (be.Op == token.NEQ && fc.Truth) || (be.Op == token.EQL && !fc.Truth) {
									notEOF = true
								}
							} else if _, isCall := core.Unparen(fc.Expr).(*ast.CallExpr); isCall && !fc.Truth {
								notEOF = true // errors.Is(err, io.EOF) answered false
							}
						}
					}
					if errSet && !short && !notEOF {
						bad = p.Rel(rn.Ast.Pos())
					}
				}
				r.Check(bad == "", rule, key, pos(r, c), "a failing outcome of the read is decided by the byte count (or excludes io.EOF)",
					"the lookup fails at "+bad+" because ReadAt returned an error, whatever the byte count: a reader that reports io.EOF together with a complete read (allowed by io.ReaderAt at the end of the source) makes the key in the last slot of the file unreadable")
			}
		}
	}
	if n == 0 {
		r.Undecided(rule, "compactindex#positional-reads", "", "no ReadAt call with a checked error found in the compact-index readers")
	}
}

// returnsFailure: the return hands back a possibly non-nil error (anything but the literal nil in the error position).
func returnsFailure(f *core.Func, rn *core.GNode) bool {
	ei := errResultIndex(f)
	res := returnResults(rn)
	if ei < 0 || ei >= len(res) {
		return false
	}
	return !core.IsNil(f.Pkg.TypesInfo, res[ei])
}

// chainPointerHelpers (C06.R8 / C07.R11, addition): where the pointer a chain walk follows next is taken from a helper, the
// helper may answer nil (end of chain) only for a pointer that is nil or {0,0}: every `return nil` of the helper is reached
// under IsZero() of one of its parameters, under Offset == 0 and Size == 0 of the same parameter, or under a nil test of a
// pointer parameter. "Offset == 0" alone ends the chain before the record stored first in the log.
func chainPointerHelpers(r *core.Report, rule string) {
	p := r.Prog
	seen := map[*core.Func]bool{}
	for _, f := range p.FuncsInPkg("gsfa") {
		if f.Body == nil || strings.HasSuffix(p.FileOf(f.Pos()), "_test.go") {
			continue
		}
		info := f.Pkg.TypesInfo
		readsLog := false
		for _, c := range core.CallsIn(f.Body, false) {
			if strings.Contains(core.CalleeName(info, c), "linkedlog.(*LinkedLog).Read") {
				readsLog = true
			}
		}
		if !readsLog {
			continue
		}
		ast.Inspect(f.Body, func(m ast.Node) bool {
			as, ok := m.(*ast.AssignStmt)
			if !ok || len(as.Lhs) != 1 || len(as.Rhs) != 1 {
				return true
			}
			lt := info.TypeOf(as.Lhs[0])
			if lt == nil || !strings.HasSuffix(lt.String(), "indexes.OffsetAndSize") {
				return true
			}
			if _, isPtr := lt.Underlying().(*types.Pointer); !isPtr {
				return true
			}
			c, ok := core.Unparen(as.Rhs[0]).(*ast.CallExpr)
			if !ok {
				return true
			}
			fo := core.Callee(info, c)
			if fo == nil {
				return true
			}
			h := p.ByObj[fo.Origin()]
			if h == nil || h.Body == nil || seen[h] {
				return true
			}
			seen[h] = true
			hi := h.Pkg.TypesInfo
			hg := p.Graph(h)
			for i, rn := range hg.Returns() {
				res := returnResults(rn)
				if len(res) < 1 || !core.IsNil(hi, res[0]) {
					continue
				}
				okEnd := false
				off0, size0 := map[string]bool{}, map[string]bool{}
				for _, fc := range hg.FactsAt(rn) {
					if fc.Tag != nil {
						continue
					}
					e := core.Unparen(fc.Expr)
					if x, eq, isNil := core.NilCompare(hi, e); isNil && eq == fc.Truth && isParamOf(h, core.ObjOf(hi, x)) {
						okEnd = true
					}
					if cc, isCall := e.(*ast.CallExpr); isCall && fc.Truth && strings.HasSuffix(core.CalleeName(hi, cc), "OffsetAndSize).IsZero") {
						okEnd = true
					}
					if be, isBin := e.(*ast.BinaryExpr); isBin && ((be.Op == token.EQL && fc.Truth) || (be.Op == token.NEQ && !fc.Truth)) {
						if v, isC := core.ConstInt(hi, be.Y); isC && v == 0 {
							if sel, isSel := core.Unparen(be.X).(*ast.SelectorExpr); isSel {
								switch sel.Sel.Name {
								case "Offset":
									off0[core.ExprStr(sel.X)] = true
								case "Size":
									size0[core.ExprStr(sel.X)] = true
								}
							}
						}
					}
				}
				for k := range off0 {
					if size0[k] {
						okEnd = true
					}
				}
				r.Check(okEnd, rule, fmt.Sprintf("%s#nil-return@%d-only-for-nil-or-zero-pointer", h.Key, i), pos(r, rn.Ast),
					"the helper that yields the next chain pointer answers nil only for a nil or {0,0} pointer",
					"the helper that yields the next pointer of the chain walk answers nil (end of chain) without knowing the pointer to be nil or {Offset==0,Size==0}: the record stored first in a linked log (offset 0, non-zero size) is never read - the address stored there loses its oldest batch without any error")
			}
			return true
		})
	}
}

// c12CapacityCoversTheSlotRange (C12.R12): Index.Get / Set of the block-time index accept every slot of the inclusive range
// [start, end] and index values[slot-start]. The decoder of a stored index must therefore reject a capacity below
// end-start+1: on every success return of a function that sizes `values` from a decoded capacity, a comparison is known that
// implies capacity >= end - start + c, where c is 1 when the accessors' upper test admits slot == end (0 when it excludes it).
func c12CapacityCoversTheSlotRange(r *core.Report) {
	const rule = "C12.R12"
	p := r.Prog
	get := r.Anchor(rule, "blocktimeindex.(*Index).Get")
	dec := r.Anchor(rule, "blocktimeindex.(*Index).unmarshalBinary")
	if get == nil || dec == nil {
		return
	}
	// (a) inclusive or exclusive upper bound in the accessors
	need := -1
	for _, acc := range []*core.Func{get, p.Fn("blocktimeindex.(*Index).Set")} {
		if acc == nil || acc.Body == nil {
			continue
		}
		info := acc.Pkg.TypesInfo
		g := p.Graph(acc)
		ast.Inspect(acc.Body, func(m ast.Node) bool {
			ix, ok := m.(*ast.IndexExpr)
			if !ok {
				return true
			}
			if sel, ok := core.Unparen(ix.X).(*ast.SelectorExpr); !ok || sel.Sel.Name != "values" {
				return true
			}
			sub, ok := core.Unparen(ix.Index).(*ast.BinaryExpr)
			if !ok || sub.Op != token.SUB {
				return true
			}
			slot := core.ObjOf(info, sub.X)
			nd := g.NodeOf(ix.Pos())
			if slot == nil || nd == nil {
				return true
			}
			c := -1
			for _, fc := range g.FactsAt(nd) {
				be, ok := core.Unparen(fc.Expr).(*ast.BinaryExpr)
				if !ok || fc.Tag != nil {
					continue
				}
				x, y, op := be.X, be.Y, be.Op
				if core.ObjOf(info, y) == slot { // `i.end < slot`
					x, y = y, x
					op = map[token.Token]token.Token{token.LSS: token.GTR, token.GTR: token.LSS, token.LEQ: token.GEQ, token.GEQ: token.LEQ}[op]
				}
				if core.ObjOf(info, x) != slot {
					continue
				}
				if sel, ok := core.Unparen(y).(*ast.SelectorExpr); !ok || sel.Sel.Name != "end" {
					continue
				}
				switch {
				case op == token.GTR && !fc.Truth, op == token.LEQ && fc.Truth:
					c = 1
				case op == token.GEQ && !fc.Truth, op == token.LSS && fc.Truth:
					c = 0
				}
			}
			if c > need {
				need = c
			}
			return true
		})
	}
	if need < 0 {
		r.Undecided(rule, get.Key+"#upper-bound", posP(r, get.Pos()), "the accessors' upper test of the slot against end was not found")
		return
	}
	// (b) the decoder, and the methods of the index it delegates to
	sized := false
	for _, fn := range pkgScope(p, dec, 2) {
		if fn.Body == nil {
			continue
		}
		fi := fn.Pkg.TypesInfo
		ast.Inspect(fn.Body, func(m ast.Node) bool {
			if as, ok := m.(*ast.AssignStmt); ok && len(as.Lhs) == 1 && len(as.Rhs) == 1 {
				if sel, ok := core.Unparen(as.Lhs[0]).(*ast.SelectorExpr); ok && sel.Sel.Name == "values" {
					if c, ok := core.Unparen(as.Rhs[0]).(*ast.CallExpr); ok && core.BuiltinName(fi, c) == "make" {
						sized = true
					}
				}
			}
			return true
		})
	}
	if !sized {
		r.Undecided(rule, dec.Key+"#values-sized", posP(r, dec.Pos()), "the allocation of values from the decoded capacity was not found")
		return
	}
	weak := ""
	var coveredIn func(fn *core.Func, depth int) bool
	coveredIn = func(fn *core.Func, depth int) bool {
		if fn == nil || fn.Body == nil || depth > 2 {
			return false
		}
		info := fn.Pkg.TypesInfo
		g := p.Graph(fn)
		rv := fn.RecvObj()
		fieldOf := func(e ast.Expr) string { // "start", "end", "capacity" for the receiver's fields or locals stored into them
			e = core.Unparen(e)
			if sel, ok := e.(*ast.SelectorExpr); ok {
				if rv != nil && core.ObjOf(info, sel.X) == rv {
					return sel.Sel.Name
				}
				return ""
			}
			if id, ok := e.(*ast.Ident); ok {
				o := info.Uses[id]
				name := ""
				ast.Inspect(fn.Body, func(m ast.Node) bool {
					if as, ok := m.(*ast.AssignStmt); ok && len(as.Lhs) == len(as.Rhs) {
						for i, l := range as.Lhs {
							if sel, ok := core.Unparen(l).(*ast.SelectorExpr); ok && core.ObjOf(info, as.Rhs[i]) == o && o != nil {
								if rv != nil && core.ObjOf(info, sel.X) == rv {
									name = sel.Sel.Name
								}
							}
						}
					}
					return true
				})
				return name
			}
			return ""
		}
		// linear form of an expression over end, start and a constant; ok == false for anything else
		var lin func(e ast.Expr, d int) (ce, cs, k int, ok bool)
		lin = func(e ast.Expr, d int) (int, int, int, bool) {
			e = core.Unparen(e)
			if d > 6 {
				return 0, 0, 0, false
			}
			if v, isC := core.ConstInt(info, e); isC {
				return 0, 0, int(v), true
			}
			switch fieldOf(e) {
			case "end":
				return 1, 0, 0, true
			case "start":
				return 0, 1, 0, true
			}
			if id, ok := e.(*ast.Ident); ok {
				if o := info.Uses[id]; o != nil {
					if df := singleDef(fn, o); df != nil {
						return lin(df, d+1)
					}
				}
				return 0, 0, 0, false
			}
			if be, ok := e.(*ast.BinaryExpr); ok && (be.Op == token.ADD || be.Op == token.SUB) {
				a1, b1, k1, ok1 := lin(be.X, d+1)
				a2, b2, k2, ok2 := lin(be.Y, d+1)
				if !ok1 || !ok2 {
					return 0, 0, 0, false
				}
				if be.Op == token.SUB {
					return a1 - a2, b1 - b2, k1 - k2, true
				}
				return a1 + a2, b1 + b2, k1 + k2, true
			}
			if c, ok := e.(*ast.CallExpr); ok && len(c.Args) == 1 {
				if tv, isT := info.Types[c.Fun]; isT && tv.IsType() {
					return lin(c.Args[0], d+1)
				}
			}
			return 0, 0, 0, false
		}
		nOK, nRet := 0, 0
		for _, rn := range g.Returns() {
			// `return i.check(...)`: the answer of a method of the index is handed on
			var tail *core.Func
			if res := returnResults(rn); len(res) > 0 {
				if c, isCall := core.Unparen(res[len(res)-1]).(*ast.CallExpr); isCall {
					if sel, isSel := core.Unparen(c.Fun).(*ast.SelectorExpr); isSel && rv != nil && core.ObjOf(info, sel.X) == rv {
						if fo := core.Callee(info, c); fo != nil && p.ByObj[fo.Origin()] != nil {
							tail = p.ByObj[fo.Origin()]
						}
					}
				}
			}
			if tail == nil && (definitelyErrorReturn(g, fn, rn) || returnsFailure(fn, rn)) {
				continue
			}
			nRet++
			covered := tail != nil && coveredIn(tail, depth+1)
			for _, fc := range g.FactsAt(rn) {
				be, ok := core.Unparen(fc.Expr).(*ast.BinaryExpr)
				if !ok || fc.Tag != nil {
					continue
				}
				x, y, op := be.X, be.Y, be.Op
				if fieldOf(y) == "capacity" {
					x, y = y, x
					op = map[token.Token]token.Token{token.LSS: token.GTR, token.GTR: token.LSS, token.LEQ: token.GEQ, token.GEQ: token.LEQ}[op]
				}
				if fieldOf(x) != "capacity" {
					continue
				}
				ce, cs, k, okL := lin(y, 0)
				if !okL || ce != 1 || cs != -1 {
					continue
				}
				var atLeast int // capacity >= end - start + atLeast
				switch {
				case op == token.LSS && !fc.Truth, op == token.GEQ && fc.Truth:
					atLeast = k
				case op == token.LEQ && !fc.Truth, op == token.GTR && fc.Truth:
					atLeast = k + 1
				default:
					continue
				}
				if atLeast >= need {
					covered = true
				} else {
					weak = fmt.Sprintf("%s (implies capacity >= end-start%+d, the accessors need %+d)", core.ExprStr(be), atLeast, need)
				}
			}
			// ... or the test sits in a method of the index whose nil answer is required on the way here
			if !covered {
				for _, d := range g.Dominators(rn) {
					if d.Kind != core.KEdge || d.Ast == nil || covered {
						continue
					}
					ce, isE := d.Ast.(ast.Expr)
					if !isE {
						continue
					}
					x, isNil, isCmp := core.NilCompare(info, ce)
					if !isCmp || isNil != d.Truth {
						continue
					}
					eo := core.ObjOf(info, x)
					if eo == nil || !core.IsErrorType(eo.Type()) {
						continue
					}
					for _, dd := range g.Dominators(d) {
						as, isAs := dd.Ast.(*ast.AssignStmt)
						if dd.Kind != core.KStmt || !isAs || len(as.Rhs) != 1 || core.ObjOf(info, as.Lhs[len(as.Lhs)-1]) != eo {
							continue
						}
						c, isCall := core.Unparen(as.Rhs[0]).(*ast.CallExpr)
						if !isCall {
							continue
						}
						sel, isSel := core.Unparen(c.Fun).(*ast.SelectorExpr)
						if !isSel || rv == nil || core.ObjOf(info, sel.X) != rv {
							continue
						}
						if fo := core.Callee(info, c); fo != nil {
							if coveredIn(p.ByObj[fo.Origin()], depth+1) {
								covered = true
							}
						}
					}
				}
			}
			if covered {
				nOK++
			}
		}
		return nRet > 0 && nOK == nRet
	}
	good := coveredIn(dec, 0)
	why := "a decoded index is accepted without a test that its capacity covers the inclusive slot range start..end"
	if weak != "" {
		why = "the capacity test is too weak: " + weak
	}
	r.Check(good, rule, dec.Key+"#capacity-covers-slot-range", posP(r, dec.Pos()), "every accepted index has capacity >= end-start+1: Get and Set stay inside values for every slot they admit",
		why+": Get(end) on a crafted index indexes past the values and panics instead of returning an error")
}

// c14ComparatorsIndexTheSortedSlice (C14.R11): sort.Slice hands its comparator positions of the slice that is being sorted. A
// comparator that reads those positions from another slice - `sort.Slice(frames[1:], func(i, j) { frames[i] ... })`, a
// re-sliced or copied view - compares elements one place off (or of other data altogether) and the order that comes out
// depends on how the input happened to be arranged. Every index expression of a sort comparator in the frame code whose index
// is one of the comparator's parameters must index exactly the sorted slice.
func c14ComparatorsIndexTheSortedSlice(r *core.Report) {
	const rule = "C14.R11"
	p := r.Prog
	n := 0
	for _, pk := range []string{"tooling", "main"} {
		for _, f := range p.FuncsInPkg(pk) {
			if f.Body == nil || f.Lit != nil || strings.HasSuffix(p.FileOf(f.Pos()), "_test.go") {
				continue
			}
			info := f.Pkg.TypesInfo
			for _, fn := range f.AllWithLits() {
				for _, c := range core.CallsIn(fn.Body, false) {
					nm := core.CalleeName(info, c)
					if nm != "sort.Slice" && nm != "sort.SliceStable" || len(c.Args) != 2 {
						continue
					}
					lit, ok := core.Unparen(c.Args[1]).(*ast.FuncLit)
					if !ok || lit.Type.Params == nil {
						continue
					}
					var params []types.Object
					for _, fl := range lit.Type.Params.List {
						for _, nmI := range fl.Names {
							params = append(params, info.Defs[nmI])
						}
					}
					if len(params) != 2 {
						continue
					}
					if t := info.TypeOf(c.Args[0]); t == nil || !strings.Contains(t.String(), "DataFrame") {
						continue // only the sorts of frame lists belong to this property
					}
					n++
					sorted := core.ExprStr(core.Unparen(c.Args[0]))
					bad := ""
					ast.Inspect(lit.Body, func(m ast.Node) bool {
						ix, ok := m.(*ast.IndexExpr)
						if !ok {
							return true
						}
						io := core.ObjOf(info, ix.Index)
						if io == nil || (io != params[0] && io != params[1]) {
							return true
						}
						if t := info.TypeOf(ix.X); t != nil {
							if _, isMap := t.Underlying().(*types.Map); isMap {
								return true
							}
						}
						if core.ExprStr(core.Unparen(ix.X)) != sorted {
							bad = core.ExprStr(ix)
						}
						return true
					})
					r.Check(bad == "", rule, fmt.Sprintf("%s#sort(%s)-comparator-indexes-the-sorted-slice", fn.Key, core.KeyStr(fn, c.Args[0])), pos(r, c),
						"the comparator reads the positions it is given from the slice being sorted",
						"the comparator of sort.Slice("+sorted+", ...) reads "+bad+": the positions it is given refer to "+sorted+", so it compares other elements than the ones being ordered - frames fetched in another order are concatenated out of order")
				}
			}
		}
	}
	if n == 0 {
		r.Note("C14.R11: no sort.Slice over a frame list with a literal comparator (element comparators cannot index another slice); C14.R2 requires the ordering itself")
	}
}

// c01BlockTimesDecodedUnsigned (C01.R13): the block-time index stores each time as an unsigned 32-bit value (the writer
// narrows with uint32 under a range guard, C01.R7). The loader must widen what it reads as unsigned: every value stored into
// Index.values by the decoder is a conversion of an unsigned integer expression. A signed 32-bit intermediate ([]int32 bulk
// decode, int32(...)) turns every time from 2^31 on (2038-01-19) into a negative number.
func c01BlockTimesDecodedUnsigned(r *core.Report) {
	const rule = "C01.R13"
	dec := r.Anchor(rule, "blocktimeindex.(*Index).unmarshalBinary")
	if dec == nil {
		return
	}
	info := dec.Pkg.TypesInfo
	n := 0
	// the decoder and the methods of the package it delegates to (the loop over the values may live in a helper)
	var bodies []ast.Node
	for _, fn := range pkgScope(r.Prog, dec, 2) {
		if fn.Body != nil && fn.Lit == nil {
			bodies = append(bodies, fn.Body)
		}
	}
	scan := func(visit func(m ast.Node) bool) {
		for _, b := range bodies {
			ast.Inspect(b, visit)
		}
	}
	scan(func(m ast.Node) bool {
		as, ok := m.(*ast.AssignStmt)
		if !ok || len(as.Lhs) != 1 || len(as.Rhs) != 1 {
			return true
		}
		ix, ok := core.Unparen(as.Lhs[0]).(*ast.IndexExpr)
		if !ok {
			return true
		}
		if sel, ok := core.Unparen(ix.X).(*ast.SelectorExpr); !ok || sel.Sel.Name != "values" {
			return true
		}
		n++
		// strip conversions down to the first expression that is not a conversion; every step must be unsigned except the outermost
		e := core.Unparen(as.Rhs[0])
		signedStep := ""
		first := true
		for {
			c, isCall := e.(*ast.CallExpr)
			if !isCall || len(c.Args) != 1 {
				break
			}
			tv, isT := info.Types[c.Fun]
			if !isT || !tv.IsType() {
				break
			}
			if !first {
				if b, ok := tv.Type.Underlying().(*types.Basic); ok && b.Info()&types.IsInteger != 0 && b.Info()&types.IsUnsigned == 0 {
					signedStep = core.ExprStr(e)
				}
			}
			first = false
			e = core.Unparen(c.Args[0])
		}
		src := info.TypeOf(e)
		unsignedSrc := false
		if src != nil {
			if b, ok := src.Underlying().(*types.Basic); ok && b.Info()&types.IsUnsigned != 0 {
				unsignedSrc = true
			}
		}
		r.Check(unsignedSrc && signedStep == "", rule, fmt.Sprintf("%s#values-store@%d-widened-unsigned", dec.Key, n), pos(r, as),
			"the stored block time is widened from an unsigned value, as written",
			fmt.Sprintf("the block time read back is widened from %s of type %v: times stored as unsigned 32-bit values from 2^31 on (2038-01-19) resolve to negative numbers although index generation reported success", core.ExprStr(e), src))
		return true
	})
	if n == 0 {
		r.Undecided(rule, dec.Key+"#values-store", posP(r, dec.Pos()), "no store into Index.values found in the decoder")
	}
}

// rankSizeTestHolds: at the node of `at` in f a comparison of a length with rankListSize is known that says the rank holds
// more than its list size.
func rankSizeTestHolds(p *core.Prog, f *core.Func, at ast.Node) bool {
	g := p.Graph(f)
	nd := g.NodeOf(at.Pos())
	if nd == nil {
		return false
	}
	for _, fc := range g.FactsAt(nd) {
		be, ok := core.Unparen(fc.Expr).(*ast.BinaryExpr)
		if !ok || fc.Tag != nil {
			continue
		}
		if strings.Contains(core.ExprStr(be), "rankListSize") && strings.Contains(core.ExprStr(be), "len(") {
			switch {
			case be.Op == token.LEQ && !fc.Truth, be.Op == token.GTR && fc.Truth, be.Op == token.LSS && !fc.Truth, be.Op == token.GEQ && fc.Truth:
				return true
			}
		}
	}
	return false
}
