package rules

import (
	"fmt"
	"go/ast"
	"go/constant"
	"go/token"
	"go/types"
	"strings"

	"yfverif/checker/internal/core"
)

// boundsSite is one index or slice expression that can panic when out of range.
type boundsSite struct {
	Fn     *core.Func
	Expr   ast.Expr // *ast.IndexExpr or *ast.SliceExpr
	Base   ast.Expr
	Kind   string // "index" | "slice"
	OK     bool
	Reason string
}

func (s boundsSite) key() string {
	return fmt.Sprintf("%s#%s", s.Fn.Key, core.KeyStr(s.Fn, s.Expr))
}

// lenFact describes what a fact says about len(x): len(x) OP c holds.
type lenFact struct {
	base string // printed base expression
	min  int64  // known: len >= min
}

// minLenFromFacts returns the largest lower bound on len(base) implied by the fresh facts dominating n.
func minLenFromFacts(g *core.Graph, info *types.Info, n *core.GNode, base ast.Expr) int64 {
	want := core.ExprStr(base)
	var best int64
	consider := func(f core.Fact) {
		if f.Tag != nil || f.Unless != nil {
			return
		}
		be, ok := core.Unparen(f.Expr).(*ast.BinaryExpr)
		if !ok {
			return
		}
		isLen := func(e ast.Expr) bool {
			c, ok := core.Unparen(e).(*ast.CallExpr)
			if ok && core.BuiltinName(info, c) == "len" && len(c.Args) == 1 && core.ExprStr(c.Args[0]) == want {
				return true
			}
			// a local assigned once from len(base): count := len(xs); switch count { case 0: ... }
			if id, isId := core.Unparen(e).(*ast.Ident); isId && g.Fn != nil {
				if v, isV := info.Uses[id].(*types.Var); isV && !v.IsField() && !isParamOf(g.Fn.Root(), v) {
					if d := singleDef(g.Fn.Root(), v); d != nil {
						dc, isCall := core.Unparen(d).(*ast.CallExpr)
						return isCall && core.BuiltinName(info, dc) == "len" && len(dc.Args) == 1 && core.ExprStr(dc.Args[0]) == want
					}
				}
			}
			return false
		}
		var cexpr ast.Expr
		op := be.Op
		switch {
		case isLen(be.X):
			cexpr = be.Y
		case isLen(be.Y):
			cexpr = be.X
			op = map[token.Token]token.Token{token.LSS: token.GTR, token.GTR: token.LSS, token.LEQ: token.GEQ, token.GEQ: token.LEQ, token.EQL: token.EQL, token.NEQ: token.NEQ}[op]
		default:
			return
		}
		c, isConst := core.ConstInt(info, cexpr)
		if !isConst {
			// a parameter of a helper whose call site passes a constant (positionalParams(raw, 1)), never assigned in the helper
			if id, isId := core.Unparen(cexpr).(*ast.Ident); isId {
				if v, has := minLenParamConst[info.Uses[id]]; has {
					c, isConst = v, true
				}
			}
		}
		if !isConst {
			return
		}
		// normalise to a statement about len: len OP c is `truth`
		var lo int64 = -1
		switch op {
		case token.GTR: // len > c
			if f.Truth {
				lo = c + 1
			}
		case token.GEQ:
			if f.Truth {
				lo = c
			}
		case token.EQL:
			if f.Truth {
				lo = c
			} else if c == 0 {
				lo = 1
			}
		case token.NEQ:
			if !f.Truth {
				lo = c
			} else if c == 0 {
				lo = 1
			}
		case token.LSS: // len < c false => len >= c
			if !f.Truth {
				lo = c
			}
		case token.LEQ:
			if !f.Truth {
				lo = c + 1
			}
		}
		if lo > best && g.FactFresh(f, n) {
			best = lo
		}
	}
	for _, f := range g.FactsAtPos(n, base.Pos(), base.End()) {
		consider(f)
	}
	// relational facts: len(base) compared with a linear expression whose lower bound is known
	stripConv := func(e ast.Expr) ast.Expr {
		for {
			e = core.Unparen(e)
			c, ok := e.(*ast.CallExpr)
			if !ok || len(c.Args) != 1 {
				return e
			}
			if tv, ok := info.Types[c.Fun]; ok && tv.IsType() {
				e = c.Args[0]
				continue
			}
			return e
		}
	}
	isLenOfBase := func(e ast.Expr) bool {
		c, ok := stripConv(e).(*ast.CallExpr)
		return ok && core.BuiltinName(info, c) == "len" && len(c.Args) == 1 && core.ExprStr(c.Args[0]) == want
	}
	for _, f := range g.FactsAtPos(n, base.Pos(), base.End()) {
		if f.Tag != nil || f.Unless != nil {
			continue
		}
		be, ok := core.Unparen(f.Expr).(*ast.BinaryExpr)
		if !ok {
			continue
		}
		var other ast.Expr
		op := be.Op
		switch {
		case isLenOfBase(be.X):
			other = be.Y
		case isLenOfBase(be.Y):
			other = be.X
			op = map[token.Token]token.Token{token.LSS: token.GTR, token.GTR: token.LSS, token.LEQ: token.GEQ, token.GEQ: token.LEQ, token.EQL: token.EQL, token.NEQ: token.NEQ}[op]
		default:
			continue
		}
		if _, isConst := core.ConstInt(info, other); isConst {
			continue // handled above
		}
		// len OP other
		var add int64 = -1
		switch {
		case op == token.GEQ && f.Truth, op == token.LSS && !f.Truth, op == token.EQL && f.Truth:
			add = 0
		case op == token.GTR && f.Truth, op == token.LEQ && !f.Truth:
			add = 1
		}
		if add < 0 || !g.FactFresh(f, n) {
			continue
		}
		lb := lowerBoundExpr(g, info, n, other, 0)
		if lb >= 0 && lb+add > best {
			best = lb + add
		}
	}
	// switch len(base) { case 0: ...; case 1: ... }: on the way past the cases the excluded lengths are known, inside
	// `case c:` the length is c
	{
		excluded := map[int64]bool{}
		for _, fc := range g.FactsAt(n) {
			if fc.Tag == nil {
				continue
			}
			tc, ok := core.Unparen(fc.Tag).(*ast.CallExpr)
			if !ok || core.BuiltinName(info, tc) != "len" || len(tc.Args) != 1 || core.ExprStr(tc.Args[0]) != want || !g.FactFresh(fc, n) {
				continue
			}
			c, isC := core.ConstInt(info, fc.Expr)
			if !isC {
				continue
			}
			if fc.Truth {
				if c > best {
					best = c
				}
			} else {
				excluded[c] = true
			}
		}
		if len(excluded) > 0 {
			m := int64(0)
			for excluded[m] {
				m++
			}
			if m > best {
				best = m
			}
		}
	}
	// the length check made by a helper:  if err := checkFraming(buf); err != nil { return }  - on the err == nil side the
	// buffer is at least as long as the helper guarantees on every one of its success returns
	if g.Prog != nil && minLenDepth < 2 {
		for _, fc := range g.FactsAt(n) {
			x, isNil, isCmp := core.NilCompare(info, fc.Expr)
			if !isCmp || isNil != fc.Truth || fc.Edge == nil || fc.Tag != nil {
				continue
			}
			eo := core.ObjOf(info, x)
			if eo == nil || !core.IsErrorType(eo.Type()) {
				continue
			}
			for _, dn := range g.Nodes {
				if dn.Kind != core.KStmt {
					continue
				}
				as, isAs := dn.Ast.(*ast.AssignStmt)
				if !isAs || len(as.Rhs) != 1 || core.ObjOf(info, as.Lhs[len(as.Lhs)-1]) != eo || !g.Dominates(dn, fc.Edge) {
					continue
				}
				stale := false
				for _, m := range g.Nodes {
					if m.Kind == core.KStmt && m != dn && g.Dominates(dn, m) && g.Dominates(m, fc.Edge) && core.AssignsObj(info, m.Ast, eo) {
						stale = true
					}
				}
				c, isCall := core.Unparen(as.Rhs[0]).(*ast.CallExpr)
				if stale || !isCall {
					continue
				}
				fo := core.Callee(info, c)
				if fo == nil {
					continue
				}
				h := g.Prog.ByObj[fo.Origin()]
				if h == nil || h.Body == nil {
					continue
				}
				// the buffer must not be re-sliced between the call and n
				if bo := core.ObjOf(info, base); bo != nil {
					re := false
					for _, m := range g.Nodes {
						if m.Kind == core.KStmt && m != dn && g.Dominates(dn, m) && g.Dominates(m, n) && core.AssignsObj(info, m.Ast, bo) {
							re = true
						}
					}
					if re {
						continue
					}
				}
				// the buffer is a result of the helper: it is at least as long as what every success return of the helper
				// returns there (data, err := stripPrefix(record); if err != nil { return }; data[len(data)-9:])
				if bo := core.ObjOf(info, base); bo != nil {
					for li, l := range as.Lhs {
						if core.ObjOf(info, l) != bo || li == len(as.Lhs)-1 {
							continue
						}
						hg := g.Prog.Graph(h)
						hmin, nret := int64(-1), 0
						minLenDepth++
						saved := minLenParamConst
						minLenParamConst = map[types.Object]int64{}
						for ai, a := range c.Args {
							if v, isC := core.ConstInt(info, a); isC {
								if po := h.ParamObj(ai); po != nil && !core.AssignsObj(h.Pkg.TypesInfo, h.Body, po) {
									minLenParamConst[po] = v
								}
							}
						}
						for _, hr := range hg.Returns() {
							if definitelyErrorReturn(hg, h, hr) {
								continue
							}
							res := returnResults(hr)
							if li >= len(res) {
								hmin = 0
								continue
							}
							nret++
							m := int64(0)
							if _, isId := core.Unparen(res[li]).(*ast.Ident); isId {
								m = minLenFromFacts(hg, h.Pkg.TypesInfo, hr, res[li])
							}
							if hmin < 0 || m < hmin {
								hmin = m
							}
						}
						minLenParamConst = saved
						minLenDepth--
						if nret > 0 && hmin > best {
							best = hmin
						}
					}
				}
				for ai, a := range c.Args {
					po := h.ParamObj(ai)
					if po == nil || core.ExprStr(a) != want {
						continue
					}
					hg := g.Prog.Graph(h)
					hmin, nret := int64(-1), 0
					minLenDepth++
					for _, hr := range hg.Returns() {
						if definitelyErrorReturn(hg, h, hr) {
							continue
						}
						nret++
						m := minLenFromFacts(hg, h.Pkg.TypesInfo, hr, ast.NewIdent(po.Name()))
						if hmin < 0 || m < hmin {
							hmin = m
						}
					}
					minLenDepth--
					if nret > 0 && hmin > best {
						best = hmin
					}
				}
			}
		}
	}
	return best
}

var minLenDepth = 0

// minLenParamConst: while the success returns of a helper are examined for one call site, the constant arguments of that call
var minLenParamConst map[types.Object]int64

// lowerBoundExpr returns a lower bound (>= 0) of the integer expression e at node n, derived from constants,
// sums, widening conversions, len() of guarded buffers and dominating comparisons of variables with
// constants; -1 when nothing is known (signed values that may be negative).
func lowerBoundExpr(g *core.Graph, info *types.Info, n *core.GNode, e ast.Expr, depth int) int64 {
	if depth > 6 {
		return -1
	}
	e = core.Unparen(e)
	if c, ok := core.ConstInt(info, e); ok {
		return c
	}
	switch x := e.(type) {
	case *ast.CallExpr:
		if tv, ok := info.Types[x.Fun]; ok && tv.IsType() && len(x.Args) == 1 {
			return lowerBoundExpr(g, info, n, x.Args[0], depth+1)
		}
		if core.BuiltinName(info, x) == "len" && len(x.Args) == 1 {
			return 0
		}
		return unsignedZero(info, e)
	case *ast.BinaryExpr:
		if x.Op == token.ADD {
			a, b := lowerBoundExpr(g, info, n, x.X, depth+1), lowerBoundExpr(g, info, n, x.Y, depth+1)
			if a >= 0 && b >= 0 {
				return a + b
			}
			return -1
		}
		if x.Op == token.MUL {
			a, b := lowerBoundExpr(g, info, n, x.X, depth+1), lowerBoundExpr(g, info, n, x.Y, depth+1)
			if a >= 0 && b >= 0 {
				return a * b
			}
			return -1
		}
		return unsignedZero(info, e)
	}
	// variable / field: look for dominating comparisons with constants
	best := unsignedZero(info, e)
	want := core.ExprStr(e)
	for _, f := range g.FactsAt(n) {
		if f.Tag != nil || f.Unless != nil {
			continue
		}
		be, ok := core.Unparen(f.Expr).(*ast.BinaryExpr)
		if !ok {
			continue
		}
		op := be.Op
		var cexpr ast.Expr
		switch {
		case core.ExprStr(core.Unparen(be.X)) == want:
			cexpr = be.Y
		case core.ExprStr(core.Unparen(be.Y)) == want:
			cexpr = be.X
			op = map[token.Token]token.Token{token.LSS: token.GTR, token.GTR: token.LSS, token.LEQ: token.GEQ, token.GEQ: token.LEQ, token.EQL: token.EQL, token.NEQ: token.NEQ}[op]
		default:
			continue
		}
		c, isConst := core.ConstInt(info, cexpr)
		if !isConst {
			continue
		}
		var lo int64 = -1
		switch {
		case op == token.GEQ && f.Truth, op == token.LSS && !f.Truth, op == token.EQL && f.Truth:
			lo = c
		case op == token.GTR && f.Truth, op == token.LEQ && !f.Truth:
			lo = c + 1
		}
		if lo > best && g.FactFresh(f, n) {
			best = lo
		}
	}
	return best
}

func unsignedZero(info *types.Info, e ast.Expr) int64 {
	if bt, ok := info.TypeOf(e).Underlying().(*types.Basic); ok && bt.Info()&types.IsUnsigned != 0 {
		return 0
	}
	return -1
}

// indexBelowLen: a fresh dominating fact states idx < len(base) (or len(base) > idx, idx <= len(base)-1 ...).
func indexBelowLen(g *core.Graph, info *types.Info, n *core.GNode, base, idx ast.Expr, slack int64) bool {
	wb, wi := core.ExprStr(base), core.ExprStr(idx)
	for _, f := range g.FactsAtPos(n, base.Pos(), base.End()) {
		if f.Tag != nil || f.Unless != nil {
			continue
		}
		be, ok := core.Unparen(f.Expr).(*ast.BinaryExpr)
		if !ok {
			continue
		}
		isLen := func(e ast.Expr) bool {
			c, ok := core.Unparen(e).(*ast.CallExpr)
			return ok && core.BuiltinName(info, c) == "len" && len(c.Args) == 1 && core.ExprStr(c.Args[0]) == wb
		}
		x, y, op := be.X, be.Y, be.Op
		if isLen(x) { // len OP idx  -> idx OP' len
			x, y = y, x
			op = map[token.Token]token.Token{token.LSS: token.GTR, token.GTR: token.LSS, token.LEQ: token.GEQ, token.GEQ: token.LEQ, token.EQL: token.EQL, token.NEQ: token.NEQ}[op]
		}
		if !isLen(y) || core.ExprStr(x) != wi {
			continue
		}
		// idx OP len(base)
		holds := (op == token.LSS && f.Truth) || (op == token.GEQ && !f.Truth)
		if slack > 0 {
			// idx+slack <= len needed (slice upper bound): idx <= len is enough when slack==0 handled by caller
			holds = false
		}
		if holds && g.FactFresh(f, n) {
			return true
		}
	}
	return false
}

// analyzeBounds lists the index and slice sites of f (not nested literals) with a discharge verdict.
func analyzeBounds(p *core.Prog, f *core.Func) []boundsSite {
	if f.Body == nil {
		return nil
	}
	info := f.Pkg.TypesInfo
	g := p.Graph(f)
	var sites []boundsSite
	// range loops: key var -> ranged expression text
	rangeKey := map[types.Object]*ast.RangeStmt{}
	forLoops := []*ast.ForStmt{}
	ast.Inspect(f.Body, func(n ast.Node) bool {
		switch s := n.(type) {
		case *ast.FuncLit:
			return false
		case *ast.RangeStmt:
			if s.Key != nil {
				if o := core.ObjOf(info, s.Key); o != nil {
					rangeKey[o] = s
				}
			}
		case *ast.ForStmt:
			forLoops = append(forLoops, s)
		}
		return true
	})
	// lengths known from make/composite literals: var -> min len
	madeLen := map[types.Object]int64{}
	madeLenExpr := map[types.Object]string{}
	ast.Inspect(f.Body, func(n ast.Node) bool {
		if _, ok := n.(*ast.FuncLit); ok {
			return false
		}
		as, ok := n.(*ast.AssignStmt)
		if !ok || len(as.Lhs) != len(as.Rhs) {
			if vs, ok := n.(*ast.ValueSpec); ok && vs.Type != nil && len(vs.Values) == 0 {
				for _, nm := range vs.Names {
					if at, ok := info.TypeOf(vs.Type).Underlying().(*types.Array); ok {
						madeLen[info.Defs[nm]] = at.Len()
					}
				}
			}
			return true
		}
		for i, l := range as.Lhs {
			o := core.ObjOf(info, l)
			if o == nil {
				continue
			}
			switch r := core.Unparen(as.Rhs[i]).(type) {
			case *ast.CallExpr:
				if core.BuiltinName(info, r) == "make" && len(r.Args) >= 2 {
					if c, ok := core.ConstInt(info, r.Args[1]); ok {
						if old, seen := madeLen[o]; !seen || c < old {
							madeLen[o] = c
						}
					} else {
						madeLenExpr[o] = core.ExprStr(r.Args[1])
						if _, seen := madeLen[o]; !seen {
							madeLen[o] = 0
						}
					}
				} else {
					delete(madeLenExpr, o)
					madeLen[o] = -1 // other assignment: unknown
				}
			case *ast.CompositeLit:
				if _, isSl := info.TypeOf(r).Underlying().(*types.Slice); isSl {
					madeLen[o] = int64(len(r.Elts))
				}
			default:
				if _, seen := madeLen[o]; seen {
					madeLen[o] = -1
				}
			}
		}
		return true
	})
	staticLen := func(base ast.Expr) (int64, bool) {
		t := info.TypeOf(base)
		if t == nil {
			return 0, false
		}
		if at, ok := t.Underlying().(*types.Array); ok {
			return at.Len(), true
		}
		if pt, ok := t.Underlying().(*types.Pointer); ok {
			if at, ok := pt.Elem().Underlying().(*types.Array); ok {
				return at.Len(), true
			}
		}
		if tv, ok := info.Types[base]; ok && tv.Value != nil && tv.Value.Kind() == constant.String {
			return int64(len(constant.StringVal(tv.Value))), true
		}
		if o := core.ObjOf(info, base); o != nil {
			if l, ok := madeLen[o]; ok && l >= 0 {
				return l, false // lower bound only (len of a slice made here); treated as min length
			}
		}
		return 0, false
	}
	var minLenD func(n *core.GNode, base ast.Expr, depth int) int64
	minLenD = func(n *core.GNode, base ast.Expr, depth int) int64 {
		var m int64
		if l, _ := staticLen(base); l > m {
			m = l
		}
		if n != nil {
			if l := minLenFromFacts(g, info, n, base); l > m {
				m = l
			}
		}
		// a local assigned once from a sub-slice: rest := buf[12:] has len(buf)-12 bytes, fixed := buf[12:24] has 12 (the
		// slice expression itself is a site of its own; given it succeeded, the length follows)
		if id, ok := core.Unparen(base).(*ast.Ident); ok && depth < 3 {
			if v, isVar := info.Uses[id].(*types.Var); isVar && !v.IsField() && !isParamOf(f, v) {
				if d := singleDef(f, v); d != nil {
					if se, isSe := core.Unparen(d).(*ast.SliceExpr); isSe && !se.Slice3 {
						lo, okLo := int64(0), true
						if se.Low != nil {
							lo, okLo = core.ConstInt(info, se.Low)
						}
						if okLo && lo >= 0 {
							if se.High != nil {
								if hi, okHi := core.ConstInt(info, se.High); okHi && hi-lo > m {
									m = hi - lo
								}
							} else if dn := g.NodeOf(se.Pos()); dn != nil {
								// the source must not be re-sliced (it keeps its length facts only while it is not reassigned)
								if l := minLenD(dn, se.X, depth+1) - lo; l > m {
									m = l
								}
							}
						}
					}
				}
			}
		}
		return m
	}
	minLen := func(n *core.GNode, base ast.Expr) int64 { return minLenD(n, base, 0) }
	// lenMinus: expression is len(base) - k
	var lenMinus func(e ast.Expr, base ast.Expr) (int64, bool)
	lenMinus = func(e ast.Expr, base ast.Expr) (int64, bool) {
		e = core.Unparen(e)
		// a local assigned once from len(base) - k (the slice itself is not re-sliced in between: it is assigned once too)
		if id, ok := e.(*ast.Ident); ok {
			if o, isV := info.ObjectOf(id).(*types.Var); isV && !o.IsField() {
				if d := singleDef(f, o); d != nil {
					if bo := core.ObjOf(info, base); bo != nil {
						if _, isId := core.Unparen(base).(*ast.Ident); isId && (singleDef(f, bo) != nil || isParamOf(f, bo)) {
							return lenMinus(d, base)
						}
					}
				}
			}
			return 0, false
		}
		if c, ok := e.(*ast.CallExpr); ok && core.BuiltinName(info, c) == "len" && len(c.Args) == 1 && core.ExprStr(c.Args[0]) == core.ExprStr(base) {
			return 0, true
		}
		if be, ok := e.(*ast.BinaryExpr); ok && be.Op == token.SUB {
			if c, ok := core.Unparen(be.X).(*ast.CallExpr); ok && core.BuiltinName(info, c) == "len" && len(c.Args) == 1 && core.ExprStr(c.Args[0]) == core.ExprStr(base) {
				if k, ok := core.ConstInt(info, be.Y); ok {
					return k, true
				}
			}
			// count - 1 with count := len(base)
			if _, isId := core.Unparen(be.X).(*ast.Ident); isId {
				if k0, ok := lenMinus(be.X, base); ok {
					if k, ok := core.ConstInt(info, be.Y); ok && k >= 0 {
						return k0 + k, true
					}
				}
			}
		}
		return 0, false
	}
	checkIndex := func(n *core.GNode, base, idx ast.Expr) (bool, string) {
		if k, ok := core.ConstInt(info, idx); ok {
			if k < 0 {
				return false, "negative constant index"
			}
			if minLen(n, base) > k {
				return true, fmt.Sprintf("len(%s) > %d is known here", core.ExprStr(base), k)
			}
			return false, fmt.Sprintf("constant index %d without a dominating guard len(%s) > %d", k, core.ExprStr(base), k)
		}
		if k, ok := lenMinus(idx, base); ok {
			if k >= 1 && minLen(n, base) >= k {
				return true, fmt.Sprintf("len(%s) >= %d is known here", core.ExprStr(base), k)
			}
			return false, fmt.Sprintf("index len(%s)-%d without a dominating guard len >= %d", core.ExprStr(base), k, max64(k, 1))
		}
		if o := core.ObjOf(info, idx); o != nil {
			// the index was found by a search helper over this very slice: i := x.indexOf(key); if i < 0 { return }; x.S[i]
			if ok, why := indexFromSearchHelper(p, f, g, n, base, o); ok {
				return true, why
			}
			if rs, ok := rangeKey[o]; ok && rs.Body.Pos() <= idx.Pos() && idx.End() <= rs.Body.End() {
				if core.ExprStr(rs.X) == core.ExprStr(base) {
					return true, "index is the key of a range over the same slice"
				}
				// range over n (int) or over another slice of the same made length
				if bo := core.ObjOf(info, base); bo != nil {
					if le, ok := madeLenExpr[bo]; ok && (le == "len("+core.ExprStr(rs.X)+")" || le == core.ExprStr(rs.X)) {
						return true, "index ranges over the length the slice was made with"
					}
				}
			}
			// classic for loop: for i := ...; i < len(base); i++
			for _, fl := range forLoops {
				if fl.Body.Pos() <= idx.Pos() && idx.End() <= fl.Body.End() && fl.Cond != nil {
					for _, fc := range core.DecomposeCond(fl.Cond, true) {
						if be, ok := core.Unparen(fc.Expr).(*ast.BinaryExpr); ok && fc.Truth {
							bound, op, isCmp := orientCmp(info, be, o)
							if !isCmp || op != token.LSS {
								continue
							}
							if k, ok := lenMinus(bound, base); ok && k >= 0 {
								return true, "loop condition bounds the index by len"
							}
							if bo := core.ObjOf(info, base); bo != nil {
								if le, ok := madeLenExpr[bo]; ok && le == core.ExprStr(bound) {
									return true, "loop condition bounds the index by the length the slice was made with"
								}
							}
						}
					}
				}
			}
		}
		if n != nil && indexBelowLen(g, info, n, base, idx, 0) {
			return true, "a dominating comparison bounds the index by len"
		}
		if inSortComparator(p, f, base, idx) {
			return true, "index is a parameter of the sort.Slice comparator of this very slice"
		}
		if l, exact := staticLen(base); exact {
			if o := core.ObjOf(info, idx); o != nil {
				for _, fl := range forLoops {
					if fl.Body.Pos() <= idx.Pos() && idx.End() <= fl.Body.End() && fl.Cond != nil {
						if be, ok := core.Unparen(fl.Cond).(*ast.BinaryExpr); ok {
							if bound, op, isCmp := orientCmp(info, be, o); isCmp {
								if c, ok := core.ConstInt(info, bound); ok && ((op == token.LSS && c <= l) || (op == token.LEQ && c < l)) {
									return true, "loop condition bounds the index below the array length"
								}
							}
						}
					}
				}
			}
		}
		// idx % len(base), idx & const mask on arrays
		if be, ok := core.Unparen(idx).(*ast.BinaryExpr); ok {
			if be.Op == token.REM {
				if k, ok := lenMinus(be.Y, base); ok && k == 0 {
					return true, "index reduced modulo len"
				}
				if c, ok := core.ConstInt(info, be.Y); ok {
					if l, exact := staticLen(base); exact && c <= l {
						return true, "index reduced modulo a constant not above the array length"
					}
				}
			}
			if be.Op == token.AND {
				if c, ok := core.ConstInt(info, be.Y); ok {
					if l, exact := staticLen(base); exact && c < l {
						return true, "index masked below the array length"
					}
				}
			}
		}
		// small integer types indexing big arrays (uint8 into [256]T, uint16 into [65536]T)
		if l, exact := staticLen(base); exact {
			if bt, ok := info.TypeOf(idx).Underlying().(*types.Basic); ok {
				switch bt.Kind() {
				case types.Uint8:
					if l >= 256 {
						return true, "uint8 index into an array of >= 256 elements"
					}
				case types.Uint16:
					if l >= 65536 {
						return true, "uint16 index into an array of >= 65536 elements"
					}
				}
			}
		}
		return false, "index " + core.ExprStr(idx) + " is not bounded by a dominating guard on len(" + core.ExprStr(base) + ")"
	}
	ast.Inspect(f.Body, func(m ast.Node) bool {
		switch x := m.(type) {
		case *ast.FuncLit:
			return false
		case *ast.IndexExpr:
			t := info.TypeOf(x.X)
			if t == nil {
				return true
			}
			if tv, ok := info.Types[x.X]; ok && tv.IsType() {
				return true // generic instantiation
			}
			if _, isSig := t.Underlying().(*types.Signature); isSig {
				return true
			}
			switch t.Underlying().(type) {
			case *types.Map, *types.TypeParam:
				return true
			}
			if pt, ok := t.Underlying().(*types.Pointer); ok {
				if _, isArr := pt.Elem().Underlying().(*types.Array); !isArr {
					return true
				}
			}
			n := g.NodeOf(x.Pos())
			ok, why := checkIndex(n, core.Unparen(x.X), x.Index)
			sites = append(sites, boundsSite{Fn: f, Expr: x, Base: x.X, Kind: "index", OK: ok, Reason: why})
		case *ast.SliceExpr:
			t := info.TypeOf(x.X)
			if t == nil {
				return true
			}
			n := g.NodeOf(x.Pos())
			base := core.Unparen(x.X)
			ok, why := true, "bounds are constants within the known length"
			check := func(e ast.Expr, isHigh bool) {
				if e == nil || !ok {
					return
				}
				if k, isC := core.ConstInt(info, e); isC {
					if k == 0 {
						return
					}
					if minLen(n, base) >= k {
						return
					}
					ok, why = false, fmt.Sprintf("slice bound %d without a dominating guard len(%s) >= %d", k, core.ExprStr(base), k)
					return
				}
				if k, isL := lenMinus(e, base); isL {
					if k == 0 || minLen(n, base) >= k {
						return
					}
					ok, why = false, fmt.Sprintf("slice bound len(%s)-%d without a dominating guard len >= %d", core.ExprStr(base), k, k)
					return
				}
				// variable bound: idx <= len needed; accept idx < len facts and `n` results of copy/Read into the same buffer
				if n != nil && (indexBelowLen(g, info, n, base, e, 0) || leqLen(g, info, n, base, e)) {
					return
				}
				if countOfSameBuffer(f, base, e) {
					// binary.Uvarint / Varint report a failure with a count <= 0 (negative on overflow): the count may be used
					// as a bound only where it is known positive
					if !varintCount(f, e) || (n != nil && knownPositive(g, info, n, e)) {
						return
					}
					ok, why = false, "the byte count "+core.ExprStr(e)+" returned by binary.Uvarint can be negative (overlong varint) and is not known to be positive here"
					return
				}
				ok, why = false, "slice bound "+core.ExprStr(e)+" is not bounded by a dominating guard on len("+core.ExprStr(base)+")"
			}
			check(x.Low, false)
			check(x.High, true)
			check(x.Max, true)
			if x.Low == nil && x.High == nil {
				ok, why = true, "full slice"
			}
			sites = append(sites, boundsSite{Fn: f, Expr: x, Base: x.X, Kind: "slice", OK: ok, Reason: why})
		case *ast.CallExpr:
			// conversion of a slice to an array (or array pointer): panics when the slice is shorter than the array
			if len(x.Args) != 1 {
				return true
			}
			tv, isT := info.Types[x.Fun]
			if !isT || !tv.IsType() {
				return true
			}
			var at *types.Array
			switch u := tv.Type.Underlying().(type) {
			case *types.Array:
				at = u
			case *types.Pointer:
				at, _ = u.Elem().Underlying().(*types.Array)
			}
			if at == nil {
				return true
			}
			st := info.TypeOf(x.Args[0])
			if st == nil {
				return true
			}
			if _, isSl := st.Underlying().(*types.Slice); !isSl {
				return true
			}
			n := g.NodeOf(x.Pos())
			base := core.Unparen(x.Args[0])
			ok, why := true, fmt.Sprintf("len(%s) >= %d is known here", core.ExprStr(base), at.Len())
			have := minLen(n, base)
			// buf[a:b] with constant bounds has exactly b-a elements (the slice expression is a site of its own)
			if se, isSe := base.(*ast.SliceExpr); isSe && se.High != nil {
				if hi, okH := core.ConstInt(info, se.High); okH {
					var lo int64
					okL := se.Low == nil
					if se.Low != nil {
						lo, okL = core.ConstInt(info, se.Low)
					}
					if okL && hi-lo > have {
						have = hi - lo
					}
				}
			}
			if at.Len() > 0 && have < at.Len() {
				ok, why = false, fmt.Sprintf("conversion of the slice %s to an array of %d elements without a dominating guard len >= %d (a shorter slice panics)", core.ExprStr(base), at.Len(), at.Len())
			}
			sites = append(sites, boundsSite{Fn: f, Expr: x, Base: x.Args[0], Kind: "convert", OK: ok, Reason: why})
		}
		return true
	})
	return sites
}

func max64(a, b int64) int64 {
	if a > b {
		return a
	}
	return b
}

// leqLen: a fresh dominating fact states idx <= len(base) (or len(base) >= idx, idx > len false).
func leqLen(g *core.Graph, info *types.Info, n *core.GNode, base, idx ast.Expr) bool {
	wb, wi := core.ExprStr(base), core.ExprStr(idx)
	for _, f := range g.FactsAtPos(n, base.Pos(), base.End()) {
		if f.Tag != nil || f.Unless != nil {
			continue
		}
		be, ok := core.Unparen(f.Expr).(*ast.BinaryExpr)
		if !ok {
			continue
		}
		isLen := func(e ast.Expr) bool {
			c, ok := core.Unparen(e).(*ast.CallExpr)
			return ok && core.BuiltinName(info, c) == "len" && len(c.Args) == 1 && core.ExprStr(c.Args[0]) == wb
		}
		x, y, op := be.X, be.Y, be.Op
		if isLen(x) {
			x, y = y, x
			op = map[token.Token]token.Token{token.LSS: token.GTR, token.GTR: token.LSS, token.LEQ: token.GEQ, token.GEQ: token.LEQ, token.EQL: token.EQL, token.NEQ: token.NEQ}[op]
		}
		if !isLen(y) || !strings.Contains(core.ExprStr(x), wi) {
			continue
		}
		if core.ExprStr(x) != wi {
			continue
		}
		holds := (op == token.LEQ && f.Truth) || (op == token.LSS && f.Truth) || (op == token.GTR && !f.Truth) || (op == token.GEQ && !f.Truth) || (op == token.EQL && f.Truth)
		if holds && g.FactFresh(f, n) {
			return true
		}
	}
	return false
}

// inSortComparator: f is the comparator literal of sort.Slice(base, f) and idx is one of its parameters.
func inSortComparator(p *core.Prog, f *core.Func, base, idx ast.Expr) bool {
	if f.Lit == nil || f.Parent == nil {
		return false
	}
	info := f.Pkg.TypesInfo
	io := core.ObjOf(info, idx)
	if io == nil || (f.ParamObj(0) != io && f.ParamObj(1) != io) {
		return false
	}
	found := false
	ast.Inspect(f.Parent.Body, func(n ast.Node) bool {
		if c, ok := n.(*ast.CallExpr); ok && len(c.Args) == 2 && core.Unparen(c.Args[1]) == ast.Expr(f.Lit) {
			nm := core.CalleeName(info, c)
			if (nm == "sort.Slice" || nm == "sort.SliceStable") && core.ExprStr(c.Args[0]) == core.ExprStr(base) {
				found = true
			}
		}
		return !found
	})
	return found
}

// countOfSameBuffer: the bound variable is the byte count returned by decoding/reading the very buffer
// being sliced: n from binary.Uvarint(base)/binary.Varint(base) (n <= len(base) by contract; the caller
// tests n <= 0), or n from r.Read(base) / r.ReadAt(base, _) / io.ReadFull(r, base) / copy(base, _).
func countOfSameBuffer(f *core.Func, base, bound ast.Expr) bool {
	info := f.Pkg.TypesInfo
	bo := core.ObjOf(info, bound)
	if bo == nil {
		return false
	}
	want := core.ExprStr(base)
	ok := false
	bad := false
	ast.Inspect(f.Body, func(n ast.Node) bool {
		as, isAs := n.(*ast.AssignStmt)
		if !isAs || len(as.Rhs) != 1 {
			return true
		}
		idx := -1
		for i, l := range as.Lhs {
			if core.ObjOf(info, l) == bo {
				idx = i
			}
		}
		if idx < 0 {
			return true
		}
		c, isCall := core.Unparen(as.Rhs[0]).(*ast.CallExpr)
		if !isCall {
			bad = true
			return true
		}
		nm := core.CalleeName(info, c)
		switch {
		case (nm == "encoding/binary.Uvarint" || nm == "encoding/binary.Varint") && idx == 1 && len(c.Args) == 1 && core.ExprStr(c.Args[0]) == want:
			ok = true
		case (strings.HasSuffix(nm, ".Read") || strings.HasSuffix(nm, ".ReadAt")) && idx == 0 && len(c.Args) >= 1 && core.ExprStr(c.Args[0]) == want:
			ok = true
		case nm == "io.ReadFull" && idx == 0 && len(c.Args) == 2 && core.ExprStr(c.Args[1]) == want:
			ok = true
		case core.BuiltinName(info, c) == "copy" && idx == 0 && len(c.Args) == 2 && core.ExprStr(c.Args[0]) == want:
			ok = true
		case strings.HasSuffix(nm, "go-cid.CidFromReader") && idx == 0 && len(c.Args) == 1 && readerOver(info, c.Args[0], want):
			// the number of bytes a parser consumed from bytes.NewReader(base) cannot exceed len(base)
			ok = true
		default:
			bad = true
		}
		return true
	})
	return ok && !bad
}

// varintCount: the variable receives the byte count of binary.Uvarint / binary.Varint.
func varintCount(f *core.Func, bound ast.Expr) bool {
	info := f.Pkg.TypesInfo
	bo := core.ObjOf(info, bound)
	found := false
	ast.Inspect(f.Body, func(n ast.Node) bool {
		as, ok := n.(*ast.AssignStmt)
		if !ok || len(as.Rhs) != 1 || len(as.Lhs) != 2 || core.ObjOf(info, as.Lhs[1]) != bo {
			return true
		}
		if c, ok := core.Unparen(as.Rhs[0]).(*ast.CallExpr); ok {
			if nm := core.CalleeName(info, c); nm == "encoding/binary.Uvarint" || nm == "encoding/binary.Varint" {
				found = true
			}
		}
		return true
	})
	return found
}

// knownPositive: a fact at n says bound > 0 (bound <= 0 false, bound < 1 false, bound > 0 true, bound >= 1 true).
func knownPositive(g *core.Graph, info *types.Info, n *core.GNode, bound ast.Expr) bool {
	bo := core.ObjOf(info, bound)
	for _, fc := range g.FactsAt(n) {
		be, ok := core.Unparen(fc.Expr).(*ast.BinaryExpr)
		if !ok || fc.Tag != nil || core.ObjOf(info, be.X) != bo || !g.FactFresh(fc, n) {
			continue
		}
		c, isC := core.ConstInt(info, be.Y)
		if !isC {
			continue
		}
		op := be.Op
		if !fc.Truth {
			op = map[token.Token]token.Token{token.LSS: token.GEQ, token.GEQ: token.LSS, token.GTR: token.LEQ, token.LEQ: token.GTR, token.EQL: token.NEQ, token.NEQ: token.EQL}[be.Op]
		}
		switch {
		case op == token.GTR && c >= 0, op == token.GEQ && c >= 1:
			return true
		}
	}
	return false
}

func isParamOf(f *core.Func, o types.Object) bool {
	for i := 0; f.ParamObj(i) != nil; i++ {
		if types.Object(f.ParamObj(i)) == o {
			// a parameter that is never reassigned
			n := 0
			ast.Inspect(f.Body, func(m ast.Node) bool {
				if as, ok := m.(*ast.AssignStmt); ok {
					for _, l := range as.Lhs {
						if core.ObjOf(f.Pkg.TypesInfo, l) == o {
							n++
						}
					}
				}
				return true
			})
			return n == 0
		}
	}
	return false
}

// indexFromSearchHelper: idx is a local assigned once from a call of a repository function whose every return is either a
// negative constant or the key of a `range` over the same field of its receiver (or the same parameter) that `base`
// names at the call site, and a dominating fact excludes the negative results (idx < 0 refuted, idx >= 0, idx != -1).
func indexFromSearchHelper(p *core.Prog, f *core.Func, g *core.Graph, n *core.GNode, base ast.Expr, idx types.Object) (bool, string) {
	if n == nil {
		return false, ""
	}
	info := f.Pkg.TypesInfo
	d := singleDef(f, idx)
	if d == nil {
		return false, ""
	}
	c, ok := core.Unparen(d).(*ast.CallExpr)
	if !ok {
		return false, ""
	}
	fo := core.Callee(info, c)
	if fo == nil {
		return false, ""
	}
	h := p.ByObj[fo.Origin()]
	if h == nil || h.Body == nil {
		return false, ""
	}
	hi := h.Pkg.TypesInfo
	// what `base` is in the helper's terms: receiver.Field when base is X.Field and the call is X.h(...), or a parameter
	var wantRecvField string
	var wantParam types.Object
	if bs, ok := core.Unparen(base).(*ast.SelectorExpr); ok {
		if cs, ok := core.Unparen(c.Fun).(*ast.SelectorExpr); ok && core.ExprStr(cs.X) == core.ExprStr(bs.X) && h.RecvObj() != nil {
			wantRecvField = bs.Sel.Name
		}
	}
	for ai, a := range c.Args {
		if core.ExprStr(a) == core.ExprStr(base) && h.ParamObj(ai) != nil {
			wantParam = h.ParamObj(ai)
		}
	}
	if wantRecvField == "" && wantParam == nil {
		return false, ""
	}
	overBase := func(x ast.Expr) bool {
		if wantParam != nil && core.ObjOf(hi, x) == wantParam {
			return true
		}
		if sel, ok := core.Unparen(x).(*ast.SelectorExpr); ok && wantRecvField != "" && sel.Sel.Name == wantRecvField && core.ObjOf(hi, sel.X) == types.Object(h.RecvObj()) {
			return true
		}
		return false
	}
	keys := map[types.Object]bool{}
	ast.Inspect(h.Body, func(m ast.Node) bool {
		if rs, ok := m.(*ast.RangeStmt); ok && rs.Key != nil && overBase(rs.X) {
			if ko := core.ObjOf(hi, rs.Key); ko != nil {
				keys[ko] = true
			}
		}
		return true
	})
	hg := p.Graph(h)
	nret := 0
	for _, rn := range hg.Returns() {
		res := returnResults(rn)
		if len(res) < 1 {
			return false, ""
		}
		nret++
		if v, isC := core.ConstInt(hi, res[0]); isC {
			if v >= 0 {
				return false, ""
			}
			continue
		}
		ko := core.ObjOf(hi, res[0])
		if ko == nil || !keys[ko] {
			return false, ""
		}
		// returned from inside the loop that ranges over the slice
		inLoop := false
		ast.Inspect(h.Body, func(m ast.Node) bool {
			if rs, ok := m.(*ast.RangeStmt); ok && rs.Key != nil && core.ObjOf(hi, rs.Key) == ko && rs.Body.Pos() <= rn.Ast.Pos() && rn.Ast.End() <= rs.Body.End() {
				inLoop = true
			}
			return true
		})
		if !inLoop {
			return false, ""
		}
	}
	if nret == 0 {
		return false, ""
	}
	// the negative results are excluded here
	for _, fc := range g.FactsAt(n) {
		be, ok := core.Unparen(fc.Expr).(*ast.BinaryExpr)
		if !ok || fc.Tag != nil || !g.FactFresh(fc, n) {
			continue
		}
		other, op, isCmp := orientCmp(info, be, idx)
		if !isCmp {
			continue
		}
		v, isC := core.ConstInt(info, other)
		if !isC {
			continue
		}
		nonNeg := (op == token.LSS && v <= 0 && !fc.Truth) || (op == token.GEQ && v >= 0 && fc.Truth) || (op == token.GTR && v >= -1 && fc.Truth) || (op == token.LEQ && v <= -1 && !fc.Truth) ||
			(op == token.EQL && v == -1 && !fc.Truth) || (op == token.NEQ && v == -1 && fc.Truth)
		if nonNeg {
			return true, "index returned by " + h.Key + " (a position of a range over this slice, or a negative value that is excluded here)"
		}
	}
	return false, ""
}

// readerOver: e is bytes.NewReader(base) / bytes.NewBuffer(base) for the buffer printed as want.
func readerOver(info *types.Info, e ast.Expr, want string) bool {
	c, ok := core.Unparen(e).(*ast.CallExpr)
	if !ok || len(c.Args) != 1 {
		return false
	}
	switch core.CalleeName(info, c) {
	case "bytes.NewReader", "bytes.NewBuffer":
		return core.ExprStr(core.Unparen(c.Args[0])) == want
	}
	return false
}
