package rules

import (
	"fmt"
	"go/ast"
	"go/token"
	"go/types"
	"strings"

	"yfverif/checker/internal/core"
)

// c18ValueBlind (C18.R9): a job's outcome is a hit exactly when its error is nil - whatever the value (epoch 0 is a
// valid answer). Two structural obligations over every function of the package:
//   - no generic function compares a value of its type parameter (a hit cannot be recognised by looking at the value);
//   - at every invocation of a job (a call of a JobFunc-typed value) the value and the error travel together (one send /
//     return), or, when the function branches on the error, every return reachable from the error's nil branch is a
//     nil-error return (a success can not end in the error list).
func c18ValueBlind(r *core.Report) {
	const rule = "C18.R9"
	p := r.Prog
	anchor := r.Anchor(rule, "main.FirstSuccess")
	if anchor == nil {
		return
	}
	// the job type: the element type of FirstSuccess' variadic job parameter
	var jobType *types.TypeName
	if sig, ok := anchor.Obj.Type().(*types.Signature); ok && sig.Variadic() && sig.Params().Len() > 0 {
		if sl, ok := sig.Params().At(sig.Params().Len() - 1).Type().(*types.Slice); ok {
			if nm, ok := sl.Elem().(*types.Named); ok {
				jobType = nm.Origin().Obj()
			}
		}
	}
	if jobType == nil {
		r.Undecided(rule, anchor.Key+"#job-type", posP(r, anchor.Pos()), "job function type not found in FirstSuccess' signature")
		return
	}
	isJobCall := func(info *types.Info, c *ast.CallExpr) bool {
		t := info.TypeOf(c.Fun)
		if t == nil {
			return false
		}
		if nm, ok := t.(*types.Named); ok && nm.Origin().Obj() == jobType {
			return true
		}
		return false
	}
	isTypeParam := func(t types.Type) bool {
		if t == nil {
			return false
		}
		_, ok := t.(*types.TypeParam)
		return ok
	}
	// types built from the job type (JobFunc itself, JobGroup = []JobFunc, pointers to them)
	var mentionsJob func(t types.Type, d int) bool
	mentionsJob = func(t types.Type, d int) bool {
		if t == nil || d > 4 {
			return false
		}
		switch x := t.(type) {
		case *types.Named:
			if x.Origin().Obj() == jobType {
				return true
			}
			return mentionsJob(x.Underlying(), d+1)
		case *types.Pointer:
			return mentionsJob(x.Elem(), d+1)
		case *types.Slice:
			return mentionsJob(x.Elem(), d+1)
		}
		return false
	}
	aboutJobs := func(f *core.Func) bool {
		for x := f; x != nil; x = x.Parent {
			if x.Obj == nil {
				continue
			}
			sig, ok := x.Obj.Type().(*types.Signature)
			if !ok {
				continue
			}
			if sig.Recv() != nil && mentionsJob(sig.Recv().Type(), 0) {
				return true
			}
			for i := 0; i < sig.Params().Len(); i++ {
				if mentionsJob(sig.Params().At(i).Type(), 0) {
					return true
				}
			}
			for i := 0; i < sig.Results().Len(); i++ {
				if mentionsJob(sig.Results().At(i).Type(), 0) {
					return true
				}
			}
		}
		return false
	}
	total := 0
	for _, f := range p.AllFns {
		nSites := 0
		if f.Pkg != anchor.Pkg || f.Body == nil || strings.HasSuffix(p.FileOf(f.Pos()), "_test.go") {
			continue
		}
		info := f.Pkg.TypesInfo
		// (a) comparisons of type-parameter values
		generic, cmp := false, ""
		ast.Inspect(f.Body, func(n ast.Node) bool {
			switch x := n.(type) {
			case *ast.FuncLit:
				return false
			case *ast.BinaryExpr:
				switch x.Op {
				case token.EQL, token.NEQ, token.LSS, token.GTR, token.LEQ, token.GEQ:
					if isTypeParam(info.TypeOf(x.X)) || isTypeParam(info.TypeOf(x.Y)) {
						cmp = core.KeyStr(f, x)
					}
				}
			case *ast.SwitchStmt:
				if x.Tag != nil && isTypeParam(info.TypeOf(x.Tag)) {
					cmp = "switch " + core.KeyStr(f, x.Tag)
				}
			case ast.Expr:
				if isTypeParam(info.TypeOf(x)) {
					generic = true
				}
			}
			return true
		})
		if generic && aboutJobs(f) {
			r.Check(cmp == "", rule, f.Key+"#no-comparison-of-result-values", posP(r, f.Pos()), "no value of the type parameter is compared: outcomes are told apart by their error only",
				"a value of the job result type is compared ["+cmp+"]: a job that succeeds with that value (e.g. epoch 0, the zero value) is not treated as the hit it is")
		}
		// (b) job invocations
		g := p.Graph(f)
		for _, n := range stmtNodes(g) {
			as, ok := n.Ast.(*ast.AssignStmt)
			var call *ast.CallExpr
			if ok && len(as.Rhs) == 1 {
				if c, isC := core.Unparen(as.Rhs[0]).(*ast.CallExpr); isC && isJobCall(info, c) {
					call = c
				}
			}
			if call == nil {
				for _, c := range nodeCalls(n) {
					if isJobCall(info, c) {
						call = c
					}
				}
				if call == nil {
					continue
				}
				nSites++
				total++
				// the call's results are forwarded as they are (return fn(ctx)) or dropped
				if rs, isR := n.Ast.(*ast.ReturnStmt); isR && len(rs.Results) == 1 && core.Unparen(rs.Results[0]) == ast.Expr(call) {
					r.Check(true, rule, fmt.Sprintf("%s#job-call@%d", f.Key, nSites), pos(r, call), "the job's value and error are returned together", "")
				} else {
					r.Violation(rule, fmt.Sprintf("%s#job-call@%d", f.Key, nSites), pos(r, call), "a job is invoked and its outcome is not bound: a hit can be lost")
				}
				continue
			}
			nSites++
			total++
			key := fmt.Sprintf("%s#job-call@%d", f.Key, nSites)
			if len(as.Lhs) != 2 {
				r.Undecided(rule, key, pos(r, call), "job outcome not bound to (value, error)")
				continue
			}
			vo, eo := core.ObjOf(info, as.Lhs[0]), core.ObjOf(info, as.Lhs[1])
			if eo == nil {
				r.Violation(rule, key, pos(r, call), "the job's error is discarded: success and failure can not be told apart")
				continue
			}
			// edges that test the error
			var nilEdges []*core.GNode
			for _, e := range g.Nodes {
				if e.Kind != core.KEdge || e.Ast == nil || !g.Dominates(n, e) {
					continue
				}
				for _, fc := range e.Facts() {
					if x, eq, isNil := core.NilCompare(info, fc.Expr); isNil && fc.Tag == nil && core.ObjOf(info, x) == eo && eq == fc.Truth && !reassignedBetween(g, info, n, e, eo) {
						nilEdges = append(nilEdges, e)
					}
				}
			}
			if len(nilEdges) == 0 {
				// value and error travel together in one statement
				together := false
				for x := range g.Reach(n, nil) {
					if x.Kind != core.KStmt || x.Ast == nil {
						continue
					}
					switch x.Ast.(type) {
					case *ast.SendStmt, *ast.ReturnStmt, *ast.AssignStmt, *ast.ExprStmt:
						if as2, isAs := x.Ast.(*ast.AssignStmt); isAs {
							// an assignment TO the error is not a hand-on
							toErr := false
							for _, l := range as2.Lhs {
								if core.ObjOf(info, l) == eo {
									toErr = true
								}
							}
							if toErr {
								continue
							}
						}
						if (vo == nil || core.Mentions(info, x.Ast, vo)) && core.Mentions(info, x.Ast, eo) && !reassignedBetween(g, info, n, x, eo) {
							together = true
						}
					}
				}
				r.Check(together, rule, key, pos(r, call), "the job's value and error are handed on together", "the job's error is never tested and is not handed on with the value")
				continue
			}
			bad := ""
			for _, e := range nilEdges {
				for x := range g.Reach(e, nil) {
					if x.Kind != core.KStmt {
						continue
					}
					if _, isR := x.Ast.(*ast.ReturnStmt); !isR {
						continue
					}
					if nilErr, dec := isNilErrReturn(f, x); dec && nilErr {
						continue
					}
					if errResultIndex(f) < 0 {
						continue
					}
					if c18ExcusedByFlag(g, f, e, x) {
						continue
					}
					// a later iteration's failure return is reachable through the loop only when the success path continues the
					// loop: that path itself is the defect unless it leaves through a nil-error return first
					if p2 := g.PathAvoiding(e, func(y *core.GNode) bool { return y == x }, func(y *core.GNode) bool { return y == n }); p2 == nil {
						continue // only reachable through another invocation of a job
					}
					bad = p.Fset.Position(x.Ast.Pos()).String()
					bad = bad[strings.LastIndex(bad, "/")+1:]
				}
			}
			r.Check(bad == "", rule, key, pos(r, call), "every return reachable from the job's nil-error branch is a success return",
				"after a job returned a nil error the function can still end in a failure return ["+bad+"]: a hit is reported as a miss")
		}
	}
	if total == 0 {
		r.Undecided(rule, anchor.Key+"#job-calls", posP(r, anchor.Pos()), "no invocation of a job found in the package")
	}
}

// c18ExcusedByFlag: the return ret, reachable from the success edge s, sits behind a test `flag` false of a boolean local
// that every path from s sets to true first (found = true; break ... if found { return v, nil }; return zero, errs).
func c18ExcusedByFlag(g *core.Graph, f *core.Func, s, ret *core.GNode) bool {
	info := f.Pkg.TypesInfo
	for _, d := range g.Dominators(ret) {
		if d.Kind != core.KEdge || d.Ast == nil {
			continue
		}
		for _, fc := range d.Facts() {
			id, ok := core.Unparen(fc.Expr).(*ast.Ident)
			if !ok || fc.Truth || fc.Tag != nil {
				continue
			}
			flag, isVar := info.Uses[id].(*types.Var)
			if !isVar {
				continue
			}
			if b, isB := flag.Type().Underlying().(*types.Basic); !isB || b.Kind() != types.Bool {
				continue
			}
			sets := map[*core.GNode]bool{}
			for _, n := range stmtNodes(g) {
				if as, ok := n.Ast.(*ast.AssignStmt); ok && len(as.Lhs) == 1 && len(as.Rhs) == 1 && core.ObjOf(info, as.Lhs[0]) == flag {
					if v, ok := core.Unparen(as.Rhs[0]).(*ast.Ident); ok && v.Name == "true" {
						sets[n] = true
					}
				}
			}
			if len(sets) == 0 {
				continue
			}
			if g.PathAvoiding(s, func(y *core.GNode) bool { return y == d }, func(y *core.GNode) bool { return sets[y] }) == nil {
				return true
			}
		}
	}
	return false
}
